//go:build verif

package vault

// C04: token revocation is final and cascades to descendants, leases and cubbyhole.

import (
	"context"
	"os"
	"fmt"
	"strings"
	"testing"
	"time"

	kit "github.com/openbao/openbao/sdk/v2/helper/verifkit"
	"github.com/openbao/openbao/sdk/v2/logical"
	"github.com/openbao/openbao/v2/internal/helper/namespace"
)

const c04Policy = `
path "*" { capabilities = ["create","read","update","delete","list","sudo"] }
`

type c04Tok struct {
	Name     string   `json:"name"`
	ID       string   `json:"-"`
	Accessor string   `json:"-"`
	Cubby    string   `json:"-"`
	NS       string   `json:"ns,omitempty"` // namespace path of the token ("" root, "ns1/")
	Parent   *c04Tok  `json:"-"`
	ParentN  string   `json:"parent"`
	Alive    bool     `json:"alive"`
	Leases   []string `json:"leases,omitempty"`
	CubbyN   int      `json:"cubby_keys,omitempty"`
	DiedAt   int      `json:"died_at,omitempty"`
}

type c04Model struct {
	nextData map[string]any
	v      *vCore
	toks   []*c04Tok
	steps  []string
	nextID string // when set, the next create asks for this token id
}

func (m *c04Model) children(t *c04Tok) []*c04Tok {
	var out []*c04Tok
	for _, c := range m.toks {
		if c.Parent == t {
			out = append(out, c)
		}
	}
	return out
}

func (m *c04Model) killTree(t *c04Tok) {
	if !t.Alive {
		// children of an already dead token were orphaned or killed at that time
		return
	}
	t.Alive = false
	t.DiedAt = len(m.steps)
	for _, c := range m.children(t) {
		m.killTree(c)
	}
}

func (m *c04Model) killOrphaning(t *c04Tok) {
	t.Alive = false
	t.DiedAt = len(m.steps)
	for _, c := range m.children(t) {
		c.Parent = nil
		c.ParentN = "(orphaned)"
	}
}

func (m *c04Model) alive() []*c04Tok {
	var out []*c04Tok
	for _, t := range m.toks {
		if t.Alive {
			out = append(out, t)
		}
	}
	return out
}

func c04NSCtx(v *vCore, nsPath string) context.Context {
	if nsPath == "" {
		return namespace.RootContext(context.Background())
	}
	ns, err := v.Core.namespaceStore.GetNamespaceByPath(namespace.RootContext(context.Background()), nsPath)
	if err != nil || ns == nil {
		panic(fmt.Sprintf("namespace %q: %v", nsPath, err))
	}
	return namespace.ContextWithNamespace(context.Background(), ns)
}

// c04Create creates a token through the API and records what the oracle needs.
func (m *c04Model) create(parent *c04Tok, parentID string, orphan bool, nsPath string, tag string) (*c04Tok, error) {
	v := m.v
	data := map[string]any{"policies": []string{"c04"}, "ttl": "1h"}
	if orphan {
		data["no_parent"] = true
	}
	if m.nextID != "" {
		data["id"] = m.nextID // caller-chosen id (root / sudo callers only)
		m.nextID = ""
	}
	for k, val := range m.nextData { // one-shot overrides (policies, num_uses, ttl ...)
		data[k] = val
	}
	m.nextData = nil
	resp, err := v.Do(vReq{Tag: tag, Op: logical.UpdateOperation, Path: "auth/token/create", Token: parentID, Data: data, NS: nsPath})
	if !vOK(resp, err) || resp == nil || resp.Auth == nil {
		return nil, fmt.Errorf("%s", vErrStr(resp, err))
	}
	t := &c04Tok{Name: fmt.Sprintf("t%d", len(m.toks)), ID: resp.Auth.ClientToken, Accessor: resp.Auth.Accessor, NS: nsPath, Alive: true}
	if !orphan {
		t.Parent = parent
		if parent != nil {
			t.ParentN = parent.Name
		} else {
			t.ParentN = "root"
		}
	} else {
		t.ParentN = "(orphan)"
	}
	te, err := v.Core.tokenStore.Lookup(c04NSCtx(v, nsPath), t.ID)
	if err == nil && te != nil {
		t.Cubby = te.CubbyholeID
	}
	m.toks = append(m.toks, t)
	return t, nil
}

func (m *c04Model) addLease(t *c04Tok) error {
	v := m.v
	resp, err := v.Do(vReq{Op: logical.ReadOperation, Path: "c04kv/item", Token: t.ID, NS: t.NS})
	if !vOK(resp, err) || resp == nil || resp.Secret == nil || resp.Secret.LeaseID == "" {
		return fmt.Errorf("leased read: %s", vErrStr(resp, err))
	}
	t.Leases = append(t.Leases, resp.Secret.LeaseID)
	return nil
}

func (m *c04Model) addCubby(t *c04Tok) error {
	t.CubbyN++
	resp, err := m.v.Do(vReq{Op: logical.UpdateOperation, Path: fmt.Sprintf("cubbyhole/k%d", t.CubbyN), Token: t.ID, NS: t.NS, Data: map[string]any{"v": "x"}})
	if !vOK(resp, err) {
		t.CubbyN--
		return fmt.Errorf("cubbyhole write: %s", vErrStr(resp, err))
	}
	return nil
}

// leaseState reads the raw lease record: "gone", "queued" (expiry not in the future) or "live".
func c04LeaseState(v *vCore, nsPath, leaseID string) string {
	ctx := c04NSCtx(v, nsPath)
	ns, _ := namespace.FromContext(ctx)
	// lease ids of child namespaces carry a ".<nsid>" suffix already
	e, err := v.Core.expiration.leaseView(ns).Get(ctx, leaseID)
	if err != nil {
		return "error:" + err.Error()
	}
	if e == nil {
		return "gone"
	}
	le, err := decodeLeaseEntry(e.Value)
	if err != nil {
		return "error:" + err.Error()
	}
	if !le.ExpireTime.After(time.Now()) {
		return "queued"
	}
	return "live"
}

// c04Oracle checks every token of the model against the running core.
// stage names the point of the history (for the witness).
func c04Oracle(v *vCore, m *c04Model, r *kit.Result, caseID, stage string, classify func(kind string, t *c04Tok) string) int {
	bad := 0
	var physKeys []string
	viol := func(kind string, t *c04Tok, what string) {
		bad++
		class := "C04-" + kind
		if classify != nil {
			if c := classify(kind, t); c != "" {
				class = c
			}
		}
		r.Violate(class, caseID, fmt.Sprintf("%s [%s] token %s (parent %s, ns %q): %s", stage, caseID, t.Name, t.ParentN, t.NS, what),
			map[string]any{"stage": stage, "tokens": m.toks, "steps": m.steps})
	}
	for _, t := range m.toks {
		usable := v.TokenUsable(t.ID, t.NS)
		r.Count("oracle_token_checks", 1)
		if t.Alive {
			if !usable {
				viol("over-revocation", t, "model-live token is refused (revocation killed a token it must not)")
			}
			continue
		}
		r.Count("oracle_dead_token_checks", 1)
		if usable {
			viol("dead-token-usable", t, "token is accepted by lookup-self after its revocation was reported successful")
			continue
		}
		// auth/token/lookup and lookup-accessor are *tainted* lookups by design (they show
		// tokens that are marked revocation-pending), so a hit there is not "usable": it is
		// only counted. What the property demands is that the token authorises nothing.
		if resp, err := v.Do(vReq{Op: logical.UpdateOperation, Path: "auth/token/lookup", Token: v.Root, Data: map[string]any{"token": t.ID}, NS: t.NS}); vOK(resp, err) && resp != nil && resp.Data != nil {
			r.Count("dead_token_entry_still_visible_to_tainted_lookup", 1)
		}
		// a request using it must be refused
		if resp, err := v.Do(vReq{Op: logical.ReadOperation, Path: "c04kv/item", Token: t.ID, NS: t.NS}); vOK(resp, err) {
			viol("dead-token-usable", t, "read with the revoked token succeeded")
		}
		if t.Cubby != "" && t.CubbyN > 0 {
			if physKeys == nil {
				physKeys = v.RawKeys("")
			}
			for _, k := range physKeys {
				if strings.Contains(k, "/"+t.Cubby+"/") {
					viol("cubbyhole-remains", t, "cubbyhole storage key remains: "+k)
					break
				}
			}
			r.Count("oracle_cubbyhole_checks", 1)
		}
		for _, l := range t.Leases {
			r.Count("oracle_lease_checks", 1)
			switch st := c04LeaseState(v, t.NS, l); st {
			case "gone":
			case "queued":
				r.Count("oracle_lease_queued", 1)
			default:
				viol("lease-live", t, fmt.Sprintf("lease %s issued under the revoked token is %s (not revoked, not queued)", l, st))
			}
		}
	}
	return bad
}

func c04Boot(t *testing.T, transactional bool) *vCore {
	v := vBoot(t, vOpts{Transactional: transactional})
	v.Policy("c04", c04Policy, "")
	v.Mount("c04kv", "kv", "", nil) // "kv" in the test core = leased passthrough
	v.MustDo(vReq{Op: logical.UpdateOperation, Path: "c04kv/item", Token: v.Root, Data: map[string]any{"v": "secret", "ttl": "1h"}})
	v.MustDo(vReq{Op: logical.UpdateOperation, Path: "sys/namespaces/ns1", Token: v.Root})
	v.Policy("c04", c04Policy, "ns1/")
	v.Mount("c04kv", "kv", "ns1/", nil)
	v.MustDo(vReq{Op: logical.UpdateOperation, Path: "c04kv/item", Token: v.Root, NS: "ns1/", Data: map[string]any{"v": "secret", "ttl": "1h"}})
	return v
}

// ------------------------------------------------------------------ histories

func TestVerif_C04_Histories(t *testing.T) {
	seed := kit.Seed(4)
	shard, _ := kit.Shard()
	r := kit.NewResult(t, "c04-histories", seed, "seeded random histories over token forests (depth<=4, orphans, a child namespace, cross-namespace parents) of create / create-orphan / renew / leased read / cubbyhole write / revoke / revoke-self / revoke-accessor / revoke-orphan / lease-revoke(sync); after every successful revocation, at the end and after a restart the token-tree reference model is compared with the running core (liveness of every token, cubbyhole keys, raw lease records); a history is non-trivial when it revoked a token that had a live descendant, lease or cubbyhole entry")
	defer r.Write(t)
	n := kit.N(40, 300)
	for _, tx := range []bool{true, false} {
		v := c04Boot(t, tx)
		for h := 0; h < n/2; h++ {
			caseID := fmt.Sprintf("hist:%v:%d:%d", tx, shard, h)
			if !kit.WantCase(caseID) {
				continue
			}
			rng := kit.NewRand(seed, uint64(1000*shard+h)*2+map[bool]uint64{true: 1, false: 0}[tx])
			c04History(t, v, r, rng, caseID, h == n/2-1 || h%10 == 9)
			if r.NViolations() > 20 {
				return
			}
		}
		v.Close()
	}
	r.Require("revocations_with_descendants", 10)
	r.Require("oracle_dead_token_checks", 50)
	r.Require("oracle_lease_checks", 10)
	r.Require("oracle_cubbyhole_checks", 10)
}

func c04History(t *testing.T, v0 *vCore, r *kit.Result, rng *kit.Rand, caseID string, restart bool) {
	v := v0
	m := &c04Model{v: v}
	nontrivial := false
	nops := 12 + rng.Intn(14)
	depth := func(x *c04Tok) int {
		d := 0
		for p := x; p != nil; p = p.Parent {
			d++
		}
		return d
	}
	for i := 0; i < nops; i++ {
		alive := m.alive()
		op := rng.Intn(100)
		switch {
		case len(alive) == 0 || op < 30:
			var parent *c04Tok
			pid := v.Root
			ns := ""
			if len(alive) > 0 && rng.Chance(4, 5) {
				parent = kit.Pick(rng, alive)
				if depth(parent) >= 4 {
					parent = nil
				} else {
					pid = parent.ID
					ns = parent.NS
				}
			}
			if ns == "" && rng.Chance(1, 4) {
				ns = "ns1/" // child namespace token; parent may live in the root namespace
			}
			orphan := rng.Chance(1, 6)
			nt, err := m.create(parent, pid, orphan, ns, "")
			if err != nil {
				r.Violate("C04-harness-create", caseID, "create under a live token failed: "+err.Error(), m.steps)
				return
			}
			m.steps = append(m.steps, fmt.Sprintf("create %s parent=%s ns=%q orphan=%v", nt.Name, nt.ParentN, ns, orphan))
		case op < 45:
			x := kit.Pick(rng, alive)
			if err := m.addLease(x); err != nil {
				r.Violate("C04-harness-lease", caseID, err.Error(), m.steps)
				return
			}
			m.steps = append(m.steps, "lease "+x.Name)
		case op < 58:
			x := kit.Pick(rng, alive)
			if err := m.addCubby(x); err != nil {
				r.Violate("C04-harness-cubby", caseID, err.Error(), m.steps)
				return
			}
			m.steps = append(m.steps, "cubby "+x.Name)
		case op < 64:
			x := kit.Pick(rng, alive)
			resp, err := v.Do(vReq{Op: logical.UpdateOperation, Path: "auth/token/renew-self", Token: x.ID, NS: x.NS})
			m.steps = append(m.steps, "renew "+x.Name+" -> "+vErrStr(resp, err))
		default:
			x := kit.Pick(rng, alive)
			kind := rng.Intn(5)
			var resp *logical.Response
			var err error
			had := len(m.children(x)) > 0 || len(x.Leases) > 0 || x.CubbyN > 0
			// a root-namespace token named in a request that is addressed to a child namespace
			via := x.NS
			viaChild := x.NS == "" && (kind == 0 || kind == 2 || kind == 3) && rng.Chance(1, 5)
			if viaChild {
				via = "ns1/"
				r.Count("revocations_addressed_through_a_child_namespace", 1)
			}
			switch kind {
			case 0:
				resp, err = v.Do(vReq{Op: logical.UpdateOperation, Path: "auth/token/revoke", Token: v.Root, Data: map[string]any{"token": x.ID}, NS: via})
				m.steps = append(m.steps, "revoke "+x.Name+" via ns "+via+" -> "+vErrStr(resp, err))
			case 1:
				resp, err = v.Do(vReq{Op: logical.UpdateOperation, Path: "auth/token/revoke-self", Token: x.ID, NS: x.NS})
				m.steps = append(m.steps, "revoke-self "+x.Name+" -> "+vErrStr(resp, err))
			case 2:
				resp, err = v.Do(vReq{Op: logical.UpdateOperation, Path: "auth/token/revoke-accessor", Token: v.Root, Data: map[string]any{"accessor": x.Accessor}, NS: via})
				m.steps = append(m.steps, "revoke-accessor "+x.Name+" via ns "+via+" -> "+vErrStr(resp, err))
			case 3:
				resp, err = v.Do(vReq{Op: logical.UpdateOperation, Path: "auth/token/revoke-orphan", Token: v.Root, Data: map[string]any{"token": x.ID}, NS: via})
				m.steps = append(m.steps, "revoke-orphan "+x.Name+" via ns "+via+" -> "+vErrStr(resp, err))
			case 4:
				ctx := c04NSCtx(v, x.NS)
				te, lerr := v.Core.tokenStore.Lookup(ctx, x.ID)
				if lerr != nil || te == nil {
					r.Violate("C04-harness-lookup", caseID, "cannot look up live token", m.steps)
					return
				}
				leaseID, lerr := v.Core.expiration.CreateOrFetchRevocationLeaseByToken(ctx, te)
				if lerr != nil {
					r.Violate("C04-harness-lookup", caseID, "cannot fetch token lease: "+lerr.Error(), m.steps)
					return
				}
				resp, err = v.Do(vReq{Op: logical.UpdateOperation, Path: "sys/leases/revoke", Token: v.Root, Data: map[string]any{"lease_id": leaseID, "sync": true}, NS: x.NS})
				m.steps = append(m.steps, "lease-revoke(sync) "+x.Name+" -> "+vErrStr(resp, err))
			}
			if !vOK(resp, err) && viaChild {
				r.Count("revocations_through_a_child_namespace_refused", 1)
				continue // refused: nothing was reported successful
			}
			if !vOK(resp, err) {
				r.Violate("C04-revoke-failed", caseID, "fault-free revocation reported failure: "+vErrStr(resp, err), m.steps)
				return
			}
			if viaChild {
				r.Count("revocations_through_a_child_namespace_reported_successful", 1)
				if kind == 3 && v.TokenUsable(x.ID, x.NS) {
					// open finding F47d: revoke-orphan addressed to a child namespace looks a suffix-less
					// (root-namespace) token id up in the child namespace's store, finds nothing and
					// reports success; the model follows the real outcome so that the history goes on
					r.Violate("C04-root-namespace-token-revoke-orphan-through-child-namespace-reported-success-without-effect", caseID,
						fmt.Sprintf("[%s] auth/token/revoke-orphan addressed to ns1/ naming root-namespace token %s reported success; the token is still accepted by lookup-self", caseID, x.Name), m.steps)
					continue
				}
			}
			r.Count("revocations", 1)
			if had {
				nontrivial = true
				r.Count("revocations_with_descendants", 1)
			}
			if kind == 3 {
				m.killOrphaning(x)
			} else {
				m.killTree(x)
			}
			if c04Oracle(v, m, r, caseID, fmt.Sprintf("after step %d", i), nil) > 0 {
				return
			}
		}
	}
	r.Eval(1)
	v.WaitQuiet(20*time.Millisecond, 2*time.Second)
	if c04Oracle(v, m, r, caseID, "end of history", nil) > 0 {
		return
	}
	if nontrivial {
		r.Nontrivial(strings.Join(m.steps, ";"))
	}
	r.Sample(map[string]any{"case": caseID, "steps": m.steps})
	if restart {
		// Seal/unseal = restart of the active node on the same store.
		if err := TestCoreSeal(v.Core); err != nil {
			r.Inconc("seal failed: %v", err)
			return
		}
		if err := v.Core.UnsealWithStoredKeys(namespace.RootContext(context.Background())); err != nil {
			r.Inconc("unseal failed: %v", err)
			return
		}
		r.Count("restarts", 1)
		v.WaitQuiet(20*time.Millisecond, 2*time.Second)
		c04Oracle(v, m, r, caseID, "after seal/unseal", nil)
	}
}

// ------------------------------------------------------------------ fixture for fault / crash / schedule work

type c04Fixture struct {
	m      *c04Model
	parent *c04Tok
	child  *c04Tok
	grand  *c04Tok
}

// c04MakeFixture builds  g -> p -> c  (all in ns), each with a lease and cubbyhole data.
func c04MakeFixture(v *vCore, ns string, withGrand bool) (*c04Fixture, error) {
	m := &c04Model{v: v}
	f := &c04Fixture{m: m}
	var err error
	parentOf := (*c04Tok)(nil)
	pid := v.Root
	if withGrand {
		if f.grand, err = m.create(nil, v.Root, false, ns, ""); err != nil {
			return nil, err
		}
		parentOf, pid = f.grand, f.grand.ID
	}
	if f.parent, err = m.create(parentOf, pid, false, ns, ""); err != nil {
		return nil, err
	}
	if f.child, err = m.create(f.parent, f.parent.ID, false, ns, ""); err != nil {
		return nil, err
	}
	for _, x := range m.toks {
		if err := m.addLease(x); err != nil {
			return nil, err
		}
		if err := m.addCubby(x); err != nil {
			return nil, err
		}
	}
	return f, nil
}

type c04Flow struct {
	name string
	run  func(v *vCore, f *c04Fixture, tag string) (*logical.Response, error)
	kill func(f *c04Fixture)
}

func c04Flows() []c04Flow {
	return []c04Flow{
		{"revoke", func(v *vCore, f *c04Fixture, tag string) (*logical.Response, error) {
			return v.Do(vReq{Tag: tag, Op: logical.UpdateOperation, Path: "auth/token/revoke", Token: v.Root, Data: map[string]any{"token": f.parent.ID}, NS: f.parent.NS})
		}, func(f *c04Fixture) { f.m.killTree(f.parent) }},
		{"revoke-accessor", func(v *vCore, f *c04Fixture, tag string) (*logical.Response, error) {
			return v.Do(vReq{Tag: tag, Op: logical.UpdateOperation, Path: "auth/token/revoke-accessor", Token: v.Root, Data: map[string]any{"accessor": f.parent.Accessor}, NS: f.parent.NS})
		}, func(f *c04Fixture) { f.m.killTree(f.parent) }},
		{"revoke-self", func(v *vCore, f *c04Fixture, tag string) (*logical.Response, error) {
			return v.Do(vReq{Tag: tag, Op: logical.UpdateOperation, Path: "auth/token/revoke-self", Token: f.parent.ID, NS: f.parent.NS})
		}, func(f *c04Fixture) { f.m.killTree(f.parent) }},
		{"revoke-orphan", func(v *vCore, f *c04Fixture, tag string) (*logical.Response, error) {
			return v.Do(vReq{Tag: tag, Op: logical.UpdateOperation, Path: "auth/token/revoke-orphan", Token: v.Root, Data: map[string]any{"token": f.parent.ID}, NS: f.parent.NS})
		}, func(f *c04Fixture) { f.m.killOrphaning(f.parent) }},
		{"lease-revoke-sync", func(v *vCore, f *c04Fixture, tag string) (*logical.Response, error) {
			ctx := c04NSCtx(v, f.parent.NS)
			te, err := v.Core.tokenStore.lookupTainted(ctx, f.parent.ID)
			if err != nil {
				return nil, err
			}
			if te == nil {
				return nil, nil // already gone
			}
			leaseID, err := v.Core.expiration.CreateOrFetchRevocationLeaseByToken(ctx, te)
			if err != nil {
				return nil, err
			}
			return v.Do(vReq{Tag: tag, Op: logical.UpdateOperation, Path: "sys/leases/revoke", Token: v.Root, Data: map[string]any{"lease_id": leaseID, "sync": true}, NS: f.parent.NS})
		}, func(f *c04Fixture) { f.m.killTree(f.parent) }},
	}
}

// ------------------------------------------------------------------ single fault + retry

func TestVerif_C04_Faults(t *testing.T) {
	seed := kit.Seed(4)
	r := kit.NewResult(t, "c04-faults", seed, "for each revocation flow (revoke, revoke-accessor, revoke-self, revoke-orphan, sync lease revoke) x namespace x store kind: the flow is run once to count its storage operations n, then n times on a fresh 3-level token tree with leases and cubbyhole data, failing storage operation i once, then retried (<=3) until it reports success, then the token-tree oracle runs; a case (flow, ns, store, i) is non-trivial when the fault actually fired")
	r.Exhaustive = true
	defer r.Write(t)
	for _, tx := range []bool{false, true} {
		v := c04Boot(t, tx)
		for _, ns := range []string{"", "ns1/"} {
			for _, flow := range c04Flows() {
				// count ops
				f, err := c04MakeFixture(v, ns, true)
				if err != nil {
					t.Fatalf("fixture: %v", err)
				}
				v.Probe.StartLog(false)
				resp, err := flow.run(v, f, "rev")
				evs := v.Probe.StopLog()
				if !vOK(resp, err) {
					r.Violate("C04-revoke-failed", "", "fault-free "+flow.name+" failed: "+vErrStr(resp, err), nil)
					continue
				}
				var mine []kit.Event
				for _, e := range evs {
					if e.Tag == "rev" {
						mine = append(mine, e)
					}
				}
				nops := len(mine)
				r.Count("flow_ops:"+flow.name, nops)
				for i := 1; i <= nops; i++ {
					caseID := fmt.Sprintf("fault:%v:%s:%s:%d", tx, ns, flow.name, i)
					if !kit.WantCase(caseID) {
						continue
					}
					c04FaultCase(t, v, r, flow, ns, i, caseID)
				}
			}
		}
		v.Close()
	}
	r.Require("faults_fired", 50)
	r.Require("retries_succeeded", 50)
}

func c04FaultCase(t *testing.T, v *vCore, r *kit.Result, flow c04Flow, ns string, i int, caseID string) {
	f, err := c04MakeFixture(v, ns, true)
	if err != nil {
		t.Fatalf("fixture: %v", err)
	}
	r.Eval(1)
	var faulted kit.Event
	v.Probe.FailNth(func(e kit.Event) bool {
		if e.Tag != "rev" {
			return false
		}
		faulted = e // last matching event seen = the one that fails when count reaches i
		return true
	}, i)
	v.Probe.StartLog(false)
	resp, err := flow.run(v, f, "rev")
	fired := v.Probe.ClearFaults()
	first := vErrStr(resp, err)
	if fired == 0 {
		r.Count("fault_not_reached", 1)
	} else {
		r.Count("faults_fired", 1)
		r.Nontrivial(fmt.Sprintf("%s|%s|%s|%s", flow.name, ns, faulted.Op, c04KeyClass(faulted.Key)))
	}
	attempts := []string{first}
	ok := vOK(resp, err)
	var retryLog []kit.Event
	for a := 0; !ok && a < 3; a++ {
		mark := v.Probe.LogLen()
		resp, err = flow.run(v, f, "rev")
		attempts = append(attempts, vErrStr(resp, err))
		ok = vOK(resp, err)
		retryLog = v.Probe.Log()[mark:]
	}
	v.Probe.StopLog()
	if !ok {
		r.Count("never_succeeded", 1)
		r.Note("%s: revocation never reported success after a single fault at op %d (%s %s): %v", caseID, i, faulted.Op, faulted.Key, attempts)
		return
	}
	if len(attempts) > 1 {
		r.Count("retries_succeeded", 1)
	} else if fired > 0 {
		r.Count("fault_swallowed_success", 1)
	}
	flow.kill(f)
	f.m.steps = append(f.m.steps, fmt.Sprintf("flow %s ns=%q fail op %d = %s %s; attempts %v", flow.name, ns, i, faulted.Op, faulted.Key, attempts))
	v.WaitQuiet(10*time.Millisecond, time.Second)
	classify := func(kind string, tk *c04Tok) string {
		// F2 signature: the failed operation was the first write to the token's own id record
		// (the revocation-pending marker) and the successful retry wrote nothing under sys/token/.
		if kind != "lease-live" && kind != "cubbyhole-remains" && kind != "dead-token-usable" {
			return ""
		}
		if faulted.Op != "put" || !strings.Contains(faulted.Key, "sys/token/id/") {
			return ""
		}
		for _, e := range retryLog {
			if e.Tag == "rev" && e.IsWrite() && strings.Contains(e.Key, "sys/token/") {
				return ""
			}
		}
		return "C04-F2-revoke-retry-short-circuits-after-failed-pending-mark"
	}
	c04Oracle(v, f.m, r, caseID, "after fault+retry", classify)
}

func c04KeyClass(k string) string {
	parts := strings.Split(k, "/")
	var out []string
	for _, p := range parts {
		if len(p) > 20 || strings.Count(p, "-") >= 4 {
			p = "*"
		}
		out = append(out, p)
	}
	if len(out) > 5 {
		out = out[:5]
	}
	return strings.Join(out, "/")
}

// ------------------------------------------------------------------ crash after every write prefix

func TestVerif_C04_Crash(t *testing.T) {
	seed := kit.Seed(4)
	r := kit.NewResult(t, "c04-crash", seed, "for each revocation flow x namespace x store kind: the flow runs to success on a journaling store; for every prefix k of its durable writes a new core (same seal) is booted on the store as a crash after k writes would leave it, the revocation is re-issued until it reports success, and the token-tree oracle runs on the restarted core; every prefix is a distinct case")
	r.Exhaustive = true
	defer r.Write(t)
	flows := c04Flows()
	for _, tx := range []bool{false, true} {
		for _, ns := range []string{"", "ns1/"} {
			if kit.Tier() == "quick" && (ns != "") != tx {
				continue // quick: (non-tx, root) and (tx, ns1)
			}
			for fi, flow := range flows {
				if kit.Tier() == "quick" && fi != 0 && fi != 3 && fi != 4 {
					continue
				}
				v := c04Boot(t, tx)
				f, err := c04MakeFixture(v, ns, false)
				if err != nil {
					t.Fatalf("fixture: %v", err)
				}
				v.WaitQuiet(10*time.Millisecond, time.Second)
				v.Probe.StartJournal()
				resp, err := flow.run(v, f, "rev")
				if !vOK(resp, err) {
					r.Violate("C04-revoke-failed", "", "fault-free "+flow.name+" failed: "+vErrStr(resp, err), nil)
					v.Close()
					continue
				}
				v.WaitQuiet(20*time.Millisecond, 2*time.Second)
				j := v.Probe.StopJournal()
				flow.kill(f)
				for k := 0; k <= len(j); k++ {
					caseID := fmt.Sprintf("crash:%v:%s:%s:%d", tx, ns, flow.name, k)
					if !kit.WantCase(caseID) {
						continue
					}
					r.Eval(1)
					r.Nontrivial(caseID)
					phys, _ := kit.NewProbe(v.Probe.Materialise(k, tx))
					v2, err := v.RestartOn(phys)
					if err != nil {
						r.Violate("C04-restart-failed", caseID, fmt.Sprintf("core does not come up on write prefix %d/%d of %s: %v", k, len(j), flow.name, err), c04JournalKeys(j))
						if v2 != nil {
							v2.Close()
						}
						continue
					}
					v2.WaitQuiet(20*time.Millisecond, 2*time.Second)
					ok := false
					var attempts []string
					for a := 0; a < 3 && !ok; a++ {
						// re-issue as an operator would: by id / accessor with the root token
						var resp *logical.Response
						var err error
						switch flow.name {
						case "revoke-orphan":
							resp, err = v2.Do(vReq{Op: logical.UpdateOperation, Path: "auth/token/revoke-orphan", Token: v2.Root, Data: map[string]any{"token": f.parent.ID}, NS: ns})
						case "revoke-accessor":
							resp, err = v2.Do(vReq{Op: logical.UpdateOperation, Path: "auth/token/revoke-accessor", Token: v2.Root, Data: map[string]any{"accessor": f.parent.Accessor}, NS: ns})
							if !vOK(resp, err) {
								// accessor index may be gone already: fall back to revoking by id
								resp, err = v2.Do(vReq{Op: logical.UpdateOperation, Path: "auth/token/revoke", Token: v2.Root, Data: map[string]any{"token": f.parent.ID}, NS: ns})
							}
						default:
							resp, err = v2.Do(vReq{Op: logical.UpdateOperation, Path: "auth/token/revoke", Token: v2.Root, Data: map[string]any{"token": f.parent.ID}, NS: ns})
						}
						attempts = append(attempts, vErrStr(resp, err))
						ok = vOK(resp, err)
					}
					if !ok {
						r.Count("reissue_never_succeeded", 1)
						r.Note("%s: re-issued revocation never succeeded: %v", caseID, attempts)
						v2.Close()
						continue
					}
					r.Count("prefixes_checked", 1)
					v2.WaitQuiet(20*time.Millisecond, 2*time.Second)
					m2 := &c04Model{v: v2, toks: f.m.toks, steps: []string{fmt.Sprintf("flow %s ns=%q crash after %d/%d writes, restart, re-issue %v", flow.name, ns, k, len(j), attempts)}}
					c04Oracle(v2, m2, r, caseID, "after crash+restart+reissue", nil)
					v2.Close()
				}
				r.Sample(map[string]any{"flow": flow.name, "ns": ns, "transactional": tx, "journal": c04JournalKeys(j)})
				v.Close()
			}
		}
	}
	r.Require("prefixes_checked", 20)
}

func c04JournalKeys(j []kit.Mutation) []string {
	var out []string
	for _, m := range j {
		for _, w := range m.Writes {
			op := "put "
			if w.Delete {
				op = "del "
			}
			out = append(out, op+c04KeyClass(w.Key))
		}
	}
	return out
}

// ------------------------------------------------------------------ schedules: create child || revoke tree

func TestVerif_C04_Schedules(t *testing.T) {
	seed := kit.Seed(4)
	shard, _ := kit.Shard()
	r := kit.NewResult(t, "c04-schedules", seed, "one or two 'create child under p' requests run concurrently with one tree revocation of p (or of p's parent, or revoke-self) under the storage-operation gate: all interleavings with <=2 preemptions (bounded by a run cap), then seeded PCT schedules; after the run, if the revocation reported success every child whose creation reported success must be dead; a schedule is non-trivial when the requests actually overlapped and is distinct by its (tag,op) order hash")
	defer r.Write(t)
	scen := []struct {
		name    string
		creates int
		revoke  string // parent | grand | self
		ns      string
	}{
		{"create|revoke-parent", 1, "parent", ""},
		{"create|revoke-grand", 1, "grand", ""},
		{"2create|revoke-parent", 2, "parent", ""},
		{"create|revoke-self", 1, "self", ""},
		{"create|revoke-parent@ns1", 1, "parent", "ns1/"},
		{"create-under-grand|revoke-grand", 1, "grand+", ""}, // the revoked token already has a child (subtree torn down first)
		{"2create-under-grand|revoke-grand", 2, "grand+", ""},
	}
	for _, tx := range []bool{false, true} {
		v := c04Boot(t, tx)
		for si, sc := range scen {
			if kit.Tier() == "quick" && tx && si > 1 {
				continue
			}
			run := func(pol kit.Policy, caseID string) (kit.Schedule, bool) {
				m := &c04Model{v: v}
				var grand, parent *c04Tok
				var err error
				if grand, err = m.create(nil, v.Root, false, sc.ns, ""); err != nil {
					t.Fatalf("fixture: %v", err)
				}
				if parent, err = m.create(grand, grand.ID, false, sc.ns, ""); err != nil {
					t.Fatalf("fixture: %v", err)
				}
				_ = m.addLease(parent)
				_ = m.addCubby(parent)
				under := parent // the token the concurrent creations are made under
				if sc.revoke == "grand+" {
					under = grand
				}
				saltedUnder := ""
				if te, lerr := v.Core.tokenStore.Lookup(c04NSCtx(v, sc.ns), under.ID); lerr == nil && te != nil {
					saltedUnder, _ = v.Core.tokenStore.SaltID(c04NSCtx(v, sc.ns), te.ID)
				}
				type cres struct {
					tok *c04Tok
					err error
				}
				cr := make([]cres, sc.creates)
				var revResp *logical.Response
				var revErr error
				var reqs []kit.Req
				for ci := 0; ci < sc.creates; ci++ {
					ci := ci
					reqs = append(reqs, kit.Req{Tag: fmt.Sprintf("c%d", ci), Fn: func() {
						// built by hand: m.create appends to the model concurrently otherwise
						resp, err := v.Do(vReq{Op: logical.UpdateOperation, Path: "auth/token/create", Token: under.ID, Data: map[string]any{"policies": []string{"c04"}, "ttl": "1h"}, NS: sc.ns})
						if !vOK(resp, err) || resp == nil || resp.Auth == nil {
							cr[ci].err = fmt.Errorf("%s", vErrStr(resp, err))
							return
						}
						cr[ci].tok = &c04Tok{ID: resp.Auth.ClientToken, Accessor: resp.Auth.Accessor, NS: sc.ns, Parent: under, ParentN: under.Name, Alive: true}
					}})
				}
				reqs = append(reqs, kit.Req{Tag: "rev", Fn: func() {
					switch sc.revoke {
					case "parent":
						revResp, revErr = v.Do(vReq{Op: logical.UpdateOperation, Path: "auth/token/revoke", Token: v.Root, Data: map[string]any{"token": parent.ID}, NS: sc.ns})
					case "grand", "grand+":
						revResp, revErr = v.Do(vReq{Op: logical.UpdateOperation, Path: "auth/token/revoke", Token: v.Root, Data: map[string]any{"token": grand.ID}, NS: sc.ns})
					case "self":
						revResp, revErr = v.Do(vReq{Op: logical.UpdateOperation, Path: "auth/token/revoke-self", Token: parent.ID, NS: sc.ns})
					}
				}})
				sched := v.Probe.RunGated(reqs, pol, kit.GateOpts{Filter: func(e kit.Event) bool {
					return strings.Contains(e.Key, "sys/token/") || strings.Contains(e.Key, "sys/expire/")
				}})
				r.Eval(1)
				if sched.TimedOut {
					r.Inconc("%s: gate watchdog expired", caseID)
					return sched, false
				}
				if sched.Overlap() {
					r.Count("overlapping_schedules", 1)
					r.Nontrivial(sc.name + sched.Hash())
				}
				r.Count("blocked_hints", sched.Blocked)
				created := 0
				for ci := range cr {
					if cr[ci].tok != nil {
						created++
						cr[ci].tok.Name = fmt.Sprintf("child%d", ci)
						m.toks = append(m.toks, cr[ci].tok)
					}
				}
				if !vOK(revResp, revErr) {
					r.Count("revoke_reported_failure", 1)
					return sched, true
				}
				if created > 0 {
					r.Count("both_succeeded", 1)
				}
				switch sc.revoke {
				case "grand", "grand+":
					m.killTree(grand)
				default:
					m.killTree(parent)
				}
				// F3 family (open finding): the creation and the tree revocation interleaved so that neither side
				// could have seen the other with the checks the code has, i.e. the creator DID re-check its
				// parent right before writing the child (the get of a token id record between its
				// accessor-index put and its parent-index put) and found it live, AND
				//  (A) the child's parent-index entry was written after the revoker's LAST listing of that
				//      parent's children, that listing being the final one (between it and the revoker's
				//      mark of the parent the revoker tore down no other token), or
				//  (B) the revoker did look at the child (its index entry / id record) but before the
				//      creation had finished (the creator still wrote afterwards).
				// Anything else - a creator without the re-check, a revoker that never lists a parent again
				// after tearing down its subtree - is a different defect and keeps the generic class.
				f3 := map[int]bool{}
				if sched.Overlap() && saltedUnder != "" {
					lastList, mark := -1, -1
					for i, st := range sched.Steps {
						if st.Tag != "rev" {
							continue
						}
						if (st.Op == "list" || st.Op == "listpage") && !st.After && strings.Contains(st.Key, "sys/token/parent/"+saltedUnder) { // the step at which the listing executes (After = the point after an operation)
							lastList = i
						}
						if st.Op == "put" && !st.After && strings.Contains(st.Key, "sys/token/id/"+saltedUnder) && mark < 0 {
							mark = i
						}
					}
					finalList := lastList >= 0
					if lastList >= 0 && mark > lastList {
						for i := lastList + 1; i < mark; i++ {
							st := sched.Steps[i]
							if st.Tag == "rev" && !st.After && (st.Op == "put" || st.Op == "delete") && strings.Contains(st.Key, "sys/token/id/") && !strings.Contains(st.Key, saltedUnder) {
								finalList = false // the revoker tore down another token after that listing: it was not the final look
							}
						}
					}
					for ci := 0; ci < sc.creates; ci++ {
						tag := fmt.Sprintf("c%d", ci)
						acc, par, lastPut, recheck := -1, -1, -1, false
						for i, st := range sched.Steps {
							if st.Tag != tag {
								continue
							}
							switch {
							case st.Op == "put" && strings.Contains(st.Key, "sys/token/accessor/") && acc < 0:
								acc = i
							case st.Op == "put" && strings.Contains(st.Key, "sys/token/parent/") && par < 0:
								par = i
							case st.Op == "get" && strings.Contains(st.Key, "sys/token/id/") && acc >= 0 && par < 0:
								recheck = true
							}
							if st.Op == "put" {
								lastPut = i
							}
						}
						if par < 0 || !recheck {
							continue
						}
						saltedChild := ""
						if cr[ci].tok != nil {
							if te, lerr := v.Core.tokenStore.lookupTainted(c04NSCtx(v, sc.ns), cr[ci].tok.ID); lerr == nil && te != nil {
								saltedChild, _ = v.Core.tokenStore.SaltID(c04NSCtx(v, sc.ns), te.ID)
							}
						}
						windowA := finalList && par > lastList
						windowB := false
						if saltedChild != "" {
							for i, st := range sched.Steps {
								if st.Tag == "rev" && strings.Contains(st.Key, saltedChild) && i < lastPut {
									windowB = true
								}
							}
						}
						if windowA || windowB {
							f3[ci] = true
						}
						if os.Getenv("VERIF_C04_TRACE") != "" {
							t.Logf("%s: c%d par=%d lastList=%d mark=%d finalList=%v recheck=%v A=%v B=%v saltedUnder=%s", caseID, ci, par, lastList, mark, finalList, recheck, windowA, windowB, saltedUnder)
						}
					}
				}
				if len(f3) > 0 {
					r.Count("create_overlapped_revoke", 1)
				}
				m.steps = []string{sc.name, fmt.Sprintf("tx=%v", tx), "schedule: " + sched.String()}
				v.WaitQuiet(10*time.Millisecond, time.Second)
				classify := func(kind string, tk *c04Tok) string {
					if kind == "dead-token-usable" && strings.HasPrefix(tk.Name, "child") {
						var ci int
						if _, err := fmt.Sscanf(tk.Name, "child%d", &ci); err == nil && f3[ci] {
							return "C04-F3-child-created-concurrently-with-tree-revocation-survives"
						}
					}
					return ""
				}
				bad := c04Oracle(v, m, r, caseID, "after concurrent create/revoke", classify)
				if bad > 0 {
					r.Count("schedules_with_violation", 1)
				}
				return sched, r.NViolations() < 200
			}
			// exhaustive with preemption bound
			ex := &kit.Explorer{MaxPreempt: 2, MaxRuns: kit.N(60, 600)}
			idx := 0
			ex.Explore(func(pol kit.Policy) (kit.Schedule, bool) {
				idx++
				caseID := fmt.Sprintf("sched:%v:%s:ex:%d", tx, sc.name, idx)
				if !kit.WantCase(caseID) {
					return kit.Schedule{Diverged: true}, true
				}
				return run(pol, caseID)
			})
			r.Count("explorer_runs", ex.Runs)
			// PCT
			for k := 0; k < kit.N(20, 300); k++ {
				caseID := fmt.Sprintf("sched:%v:%s:pct:%d:%d", tx, sc.name, shard, k)
				if !kit.WantCase(caseID) {
					continue
				}
				rng := kit.NewRand(seed, uint64(si*100000+shard*1000+k)*2+map[bool]uint64{true: 1, false: 0}[tx])
				tags := []string{"rev"}
				for ci := 0; ci < sc.creates; ci++ {
					tags = append(tags, fmt.Sprintf("c%d", ci))
				}
				if _, cont := run(kit.NewPCT(rng, tags, 3, 40), caseID); !cont {
					break
				}
			}
		}
		v.Close()
	}
	r.Require("overlapping_schedules", 50)
	r.Require("both_succeeded", 10)
}
