//go:build verif

package vault

// C04, "every lease issued under them is revoked or queued for immediate revocation ... when
// [requests run] concurrently with the revocation": a leased read presenting token p (or a
// descendant of p) runs concurrently with the revocation of p under the storage-operation gate.

import (
	"fmt"
	"strings"
	"testing"
	"time"

	kit "github.com/openbao/openbao/sdk/v2/helper/verifkit"
	"github.com/openbao/openbao/sdk/v2/logical"
)

func TestVerif_C04_LeaseSchedules(t *testing.T) {
	seed := kit.Seed(4)
	shard, _ := kit.Shard()
	r := kit.NewResult(t, "c04-lease-schedules", seed, "one or two leased reads presenting token p (or p's child; or p a non-expiring root-policy token with 3 uses), or renewals by root of leases p already holds, run concurrently with a revocation of p (revoke, revoke-self, revoke-accessor, revoke of p's parent, sync lease revoke) under the storage-operation gate (gate points: sys/token/*, sys/expire/*): interleavings with <=2 preemptions (capped) and seeded PCT schedules; when the revocation reported success the token must be dead and every lease a read RETURNED must be gone or due (a read may instead be refused or its lease withheld); a schedule is non-trivial when the requests overlapped and a lease was returned; distinct by (scenario, op-order hash)")
	defer r.Write(t)
	scen := []struct {
		name   string
		reads  int
		reader string // parent | child | renewer (root renews a lease the parent already holds) | limited (the parent is a non-expiring root-policy token with 3 uses)
		revoke string // revoke | self | accessor | grand | lease
		ns     string
	}{
		{"renew|revoke", 1, "renewer", "revoke", ""},
		{"2renew|revoke-accessor", 2, "renewer", "accessor", ""},
		{"renew|revoke-grand", 1, "renewer", "grand", ""},
		{"renew|revoke@ns1", 1, "renewer", "revoke", "ns1/"},
		{"limitedread|revoke", 1, "limited", "revoke", ""},
		{"2limitedread|revoke-accessor", 2, "limited", "accessor", ""},
		{"limitedread|revoke-self", 1, "limited", "self", ""},
		{"read|revoke", 1, "parent", "revoke", ""},
		{"2read|revoke", 2, "parent", "revoke", ""},
		{"read|revoke-self", 1, "parent", "self", ""},
		{"read|revoke-accessor", 1, "parent", "accessor", ""},
		{"childread|revoke", 1, "child", "revoke", ""},
		{"read|revoke-grand", 1, "parent", "grand", ""},
		{"read|lease-revoke", 1, "parent", "lease", ""},
		{"read|revoke@ns1", 1, "parent", "revoke", "ns1/"},
	}
	for _, tx := range []bool{false, true} {
		v := c04Boot(t, tx)
		for si, sc := range scen {
			if kit.Tier() == "quick" && tx && si%2 == 1 {
				continue
			}
			run := func(pol kit.Policy, caseID string) (kit.Schedule, bool) {
				m := &c04Model{v: v}
				grand, err := m.create(nil, v.Root, false, sc.ns, "")
				if err != nil {
					t.Fatalf("fixture: %v", err)
				}
				var parent *c04Tok
				if sc.reader == "limited" {
					// a use-limited token that never expires: nothing but the revocation ends it
					m.nextData = map[string]any{"policies": []string{"root"}, "num_uses": 3, "ttl": "0"}
					parent, err = m.create(nil, v.Root, false, sc.ns, "")
				} else {
					parent, err = m.create(grand, grand.ID, false, sc.ns, "")
				}
				if err != nil {
					t.Fatalf("fixture: %v", err)
				}
				reader := parent
				var held []string
				if sc.reader == "renewer" {
					for ci := 0; ci < sc.reads; ci++ {
						if err := m.addLease(parent); err != nil {
							t.Fatalf("fixture: %v", err)
						}
					}
					held = append(held, parent.Leases...)
				}
				if sc.reader == "child" {
					if reader, err = m.create(parent, parent.ID, false, sc.ns, ""); err != nil {
						t.Fatalf("fixture: %v", err)
					}
				}
				leaseID := ""
				if sc.revoke == "lease" {
					ctx := c04NSCtx(v, sc.ns)
					te, lerr := v.Core.tokenStore.Lookup(ctx, parent.ID)
					if lerr != nil || te == nil {
						t.Fatalf("fixture lookup: %v", lerr)
					}
					if leaseID, lerr = v.Core.expiration.CreateOrFetchRevocationLeaseByToken(ctx, te); lerr != nil {
						t.Fatalf("fixture lease: %v", lerr)
					}
				}
				type rres struct {
					lease string
					res   string
				}
				rr := make([]rres, sc.reads)
				var revResp *logical.Response
				var revErr error
				var reqs []kit.Req
				for ci := 0; ci < sc.reads; ci++ {
					ci := ci
					reqs = append(reqs, kit.Req{Tag: fmt.Sprintf("c%d", ci), Fn: func() {
						if sc.reader == "renewer" {
							resp, err := v.Do(vReq{Op: logical.UpdateOperation, Path: "sys/leases/renew", Token: v.Root, Data: map[string]any{"lease_id": held[ci], "increment": "30m"}, NS: sc.ns})
							rr[ci].res = vErrStr(resp, err)
							if vOK(resp, err) {
								r.Count("renewals_reported_success_next_to_revocation", 1)
							}
							return
						}
						resp, err := v.Do(vReq{Op: logical.ReadOperation, Path: "c04kv/item", Token: reader.ID, NS: sc.ns})
						rr[ci].res = vErrStr(resp, err)
						if vOK(resp, err) && resp != nil && resp.Secret != nil {
							rr[ci].lease = resp.Secret.LeaseID
						}
					}})
				}
				reqs = append(reqs, kit.Req{Tag: "rev", Fn: func() {
					switch sc.revoke {
					case "revoke":
						revResp, revErr = v.Do(vReq{Op: logical.UpdateOperation, Path: "auth/token/revoke", Token: v.Root, Data: map[string]any{"token": parent.ID}, NS: sc.ns})
					case "self":
						revResp, revErr = v.Do(vReq{Op: logical.UpdateOperation, Path: "auth/token/revoke-self", Token: parent.ID, NS: sc.ns})
					case "accessor":
						revResp, revErr = v.Do(vReq{Op: logical.UpdateOperation, Path: "auth/token/revoke-accessor", Token: v.Root, Data: map[string]any{"accessor": parent.Accessor}, NS: sc.ns})
					case "grand":
						revResp, revErr = v.Do(vReq{Op: logical.UpdateOperation, Path: "auth/token/revoke", Token: v.Root, Data: map[string]any{"token": grand.ID}, NS: sc.ns})
					case "lease":
						revResp, revErr = v.Do(vReq{Op: logical.UpdateOperation, Path: "sys/leases/revoke", Token: v.Root, Data: map[string]any{"lease_id": leaseID, "sync": true}, NS: sc.ns})
					}
				}})
				sched := v.Probe.RunGated(reqs, pol, kit.GateOpts{Filter: func(e kit.Event) bool {
					return strings.Contains(e.Key, "sys/token/") || strings.Contains(e.Key, "sys/expire/")
				}})
				r.Eval(1)
				if sched.TimedOut {
					r.Inconc("%s: gate watchdog expired", caseID)
					return sched, false
				}
				if !vOK(revResp, revErr) {
					r.Count("revoke_reported_failure", 1)
					return sched, true
				}
				if sc.revoke == "grand" && sc.reader != "limited" {
					m.killTree(grand)
				} else {
					m.killTree(parent)
				}
				returned := 0
				for ci := range rr {
					if rr[ci].lease != "" {
						returned++
						reader.Leases = append(reader.Leases, rr[ci].lease)
					}
				}
				if returned > 0 {
					r.Count("leases_returned_by_concurrent_reads", returned)
				} else {
					r.Count("concurrent_reads_refused_or_withheld", 1)
				}
				if sched.Overlap() {
					r.Count("overlapping_schedules", 1)
					if sc.reader == "renewer" {
						r.Count("overlapping_renew_schedules", 1)
					}
					if sc.reader == "limited" {
						r.Count("overlapping_use_limited_schedules", 1)
					}
					if returned > 0 || sc.reader == "renewer" {
						r.Nontrivial(sc.name + sched.Hash())
					}
				}
				var outs []string
				for ci := range rr {
					outs = append(outs, fmt.Sprintf("c%d: %s lease=%v", ci, rr[ci].res, rr[ci].lease != ""))
				}
				m.steps = []string{sc.name, fmt.Sprintf("tx=%v", tx), strings.Join(outs, "; "), "schedule: " + sched.String()}
				v.WaitQuiet(10*time.Millisecond, time.Second)
				// Known window of the unchanged code (F59, the C04 view of F31): UseToken re-reads the entry
				// under the per-token lock, the revocation - which cannot take that lock, lookups made under
				// it re-enter the revocation - marks and removes the token, then UseToken stores the
				// decremented entry again. A non-expiring token needs no lease and is a credential again.
				// (Or the write-back overwrites the mark, the reader's own liveness re-check then passes and
				// its lease stays live.) Signature: the reader read the id record at least twice (look-up and
				// the re-read under the lock), the last of these reads precedes the revoker's mark, and the
				// reader's write-back of the record follows the mark.
				var classify func(kind string, tk *c04Tok) string
				if sc.reader == "limited" {
					// per reader: reads of the id record before its first write of it, and that write
					gets, lastGet, put := map[string]int{}, map[string]int{}, map[string]int{}
					var revPuts []int
					for i, st := range sched.Steps {
						if st.After || !strings.Contains(st.Key, "sys/token/id/") {
							continue
						}
						_, wrote := put[st.Tag]
						switch {
						case st.Tag == "rev" && st.Op == "put":
							revPuts = append(revPuts, i)
						case st.Tag != "rev" && st.Op == "get" && !wrote:
							gets[st.Tag]++
							lastGet[st.Tag] = i
						case st.Tag != "rev" && st.Op == "put" && !wrote:
							put[st.Tag] = i
						}
					}
					window := false
					for tag, p := range put {
						mark := -1 // the revoker's last write of the record before the reader's write-back
						for _, rp := range revPuts {
							if rp < p {
								mark = rp
							}
						}
						if gets[tag] >= 2 && mark >= 0 && lastGet[tag] < mark {
							window = true // the reader's re-read under the lock saw the record before the mark, its write-back came after
						}
					}
					if window {
						classify = func(kind string, tk *c04Tok) string {
							if (kind == "dead-token-usable" || kind == "lease-live") && tk == parent {
								return "C04-F59-use-count-write-back-lands-after-the-revokers-mark"
							}
							return ""
						}
					}
				}
				c04Oracle(v, m, r, caseID, "after concurrent leased read / revoke", classify)
				return sched, r.NViolations() < 50
			}
			ex := &kit.Explorer{MaxPreempt: 2, MaxRuns: kit.N(40, 400)}
			idx := 0
			ex.Explore(func(pol kit.Policy) (kit.Schedule, bool) {
				idx++
				caseID := fmt.Sprintf("lsched:%v:%s:ex:%d", tx, sc.name, idx)
				if !kit.WantCase(caseID) {
					return kit.Schedule{Diverged: true}, true
				}
				return run(pol, caseID)
			})
			for k := 0; k < kit.N(15, 200); k++ {
				caseID := fmt.Sprintf("lsched:%v:%s:pct:%d:%d", tx, sc.name, shard, k)
				if !kit.WantCase(caseID) {
					continue
				}
				rng := kit.NewRand(seed, uint64(5_000_000+si*100000+shard*1000+k)*2+map[bool]uint64{true: 1, false: 0}[tx])
				tags := []string{"rev"}
				for ci := 0; ci < sc.reads; ci++ {
					tags = append(tags, fmt.Sprintf("c%d", ci))
				}
				if _, cont := run(kit.NewPCT(rng, tags, 3, 40), caseID); !cont {
					break
				}
			}
		}
		v.Close()
	}
	r.Require("overlapping_schedules", 100)
	r.Require("leases_returned_by_concurrent_reads", 60)
	r.Require("overlapping_renew_schedules", 30)
	r.Require("overlapping_use_limited_schedules", 30)
}
