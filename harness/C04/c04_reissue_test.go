//go:build verif

package vault

// C04, "never become usable again": a token id whose revocation was reported
// successful but is not carried out yet (queued revocation interrupted by a
// storage fault, waiting for its retry) must not be handed out again while the
// earlier holder's record is still in storage - otherwise the revoked token
// (same id, same record slot, same cubbyhole key, same lease index) is a
// credential again.

import (
	"fmt"
	"os"
	"strings"
	"testing"
	"time"

	kit "github.com/openbao/openbao/sdk/v2/helper/verifkit"
	"github.com/openbao/openbao/sdk/v2/logical"
	"github.com/openbao/openbao/v2/internal/helper/namespace"
)

// c04EntryPresent reads the raw token record of id through the token store's id view.
func c04EntryPresent(v *vCore, nsPath, id string) (bool, error) {
	ctx := c04NSCtx(v, nsPath)
	ts := v.Core.tokenStore
	salted, err := ts.SaltID(ctx, id)
	if err != nil {
		return false, err
	}
	ns, err := namespace.FromContext(ctx)
	if err != nil {
		return false, err
	}
	e, err := ts.idView(ns).Get(ctx, salted)
	if err != nil {
		return false, err
	}
	return e != nil, nil
}

func c04AsyncRevoke(v *vCore, f *c04Fixture, tag string) (*logical.Response, error) {
	ctx := c04NSCtx(v, f.parent.NS)
	te, err := v.Core.tokenStore.lookupTainted(ctx, f.parent.ID)
	if err != nil {
		return nil, err
	}
	if te == nil {
		return nil, nil
	}
	leaseID, err := v.Core.expiration.CreateOrFetchRevocationLeaseByToken(ctx, te)
	if err != nil {
		return nil, err
	}
	return v.Do(vReq{Tag: tag, Op: logical.UpdateOperation, Path: "sys/leases/revoke", Token: v.Root, Data: map[string]any{"lease_id": leaseID, "sync": false}, NS: f.parent.NS})
}

// c04RevocationOp selects the storage operations a revocation (request part and
// queued part) performs on token, lease and cubbyhole records.
func c04RevocationOp(e kit.Event) bool {
	if e.Tag != "" && e.Tag != "rev" {
		return false
	}
	return strings.Contains(e.Key, "sys/token/") || strings.Contains(e.Key, "sys/expire/") || strings.Contains(e.Key, "logical/")
}

func TestVerif_C04_Reissue(t *testing.T) {
	seed := kit.Seed(4)
	r := kit.NewResult(t, "c04-reissue", seed, "a 3-level token tree whose middle token p has a caller-chosen id (root namespace - the only one that accepts chosen ids -, both store kinds) is revoked through its lease without sync (202: the revocation is queued) or with a synchronous flow; storage operation i (every i) of the revocation - request part and queued part - fails once; while the earlier holder's raw token record is still in storage, auth/token/create with the same id is sent by root: when the revocation had been reported successful the creation must be refused; non-trivial = revocation reported success, the record of the earlier holder was still present and the re-issue was attempted; distinct by (flow, namespace, store, failed op kind and key class)")
	r.Exhaustive = true
	defer r.Write(t)
	type flowT struct {
		name string
		run  func(v *vCore, f *c04Fixture, tag string) (*logical.Response, error)
	}
	flows := []flowT{{"lease-revoke-async", c04AsyncRevoke}}
	for _, fl := range c04Flows() {
		if fl.name == "revoke" || fl.name == "revoke-orphan" || (kit.Tier() != "quick" && fl.name != "lease-revoke-sync") {
			flows = append(flows, flowT{fl.name, fl.run})
		}
	}
	idn := 0
	fixture := func(v *vCore, ns string) (*c04Fixture, error) {
		m := &c04Model{v: v}
		f := &c04Fixture{m: m}
		var err error
		if f.grand, err = m.create(nil, v.Root, false, ns, ""); err != nil {
			return nil, err
		}
		idn++
		m.nextID = fmt.Sprintf("c04chosen%d", idn)
		// a caller-chosen id needs root or sudo: the grand parent's policy has sudo on every path
		if f.parent, err = m.create(f.grand, f.grand.ID, false, ns, ""); err != nil {
			return nil, err
		}
		if !strings.HasPrefix(f.parent.ID, "c04chosen") {
			return nil, fmt.Errorf("caller-chosen id not honoured: %q", f.parent.ID)
		}
		if f.child, err = m.create(f.parent, f.parent.ID, false, ns, ""); err != nil {
			return nil, err
		}
		for _, x := range m.toks {
			if err := m.addLease(x); err != nil {
				return nil, err
			}
			if err := m.addCubby(x); err != nil {
				return nil, err
			}
		}
		resp, err := v.Do(vReq{Op: logical.UpdateOperation, Path: "auth/token/create", Token: f.parent.ID, NS: ns, Data: map[string]any{"type": "batch", "policies": []string{"c04"}, "ttl": "30m"}})
		if !vOK(resp, err) || resp == nil || resp.Auth == nil {
			return nil, fmt.Errorf("batch child: %s", vErrStr(resp, err))
		}
		c04BatchChild[f.parent.ID] = resp.Auth.ClientToken
		return f, nil
	}
	for _, tx := range []bool{false, true} {
		for _, ns := range []string{""} { // token ids can only be chosen in the root namespace
			for _, flow := range flows {
				// fault-free run: count the revocation's storage operations (request + queued part)
				v := c04Boot(t, tx)
				f, err := fixture(v, ns)
				if err != nil {
					t.Fatalf("fixture: %v", err)
				}
				v.WaitQuiet(20*time.Millisecond, 2*time.Second)
				v.Probe.StartLog(false)
				resp, err := flow.run(v, f, "rev")
				if !vOK(resp, err) {
					r.Violate("C04-revoke-failed", "", "fault-free "+flow.name+" failed: "+vErrStr(resp, err), nil)
					v.Close()
					continue
				}
				c04WaitEntryGone(v, ns, f.parent.ID, 10*time.Second)
				v.WaitQuiet(20*time.Millisecond, 2*time.Second)
				nops := 0
				for _, e := range v.Probe.StopLog() {
					if c04RevocationOp(e) {
						nops++
					}
				}
				v.Close()
				r.Count("flow_ops:"+flow.name, nops)
				for i := 1; i <= nops; i++ {
					caseID := fmt.Sprintf("reissue:%v:%s:%s:%d", tx, ns, flow.name, i)
					if !kit.WantCase(caseID) {
						continue
					}
					c04ReissueCase(t, r, tx, ns, flow.name, flow.run, fixture, i, caseID)
					if r.NViolations() > 10 {
						return
					}
				}
			}
		}
	}
	r.Require("reissue_attempts_with_earlier_record_present_after_reported_success", 10)
	r.Require("faults_fired", 30)
}

func c04WaitEntryGone(v *vCore, ns, id string, max time.Duration) bool {
	deadline := time.Now().Add(max)
	for {
		present, err := c04EntryPresent(v, ns, id)
		if err == nil && !present {
			return true
		}
		if time.Now().After(deadline) {
			return false
		}
		time.Sleep(5 * time.Millisecond)
	}
}

func c04ReissueCase(t *testing.T, r *kit.Result, tx bool, ns, flowName string, run func(v *vCore, f *c04Fixture, tag string) (*logical.Response, error),
	fixture func(v *vCore, ns string) (*c04Fixture, error), i int, caseID string,
) {
	v := c04Boot(t, tx)
	defer v.Close()
	f, err := fixture(v, ns)
	if err != nil {
		t.Fatalf("fixture: %v", err)
	}
	v.WaitQuiet(20*time.Millisecond, 2*time.Second)
	r.Eval(1)
	var faulted kit.Event
	v.Probe.FailNth(func(e kit.Event) bool {
		if !c04RevocationOp(e) {
			return false
		}
		faulted = e
		return true
	}, i)
	resp, err := run(v, f, "rev")
	reported := vOK(resp, err)
	// the queued part runs on a worker: give it the chance to reach operation i (bounded; not a verdict)
	v.WaitQuiet(30*time.Millisecond, 3*time.Second)
	fired := v.Probe.ClearFaults()
	if fired == 0 {
		r.Count("fault_not_reached", 1)
		return
	}
	r.Count("faults_fired", 1)
	steps := []string{fmt.Sprintf("flow %s ns=%q store tx=%v: op %d of the revocation = %s %s failed once; revocation reported %s", flowName, ns, tx, i, faulted.Op, c04KeyClass(faulted.Key), vErrStr(resp, err))}
	present, perr := c04EntryPresent(v, ns, f.parent.ID)
	if perr != nil {
		r.Count("raw_record_read_failed", 1)
		return
	}
	usable := v.TokenUsable(f.parent.ID, ns)
	// a batch token made by the revoked token lives only through its parent
	if bt, _, berr := batchOf(v, f, ns); berr == nil && bt != "" {
		r.Count("batch_child_checks", 1)
		if reported && v.TokenUsable(bt, ns) {
			r.Violate("C04-dead-token-usable", caseID, fmt.Sprintf("[%s] batch token created by %s is accepted by lookup-self after the revocation of its parent was reported successful (queued part interrupted at %s %s; parent record present: %v)", caseID, f.parent.Name, faulted.Op, c04KeyClass(faulted.Key), present), steps)
			return
		}
	}
	if reported && usable {
		r.Violate("C04-dead-token-usable", caseID, fmt.Sprintf("[%s] token %s is accepted by lookup-self after its revocation was reported successful (queued part interrupted at %s %s)", caseID, f.parent.Name, faulted.Op, c04KeyClass(faulted.Key)), steps)
		return
	}
	// re-issue the id: root, orphan, same namespace
	m2 := &c04Model{v: v, nextID: strings.TrimSuffix(f.parent.ID, idSuffixOf(f.parent.ID))}
	nt, cerr := m2.create(nil, v.Root, true, ns, "")
	steps = append(steps, fmt.Sprintf("earlier holder's record present=%v usable=%v; auth/token/create id=%s by root -> %v", present, usable, m2.nextID, cerr))
	if present {
		r.Count("reissue_attempts_with_earlier_record_present", 1)
	}
	if !reported {
		r.Count("revocation_reported_failure", 1)
		r.Count("revocation_reported_failure:"+flowName, 1)
		if os.Getenv("VERIF_C04_TRACE") != "" {
			t.Logf("%s: %v", caseID, steps)
		}
		return // premise of the property not met
	}
	if !present {
		r.Count("reissue_after_complete_teardown", 1)
		return // a completely removed token's id may be used for a new token
	}
	r.Count("reissue_attempts_with_earlier_record_present_after_reported_success", 1)
	r.Nontrivial(fmt.Sprintf("%s|%s|%v|%s|%s", flowName, ns, tx, faulted.Op, c04KeyClass(faulted.Key)))
	if cerr == nil && nt != nil {
		// The duplicate-id check may itself have completed the interrupted teardown (a tainted
		// lookup of a token without lease revokes it); then the id is free and a new token is
		// legitimate. What must not happen is that the id is live again while state of the
		// earlier holder is still attached to it.
		var residue []string
		ctx := c04NSCtx(v, ns)
		if nsObj, nerr := namespace.FromContext(ctx); nerr == nil {
			if salted, serr := v.Core.tokenStore.SaltID(ctx, f.parent.Accessor); serr == nil {
				if e, gerr := v.Core.tokenStore.accessorView(nsObj).Get(ctx, salted); gerr == nil && e != nil {
					residue = append(residue, "accessor index of the earlier holder")
				}
			}
		}
		for k := 1; k <= f.parent.CubbyN; k++ {
			if resp, err := v.Do(vReq{Op: logical.ReadOperation, Path: fmt.Sprintf("cubbyhole/k%d", k), Token: nt.ID, NS: ns}); vOK(resp, err) && resp != nil && resp.Data != nil {
				residue = append(residue, fmt.Sprintf("cubbyhole/k%d of the earlier holder is readable with the new token", k))
			}
		}
		for _, l := range f.parent.Leases {
			if st := c04LeaseState(v, ns, l); st == "live" {
				residue = append(residue, "lease "+l+" of the earlier holder is live")
			}
		}
		if len(residue) == 0 {
			r.Count("reissue_accepted_after_the_duplicate_check_completed_the_teardown", 1)
			return
		}
		r.Violate("C04-revoked-token-id-reissued-while-earlier-holder-remains", caseID,
			fmt.Sprintf("[%s] revocation of token %s (caller-chosen id) was reported successful and is queued (interrupted at %s %s); auth/token/create with the same id succeeded while state of the earlier holder remains: %v (the id is usable now: %v)",
				caseID, f.parent.Name, faulted.Op, c04KeyClass(faulted.Key), residue, v.TokenUsable(nt.ID, ns)), steps)
		return
	}
	r.Count("reissue_refused_while_earlier_holder_remains", 1)
}

var c04BatchChild = map[string]string{}

func batchOf(v *vCore, f *c04Fixture, ns string) (string, bool, error) {
	bt, ok := c04BatchChild[f.parent.ID]
	return bt, ok, nil
}

// idSuffixOf returns the ".<namespace id>" suffix child-namespace token ids carry.
func idSuffixOf(id string) string {
	if i := strings.Index(id, "."); i >= 0 {
		return id[i:]
	}
	return ""
}
