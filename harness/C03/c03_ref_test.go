//go:build verif

package policy

// Reference ACL decision procedure for C03, written from
// website/content/docs/concepts/policies.mdx (and the property statement), not
// from acl.go. It works on policy *specifications* (the data the generator
// renders to HCL/JSON text), so parsing (glob strip, '+' detection, legacy
// policy names, deny collapse) is on the implementation side of the comparison.
//
// Where the documentation is silent the reference follows the reading listed in
// refAssumptions; these are reported with the evidence.

import (
	"math"
	"regexp"
	"sort"
	"strconv"
	"strings"
)

var refAssumptions = []string{
	"doc-silent: for list/scan the request path is tried as written and, as a fallback, without its trailing slash, in the order exact(path), exact(path minus '/'), best non-exact(path), best non-exact(path minus '/'); Capabilities() is compared against this list-mode match",
	"doc-silent: allowed/denied/required parameters are evaluated for create/read/update/patch only; delete, list, scan, revoke, renew, rollback are not parameter-checked (list/scan only get the pagination check)",
	"doc-silent: revoke/renew/rollback need the update capability; help is always allowed; any other operation is denied",
	"doc-ambiguous (fail-closed reading used): a path with max_wrapping_ttl but no min_wrapping_ttl still requires the request to ask for wrapping",
	"doc-silent: when one pattern occurs in several stanzas, required parameters are unioned, allowed/denied parameter maps are unioned per key with the empty list (any value) dominating, the lowest positive pagination_limit wins; (documented) the lowest specified min/max wrapping TTL wins",
	"doc-silent: with pagination_limit set a negative or non-numeric limit (other than the literal max) is refused; limit=0 or absent is rewritten to the policy limit",
	"legacy 'policy = deny|read|write|sudo' stanzas mean [deny] | [read,list] | [create,read,update,delete,list] | write+[sudo] (not described in policies.mdx)",
	"parameter values match only values of the same Go type (string/int/bool); strings match with a leading and/or trailing '*' glob",
	"a root policy allows everything in the namespace the ACL was built in and below it, nothing elsewhere",
}

// ---- specifications ------------------------------------------------------------

type stanzaSpec struct {
	Pattern   string           `json:"pattern"`
	Caps      []string         `json:"caps"`
	Legacy    string           `json:"legacy,omitempty"`
	Allowed   map[string][]any `json:"allowed,omitempty"` // nil = not written
	Denied    map[string][]any `json:"denied,omitempty"`
	Required  []string         `json:"required,omitempty"`
	MinWrap   int              `json:"min_wrap_s,omitempty"`
	MaxWrap   int              `json:"max_wrap_s,omitempty"`
	PageLimit int              `json:"pagination_limit,omitempty"`
	// list_scan_response_keys_filter_path; only written on stanzas that grant list
	FilterPath string `json:"filter_path,omitempty"`
}

type policySpec struct {
	Name    string       `json:"name"`
	NS      string       `json:"ns"` // "" or "n1/" ...
	JSON    bool         `json:"json,omitempty"`
	Root    bool         `json:"root,omitempty"`
	Stanzas []stanzaSpec `json:"stanzas"`
}

type reqSpec struct {
	NS      string         `json:"ns"`
	Path    string         `json:"path"`
	Op      string         `json:"op"`
	Data    map[string]any `json:"data,omitempty"`
	WrapTTL int            `json:"wrap_ttl_s,omitempty"` // 0 = response wrapping not requested
}

// ---- merged rule per pattern ----------------------------------------------------

type refRule struct {
	pattern   string // namespace-qualified
	stanzas   int
	deny      bool
	caps      map[string]bool
	allowed   map[string][]any // nil = unrestricted
	denied    map[string][]any
	required  map[string]bool
	minWrap   int
	maxWrap   int
	pageLimit int
	filters   map[string]bool // distinct list_scan_response_keys_filter_path values of the contributing stanzas
	prio      refPrio
	exact     bool
	re        *regexp.Regexp
}

var legacyCaps = map[string][]string{
	"deny":  {"deny"},
	"read":  {"read", "list"},
	"write": {"create", "read", "update", "delete", "list"},
	"sudo":  {"create", "read", "update", "delete", "list", "sudo"},
}

func mergeParamMap(dst map[string][]any, src map[string][]any) map[string][]any {
	if len(src) == 0 {
		return dst
	}
	if dst == nil {
		dst = map[string][]any{}
	}
	for k, vals := range src {
		k = strings.ToLower(k)
		old, had := dst[k]
		switch {
		case len(vals) == 0 || (had && len(old) == 0):
			dst[k] = []any{}
		default:
			dst[k] = append(append([]any{}, old...), vals...)
		}
	}
	return dst
}

type refACL struct {
	rules  map[string]*refRule
	sorted []*refRule
	rootNS *string
}

func refBuild(policies []policySpec, aclNS string) *refACL {
	a := &refACL{rules: map[string]*refRule{}}
	for _, p := range policies {
		if p.Root {
			ns := aclNS
			a.rootNS = &ns
			continue
		}
		for _, st := range p.Stanzas {
			q := p.NS + st.Pattern
			r := a.rules[q]
			if r == nil {
				r = &refRule{pattern: q, caps: map[string]bool{}, required: map[string]bool{}}
				r.prio = refPrioOf(q)
				r.exact = r.prio.first == math.MaxInt
				r.re = refPatternRegexp(q)
				a.rules[q] = r
			}
			r.stanzas++
			caps := append([]string{}, st.Caps...)
			caps = append(caps, legacyCaps[st.Legacy]...)
			deny := false
			for _, c := range caps {
				if c == "deny" {
					deny = true
				}
			}
			if deny {
				// "deny ... always takes precedence regardless of any other defined capabilities"
				r.deny = true
				continue
			}
			for _, c := range caps {
				r.caps[c] = true
			}
			r.allowed = mergeParamMap(r.allowed, st.Allowed)
			r.denied = mergeParamMap(r.denied, st.Denied)
			for _, k := range st.Required {
				r.required[strings.ToLower(k)] = true
			}
			if st.MinWrap > 0 && (r.minWrap == 0 || st.MinWrap < r.minWrap) {
				r.minWrap = st.MinWrap
			}
			if st.MaxWrap > 0 && (r.maxWrap == 0 || st.MaxWrap < r.maxWrap) {
				r.maxWrap = st.MaxWrap
			}
			if st.PageLimit > 0 && (r.pageLimit == 0 || st.PageLimit < r.pageLimit) {
				r.pageLimit = st.PageLimit
			}
			if st.FilterPath != "" {
				if r.filters == nil {
					r.filters = map[string]bool{}
				}
				r.filters[st.FilterPath] = true
			}
		}
	}
	for _, r := range a.rules {
		a.sorted = append(a.sorted, r)
	}
	sort.Slice(a.sorted, func(i, j int) bool { return a.sorted[i].pattern < a.sorted[j].pattern })
	return a
}

// ---- matching ---------------------------------------------------------------------

var refRegexpCache = map[string]*regexp.Regexp{}

// refPatternRegexp: a literal segment matches itself, a "+" segment matches any
// number of characters inside one segment, a trailing "*" makes it a prefix match.
func refPatternRegexp(p string) *regexp.Regexp {
	if re, ok := refRegexpCache[p]; ok {
		return re
	}
	glob := strings.HasSuffix(p, "*")
	body := strings.TrimSuffix(p, "*")
	var sb strings.Builder
	sb.WriteString("(?s)^")
	for i, s := range strings.Split(body, "/") {
		if i > 0 {
			sb.WriteString("/")
		}
		if s == "+" {
			sb.WriteString("[^/]*")
		} else {
			sb.WriteString(regexp.QuoteMeta(s))
		}
	}
	if glob {
		sb.WriteString(".*")
	}
	sb.WriteString("$")
	re := regexp.MustCompile(sb.String())
	if len(refRegexpCache) < 200000 {
		refRegexpCache[p] = re
	}
	return re
}

type refPrio struct {
	first  int // position of the first '+' segment or of the glob; MaxInt for an exact pattern
	glob   bool
	plus   int
	length int
	text   string
}

func refPrioOf(p string) refPrio {
	pr := refPrio{first: math.MaxInt, length: len(p), text: p, glob: strings.HasSuffix(p, "*")}
	pos := 0
	for _, s := range strings.Split(strings.TrimSuffix(p, "*"), "/") {
		if s == "+" {
			pr.plus++
			if pos < pr.first {
				pr.first = pos
			}
		}
		pos += len(s) + 1
	}
	if pr.glob && len(p)-1 < pr.first {
		pr.first = len(p) - 1
	}
	return pr
}

// refLower: "P1 is lower priority than P2", the five documented rules in order.
// The second result is the number of the rule that decided.
func refLower(p1, p2 refPrio) (bool, int) {
	if p1.first != p2.first {
		return p1.first < p2.first, 1
	}
	if p1.glob != p2.glob {
		return p1.glob, 2
	}
	if p1.plus != p2.plus {
		return p1.plus > p2.plus, 3
	}
	if p1.length != p2.length {
		return p1.length < p2.length, 4
	}
	return p1.text < p2.text, 5
}

type refMatchInfo struct {
	rule       *refRule
	candidates int    // patterns that matched in the deciding stage
	rulesUsed  int    // bit k set: documented priority rule k decided a comparison between two matching patterns
	stage      string // plain | exact | exact-noslash | nonexact | nonexact-noslash | none
}

func (a *refACL) best(path string, wantExact, wantNonExact bool) (*refRule, int, int) {
	var best *refRule
	n, decided := 0, 0
	for _, r := range a.sorted {
		if r.exact && !wantExact || !r.exact && !wantNonExact {
			continue
		}
		if r.exact {
			if r.pattern != path {
				continue
			}
		} else if !r.re.MatchString(path) {
			continue
		}
		n++
		if best == nil {
			best = r
			continue
		}
		lower, rule := refLower(best.prio, r.prio)
		decided |= 1 << rule
		if lower {
			best = r
		}
	}
	return best, n, decided
}

func (a *refACL) match(path string, listMode bool) refMatchInfo {
	if !listMode {
		r, n, d := a.best(path, true, true)
		return refMatchInfo{rule: r, candidates: n, rulesUsed: d, stage: "plain"}
	}
	trimmed := strings.TrimSuffix(path, "/")
	if r, n, d := a.best(path, true, false); r != nil {
		return refMatchInfo{r, n, d, "exact"}
	}
	if trimmed != path {
		if r, n, d := a.best(trimmed, true, false); r != nil {
			return refMatchInfo{r, n, d, "exact-noslash"}
		}
	}
	if r, n, d := a.best(path, false, true); r != nil {
		return refMatchInfo{r, n, d, "nonexact"}
	}
	if trimmed != path {
		if r, n, d := a.best(trimmed, false, true); r != nil {
			return refMatchInfo{r, n, d, "nonexact-noslash"}
		}
	}
	return refMatchInfo{stage: "none"}
}

// matchUnion is the alternative reading of the list fallback (all patterns
// matching the path with or without the slash compete under the five rules);
// used only to count how often the two readings differ.
func (a *refACL) matchUnion(path string) *refRule {
	trimmed := strings.TrimSuffix(path, "/")
	var best *refRule
	for _, r := range a.sorted {
		ok := false
		if r.exact {
			ok = r.pattern == path || r.pattern == trimmed
		} else {
			ok = r.re.MatchString(path) || r.re.MatchString(trimmed)
		}
		if !ok {
			continue
		}
		if best == nil {
			best = r
		} else if lower, _ := refLower(best.prio, r.prio); lower {
			best = r
		}
	}
	return best
}

// ---- decision -----------------------------------------------------------------------

type refDecision struct {
	Allowed   bool   `json:"allowed"`
	RootPrivs bool   `json:"root_privs"`
	IsRoot    bool   `json:"is_root,omitempty"`
	Reason    string `json:"reason"`
	Pattern   string `json:"pattern,omitempty"`
	Stage     string `json:"stage,omitempty"`
	// expectations on data["limit"] after an allowed list/scan
	LimitCheck string `json:"limit_check,omitempty"` // "", "untouched", "zero", "policy", "policy-or-absent"
	PageLimit  int    `json:"-"`
	info       refMatchInfo
}

var opCapability = map[string]string{
	"create": "create", "read": "read", "update": "update", "patch": "patch", "delete": "delete",
	"list": "list", "scan": "scan", "revoke": "update", "renew": "update", "rollback": "update",
}

func nsInSubtree(ns, root string) bool {
	return root == "" || strings.HasPrefix(ns, root)
}

func refValueMatches(v any, list []any) bool {
	if len(list) == 0 {
		return true // "empty list allows the parameter to contain any value" / "denies any changes"
	}
	for _, el := range list {
		switch e := el.(type) {
		case string:
			s, ok := v.(string)
			if !ok {
				continue
			}
			pre, suf := strings.HasPrefix(e, "*"), strings.HasSuffix(e, "*")
			switch {
			case len(e) >= 2 && pre && suf:
				if strings.Contains(s, e[1:len(e)-1]) {
					return true
				}
			case len(e) >= 2 && pre:
				if strings.HasSuffix(s, e[1:]) {
					return true
				}
			case len(e) >= 2 && suf:
				if strings.HasPrefix(s, e[:len(e)-1]) {
					return true
				}
			default:
				if s == e {
					return true
				}
			}
		case int:
			if i, ok := v.(int); ok && i == e {
				return true
			}
		case bool:
			if b, ok := v.(bool); ok && b == e {
				return true
			}
		}
	}
	return false
}

func refParseLimit(v any) (int, bool) {
	switch x := v.(type) {
	case int:
		return x, true
	case string:
		i, err := strconv.Atoi(x)
		return i, err == nil
	}
	return 0, false
}

func (a *refACL) decide(q reqSpec) refDecision {
	if a.rootNS != nil {
		if nsInSubtree(q.NS, *a.rootNS) {
			return refDecision{Allowed: true, RootPrivs: true, IsRoot: true, Reason: "root"}
		}
		return refDecision{Reason: "root-outside-namespace"}
	}
	if q.Op == "help" {
		return refDecision{Allowed: true, Reason: "help"}
	}
	full := strings.TrimLeft(q.NS+q.Path, "/")
	list := q.Op == "list" || q.Op == "scan"
	info := a.match(full, list)
	d := refDecision{info: info, Stage: info.stage}
	r := info.rule
	if r == nil {
		d.Reason = "default-deny"
		return d
	}
	d.Pattern = r.pattern
	if r.deny {
		d.Reason = "deny-capability"
		return d
	}
	d.RootPrivs = r.caps["sudo"]
	need, known := opCapability[q.Op]
	if !known {
		d.Reason = "unknown-operation"
		return d
	}
	if !r.caps[need] {
		d.Reason = "capability-missing"
		return d
	}
	// wrapping TTL bounds
	if r.maxWrap > 0 && (q.WrapTTL == 0 || q.WrapTTL > r.maxWrap) {
		if q.WrapTTL == 0 && r.minWrap == 0 {
			d.Reason = "wrap-max-only-unwrapped"
		} else {
			d.Reason = "wrap-ttl"
		}
		return d
	}
	if r.minWrap > 0 && (q.WrapTTL == 0 || q.WrapTTL < r.minWrap) {
		d.Reason = "wrap-ttl"
		return d
	}
	switch q.Op {
	case "create", "read", "update", "patch":
		data := map[string]any{}
		for k, v := range q.Data {
			data[strings.ToLower(k)] = v
		}
		for k := range r.required {
			if _, ok := data[k]; !ok {
				d.Reason = "required-parameter-missing"
				return d
			}
		}
		if len(data) == 0 {
			d.Allowed, d.Reason = true, "allowed-no-parameters"
			return d
		}
		if len(r.denied) > 0 {
			if _, ok := r.denied["*"]; ok {
				d.Reason = "denied-parameter-star"
				return d
			}
			for k, v := range data {
				if vals, ok := r.denied[k]; ok && refValueMatches(v, vals) {
					d.Reason = "denied-parameter"
					return d
				}
			}
		}
		if len(r.allowed) > 0 {
			_, star := r.allowed["*"]
			for k, v := range data {
				vals, ok := r.allowed[k]
				if !ok {
					if !star {
						d.Reason = "parameter-not-in-allowed"
						return d
					}
					continue
				}
				if !refValueMatches(v, vals) {
					d.Reason = "parameter-value-not-allowed"
					return d
				}
			}
			d.Allowed, d.Reason = true, "allowed-parameters-ok"
			return d
		}
		if len(r.denied) > 0 {
			d.Allowed, d.Reason = true, "allowed-not-denied"
			return d
		}
	case "list", "scan":
		lim, has := q.Data["limit"]
		if r.pageLimit > 0 {
			d.PageLimit = r.pageLimit
			if !has {
				if r.required["limit"] {
					d.Reason = "pagination-limit-required"
					return d
				}
				d.Allowed, d.Reason, d.LimitCheck = true, "allowed-pagination-default", "policy-or-absent"
				return d
			}
			if s, ok := lim.(string); ok && s == "max" {
				d.Allowed, d.Reason, d.LimitCheck = true, "allowed-pagination-max", "policy"
				return d
			}
			n, ok := refParseLimit(lim)
			switch {
			case !ok:
				d.Reason = "pagination-limit-unparsable"
			case n > r.pageLimit:
				d.Reason = "pagination-limit-exceeded"
			case n < 0:
				d.Reason = "pagination-limit-negative"
			case n == 0:
				d.Allowed, d.Reason, d.LimitCheck = true, "allowed-pagination-zero", "policy"
			default:
				d.Allowed, d.Reason, d.LimitCheck = true, "allowed-pagination-within", "untouched"
			}
			return d
		}
		if has {
			if s, ok := lim.(string); ok && s == "max" {
				d.Allowed, d.Reason, d.LimitCheck = true, "allowed-max-without-policy-limit", "zero"
				return d
			}
			d.LimitCheck = "untouched"
		}
	}
	d.Allowed, d.Reason = true, "allowed"
	return d
}

// capabilities is the expected answer of ACL.Capabilities(path): the
// capabilities of the pattern that decides a list on that path.
func (a *refACL) capabilities(ns, path string) []string {
	if a.rootNS != nil {
		if nsInSubtree(ns, *a.rootNS) {
			return []string{"root"}
		}
		return []string{"deny"}
	}
	full := strings.TrimLeft(ns+path, "/")
	info := a.match(full, true)
	if info.rule == nil || info.rule.deny || len(info.rule.caps) == 0 {
		return []string{"deny"}
	}
	var out []string
	for c := range info.rule.caps {
		out = append(out, c)
	}
	sort.Strings(out)
	return out
}
