//go:build verif

package vault

// C03 (last clause): "The capability list reported for a path agrees with the
// operations actually permitted on it."
//
// This monitor drives the three server endpoints that REPORT capabilities
// (sys/capabilities, sys/capabilities-self, sys/capabilities-accessor ->
// Core.Capabilities) and compares every answer with what requests by that very
// token, in that very request namespace, are actually allowed to do (probe
// requests against a recording backend: either the request is refused with
// logical.ErrPermissionDenied or the backend handler runs). No reference ACL is
// involved: the oracle is the property clause itself.

import (
	"errors"
	"fmt"
	"hash/fnv"
	"sort"
	"strings"
	"testing"

	kit "github.com/openbao/openbao/sdk/v2/helper/verifkit"
	"github.com/openbao/openbao/sdk/v2/logical"
)

const (
	c03apiClassDisagree  = "C03-api-capabilities-disagree-with-permitted-operations"
	c03apiClassEndpoints = "C03-api-capabilities-endpoints-disagree"
	// known open finding F18, assigned only when the witness has exactly its signature
	c03apiClassF18 = "C03-capabilities-list-fallback-on-trailing-slash"

	c03apiSelfPath = "sys/capabilities-self"
)

// the namespace tree of every world: "" > n1/ > n1/n2/ and the sibling m1/
var c03apiNSs = []string{"", "n1/", "n1/n2/", "m1/"}

var c03apiAllCaps = []string{"create", "read", "update", "delete", "list", "patch", "scan", "sudo"}

type c03apiRule struct {
	Pat  string   `json:"pattern"`
	Caps []string `json:"capabilities"`
}

type c03apiPolicy struct {
	NS    string       `json:"namespace"`
	Name  string       `json:"name"`
	Rules []c03apiRule `json:"rules"`
}

func (p *c03apiPolicy) hcl() string {
	var b strings.Builder
	for _, ru := range p.Rules {
		q := make([]string, len(ru.Caps))
		for i, c := range ru.Caps {
			q[i] = fmt.Sprintf("%q", c)
		}
		fmt.Fprintf(&b, "path %q { capabilities = [%s] }\n", ru.Pat, strings.Join(q, ","))
	}
	return b.String()
}

type c03apiTok struct {
	Name     string          `json:"name"`
	Kind     string          `json:"kind"` // service | batch | entity | root
	NS       string          `json:"namespace"`
	ID       string          `json:"-"`
	Accessor string          `json:"-"`
	Policies []*c03apiPolicy `json:"policies"`          // attached to the token
	Identity []*c03apiPolicy `json:"identity_policies"` // attached to the token's entity
	Root     bool            `json:"root_policy"`
}

func (t *c03apiTok) rules() []c03apiRule { // namespace-qualified
	var out []c03apiRule
	for _, ps := range [][]*c03apiPolicy{t.Policies, t.Identity} {
		for _, p := range ps {
			for _, ru := range p.Rules {
				out = append(out, c03apiRule{Pat: p.NS + ru.Pat, Caps: ru.Caps})
			}
		}
	}
	return out
}

type c03apiProbe struct {
	Op      string `json:"op"`                // read | list | scan | delete | patch | write
	Cap     string `json:"capability"`        // capability that op needs (write: create or update by existence)
	Outcome string `json:"outcome"`           // authorised | refused | other
	Handler string `json:"handler,omitempty"` // operation the backend handler saw
	Resp    string `json:"response"`
}

type c03apiRun struct {
	t      *testing.T
	r      *kit.Result
	v      *vCore
	rng    *kit.Rand // world generation only
	seed   int64
	round  int
	pols   map[string][]*c03apiPolicy // by namespace
	self   map[string]*c03apiPolicy
	toks   []*c03apiTok
	exists map[string]bool // resolved namespace + relative path -> key present in the initial world
}

// ---------------------------------------------------------------- namespace helpers

func c03apiDescendants(ns string) []string { // proper descendants, as paths relative to ns
	var out []string
	for _, o := range c03apiNSs {
		if o != ns && strings.HasPrefix(o, ns) {
			out = append(out, o[len(ns):])
		}
	}
	return out
}

func c03apiInSubtree(ns, root string) bool { return strings.HasPrefix(ns, root) }

// c03apiResolve splits an absolute path into the deepest namespace and the rest,
// as the request router does for namespaces given in the path.
func c03apiResolve(abs string) (string, string) {
	best := ""
	for _, o := range c03apiNSs {
		if strings.HasPrefix(abs, o) && len(o) > len(best) {
			best = o
		}
	}
	return best, abs[len(best):]
}

// request namespaces exercised for a token of namespace ns: its own, every
// descendant, its parent and one namespace of another branch.
func c03apiRequestNSs(ns string) []string {
	out := []string{ns}
	for _, d := range c03apiDescendants(ns) {
		out = append(out, ns+d)
	}
	switch ns {
	case "n1/":
		out = append(out, "", "m1/")
	case "n1/n2/":
		out = append(out, "n1/", "m1/")
	case "m1/":
		out = append(out, "", "n1/")
	}
	return out
}

// ---------------------------------------------------------------- world

var c03apiTails = []string{
	"rec/data/k1", "rec/data/k2", "rec/data/dir/a", "rec/data/dir/b", "rec/data/dir", "rec/data/dir/",
	"rec/data/dir/*", "rec/data/*", "rec/data/k*", "rec/*", "rec/data/+", "rec/+/k1", "rec/data/+/a",
	"rec/data/dir/+", "rec/root/*", "rec/root/r1", "rec/+/r1", "rec/root/+", "+/data/k1", "rec/data/", "*",
	"rec/data/k1", "rec/data/*", "rec/root/*", "rec/data/dir/*", // weight
}

func (x *c03apiRun) genCaps() []string {
	rng := x.rng
	if rng.Chance(1, 8) {
		return []string{"deny"}
	}
	var caps []string
	for _, c := range c03apiAllCaps {
		num, den := 2, 5
		if c == "sudo" {
			num, den = 1, 3
		}
		if rng.Chance(num, den) {
			caps = append(caps, c)
		}
	}
	if len(caps) == 0 {
		caps = []string{kit.Pick(rng, c03apiAllCaps)}
	}
	if rng.Chance(1, 16) {
		caps = append(caps, "deny") // deny next to others collapses to deny
	}
	return caps
}

func (x *c03apiRun) genPolicy(ns, name string) *c03apiPolicy {
	rng := x.rng
	p := &c03apiPolicy{NS: ns, Name: name}
	desc := c03apiDescendants(ns)
	n := 1 + rng.Intn(4)
	seen := map[string]bool{}
	for len(p.Rules) < n {
		pat := kit.Pick(rng, c03apiTails)
		if len(desc) > 0 && rng.Chance(2, 5) {
			if rng.Chance(1, 4) {
				pat = "+/" + pat // any direct child namespace
			} else {
				pat = kit.Pick(rng, desc) + pat
			}
		}
		if seen[pat] {
			continue
		}
		seen[pat] = true
		p.Rules = append(p.Rules, c03apiRule{Pat: pat, Caps: x.genCaps()})
	}
	return p
}

func (x *c03apiRun) handPicked(ns string) [][]*c03apiPolicy {
	child := ""
	if d := c03apiDescendants(ns); len(d) > 0 {
		child = d[0]
	}
	tag := strings.ReplaceAll(strings.TrimSuffix(ns, "/"), "/", "-")
	if tag == "" {
		tag = "root"
	}
	mk := func(name string, rules ...c03apiRule) *c03apiPolicy {
		return &c03apiPolicy{NS: ns, Name: "c03api-hp-" + name, Rules: rules}
	}
	ru := func(pat string, caps ...string) c03apiRule { return c03apiRule{Pat: pat, Caps: caps} }
	second := ru("rec/data/dir/*", "read", "list")
	if child != "" {
		second = ru(child+"rec/data/*", "read", "list")
	}
	xns := mk("xns", ru("rec/data/*", "update"), second)
	deny := mk("deny", ru("rec/data/*", "create", "read", "update", "delete", "list"), ru("rec/data/k1", "deny"))
	sudo := mk("sudo", ru("rec/root/*", "read", "update", "sudo"))
	nosudo := mk("nosudo", ru("rec/root/*", "read", "update", "delete", "list"))
	sudoonly := mk("sudoonly", ru("rec/root/r1", "sudo"), ru("rec/root/+", "sudo", "delete"))
	list := mk("list", ru("rec/data/dir/", "list"), ru("rec/data/", "list", "scan"))
	listnoslash := mk("listnoslash", ru("rec/data/dir", "list", "read"), ru("rec/data/*", "delete"))
	plus := mk("plus", ru("rec/data/+", "read", "list"))
	nswild := mk("nswild", ru("+/rec/data/k1", "read", "delete"), ru("+/rec/root/*", "read", "sudo"))
	all := mk("all", ru("rec/*", c03apiAllCaps...))
	sets := [][]*c03apiPolicy{{xns}, {deny}, {sudo}, {nosudo, sudoonly}, {sudo, nosudo}, {list}, {listnoslash}, {plus}, {nswild}, {xns, deny}, {all}}
	if child != "" {
		childonly := mk("childonly", ru(child+"rec/*", c03apiAllCaps...))
		childsplit := mk("childsplit", ru("rec/data/k1", "read"), ru(child+"rec/data/k1", "delete", "patch"), ru(child+"rec/root/r1", "update", "sudo"), ru("rec/root/r1", "read"))
		sets = append(sets, []*c03apiPolicy{childonly}, []*c03apiPolicy{childsplit})
	}
	return sets
}

func (x *c03apiRun) writePolicy(p *c03apiPolicy) {
	for _, q := range x.pols[p.NS] {
		if q.Name == p.Name {
			return
		}
	}
	x.v.Policy(p.Name, p.hcl(), p.NS)
	x.pols[p.NS] = append(x.pols[p.NS], p)
}

func (x *c03apiRun) newToken(name, kind, ns string, pols []*c03apiPolicy, withSelf bool) *c03apiTok {
	v := x.v
	tk := &c03apiTok{Name: name, Kind: kind, NS: ns, Policies: append([]*c03apiPolicy(nil), pols...)}
	if withSelf {
		tk.Policies = append(tk.Policies, x.self[ns])
	}
	names := []string{}
	for _, p := range tk.Policies {
		names = append(names, p.Name)
	}
	switch kind {
	case "root":
		tk.Root = true
		tk.Policies = nil
		t, resp, err := v.CreateToken(v.Root, map[string]any{"policies": []string{"root"}, "ttl": "4h"}, false, ns)
		if t == nil {
			x.r.Note("a root-policy token could not be created in namespace %q: %s", ns, vErrStr(resp, err))
			return nil
		}
		tk.ID, tk.Accessor = t.ID, t.Accessor
	case "service":
		t, resp, err := v.CreateToken(v.Root, map[string]any{"policies": names, "ttl": "4h"}, false, ns)
		if t == nil {
			x.t.Fatalf("verif: token create in %q failed: %s", ns, vErrStr(resp, err))
		}
		tk.ID, tk.Accessor = t.ID, t.Accessor
	case "batch":
		t, resp, err := v.CreateToken(v.Root, map[string]any{"policies": names, "ttl": "4h", "type": "batch"}, false, ns)
		if t == nil {
			x.t.Fatalf("verif: batch token create in %q failed: %s", ns, vErrStr(resp, err))
		}
		tk.ID, tk.Accessor = t.ID, ""
	case "entity":
		// token policies: only the helper; the interesting policies hang on the entity
		tk.Identity = append([]*c03apiPolicy(nil), pols...)
		tk.Policies = []*c03apiPolicy{x.self[ns]}
		alias := strings.NewReplacer("/", "-", "|", "-").Replace(name)
		resp, err := v.Do(vReq{Op: logical.UpdateOperation, Path: "auth/rec/login/" + alias, NS: ns, Data: map[string]any{"policies": []string{x.self[ns].Name}, "alias": alias, "ttl": "4h"}})
		if !vOK(resp, err) || resp == nil || resp.Auth == nil || resp.Auth.EntityID == "" {
			x.t.Fatalf("verif: entity login in %q failed: %s", ns, vErrStr(resp, err))
		}
		tk.ID, tk.Accessor = resp.Auth.ClientToken, resp.Auth.Accessor
		var idn []string
		for _, p := range pols {
			idn = append(idn, p.Name)
		}
		v.MustDo(vReq{Op: logical.UpdateOperation, Path: "identity/entity/id/" + resp.Auth.EntityID, Token: v.Root, NS: ns, Data: map[string]any{"policies": idn}})
	}
	x.toks = append(x.toks, tk)
	return tk
}

// build creates namespaces, mounts, keys, policies and tokens of one round.
func (x *c03apiRun) build() {
	v, rng := x.v, x.rng
	v.MustDo(vReq{Op: logical.UpdateOperation, Path: "sys/namespaces/n1", Token: v.Root})
	v.MustDo(vReq{Op: logical.UpdateOperation, Path: "sys/namespaces/n2", Token: v.Root, NS: "n1/"})
	v.MustDo(vReq{Op: logical.UpdateOperation, Path: "sys/namespaces/m1", Token: v.Root})
	for _, ns := range c03apiNSs {
		v.Mount("rec", "verifrec", ns, nil)
		v.EnableAuth("rec", "verifrec", ns)
		for _, k := range []string{"rec/data/k1", "rec/data/dir/a", "rec/root/r1"} {
			v.MustDo(vReq{Op: logical.UpdateOperation, Path: k, Token: v.Root, NS: ns, Data: map[string]any{"v": "1"}})
			x.exists[ns+k] = true
		}
		// helper: lets a token call capabilities-self in every namespace of its subtree
		sp := &c03apiPolicy{NS: ns, Name: "c03api-self", Rules: []c03apiRule{{Pat: c03apiSelfPath, Caps: []string{"update"}}}}
		for _, d := range c03apiDescendants(ns) {
			sp.Rules = append(sp.Rules, c03apiRule{Pat: d + c03apiSelfPath, Caps: []string{"update"}})
		}
		x.self[ns] = sp
		x.writePolicy(sp)
	}
	nRandPol, nRandTok := 5, 4
	if x.round > 0 {
		nRandPol, nRandTok = 7, 9
	}
	for _, ns := range c03apiNSs {
		tag := ns
		if tag == "" {
			tag = "root/"
		}
		var rp []*c03apiPolicy
		for i := 0; i < nRandPol; i++ {
			p := x.genPolicy(ns, fmt.Sprintf("c03api-g%d", i))
			x.writePolicy(p)
			rp = append(rp, p)
		}
		if x.round == 0 {
			for i, set := range x.handPicked(ns) {
				for _, p := range set {
					x.writePolicy(p)
				}
				x.newToken(fmt.Sprintf("%shp%d", tag, i), "service", ns, set, true)
			}
		}
		for i := 0; i < nRandTok; i++ {
			n := 1 + rng.Intn(3)
			var set []*c03apiPolicy
			for _, j := range rng.Perm(len(rp))[:n] {
				set = append(set, rp[j])
			}
			x.newToken(fmt.Sprintf("%sg%d", tag, i), "service", ns, set, !rng.Chance(1, 5))
		}
		x.newToken(tag+"batch", "batch", ns, []*c03apiPolicy{kit.Pick(rng, rp), kit.Pick(rng, rp)}, true)
		x.newToken(tag+"entity", "entity", ns, []*c03apiPolicy{kit.Pick(rng, rp)}, true)
		if x.round == 0 {
			x.newToken(tag+"entity-all", "entity", ns, []*c03apiPolicy{x.findPolicy(ns, "c03api-hp-all")}, true)
		}
		if x.round == 0 || ns == "" { // child namespaces refuse to issue root-policy tokens (noted once, in round 0)
			x.newToken(tag+"rootpol", "root", ns, nil, false)
		}
	}
}

func (x *c03apiRun) findPolicy(ns, name string) *c03apiPolicy {
	for _, p := range x.pols[ns] {
		if p.Name == name {
			return p
		}
	}
	x.t.Fatalf("verif: no policy %s in %q", name, ns)
	return nil
}

// c03apiHash gives PRNG stream / coin numbers that depend only on the case, so that a
// single case can be replayed without running the others.
func c03apiHash(parts ...string) uint64 {
	h := fnv.New64a()
	for _, p := range parts {
		h.Write([]byte(p))
		h.Write([]byte{0})
	}
	return h.Sum64()
}

func (x *c03apiRun) paths(tk *c03apiTok, reqNS string) []string {
	tokNS := tk.NS
	rng := kit.NewRand(x.seed, c03apiHash("paths", fmt.Sprint(x.round), tk.Name, reqNS))
	if !c03apiInSubtree(reqNS, tokNS) {
		// outside the token's subtree nothing can be granted: a short list is enough
		return []string{"rec/data/k1", "rec/data/dir/", "rec/root/r1", "rec/data/k2"}
	}
	out := []string{"rec/data/k1", "rec/data/k2", "rec/data/dir/a", "rec/data/dir/b", "rec/data/dir/", "rec/data/dir", "rec/data/", "rec/root/r1", "rec/root/r2"}
	for _, d := range c03apiDescendants(reqNS) {
		if strings.Count(d, "/") == 1 { // direct children, namespace given in the path
			out = append(out, d+"rec/data/k1", d+"rec/root/r1")
		}
	}
	segs := []string{"k1", "k2", "dir", "a", "b", "zz"}
	for i := 0; i < 2; i++ {
		p := "rec/data/" + kit.Pick(rng, segs) + "/" + kit.Pick(rng, segs)
		if rng.Chance(1, 3) {
			p += "/"
		}
		dup := false
		for _, o := range out {
			dup = dup || o == p
		}
		if !dup {
			out = append(out, p)
		}
	}
	return out
}

// ---------------------------------------------------------------- observations

func c03apiDenied(err error) bool { return err != nil && errors.Is(err, logical.ErrPermissionDenied) }

// report asks one reporting endpoint in namespace reqNS. status: ok | denied | error
func (x *c03apiRun) report(endpoint, reqNS string, tk *c03apiTok, paths []string) (map[string][]string, string, string) {
	req := vReq{Op: logical.UpdateOperation, Path: "sys/" + endpoint, NS: reqNS, Token: x.v.Root, Data: map[string]any{"paths": append([]string(nil), paths...)}}
	switch endpoint {
	case "capabilities":
		req.Data["token"] = tk.ID
	case "capabilities-self":
		req.Token = tk.ID
	case "capabilities-accessor":
		req.Data["accessor"] = tk.Accessor
	}
	resp, err := x.v.Do(req)
	if c03apiDenied(err) {
		return nil, "denied", vErrStr(resp, err)
	}
	if !vOK(resp, err) || resp == nil {
		return nil, "error", vErrStr(resp, err)
	}
	out := map[string][]string{}
	for _, p := range paths {
		l, ok := resp.Data[p].([]string)
		if !ok {
			return nil, "error", fmt.Sprintf("no list for %q in the response: %#v", p, resp.Data[p])
		}
		l = append([]string(nil), l...)
		sort.Strings(l)
		out[p] = l
	}
	return out, "ok", "ok"
}

func c03apiHas(l []string, c string) bool {
	for _, e := range l {
		if e == c {
			return true
		}
	}
	return false
}

// probe sends one operation with the token and reports whether it was refused
// (permission denied) or reached the backend handler; the world is put back
// afterwards if the operation changed it.
func (x *c03apiRun) probe(tk *c03apiTok, reqNS, path, op string) c03apiProbe {
	v := x.v
	ns, rel := c03apiResolve(reqNS + path)
	bpath := strings.TrimPrefix(rel, "rec/")
	isRootPath := strings.HasPrefix(bpath, "root/")
	present := x.exists[ns+rel]
	pr := c03apiProbe{Op: op, Cap: op}
	var lop logical.Operation
	switch op {
	case "read":
		lop = logical.ReadOperation
	case "list":
		lop = logical.ListOperation
	case "scan":
		lop = logical.ScanOperation
	case "delete":
		lop = logical.DeleteOperation
	case "patch":
		lop = logical.PatchOperation
	case "write":
		// create-or-update: the backend's existence check decides which capability is needed
		lop = logical.UpdateOperation
		pr.Cap = "update"
		if !present && !isRootPath { // root/* has no existence check: always update
			lop = logical.CreateOperation
			pr.Cap = "create"
		}
		if c03apiHash("verb", fmt.Sprint(x.round), tk.Name, reqNS, path)&1 == 1 { // the client-side verb must not matter
			if lop == logical.CreateOperation {
				lop = logical.UpdateOperation
			} else {
				lop = logical.CreateOperation
			}
		}
	}
	mark := v.Rec.Len()
	resp, err := v.Do(vReq{Op: lop, Path: path, Token: tk.ID, NS: reqNS})
	pr.Resp = vErrStr(resp, err)
	if len(pr.Resp) > 160 {
		pr.Resp = pr.Resp[:160]
	}
	for _, e := range v.Rec.Since(mark) {
		if e.Kind == "handler" && e.Path == bpath {
			pr.Handler = e.Op
		}
	}
	switch {
	case pr.Handler != "" && !c03apiDenied(err):
		pr.Outcome = "authorised"
	case pr.Handler == "" && c03apiDenied(err):
		pr.Outcome = "refused"
	default:
		pr.Outcome = "other"
	}
	if op == "write" && pr.Outcome == "authorised" && pr.Handler != pr.Cap {
		x.r.Inconc("existence bookkeeping of the harness is off: write to %q in %q reached the handler as %s, expected %s", path, reqNS, pr.Handler, pr.Cap)
	}
	if pr.Handler != "" && (op == "write" || op == "delete" || op == "patch") {
		// put the key back into its initial state
		if present {
			v.MustDo(vReq{Op: logical.UpdateOperation, Path: rel, Token: v.Root, NS: ns, Data: map[string]any{"v": "1"}})
		} else {
			v.MustDo(vReq{Op: logical.DeleteOperation, Path: rel, Token: v.Root, NS: ns})
		}
	}
	return pr
}

// ---------------------------------------------------------------- F18 signature

// c03apiMatch: does a (namespace-qualified) policy pattern match an absolute path?
// exact patterns by equality, a trailing * as a prefix, + as one whole (possibly empty) segment.
// Only used to decide whether a disagreement carries the signature of known finding F18.
func c03apiMatch(pat, path string) bool {
	prefix := strings.HasSuffix(pat, "*")
	if prefix {
		pat = strings.TrimSuffix(pat, "*")
	}
	ps, qs := strings.Split(pat, "/"), strings.Split(path, "/")
	if !prefix && len(ps) != len(qs) || len(qs) < len(ps) {
		return false
	}
	for i, seg := range ps {
		last := i == len(ps)-1
		switch {
		case prefix && last:
			if seg == "+" {
				continue
			}
			if !strings.HasPrefix(qs[i], seg) {
				return false
			}
		case seg == "+": // "any number of characters bounded within a single path segment" (also none)
		case seg != qs[i]:
			return false
		}
	}
	return true
}

func c03apiExact(pat string) bool {
	if strings.HasSuffix(pat, "*") {
		return false
	}
	for _, s := range strings.Split(pat, "/") {
		if s == "+" {
			return false
		}
	}
	return true
}

// c03apiIsF18 decides whether a disagreement on a path ending in '/' has exactly
// the signature of the known finding: the reported list is the one of the path
// without the slash (list-style fall-back), list and scan agree with it, and the
// non-list operations behave as if resolved without that fall-back.
func c03apiIsF18(tk *c03apiTok, abs string, rep, repTrim []string, probes []c03apiProbe) (bool, string) {
	if !strings.HasSuffix(abs, "/") || strings.Join(rep, ",") != strings.Join(repTrim, ",") {
		return false, ""
	}
	trim := strings.TrimSuffix(abs, "/")
	exactTrim := false
	var nonExactFull, nonExactTrim []c03apiRule
	for _, ru := range tk.rules() {
		if c03apiExact(ru.Pat) {
			if ru.Pat == abs {
				return false, "" // the same exact rule decides every operation
			}
			if ru.Pat == trim {
				exactTrim = true
			}
			continue
		}
		if c03apiMatch(ru.Pat, abs) {
			nonExactFull = append(nonExactFull, ru)
		}
		if c03apiMatch(ru.Pat, trim) {
			nonExactTrim = append(nonExactTrim, ru)
		}
	}
	why := ""
	switch {
	case exactTrim:
		why = fmt.Sprintf("exact pattern %q (path without the slash) is used for the report and for list, other operations on %q skip it", trim, abs)
	case len(nonExactFull) == 0 && len(nonExactTrim) > 0:
		why = fmt.Sprintf("only patterns matching %q (path without the slash) exist, e.g. %q; used for the report and for list, not for other operations on %q", trim, nonExactTrim[0].Pat, abs)
	default:
		return false, ""
	}
	for _, pr := range probes {
		if pr.Outcome == "other" {
			continue
		}
		got := pr.Outcome == "authorised"
		if pr.Op == "list" || pr.Op == "scan" {
			if got != c03apiHas(rep, pr.Cap) {
				return false, ""
			}
			continue
		}
		if got { // must be explainable by a pattern that matches the path as written
			ok := false
			for _, ru := range nonExactFull {
				ok = ok || c03apiHas(ru.Caps, pr.Cap)
			}
			if !ok {
				return false, ""
			}
		}
	}
	return true, why
}

// ---------------------------------------------------------------- one case

func (x *c03apiRun) runCase(tk *c03apiTok, reqNS, path string) {
	r := x.r
	caseID := fmt.Sprintf("r%d|%s|%s|%s", x.round, tk.Name, reqNS, path)
	if !kit.WantCase(caseID) {
		return
	}
	r.Eval(1)
	abs := reqNS + path
	resNS, rel := c03apiResolve(abs)
	bpath := strings.TrimPrefix(rel, "rec/")
	isRootPath := strings.HasPrefix(bpath, "root/")
	slash := strings.HasSuffix(path, "/")
	cross := tk.NS != reqNS
	qpaths := []string{path, c03apiSelfPath}
	trimPath := strings.TrimSuffix(path, "/")
	if slash {
		qpaths = append(qpaths, trimPath)
	}

	witness := map[string]any{"case": caseID, "token": tk, "request_namespace": reqNS, "path": path, "absolute_path": abs, "resolved_namespace": resNS}
	violate := func(class, what string) {
		r.Violate(class, caseID, fmt.Sprintf("[%s] token %s (%s, namespace %q) asked in namespace %q about %q: %s", caseID, tk.Name, tk.Kind, tk.NS, reqNS, path, what), witness)
	}

	// ---- what the three endpoints report
	prim, st, es := x.report("capabilities", reqNS, tk, qpaths)
	witness["sys/capabilities"] = map[string]any{"status": st, "reported": prim, "detail": es}
	var rep, repSelfPath, repTrim []string
	if st == "ok" {
		rep, repSelfPath, repTrim = prim[path], prim[c03apiSelfPath], prim[trimPath]
		r.Count("reports_answered", 1)
	} else {
		// nothing reported: nothing may be permitted
		r.Count("reports_unanswered", 1)
		r.Note("sys/capabilities did not answer for token %s in %q: %s", tk.Name, reqNS, es)
	}
	hasDeny, hasRoot := c03apiHas(rep, "deny"), c03apiHas(rep, "root")
	if hasDeny && len(rep) != 1 {
		violate(c03apiClassDisagree, fmt.Sprintf("deny is reported together with other capabilities: %v", rep))
	}
	if hasRoot && (!tk.Root || len(rep) != 1) {
		violate(c03apiClassDisagree, fmt.Sprintf("reported %v although the token does not (only) carry the root policy", rep))
	}
	if hasRoot {
		r.Count("reported_root", 1)
	}
	if hasDeny {
		r.Count("reported_deny", 1)
	}
	plain := st == "ok" && !hasDeny && !hasRoot && len(rep) > 0
	if plain {
		r.Count("cases_reported_some_capability", 1)
		if cross {
			r.Count("cases_cross_namespace_reported_some_capability", 1)
		}
	}

	// ---- capabilities-self: also a probe of update on sys/capabilities-self
	selfRep, sst, ses := x.report("capabilities-self", reqNS, tk, qpaths)
	witness["sys/capabilities-self"] = map[string]any{"status": sst, "reported": selfRep, "detail": ses}
	if st == "ok" && sst != "error" {
		want := c03apiHas(repSelfPath, "root") || c03apiHas(repSelfPath, "update")
		r.Count("comparisons", 1)
		r.Count("comparisons_self_endpoint_callable", 1)
		if cross {
			r.Count("comparisons_cross_namespace", 1)
		}
		if want != (sst == "ok") {
			violate(c03apiClassDisagree, fmt.Sprintf("sys/capabilities reports %v for %q, but the token's own update request to it was %s (%s)", repSelfPath, c03apiSelfPath, map[bool]string{true: "served", false: "refused with permission denied"}[sst == "ok"], ses))
		}
	}
	switch sst {
	case "ok":
		r.Count("endpoint_self_compared", 1)
		if cross {
			r.Count("endpoint_self_compared_cross_namespace", 1)
		}
		for _, p := range qpaths {
			if st == "ok" && strings.Join(selfRep[p], ",") != strings.Join(prim[p], ",") {
				violate(c03apiClassEndpoints, fmt.Sprintf("for %q sys/capabilities reports %v, sys/capabilities-self reports %v", p, prim[p], selfRep[p]))
				break
			}
		}
		if st != "ok" {
			violate(c03apiClassEndpoints, fmt.Sprintf("sys/capabilities did not answer (%s) while sys/capabilities-self reports %v", es, selfRep[path]))
		}
	case "denied":
		r.Count("endpoint_self_refused", 1)
	default:
		r.Count("endpoint_self_error", 1)
		r.Note("sys/capabilities-self error for token %s in %q: %s", tk.Name, reqNS, ses)
	}

	// ---- capabilities-accessor (token accessors are looked up in the request namespace)
	if tk.Accessor != "" {
		accRep, ast, aes := x.report("capabilities-accessor", reqNS, tk, qpaths)
		witness["sys/capabilities-accessor"] = map[string]any{"status": ast, "reported": accRep, "detail": aes}
		if ast == "ok" {
			r.Count("endpoint_accessor_compared", 1)
			for _, p := range qpaths {
				if st == "ok" && strings.Join(accRep[p], ",") != strings.Join(prim[p], ",") {
					violate(c03apiClassEndpoints, fmt.Sprintf("for %q sys/capabilities reports %v, sys/capabilities-accessor reports %v", p, prim[p], accRep[p]))
					break
				}
			}
			if st != "ok" {
				violate(c03apiClassEndpoints, fmt.Sprintf("sys/capabilities did not answer (%s) while sys/capabilities-accessor reports %v", es, accRep[path]))
			}
		} else if !cross && st == "ok" {
			violate(c03apiClassEndpoints, fmt.Sprintf("sys/capabilities answers %v, sys/capabilities-accessor in the token's own namespace does not (%s)", rep, aes))
		} else {
			r.Count("endpoint_accessor_refused_other_namespace", 1)
		}
	}

	// ---- what is actually permitted
	ops := []string{"read", "list", "scan", "delete", "patch", "write"}
	if isRootPath {
		ops = []string{"read", "list", "delete", "write"}
	}
	var probes []c03apiProbe
	nAuth, nRef := 0, 0
	for _, op := range ops {
		if slash && (op == "write" || op == "patch") {
			continue // the server refuses writes to paths ending in '/' before authorisation
		}
		pr := x.probe(tk, reqNS, path, op)
		probes = append(probes, pr)
		switch pr.Outcome {
		case "authorised":
			nAuth++
			r.Count("probes_authorised", 1)
			r.Count("probes_authorised:"+pr.Cap, 1)
		case "refused":
			nRef++
			r.Count("probes_refused", 1)
		default:
			r.Count("probes_other_outcome", 1)
			r.Note("probe %s %q in %q by %s neither refused with permission denied nor handled: %s (handler=%q)", op, path, reqNS, tk.Name, pr.Resp, pr.Handler)
		}
	}
	witness["probes"] = probes

	// ---- the oracle
	var bad []string
	for _, pr := range probes {
		if pr.Outcome == "other" {
			continue
		}
		want := hasRoot || (!hasDeny && c03apiHas(rep, pr.Cap) && (!isRootPath || c03apiHas(rep, "sudo")))
		got := pr.Outcome == "authorised"
		r.Count("comparisons", 1)
		if cross {
			r.Count("comparisons_cross_namespace", 1)
		}
		if plain {
			r.Count("comparisons_reported_some_capability", 1)
		}
		if isRootPath {
			r.Count("comparisons_sudo_path", 1)
			if c03apiHas(rep, "sudo") && got {
				r.Count("sudo_path_authorised_with_sudo_reported", 1)
			}
			if c03apiHas(rep, pr.Cap) && !c03apiHas(rep, "sudo") && !got {
				r.Count("sudo_path_refused_for_missing_sudo", 1)
			}
		}
		if want != got {
			need := pr.Cap
			if isRootPath {
				need += "+sudo"
			}
			bad = append(bad, fmt.Sprintf("%s (needs %s) was %s", pr.Op, need, pr.Outcome))
		}
	}
	if len(bad) > 0 {
		what := fmt.Sprintf("reported %v, but %s", rep, strings.Join(bad, "; "))
		if ok, why := c03apiIsF18(tk, abs, rep, repTrim, probes); ok && st == "ok" {
			r.Count("f18_signature", 1)
			violate(c03apiClassF18, what+" -- "+why)
		} else {
			violate(c03apiClassDisagree, what)
		}
	}
	if plain && nAuth > 0 && nRef > 0 {
		rel := "own"
		switch {
		case !cross:
		case c03apiInSubtree(reqNS, tk.NS):
			rel = "descendant"
		default:
			rel = "outside"
		}
		var au []string
		for _, pr := range probes {
			if pr.Outcome == "authorised" {
				au = append(au, pr.Cap)
			}
		}
		r.Nontrivial(strings.Join([]string{tk.NS, rel, reqNS, path, strings.Join(rep, ","), strings.Join(au, ",")}, "|"))
	}
	if plain && (cross || isRootPath) {
		r.Sample(witness)
	}
}

// ---------------------------------------------------------------- the monitor

func TestVerif_C03API_Capabilities(t *testing.T) {
	seed := kit.Seed(3)
	r := kit.NewResult(t, "c03-api-capabilities", seed, "per round a core with namespaces \"\", n1/, n1/n2/, m1/, a recording mount and a recording auth mount in each, generated ACL policies per namespace (exact, + segments, trailing *, deny, sudo, list/scan, patterns reaching into child namespaces by name or by +) plus fixed hand-picked shapes, and service / batch / entity (identity-policy) / root-policy tokens holding 1-3 of them; for every (token, request namespace in {own, each descendant, parent, other branch}, path incl. trailing-slash, absent keys, root-protected paths and namespace-in-path forms) the answers of sys/capabilities, sys/capabilities-self and sys/capabilities-accessor are compared with each other and with probe requests (read, list, scan, delete, patch, create-or-update) sent with that token in that namespace: refused with permission denied or handled by the backend. A case is non-trivial when some capability other than deny/root was reported and the probes were partly authorised and partly refused; distinct by (token namespace, relation, request namespace, path, reported list, authorised operations)")
	defer r.Write(t)
	r.Assume("an operation counts as permitted when the recording backend's handler ran and as refused when the request failed with logical.ErrPermissionDenied; any other outcome is counted and not compared")
	r.Assume("create versus update is decided by the backend's existence check (the harness keeps every key in its initial state between probes); root-protected paths of the recording backend have no existence check, so writes there need update; writes to paths ending in '/' are refused by the server before authorisation and are not probed")
	r.Assume("sys/capabilities-accessor looks the accessor up in the request namespace, so it is only required to answer in the token's own namespace; sys/capabilities-self is required to answer exactly when sys/capabilities reports update (or root) on sys/capabilities-self")

	rounds := kit.N(2, 160)
	shard, nshards := kit.Shard()
	for round := 0; round < rounds; round++ {
		if round%nshards != shard {
			continue
		}
		if oc := kit.OnlyCase(); oc != "" && !strings.HasPrefix(oc, fmt.Sprintf("r%d|", round)) {
			continue
		}
		func() {
			v := vBoot(t, vOpts{Cache: round%2 == 1, Transactional: round%4 >= 2})
			defer v.Close()
			x := &c03apiRun{t: t, r: r, v: v, rng: kit.NewRand(seed, uint64(7000+round)), seed: seed, round: round,
				pols: map[string][]*c03apiPolicy{}, self: map[string]*c03apiPolicy{}, exists: map[string]bool{}}
			x.build()
			r.Count("rounds", 1)
			r.Count("tokens", len(x.toks))
			for _, tk := range x.toks {
				for _, reqNS := range c03apiRequestNSs(tk.NS) {
					for _, p := range x.paths(tk, reqNS) {
						x.runCase(tk, reqNS, p)
					}
				}
			}
		}()
	}

	q := int64(rounds) / int64(nshards)
	if q < 1 {
		q = 1
	}
	r.Require("comparisons", 5000*q)
	r.Require("comparisons_cross_namespace", 3000*q)
	r.Require("comparisons_reported_some_capability", 1500*q)
	r.Require("cases_cross_namespace_reported_some_capability", 80*q)
	r.Require("probes_authorised", 700*q)
	r.Require("probes_refused", 4000*q)
	r.Require("comparisons_sudo_path", 800*q)
	r.Require("sudo_path_authorised_with_sudo_reported", 60*q)
	r.Require("sudo_path_refused_for_missing_sudo", 30*q)
	r.Require("endpoint_self_compared", 700*q)
	r.Require("endpoint_self_compared_cross_namespace", 300*q)
	r.Require("endpoint_accessor_compared", 350*q)
	r.Require("probes_authorised:create", 40*q)
	r.Require("probes_authorised:update", 40*q)
}
