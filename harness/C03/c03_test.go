//go:build verif

package policy

// C03: ACL decisions equal the documented policy semantics.
//
// Monitors (all compare the real ParseACLPolicy -> NewACL -> AllowOperation /
// Capabilities against the doc-derived reference in c03_ref_test.go, plus
// metamorphic checks that need no reference):
//
//   TestVerif_C03_Exhaustive      small alphabet, every pattern / pattern pair / capability merge
//   TestVerif_C03_Random          seeded: <= 6 stanzas in <= 4 policies, parameters, wrapping TTL,
//                                 pagination, namespaces, legacy names, JSON text, root policy,
//                                 every permutation of the policy list
//   TestVerif_C03_SharedPolicies  ACLs built from shared (cached) *Policy objects keep their decisions
//                                 when further ACLs are built from the same objects

import (
	"fmt"
	"reflect"
	"sort"
	"strings"
	"testing"

	kit "github.com/openbao/openbao/sdk/v2/helper/verifkit"
)

const c03DefaultSeed = 3

var capabilityOps = []string{"create", "read", "update", "patch", "delete", "list", "scan"}

var allOps = []string{"create", "read", "update", "patch", "delete", "list", "scan", "revoke", "renew", "rollback", "help", "alias-lookahead"}

type checker struct {
	r *kit.Result
}

type witness struct {
	Policies  []policySpec `json:"policies"`
	Text      []string     `json:"policy_text"`
	ACLNS     string       `json:"acl_namespace"`
	Order     []int        `json:"order,omitempty"`
	Request   *reqSpec     `json:"request,omitempty"`
	Impl      any          `json:"implementation,omitempty"`
	Reference any          `json:"reference,omitempty"`
	Extra     any          `json:"extra,omitempty"`
}

func mkWitness(ps []policySpec, aclNS string, q *reqSpec, impl, ref any) witness {
	return witness{Policies: ps, Text: renderAll(ps), ACLNS: aclNS, Request: q, Impl: impl, Reference: ref}
}

// compareDecision checks one request against the reference. It returns the real decision.
func (c *checker) compareDecision(caseID string, ps []policySpec, aclNS string, acl *ACL, ref *refACL, q reqSpec) (implDecision, refDecision) {
	r := c.r
	want := ref.decide(q)
	got := implDecide(acl, q)
	r.Count("decisions", 1)
	r.Count("ref:"+want.Reason, 1)
	if want.info.candidates >= 2 {
		r.Count("decisions_with_competing_patterns", 1)
		for k := 1; k <= 5; k++ {
			if want.info.rulesUsed&(1<<k) != 0 {
				r.Count(fmt.Sprintf("priority_rule_%d_used", k), 1)
			}
		}
	}
	if want.info.rule != nil && want.info.rule.stanzas >= 2 {
		r.Count("decisions_on_merged_pattern", 1)
	}
	if want.Stage != "" && want.Stage != "plain" {
		r.Count("list_stage:"+want.Stage, 1)
	}
	switch {
	case got.Allowed && !want.Allowed:
		r.Violate("C03-allowed-but-documented-deny", caseID,
			fmt.Sprintf("%s %q (ns %q) is ALLOWED, documented semantics deny it (%s; deciding pattern %q)", q.Op, q.Path, q.NS, want.Reason, want.Pattern),
			mkWitness(ps, aclNS, &q, got, want))
	case !got.Allowed && want.Allowed:
		r.Violate("C03-denied-but-documented-allow", caseID,
			fmt.Sprintf("%s %q (ns %q) is DENIED, documented semantics allow it (%s; deciding pattern %q)", q.Op, q.Path, q.NS, want.Reason, want.Pattern),
			mkWitness(ps, aclNS, &q, got, want))
	}
	if q.Op != "help" && got.RootPrivs != want.RootPrivs {
		r.Violate("C03-sudo-mismatch", caseID,
			fmt.Sprintf("%s %q: root privileges (sudo) reported %v, documented %v (deciding pattern %q)", q.Op, q.Path, got.RootPrivs, want.RootPrivs, want.Pattern),
			mkWitness(ps, aclNS, &q, got, want))
	}
	if got.IsRoot != want.IsRoot {
		r.Violate("C03-root-mismatch", caseID, fmt.Sprintf("%s %q: IsRoot %v, documented %v", q.Op, q.Path, got.IsRoot, want.IsRoot), mkWitness(ps, aclNS, &q, got, want))
	}
	// list_scan_response_keys_filter_path: only on an allowed list/scan, and then one of the
	// filters written on the deciding pattern (never dropped when every contributing stanza names one)
	if want.info.rule != nil && got.Allowed && want.Allowed {
		fl := want.info.rule.filters
		list := q.Op == "list" || q.Op == "scan"
		bad := ""
		switch {
		case !list && got.Filter != "":
			bad = "a filter path is returned for a non-list operation"
		case list && got.Filter != "" && !fl[got.Filter]:
			bad = "the filter path does not come from the deciding pattern"
		case list && got.Filter == "" && len(fl) > 0:
			bad = "the deciding pattern names a filter path but none is applied"
		}
		if list && len(fl) > 0 {
			r.Count("list_filter_paths_checked", 1)
		}
		if bad != "" {
			r.Violate("C03-list-filter-path", caseID, fmt.Sprintf("%s %q: %s (got %q, pattern %q has %v)", q.Op, q.Path, bad, got.Filter, want.Pattern, fl), mkWitness(ps, aclNS, &q, got, want))
		}
	}
	if got.Allowed && want.Allowed && want.LimitCheck != "" {
		r.Count("pagination_rewrites_checked", 1)
		ok := true
		orig, had := q.Data["limit"]
		switch want.LimitCheck {
		case "untouched":
			ok = got.LimitSet == had && reflect.DeepEqual(got.Limit, orig)
		case "zero":
			n, p := refParseLimit(got.Limit)
			ok = got.LimitSet && p && n == 0
		case "policy":
			n, p := refParseLimit(got.Limit)
			ok = got.LimitSet && p && n == want.PageLimit
		case "policy-or-absent":
			n, p := refParseLimit(got.Limit)
			ok = !got.LimitSet || (p && n >= 1 && n <= want.PageLimit)
		}
		if !ok {
			r.Violate("C03-pagination-rewrite", caseID,
				fmt.Sprintf("%s %q allowed with pagination_limit %d but limit after the check is %v (present=%v), expected %s", q.Op, q.Path, want.PageLimit, got.Limit, got.LimitSet, want.LimitCheck),
				mkWitness(ps, aclNS, &q, got, want))
		}
	}
	return got, want
}

// compareCapabilities checks ACL.Capabilities(path) against the reference and,
// for constraint-free policy sets, against the decisions actually taken
// (decided: op -> allowed with empty data, sudo: RootPrivs seen on a non-list op).
func (c *checker) compareCapabilities(caseID string, ps []policySpec, aclNS string, acl *ACL, ref *refACL, ns, path string, decided map[string]bool, sudoSeen *bool) {
	r := c.r
	got := implCapabilities(acl, ns, path)
	want := ref.capabilities(ns, path)
	r.Count("capabilities_checked", 1)
	if !reflect.DeepEqual(got, want) {
		r.Violate("C03-capabilities-mismatch", caseID,
			fmt.Sprintf("Capabilities(%q) (ns %q) = %v, documented %v", path, ns, got, want),
			mkWitness(ps, aclNS, &reqSpec{NS: ns, Path: path, Op: "capabilities"}, got, want))
	}
	if decided == nil {
		return
	}
	has := map[string]bool{}
	for _, cp := range got {
		has[cp] = true
	}
	if has["root"] {
		return
	}
	full := strings.TrimLeft(ns+path, "/")
	// classify: on a path ending in "/" Capabilities() resolves the path the way
	// a list does (falling back to the path without the slash) while a non-list
	// operation on the same path does not fall back. Only that precise signature
	// (reference explains both sides) gets the narrow class.
	classify := func(what, op string, actual bool) string {
		if !strings.HasSuffix(full, "/") || op == "list" || op == "scan" {
			return "C03-capabilities-vs-operation"
		}
		plain := ref.match(full, false)
		lst := ref.match(full, true)
		wantOp := ref.decide(reqSpec{NS: ns, Path: path, Op: op})
		okOp := wantOp.Allowed == actual
		if what == "sudo" {
			okOp = wantOp.RootPrivs == actual
		}
		if plain.rule != lst.rule && reflect.DeepEqual(want, got) && okOp {
			return "C03-capabilities-list-fallback-on-trailing-slash"
		}
		return "C03-capabilities-vs-operation"
	}
	check := func(what string, reported, actual bool, op string) {
		r.Count("capabilities_vs_operation_checked", 1)
		if reported == actual {
			return
		}
		r.Violate(classify(what, op, actual), caseID,
			fmt.Sprintf("Capabilities(%q) = %v but %s on that path is %s (capability %q reported=%v, permitted=%v)", path, got, op, map[bool]string{true: "permitted", false: "refused"}[actual], what, reported, actual),
			mkWitness(ps, aclNS, &reqSpec{NS: ns, Path: path, Op: op}, map[string]any{"capabilities": got, "operation_permitted": actual}, nil))
	}
	for _, op := range capabilityOps {
		allowed, ok := decided[op]
		if !ok {
			continue
		}
		check(op, has[op], allowed, op)
		if has["deny"] && allowed {
			r.Violate(classify(op, op, allowed), caseID, fmt.Sprintf("Capabilities(%q) = [deny] but %s on that path is permitted", path, op),
				mkWitness(ps, aclNS, &reqSpec{NS: ns, Path: path, Op: op}, map[string]any{"capabilities": got, "operation_permitted": allowed}, nil))
		}
	}
	if sudoSeen != nil {
		check("sudo", has["sudo"], *sudoSeen, "read")
	}
}

// ---------------------------------------------------------------------------------------
// Exhaustive tier
// ---------------------------------------------------------------------------------------

func exPatterns(maxSegs int) []string {
	var out []string
	var rec func(prefix []string, depth int)
	rec = func(prefix []string, depth int) {
		if len(prefix) > 0 {
			p := strings.Join(prefix, "/")
			last := prefix[len(prefix)-1]
			out = append(out, p, p+"/*", p+"/")
			if last != "+" {
				out = append(out, p+"*")
			}
		}
		if depth == 0 {
			return
		}
		for _, s := range []string{"a", "b", "+"} {
			rec(append(append([]string{}, prefix...), s), depth-1)
		}
	}
	rec(nil, maxSegs)
	out = append(out, "*")
	sort.Strings(out)
	return out
}

func exPaths(maxSegs int) []string {
	var out []string
	var rec func(prefix []string)
	rec = func(prefix []string) {
		if len(prefix) > 0 {
			p := strings.Join(prefix, "/")
			out = append(out, p, p+"/")
		}
		if len(prefix) == maxSegs {
			return
		}
		for _, s := range []string{"a", "b", "ab"} {
			rec(append(append([]string{}, prefix...), s))
		}
	}
	rec(nil)
	return out
}

var exCapBits = []string{"deny", "read", "list", "update", "create", "sudo"}

func capsOfMask(mask int, names []string) []string {
	out := []string{}
	for i, n := range names {
		if mask&(1<<i) != 0 {
			out = append(out, n)
		}
	}
	return out
}

// evalExhaustive runs the given operations with empty data on every path and
// cross-checks Capabilities. Returns true when some path had competing patterns.
func (c *checker) evalExhaustive(caseID string, ps []policySpec, paths []string, ops []string) bool {
	r := c.r
	ref := refBuild(ps, "")
	acl, err := buildImpl(ps, "")
	if err != nil {
		r.Violate("C03-policy-rejected", caseID, "a well-formed policy set was rejected: "+err.Error(), mkWitness(ps, "", nil, nil, nil))
		return false
	}
	competing := false
	decided := map[string]bool{}
	for _, path := range paths {
		clear(decided)
		var sudoSeen *bool
		for _, op := range ops {
			got, want := c.compareDecision(caseID, ps, "", acl, ref, reqSpec{Path: path, Op: op})
			if _, isCap := opCapability[op]; isCap && op == opCapability[op] {
				decided[op] = got.Allowed
			}
			if op == "read" {
				s := got.RootPrivs
				sudoSeen = &s
			}
			if want.info.candidates >= 2 {
				competing = true
			}
			if op == "list" && strings.HasSuffix(path, "/") {
				if u := ref.matchUnion(path); u != want.info.rule {
					r.Count("note:list_fallback_staged_vs_union_readings_differ", 1)
				}
			}
		}
		c.compareCapabilities(caseID, ps, "", acl, ref, "", path, decided, sudoSeen)
	}
	r.Eval(1)
	return competing
}

func TestVerif_C03_Exhaustive(t *testing.T) {
	seed := kit.Seed(c03DefaultSeed)
	shard, shards := kit.Shard()
	r := kit.NewResult(t, "c03-exhaustive", seed, "alphabet {a,b}, '+' segments, <=3 segments (thorough: <=4 for pairs/triples), optional '/', '*' or '/*' suffix (144 / 441 patterns); request paths over {a,b,ab} up to 4 (5) segments with and without trailing slash (240 / 726); every unordered pattern pair; a case = one policy set (single pattern x capability subsets, pattern pair, pattern triple, or one pattern in 2-3 policies with capability subsets from {deny,read,list,update,create,sudo}) evaluated on all paths and operations with empty data; non-trivial = some path is matched by >=2 patterns (priority decides) or the pattern is contributed by >=2 policies (merge decides)")
	defer r.Write(t)
	for _, a := range refAssumptions {
		r.Assume(a)
	}
	c := &checker{r: r}
	pats := exPatterns(3)
	paths := exPaths(4)
	shortPaths := exPaths(3)
	full := kit.Tier() == "thorough"
	// pattern pairs / triples: <=3 segments in quick, <=4 segments (paths up to 5) in thorough
	pairPats, pairPaths := pats, paths
	if full {
		pairPats, pairPaths = exPatterns(4), exPaths(5)
	}
	if shard == 0 {
		r.Count("patterns", len(pats))
		r.Count("request_paths", len(paths))
		r.Count("pair_patterns", len(pairPats))
		r.Count("pair_request_paths", len(pairPaths))
	}

	// A. single pattern: capability subsets x all operations
	for k, p := range pats {
		if k%shards != shard {
			continue
		}
		var masks []int
		if k%12 == 0 || full {
			for m := 0; m < 64; m++ {
				masks = append(masks, m)
			}
		} else {
			masks = []int{2 + 4, 8 + 16, 2 + 32, (k * 7) % 64}
		}
		for _, m := range masks {
			id := fmt.Sprintf("single:%d:%d", k, m)
			if !kit.WantCase(id) {
				continue
			}
			ps := []policySpec{{Name: "p0", Stanzas: []stanzaSpec{{Pattern: p, Caps: capsOfMask(m, exCapBits)}}}}
			pp := shortPaths
			if len(masks) == 4 {
				pp = paths
			}
			c.evalExhaustive(id, ps, pp, allOps)
			r.Count("single_pattern_sets", 1)
		}
		// the remaining capabilities
		id := fmt.Sprintf("single-x:%d", k)
		if kit.WantCase(id) {
			ps := []policySpec{{Name: "p0", Stanzas: []stanzaSpec{{Pattern: p, Caps: [][]string{{"patch", "scan"}, {"delete"}, {"delete", "patch", "sudo"}, {"scan", "create"}}[k%4]}}}}
			c.evalExhaustive(id, ps, shortPaths, allOps)
			r.Count("single_pattern_sets", 1)
		}
	}

	// B. every unordered pattern pair, capabilities chosen so that each operation names the winner
	pairOps := []string{"read", "update", "list", "scan", "delete"}
	n := 0
	for i := 0; i < len(pairPats); i++ {
		for j := i + 1; j < len(pairPats); j++ {
			n++
			if n%shards != shard {
				continue
			}
			id := fmt.Sprintf("pair:%d:%d", i, j)
			if !kit.WantCase(id) {
				continue
			}
			ps := []policySpec{
				{Name: "p0", Stanzas: []stanzaSpec{{Pattern: pairPats[i], Caps: []string{"read", "list"}}}},
				{Name: "p1", Stanzas: []stanzaSpec{{Pattern: pairPats[j], Caps: []string{"update", "scan", "sudo"}}}},
			}
			if n%2 == 1 {
				ps[0], ps[1] = ps[1], ps[0]
			}
			if n%5 == 0 { // same two stanzas inside one policy
				ps = []policySpec{{Name: "p0", Stanzas: []stanzaSpec{ps[0].Stanzas[0], ps[1].Stanzas[0]}}}
			}
			if c.evalExhaustive(id, ps, pairPaths, pairOps) {
				r.Nontrivial(id)
			}
			r.Count("pattern_pairs", 1)
		}
	}

	// C. seeded pattern triples
	triples := kit.N(1500, 4000)
	tripleCaps := [][]string{{"read", "list"}, {"update", "scan"}, {"delete", "sudo"}}
	for k := 0; k < triples; k++ {
		gk := k*shards + shard
		id := fmt.Sprintf("triple:%d", gk)
		if !kit.WantCase(id) {
			continue
		}
		trng := kit.NewRand(seed, uint64(4000000+gk))
		perm := trng.Perm(len(pairPats))[:3]
		var ps []policySpec
		for x, pi := range perm {
			ps = append(ps, policySpec{Name: fmt.Sprintf("p%d", x), Stanzas: []stanzaSpec{{Pattern: pairPats[pi], Caps: tripleCaps[x]}}})
		}
		if c.evalExhaustive(id, ps, pairPaths, pairOps) {
			r.Nontrivial(id)
		}
		r.Count("pattern_triples", 1)
	}

	// D. one pattern contributed by two policies: all 64 x 64 capability subsets, both orders
	kinds := []struct{ pattern, hit, miss string }{
		{"a/b", "a/b", "a/ab"}, {"a/*", "a/b/a", "b/a"}, {"a/+", "a/ab", "a/b/a"}, {"+/b*", "ab/ba", "a/a"},
	}
	mergeOps := allOps
	for ki, kd := range kinds {
		for m1 := 0; m1 < 64; m1++ {
			for m2 := 0; m2 < 64; m2++ {
				if (m1*64+m2)%shards != shard {
					continue
				}
				id := fmt.Sprintf("merge:%d:%d:%d", ki, m1, m2)
				if !kit.WantCase(id) {
					continue
				}
				ps := []policySpec{
					{Name: "p0", Stanzas: []stanzaSpec{{Pattern: kd.pattern, Caps: capsOfMask(m1, exCapBits)}}},
					{Name: "p1", Stanzas: []stanzaSpec{{Pattern: kd.pattern, Caps: capsOfMask(m2, exCapBits)}}},
				}
				c.evalExhaustive(id, ps, []string{kd.hit, kd.miss, kd.hit + "/"}, mergeOps)
				r.Nontrivial(id)
				r.Count("merge_pairs", 1)
				if (m1&1) != (m2&1) && (m1|m2) > 1 {
					r.Count("merge_deny_in_one_policy_only", 1)
				}
			}
		}
	}
	// E. one pattern in three policies (seeded), every order of the three
	for k := 0; k < kit.N(600, 6000); k++ {
		gk := k*shards + shard
		id := fmt.Sprintf("merge3:%d", gk)
		if !kit.WantCase(id) {
			continue
		}
		trng := kit.NewRand(seed, uint64(5000000+gk))
		kd := kinds[trng.Intn(len(kinds))]
		ms := []int{trng.Intn(64), trng.Intn(64), trng.Intn(64)}
		for _, perm := range permutations(3) {
			var ps []policySpec
			for _, x := range perm {
				ps = append(ps, policySpec{Name: fmt.Sprintf("p%d", x), Stanzas: []stanzaSpec{{Pattern: kd.pattern, Caps: capsOfMask(ms[x], exCapBits)}}})
			}
			c.evalExhaustive(id, ps, []string{kd.hit, kd.hit + "/"}, mergeOps)
		}
		r.Nontrivial(id)
		r.Count("merge_triples", 1)
	}

	if n := r.Get("note:list_fallback_staged_vs_union_readings_differ"); n > 0 {
		r.Note("%d list decisions on a path ending in '/' would pick a different pattern if the patterns matching the path with and without the slash competed under the five priority rules together (e.g. a/+ against a/* for LIST a/b/); the implementation tries the slash form first; the documentation is silent, the reference follows the staged order", n)
	}
	r.Sample(map[string]any{"case": "pair", "policies": []string{`path "a/+" {capabilities=["read","list"]}`, `path "a/b*" {capabilities=["update","scan","sudo"]}`},
		"oracle": "on a/b and a/ba the glob wins (rule 1: '+' at 2 is earlier than '*' at 3): update allowed, read refused; on a/a only a/+ matches: read allowed"})
	r.Sample(map[string]any{"case": "merge", "policies": []string{`path "a/*" {capabilities=["read","sudo"]}`, `path "a/*" {capabilities=["deny"]}`}, "oracle": "every operation on a/b/a refused in both orders, Capabilities = [deny]"})

	if kit.OnlyCase() == "" {
		r.Require("decisions", int64(kit.N(1000000, 1500000)))
		r.Require("decisions_with_competing_patterns", 100000)
		for k := 1; k <= 5; k++ {
			r.Require(fmt.Sprintf("priority_rule_%d_used", k), 200)
		}
		r.Require("decisions_on_merged_pattern", 10000)
		r.Require("merge_deny_in_one_policy_only", 500/int64(shards))
		r.Require("ref:deny-capability", 1000)
		r.Require("ref:default-deny", 1000)
		r.Require("list_stage:exact-noslash", 100)
		r.Require("list_stage:nonexact-noslash", 100)
		r.Require("capabilities_vs_operation_checked", 100000)
	}
}

func permutations(n int) [][]int {
	var out [][]int
	var rec func(cur []int, used int)
	rec = func(cur []int, used int) {
		if len(cur) == n {
			out = append(out, append([]int{}, cur...))
			return
		}
		for i := 0; i < n; i++ {
			if used&(1<<i) == 0 {
				rec(append(cur, i), used|1<<i)
			}
		}
	}
	rec(nil, 0)
	return out
}

// ---------------------------------------------------------------------------------------
// Random tier
// ---------------------------------------------------------------------------------------

type randCase struct {
	Policies []policySpec
	ACLNS    string
	Requests []reqSpec
	CapPaths [][2]string
	Free     bool // no parameter / wrapping / pagination constraints anywhere
}

func genRandCase(rng *kit.Rand) randCase {
	var rc randCase
	useNS := rng.Chance(1, 4)
	pickNS := func() string {
		if !useNS {
			return ""
		}
		return kit.Pick(rng, genNamespaces)
	}
	rc.ACLNS = pickNS()
	if rng.Chance(1, 25) {
		rc.Policies = []policySpec{{Name: "root", NS: rc.ACLNS, Root: true}}
		rc.Free = true
	} else {
		reqNS := pickNS()
		base := genConcretePath(rng, 2, 4) // request path relative to reqNS
		fullBase := strings.Split(reqNS+strings.Join(base, "/"), "/")
		constraints := rng.Chance(3, 5)
		rc.Free = !constraints
		// pattern pool: few patterns so that the same pattern shows up in several stanzas
		nPool := 1 + rng.Intn(4)
		type poolEntry struct{ ns, pattern string }
		var pool []poolEntry
		for i := 0; i < nPool; i++ {
			pns := pickNS()
			var pat string
			nsSegs := 0
			if pns != "" {
				nsSegs = strings.Count(pns, "/")
			}
			if strings.HasPrefix(strings.Join(fullBase, "/")+"/", pns) && rng.Chance(5, 6) {
				pat = genPatternFrom(rng, fullBase[nsSegs:])
			} else {
				pat = genPatternFrom(rng, genConcretePath(rng, 1, 4))
			}
			pool = append(pool, poolEntry{pns, pat})
		}
		nPol := 1 + rng.Intn(4)
		nSt := nPol + rng.Intn(7-nPol)
		if nSt > 6 {
			nSt = 6
		}
		rc.Policies = make([]policySpec, nPol)
		for i := range rc.Policies {
			rc.Policies[i].Name = fmt.Sprintf("p%d", i)
			rc.Policies[i].NS = "\x00"
		}
		for s := 0; s < nSt; s++ {
			pi := s
			if s >= nPol {
				pi = rng.Intn(nPol)
			}
			pe := kit.Pick(rng, pool)
			pol := &rc.Policies[pi]
			if pol.NS == "\x00" {
				pol.NS = pe.ns
			}
			pat := pe.pattern
			if pol.NS != pe.ns {
				// express the same qualified pattern from this policy's namespace when possible
				q := pe.ns + pe.pattern
				if strings.HasPrefix(q, pol.NS) {
					pat = strings.TrimPrefix(q, pol.NS)
				}
			}
			pol.Stanzas = append(pol.Stanzas, genStanza(rng, pat, constraints))
		}
		for i := range rc.Policies {
			p := &rc.Policies[i]
			// JSON text only where it can say the same thing: distinct patterns, string values
			if rng.Chance(1, 6) {
				ok := true
				seen := map[string]bool{}
				for _, st := range p.Stanzas {
					if seen[st.Pattern] {
						ok = false
					}
					seen[st.Pattern] = true
					for _, m := range []map[string][]any{st.Allowed, st.Denied} {
						for _, vs := range m {
							for _, v := range vs {
								if _, isStr := v.(string); !isStr {
									ok = false
								}
							}
						}
					}
				}
				p.JSON = ok
			}
		}
		// requests around the base path
		addPath := func(ns, p string) {
			rc.CapPaths = append(rc.CapPaths, [2]string{ns, p})
		}
		bp := strings.Join(base, "/")
		cands := []string{bp, bp + "/", bp + "/" + kit.Pick(rng, genSegs), strings.Join(base[:len(base)-1], "/"), strings.Join(base[:len(base)-1], "/") + "/",
			bp + "b", strings.Join(append(append([]string{}, base[:len(base)-1]...), kit.Pick(rng, genSegs)), "/"),
			strings.Join(genConcretePath(rng, 1, 4), "/")}
		if rng.Chance(1, 5) {
			cands = append(cands, strings.Join(base[:1], "/")+"//"+base[len(base)-1]) // empty segment
		}
		if rng.Chance(1, 6) {
			cands = append(cands, strings.Join(base[:len(base)-1], "/")+"/+", bp+".x", bp+"*") // literal '+', '.', '*' in a request
		}
		for _, p := range cands {
			addPath(reqNS, p)
		}
		if useNS {
			addPath(pickNS(), bp)
		}
	}
	if rc.Policies[0].Root {
		for i := 0; i < 4; i++ {
			rc.CapPaths = append(rc.CapPaths, [2]string{pickNS(), strings.Join(genConcretePath(rng, 1, 3), "/")})
		}
	}
	return rc
}

// genRequests draws the requests of a case. Half of the parameter maps are
// aimed at the constraints of the pattern that decides the path (taken from the
// reference's merged rule) so that decisions sit near the allow/deny boundary.
func genRequests(rng *kit.Rand, rc *randCase, ref *refACL) []reqSpec {
	var out []reqSpec
	for _, np := range rc.CapPaths {
		full := strings.TrimLeft(np[0]+np[1], "/")
		for _, op := range allOps {
			if (op == "renew" || op == "rollback" || op == "alias-lookahead" || op == "help") && !rng.Chance(1, 6) {
				continue
			}
			reps := 1
			if !rc.Free {
				reps = 4
			}
			var rule *refRule
			if !rc.Free && ref.rootNS == nil {
				rule = ref.match(full, op == "list" || op == "scan").rule
			}
			for k := 0; k < reps; k++ {
				q := reqSpec{NS: np[0], Path: np[1], Op: op}
				if !rc.Free {
					if rule != nil && !rule.deny && k%2 == 0 {
						q.Data, q.WrapTTL = genDataFor(rng, rule)
					} else {
						q.Data = genData(rng)
						if rng.Chance(2, 5) {
							q.WrapTTL = 1 + rng.Intn(20)
						}
					}
					if op == "list" || op == "scan" {
						if v, ok := genLimit(rng); ok {
							if q.Data == nil {
								q.Data = map[string]any{}
							}
							q.Data["limit"] = v
						} else {
							delete(q.Data, "limit")
						}
					}
				}
				out = append(out, q)
			}
		}
	}
	return out
}

func TestVerif_C03_Random(t *testing.T) {
	seed := kit.Seed(c03DefaultSeed)
	shard, shards := kit.Shard()
	r := kit.NewResult(t, "c03-random", seed, "seeded policy sets: 1-4 policies, <=6 stanzas over a pool of 1-4 patterns generalised from one request path (literal/'+' segments, '*', '/*', partial-segment glob, trailing '/'), capabilities incl. deny/sudo/legacy names, allowed/denied/required parameters with glob values, min/max wrapping TTL, pagination_limit, namespaces, HCL or JSON text, or the root policy; requests around that path x all operations x parameter maps x wrapping TTLs x limit forms; every permutation of the policy list must decide identically; a case = one policy set, non-trivial = some request had >=2 competing patterns, a merged pattern, or a parameter/wrapping/pagination constraint deciding")
	defer r.Write(t)
	for _, a := range refAssumptions {
		r.Assume(a)
	}
	c := &checker{r: r}
	cases := kit.N(6000, 20000)
	for k := 0; k < cases; k++ {
		gk := k*shards + shard
		id := fmt.Sprintf("rand:%d", gk)
		if !kit.WantCase(id) {
			continue
		}
		rng := kit.NewRand(seed, uint64(1000000+gk))
		rc := genRandCase(rng)
		rc.Requests = genRequests(rng, &rc, refBuild(rc.Policies, rc.ACLNS))
		r.Eval(1)
		c.runRandCase(id, rc)
		if k < 2 {
			r.Sample(map[string]any{"case": id, "policy_text": renderAll(rc.Policies), "requests": len(rc.Requests), "first_request": rc.Requests[0]})
		}
	}
	if n := r.Get("note:denied_only_because_max_wrapping_ttl_set_and_request_unwrapped"); n > 0 {
		r.Note("%d unwrapped requests were refused only because the deciding pattern sets max_wrapping_ttl (no min_wrapping_ttl): the documentation describes max_wrapping_ttl as a bound on the TTL of a wrapped response and names only min_wrapping_ttl as making wrapping mandatory; the reference follows the fail-closed reading, so this is not a verdict", n)
	}
	if n := r.Get("note:delete_with_parameters_not_checked_against_parameter_constraints"); n > 0 {
		r.Note("%d delete requests carrying parameters were allowed on patterns with allowed/denied/required parameters: parameter constraints are only evaluated for create/read/update/patch; the documentation does not say which operations they apply to, so this is not a verdict", n)
	}
	if n := r.Get("note:response_keys_filter_path_depends_on_policy_order"); n > 0 {
		r.Note("%d list decisions returned a different list_scan_response_keys_filter_path under a different policy order (the first stanza naming one wins); allow/deny was order independent; the property speaks about the decision, so this is not a verdict", n)
	}
	if kit.OnlyCase() == "" {
		r.Require("decisions", int64(kit.N(400000, 400000)))
		r.Require("decisions_with_competing_patterns", 20000)
		r.Require("decisions_on_merged_pattern", 20000)
		r.Require("permutations_checked", 5000)
		r.Require("permutation_decisions_compared", 200000)
		for _, reason := range []string{"deny-capability", "default-deny", "capability-missing", "wrap-ttl", "required-parameter-missing", "denied-parameter", "denied-parameter-star",
			"parameter-not-in-allowed", "parameter-value-not-allowed", "allowed-parameters-ok", "allowed-not-denied", "pagination-limit-exceeded", "pagination-limit-required",
			"allowed-pagination-max", "allowed-pagination-zero", "allowed-pagination-default", "allowed-max-without-policy-limit", "root", "root-outside-namespace", "allowed"} {
			r.Require("ref:"+reason, 30)
		}
		r.Require("cases_with_namespaces", 100)
		r.Require("cases_json_text", 50)
		r.Require("cases_legacy_policy_name", 50)
		r.Require("capabilities_checked", 10000)
	}
}

func (c *checker) runRandCase(id string, rc randCase) {
	r := c.r
	ps := rc.Policies
	ref := refBuild(ps, rc.ACLNS)
	acl, err := buildImpl(ps, rc.ACLNS)
	if err != nil {
		r.Violate("C03-policy-rejected", id, "a well-formed policy set was rejected: "+err.Error(), mkWitness(ps, rc.ACLNS, nil, nil, nil))
		return
	}
	for _, p := range ps {
		if p.NS != "" || rc.ACLNS != "" {
			r.Count("cases_with_namespaces", 1)
			break
		}
	}
	for _, p := range ps {
		if p.JSON {
			r.Count("cases_json_text", 1)
			break
		}
	}
	for _, p := range ps {
		for _, st := range p.Stanzas {
			if st.Legacy != "" {
				r.Count("cases_legacy_policy_name", 1)
			}
		}
	}
	base := make([]implDecision, len(rc.Requests))
	nontrivial := false
	for i, q := range rc.Requests {
		got, want := c.compareDecision(id, ps, rc.ACLNS, acl, ref, q)
		base[i] = got
		if want.info.candidates >= 2 || (want.info.rule != nil && want.info.rule.stanzas >= 2) {
			nontrivial = true
		}
		switch want.Reason {
		case "allowed", "default-deny", "capability-missing", "help", "unknown-operation", "allowed-no-parameters":
		default:
			nontrivial = true
		}
		if want.Reason == "wrap-max-only-unwrapped" {
			r.Count("note:denied_only_because_max_wrapping_ttl_set_and_request_unwrapped", 1)
		}
		if q.Op == "delete" && len(q.Data) > 0 && want.Allowed && want.info.rule != nil && (len(want.info.rule.denied) > 0 || len(want.info.rule.allowed) > 0 || len(want.info.rule.required) > 0) {
			r.Count("note:delete_with_parameters_not_checked_against_parameter_constraints", 1)
		}
	}
	if nontrivial {
		r.Nontrivial(id)
	}
	// Capabilities: against the reference always; against actual decisions when the set is constraint-free
	for _, np := range rc.CapPaths {
		var decided map[string]bool
		var sudoSeen *bool
		if rc.Free {
			decided = map[string]bool{}
			for i, q := range rc.Requests {
				if q.NS == np[0] && q.Path == np[1] && len(q.Data) == 0 && q.WrapTTL == 0 {
					if opCapability[q.Op] == q.Op {
						decided[q.Op] = base[i].Allowed
					}
					if q.Op == "read" {
						s := base[i].RootPrivs
						sudoSeen = &s
					}
				}
			}
		}
		c.compareCapabilities(id, ps, rc.ACLNS, acl, ref, np[0], np[1], decided, sudoSeen)
	}
	// Metamorphic: every order of the policy list decides identically (fresh parse per order).
	if len(ps) < 2 {
		return
	}
	for pi, perm := range permutations(len(ps)) {
		if pi == 0 {
			continue
		}
		pp := make([]policySpec, len(ps))
		for i, x := range perm {
			pp[i] = ps[x]
		}
		acl2, err := buildImpl(pp, rc.ACLNS)
		if err != nil {
			r.Violate("C03-policy-rejected", id, "permuted policy list rejected: "+err.Error(), mkWitness(pp, rc.ACLNS, nil, nil, nil))
			continue
		}
		r.Count("permutations_checked", 1)
		for i, q := range rc.Requests {
			got := implDecide(acl2, q)
			r.Count("permutation_decisions_compared", 1)
			if got.Filter != base[i].Filter {
				r.Count("note:response_keys_filter_path_depends_on_policy_order", 1)
			}
			if got.Allowed != base[i].Allowed || got.RootPrivs != base[i].RootPrivs || got.LimitSet != base[i].LimitSet || !reflect.DeepEqual(got.Limit, base[i].Limit) {
				w := mkWitness(ps, rc.ACLNS, &q, got, base[i])
				w.Order = perm
				r.Violate("C03-order-dependent-decision", id,
					fmt.Sprintf("%s %q decided %+v with the policies in order %v but %+v in the original order", q.Op, q.Path, got, perm, base[i]), w)
			}
		}
		for _, np := range rc.CapPaths[:1] {
			if a, b := implCapabilities(acl2, np[0], np[1]), implCapabilities(acl, np[0], np[1]); !reflect.DeepEqual(a, b) {
				w := mkWitness(ps, rc.ACLNS, &reqSpec{NS: np[0], Path: np[1], Op: "capabilities"}, a, b)
				w.Order = perm
				r.Violate("C03-order-dependent-decision", id, fmt.Sprintf("Capabilities(%q) = %v in order %v but %v in the original order", np[1], a, perm, b), w)
			}
		}
	}
}

// ---------------------------------------------------------------------------------------
// Shared policy objects
// ---------------------------------------------------------------------------------------

// The policy store hands the same cached *Policy object to every ACL that is
// built from it (policy_store.go: Store.ACL -> GetPolicy -> NewACL). The decision
// of an ACL for its own policy set must therefore not change when another ACL is
// later built from an overlapping set of the same objects.
var sharedNames = []string{"r1", "r2", "r3", "r4", "x", "y", "z"}

func TestVerif_C03_SharedPolicies(t *testing.T) {
	seed := kit.Seed(c03DefaultSeed)
	shard, shards := kit.Shard()
	r := kit.NewResult(t, "c03-shared-policies", seed, "a pool of 5 parsed policy objects over 1-2 patterns with allowed/denied/required parameter lists is shared (as the policy-store cache does); ACL A is built from 2-3 of them and decides ~100 requests aimed at its merged constraints (also checked against the reference); then 6 further ACLs are built from other subsets of the same objects; A must still decide every request the same way; a case = one pool, non-trivial = A merges one pattern from >=2 of its policies")
	defer r.Write(t)
	for _, a := range refAssumptions {
		r.Assume(a)
	}
	c := &checker{r: r}
	for k := 0; k < kit.N(6000, 12000); k++ {
		gk := k*shards + shard
		id := fmt.Sprintf("shared:%d", gk)
		if !kit.WantCase(id) {
			continue
		}
		rng := kit.NewRand(seed, uint64(2000000+gk))
		base := genConcretePath(rng, 2, 3)
		pool := []string{genPatternFrom(rng, base)}
		if rng.Chance(1, 3) {
			pool = append(pool, genPatternFrom(rng, base))
		}
		specs := make([]policySpec, 5)
		objs := make([]*Policy, 5)
		bad := false
		for i := range specs {
			specs[i] = policySpec{Name: fmt.Sprintf("p%d", i)}
			for n := 0; n < 1+rng.Intn(2); n++ {
				st := stanzaSpec{Pattern: kit.Pick(rng, pool), Caps: []string{"read", "update", "create", "list"}}
				if rng.Chance(1, 2) {
					st.Allowed = genParamMap(rng, true)
				}
				if rng.Chance(1, 4) {
					st.Denied = genParamMap(rng, false)
				}
				if rng.Chance(2, 3) {
					seen := map[string]bool{}
					for j := 0; j < 1+rng.Intn(7); j++ {
						nm := kit.Pick(rng, sharedNames)
						if !seen[nm] {
							seen[nm] = true
							st.Required = append(st.Required, nm)
						}
					}
				}
				specs[i].Stanzas = append(specs[i].Stanzas, st)
			}
			p, err := parseSpec(specs[i])
			if err != nil {
				r.Violate("C03-policy-rejected", id, err.Error(), mkWitness(specs[i:i+1], "", nil, nil, nil))
				bad = true
				break
			}
			objs[i] = p
		}
		if bad {
			continue
		}
		r.Eval(1)
		subset := func() []int { return rng.Perm(5)[:2+rng.Intn(2)] }
		sa := subset()
		var psA []policySpec
		var objA []*Policy
		for _, x := range sa {
			psA = append(psA, specs[x])
			objA = append(objA, objs[x])
		}
		aclA, err := NewACL(nsCtx(""), objA)
		if err != nil {
			r.Violate("C03-policy-rejected", id, err.Error(), mkWitness(psA, "", nil, nil, nil))
			continue
		}
		refA := refBuild(psA, "")
		var reqs []reqSpec
		bp := strings.Join(base, "/")
		refPool := refBuild(specs, "")
		for _, p := range []string{bp, bp + "/", bp + "/" + kit.Pick(rng, genSegs)} {
			rule := refA.match(p, false).rule
			ruleAll := refPool.match(p, false).rule
			for _, op := range []string{"read", "update", "create"} {
				for n := 0; n < 12; n++ {
					q := reqSpec{Path: p, Op: op}
					switch {
					case rule == nil || n >= 10:
						q.Data = genData(rng)
					case n < 4:
						q.Data, _ = genDataFor(rng, rule)
					case n < 7:
						// satisfy A, then leave out one required name and add some other name
						q.Data, _ = genDataFor(rng, rule)
						if len(rule.required) > 0 {
							names := make([]string, 0, len(rule.required))
							for nm := range rule.required {
								names = append(names, nm)
							}
							sort.Strings(names)
							delete(q.Data, kit.Pick(rng, names))
						}
						nm := kit.Pick(rng, sharedNames)
						if _, ok := q.Data[nm]; !ok {
							q.Data[nm] = kit.Pick(rng, genStrValues)
						}
					default:
						// satisfy A, then give one parameter a value some other pool policy lists
						q.Data, _ = genDataFor(rng, rule)
						if ruleAll != nil {
							for _, nm := range sharedNames {
								if vals := ruleAll.allowed[nm]; len(vals) > 0 {
									if _, ok := q.Data[nm]; ok || rng.Chance(1, 3) {
										v := vals[rng.Intn(len(vals))]
										if sv, ok := v.(string); ok {
											v = strings.ReplaceAll(sv, "*", "x")
										}
										q.Data[nm] = v
										break
									}
								}
							}
						}
					}
					reqs = append(reqs, q)
				}
			}
		}
		before := make([]implDecision, len(reqs))
		merged := false
		for i, q := range reqs {
			got, want := c.compareDecision(id, psA, "", aclA, refA, q)
			before[i] = got
			if got.Allowed {
				r.Count("allowed_before", 1)
			}
			if want.info.rule != nil && want.info.rule.stanzas >= 2 {
				merged = true
			}
		}
		if merged {
			r.Nontrivial(id)
			r.Count("pools_where_A_merges_a_pattern", 1)
		}
		var others [][]int
		for n := 0; n < 6; n++ {
			sb := subset()
			if n%2 == 0 && sb[0] != sa[0] {
				// same first policy as A, different company
				for i, x := range sb {
					if x == sa[0] {
						sb[i] = sb[0]
					}
				}
				sb[0] = sa[0]
			}
			others = append(others, sb)
			var objB []*Policy
			for _, x := range sb {
				objB = append(objB, objs[x])
			}
			if _, err := NewACL(nsCtx(""), objB); err != nil {
				r.Violate("C03-policy-rejected", id, err.Error(), nil)
			}
			r.Count("other_acls_built", 1)
		}
		var firstWiden, firstNarrow = -1, -1
		after := make([]implDecision, len(reqs))
		for i, q := range reqs {
			after[i] = implDecide(aclA, q)
			r.Count("decisions_rechecked", 1)
			if after[i].Allowed == before[i].Allowed {
				continue
			}
			if after[i].Allowed {
				r.Count("drift:request_now_allowed", 1)
				if firstWiden < 0 {
					firstWiden = i
				}
			} else {
				r.Count("drift:request_now_denied", 1)
				if firstNarrow < 0 {
					firstNarrow = i
				}
			}
		}
		i := firstWiden
		if i < 0 {
			i = firstNarrow
		}
		if i >= 0 {
			q := reqs[i]
			want := refA.decide(q)
			w := mkWitness(psA, "", &q, map[string]any{"before": before[i], "after": after[i]}, want)
			w.Order = sa
			w.Extra = map[string]any{"pool": renderAll(specs), "acl_A_uses_pool_policies": sa, "acls_built_afterwards_use": others}
			dir := "now ALLOWS a request its policies deny"
			if !after[i].Allowed {
				dir = "now DENIES a request its policies allow"
			}
			r.Violate("C03-acl-decision-changes-after-unrelated-newacl", id,
				fmt.Sprintf("ACL built from shared policy objects %v decided %s %q data=%v allowed=%v (reference %v); after ACLs for %v were built from the same objects it %s",
					sa, q.Op, q.Path, q.Data, before[i].Allowed, want.Allowed, others, dir), w)
		}
	}
	r.Sample(map[string]any{"case": "shape", "pool": []string{`p0: path "a/b" {capabilities=[...] required_parameters=["r1","r2","r3"]}`, `p1: path "a/b" {... required_parameters=["x"]}`, `p2: path "a/b" {... required_parameters=["y"]}`},
		"oracle": "A=NewACL(p0,p1) requires r1,r2,r3,x; building NewACL(p0,p2) afterwards must not change what A requires"})
	if kit.OnlyCase() == "" {
		r.Require("decisions_rechecked", 100000/int64(shards))
		r.Require("pools_where_A_merges_a_pattern", 500/int64(shards))
		r.Require("allowed_before", 10000/int64(shards))
		r.Require("ref:required-parameter-missing", 100)
		r.Require("ref:parameter-value-not-allowed", 100)
	}
}
