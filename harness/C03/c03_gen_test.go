//go:build verif

package policy

// Rendering of policy specifications to HCL/JSON text, construction of the real
// ACL from that text, and the seeded generators of the random tier.

import (
	"context"
	"encoding/json"
	"fmt"
	"sort"
	"strconv"
	"strings"
	"time"

	kit "github.com/openbao/openbao/sdk/v2/helper/verifkit"
	"github.com/openbao/openbao/sdk/v2/logical"
	"github.com/openbao/openbao/v2/internal/helper/namespace"
)

// ---- namespaces -----------------------------------------------------------------

var (
	nsObjs = map[string]*namespace.Namespace{"": namespace.RootNamespace}
	nsCtxs = map[string]context.Context{}
)

func nsObj(path string) *namespace.Namespace {
	if n, ok := nsObjs[path]; ok {
		return n
	}
	n := &namespace.Namespace{ID: "id" + strings.ReplaceAll(path, "/", "_"), Path: path}
	nsObjs[path] = n
	return n
}

func nsCtx(path string) context.Context {
	if c, ok := nsCtxs[path]; ok {
		return c
	}
	c := namespace.ContextWithNamespace(context.Background(), nsObj(path))
	nsCtxs[path] = c
	return c
}

// ---- rendering --------------------------------------------------------------------

func hclValue(v any) string {
	switch x := v.(type) {
	case string:
		return strconv.Quote(x)
	case int:
		return strconv.Itoa(x)
	case bool:
		return strconv.FormatBool(x)
	}
	panic(fmt.Sprintf("unrenderable value %T", v))
}

func hclStrings(xs []string) string {
	q := make([]string, len(xs))
	for i, x := range xs {
		q[i] = strconv.Quote(x)
	}
	return "[" + strings.Join(q, ", ") + "]"
}

func hclParamMap(m map[string][]any) string {
	keys := make([]string, 0, len(m))
	for k := range m {
		keys = append(keys, k)
	}
	sort.Strings(keys)
	var sb strings.Builder
	sb.WriteString("{\n")
	for _, k := range keys {
		vs := make([]string, len(m[k]))
		for i, v := range m[k] {
			vs[i] = hclValue(v)
		}
		fmt.Fprintf(&sb, "    %s = [%s]\n", strconv.Quote(k), strings.Join(vs, ", "))
	}
	sb.WriteString("  }")
	return sb.String()
}

func renderPolicy(p policySpec) string {
	if p.JSON {
		return renderPolicyJSON(p)
	}
	var sb strings.Builder
	for i, st := range p.Stanzas {
		fmt.Fprintf(&sb, "path %s {\n", strconv.Quote(st.Pattern))
		if st.Caps != nil || st.Legacy == "" {
			fmt.Fprintf(&sb, "  capabilities = %s\n", hclStrings(st.Caps))
		}
		if st.Legacy != "" {
			fmt.Fprintf(&sb, "  policy = %s\n", strconv.Quote(st.Legacy))
		}
		if st.Allowed != nil {
			fmt.Fprintf(&sb, "  allowed_parameters = %s\n", hclParamMap(st.Allowed))
		}
		if st.Denied != nil {
			fmt.Fprintf(&sb, "  denied_parameters = %s\n", hclParamMap(st.Denied))
		}
		if len(st.Required) > 0 {
			fmt.Fprintf(&sb, "  required_parameters = %s\n", hclStrings(st.Required))
		}
		if st.MinWrap > 0 {
			if i%2 == 0 {
				fmt.Fprintf(&sb, "  min_wrapping_ttl = \"%ds\"\n", st.MinWrap)
			} else {
				fmt.Fprintf(&sb, "  min_wrapping_ttl = %d\n", st.MinWrap)
			}
		}
		if st.MaxWrap > 0 {
			if i%2 == 1 {
				fmt.Fprintf(&sb, "  max_wrapping_ttl = \"%ds\"\n", st.MaxWrap)
			} else {
				fmt.Fprintf(&sb, "  max_wrapping_ttl = %d\n", st.MaxWrap)
			}
		}
		if st.PageLimit > 0 {
			fmt.Fprintf(&sb, "  pagination_limit = %d\n", st.PageLimit)
		}
		if st.FilterPath != "" {
			fmt.Fprintf(&sb, "  list_scan_response_keys_filter_path = %s\n", strconv.Quote(st.FilterPath))
		}
		sb.WriteString("}\n")
	}
	return sb.String()
}

func renderPolicyJSON(p policySpec) string {
	paths := map[string]any{}
	for _, st := range p.Stanzas {
		m := map[string]any{}
		if st.Caps != nil || st.Legacy == "" {
			caps := st.Caps
			if caps == nil {
				caps = []string{}
			}
			m["capabilities"] = caps
		}
		if st.Legacy != "" {
			m["policy"] = st.Legacy
		}
		if st.Allowed != nil {
			m["allowed_parameters"] = st.Allowed
		}
		if st.Denied != nil {
			m["denied_parameters"] = st.Denied
		}
		if len(st.Required) > 0 {
			m["required_parameters"] = st.Required
		}
		if st.MinWrap > 0 {
			m["min_wrapping_ttl"] = fmt.Sprintf("%ds", st.MinWrap)
		}
		if st.MaxWrap > 0 {
			m["max_wrapping_ttl"] = fmt.Sprintf("%ds", st.MaxWrap)
		}
		if st.PageLimit > 0 {
			m["pagination_limit"] = st.PageLimit
		}
		if st.FilterPath != "" {
			m["list_scan_response_keys_filter_path"] = st.FilterPath
		}
		paths[st.Pattern] = m
	}
	b, err := json.Marshal(map[string]any{"path": paths})
	if err != nil {
		panic(err)
	}
	return string(b)
}

func renderAll(ps []policySpec) []string {
	out := make([]string, len(ps))
	for i, p := range ps {
		if p.Root {
			out[i] = "<root policy>"
		} else {
			out[i] = fmt.Sprintf("# policy %q in namespace %q\n%s", p.Name, p.NS, renderPolicy(p))
		}
	}
	return out
}

// ---- the real thing ------------------------------------------------------------------

func parseSpec(p policySpec) (*Policy, error) {
	if p.Root {
		return &Policy{Name: "root", Namespace: nsObj(p.NS), Type: TypeACL}, nil
	}
	pol, err := ParseACLPolicy(nsObj(p.NS), renderPolicy(p))
	if err != nil {
		return nil, err
	}
	pol.Name = p.Name
	return pol, nil
}

func buildImpl(ps []policySpec, aclNS string) (*ACL, error) {
	pols := make([]*Policy, len(ps))
	for i, p := range ps {
		pol, err := parseSpec(p)
		if err != nil {
			return nil, fmt.Errorf("policy %d (%s): %w", i, p.Name, err)
		}
		pols[i] = pol
	}
	return NewACL(nsCtx(aclNS), pols)
}

type implDecision struct {
	Allowed   bool     `json:"allowed"`
	RootPrivs bool     `json:"root_privs"`
	IsRoot    bool     `json:"is_root,omitempty"`
	LimitSet  bool     `json:"limit_present_after,omitempty"`
	Limit     any      `json:"limit_after,omitempty"`
	Granting  []string `json:"granting_policies,omitempty"`
	Filter    string   `json:"response_keys_filter_path,omitempty"`
}

func implDecide(acl *ACL, q reqSpec) implDecision {
	req := &logical.Request{Path: q.Path, Operation: logical.Operation(q.Op)}
	if q.Data != nil {
		req.Data = make(map[string]any, len(q.Data))
		for k, v := range q.Data {
			req.Data[k] = v
		}
	}
	if q.WrapTTL > 0 {
		req.WrapInfo = &logical.RequestWrapInfo{TTL: time.Duration(q.WrapTTL) * time.Second}
	}
	res := acl.AllowOperation(nsCtx(q.NS), req, false)
	d := implDecision{Allowed: res.Allowed, RootPrivs: res.RootPrivs, IsRoot: res.IsRoot, Filter: res.ResponseKeysFilterPath}
	if v, ok := req.Data["limit"]; ok {
		d.LimitSet, d.Limit = true, v
	}
	for _, g := range res.GrantingPolicies {
		d.Granting = append(d.Granting, g.NamespacePath+g.Name)
	}
	return d
}

func implCapabilities(acl *ACL, ns, path string) []string {
	out := append([]string{}, acl.Capabilities(nsCtx(ns), path)...)
	sort.Strings(out)
	return out
}

// ---- generators (random tier) ---------------------------------------------------------

var (
	genSegs        = []string{"a", "b", "c", "ab"}
	genParamNames  = []string{"x", "y", "z", "limit"}
	genStrValues   = []string{"v1", "v2", "foo-1", "foo-2", "bar", "1", "true"}
	genGlobValues  = []string{"foo-*", "*-1", "*oo*", "v*"}
	genCapsAll     = []string{"create", "read", "update", "patch", "delete", "list", "scan", "sudo", "deny"}
	genNamespaces  = []string{"", "n1/", "n1/n2/"}
	genFilterPaths = []string{"{{ .path }}{{ .key }}", "a/{{ .key }}"}
)

func genConcretePath(rng *kit.Rand, minSegs, maxSegs int) []string {
	n := minSegs + rng.Intn(maxSegs-minSegs+1)
	out := make([]string, n)
	for i := range out {
		out[i] = kit.Pick(rng, genSegs)
	}
	return out
}

// genPatternFrom generalises a concrete path into a pattern that is likely to
// match it (literal or '+' per segment, cut somewhere, optional glob).
func genPatternFrom(rng *kit.Rand, base []string) string {
	if len(base) == 0 || rng.Chance(1, 40) {
		return "*"
	}
	n := 1 + rng.Intn(len(base))
	segs := make([]string, n)
	for i := 0; i < n; i++ {
		switch {
		case rng.Chance(3, 10):
			segs[i] = "+"
		case rng.Chance(1, 12):
			segs[i] = kit.Pick(rng, genSegs) // a sibling, may not match
		default:
			segs[i] = base[i]
		}
	}
	p := strings.Join(segs, "/")
	last := segs[n-1]
	switch rng.Intn(10) {
	case 0, 1:
		p += "/*"
	case 2:
		if last != "+" {
			p += "*"
		} else {
			p += "/*"
		}
	case 3:
		if last != "+" && len(last) > 1 {
			p = p[:len(p)-1] + "*" // partial-segment glob: "ab" -> "a*"
		}
	case 4:
		p += "/"
	case 5:
		if n < len(base) {
			p += "/" + base[n][:1] + "*"
		}
	}
	return p
}

func genValueList(rng *kit.Rand) []any {
	n := rng.Intn(8) // 0 = any value
	if rng.Chance(1, 4) {
		n = 0
	}
	out := make([]any, 0, n)
	for i := 0; i < n; i++ {
		switch rng.Intn(10) {
		case 0:
			out = append(out, 1+rng.Intn(2))
		case 1:
			out = append(out, rng.Chance(1, 2))
		case 2, 3:
			out = append(out, kit.Pick(rng, genGlobValues))
		default:
			out = append(out, kit.Pick(rng, genStrValues))
		}
	}
	return out
}

func genParamMap(rng *kit.Rand, star bool) map[string][]any {
	m := map[string][]any{}
	n := 1 + rng.Intn(3)
	for i := 0; i < n; i++ {
		m[kit.Pick(rng, genParamNames)] = genValueList(rng)
	}
	if star && rng.Chance(1, 4) {
		m["*"] = []any{}
	}
	return m
}

func genCaps(rng *kit.Rand) []string {
	var out []string
	switch rng.Intn(12) {
	case 0:
		return []string{"deny"}
	case 1:
		return []string{} // no capability at all
	case 2:
		out = append(out, "deny") // deny among others collapses to deny
	}
	for _, c := range genCapsAll[:8] {
		if rng.Chance(2, 5) {
			out = append(out, c)
		}
	}
	if out == nil {
		out = []string{kit.Pick(rng, genCapsAll[:8])}
	}
	rng.Shuffle(len(out), func(i, j int) { out[i], out[j] = out[j], out[i] })
	return out
}

func genStanza(rng *kit.Rand, pattern string, constraints bool) stanzaSpec {
	st := stanzaSpec{Pattern: pattern, Caps: genCaps(rng)}
	if rng.Chance(1, 12) {
		st.Legacy = kit.Pick(rng, []string{"deny", "read", "write", "sudo"})
		if rng.Chance(1, 2) {
			st.Caps = nil
		}
	}
	if !constraints || rng.Chance(2, 5) {
		return st
	}
	if rng.Chance(1, 3) {
		st.Allowed = genParamMap(rng, true)
	}
	if rng.Chance(1, 3) {
		st.Denied = genParamMap(rng, true)
	}
	if rng.Chance(1, 3) {
		n := 1 + rng.Intn(7)
		seen := map[string]bool{}
		for i := 0; i < n; i++ {
			k := kit.Pick(rng, append([]string{"r1", "r2", "r3", "r4"}, genParamNames...))
			if !seen[k] {
				seen[k] = true
				st.Required = append(st.Required, k)
			}
		}
	}
	if rng.Chance(1, 4) {
		st.MinWrap = 1 + rng.Intn(10)
	}
	if rng.Chance(1, 4) {
		st.MaxWrap = st.MinWrap + rng.Intn(10)
		if st.MaxWrap == 0 {
			st.MaxWrap = 1 + rng.Intn(10)
		}
	}
	if rng.Chance(1, 3) {
		st.PageLimit = 1 + rng.Intn(20)
	}
	if rng.Chance(1, 5) && st.Legacy == "" {
		list, deny := false, false
		for _, c := range st.Caps {
			list = list || c == "list"
			deny = deny || c == "deny"
		}
		if list && !deny {
			st.FilterPath = kit.Pick(rng, genFilterPaths)
		}
	}
	return st
}

func genData(rng *kit.Rand) map[string]any {
	n := rng.Intn(4)
	if n == 0 {
		if rng.Chance(1, 2) {
			return nil
		}
		return map[string]any{}
	}
	m := map[string]any{}
	names := append([]string{"r1", "r2", "r3", "r4"}, genParamNames...)
	if rng.Chance(1, 3) {
		n += 4
	}
	for i := 0; i < n; i++ {
		var v any
		switch rng.Intn(8) {
		case 0:
			v = 1 + rng.Intn(2)
		case 1:
			v = rng.Chance(1, 2)
		default:
			v = kit.Pick(rng, genStrValues)
		}
		m[kit.Pick(rng, names)] = v
	}
	return m
}

func genLimit(rng *kit.Rand) (any, bool) {
	switch rng.Intn(9) {
	case 0, 1:
		return nil, false
	case 2:
		return "max", true
	case 3:
		return 0, true
	case 4:
		return strconv.Itoa(rng.Intn(25)), true
	case 5:
		return -1 - rng.Intn(3), true
	case 6:
		return "junk", true
	default:
		return rng.Intn(25), true
	}
}

// genDataFor builds a parameter map (and wrapping TTL) that tries to satisfy
// the constraints of rule, with small deviations.
func genDataFor(rng *kit.Rand, rule *refRule) (map[string]any, int) {
	data := map[string]any{}
	valueFor := func(k string) any {
		if vals := rule.allowed[k]; len(vals) > 0 && rng.Chance(4, 5) {
			v := vals[rng.Intn(len(vals))]
			if s, ok := v.(string); ok {
				return strings.ReplaceAll(s, "*", "x")
			}
			return v
		}
		if vals := rule.denied[k]; len(vals) > 0 && rng.Chance(1, 3) {
			v := vals[rng.Intn(len(vals))]
			if s, ok := v.(string); ok {
				return strings.ReplaceAll(s, "*", "x")
			}
			return v
		}
		if rng.Chance(1, 8) {
			return 1 + rng.Intn(2)
		}
		return kit.Pick(rng, genStrValues)
	}
	keys := func(m map[string][]any) []string {
		out := make([]string, 0, len(m))
		for k := range m {
			if k != "*" {
				out = append(out, k)
			}
		}
		sort.Strings(out)
		return out
	}
	req := make([]string, 0, len(rule.required))
	for k := range rule.required {
		req = append(req, k)
	}
	sort.Strings(req)
	for _, k := range req {
		if rng.Chance(14, 15) {
			data[k] = valueFor(k)
		}
	}
	for _, k := range keys(rule.allowed) {
		if rng.Chance(1, 2) {
			data[k] = valueFor(k)
		}
	}
	for _, k := range keys(rule.denied) {
		if rng.Chance(1, 6) {
			data[k] = valueFor(k)
		}
	}
	if rng.Chance(1, 5) {
		k := kit.Pick(rng, append([]string{"r1", "r2", "r3", "r4"}, genParamNames...))
		data[k] = valueFor(k)
	}
	wrap := 0
	if rule.minWrap > 0 || rule.maxWrap > 0 {
		if rng.Chance(5, 6) {
			lo, hi := rule.minWrap, rule.maxWrap
			if lo == 0 {
				lo = 1
			}
			if hi < lo {
				hi = lo + 4
			}
			wrap = lo + rng.Intn(hi-lo+1)
			if rng.Chance(1, 6) {
				wrap = hi + 1
			}
		}
	} else if rng.Chance(1, 6) {
		wrap = 1 + rng.Intn(20)
	}
	return data, wrap
}
