//go:build verif

package pki

// Reference oracle for C15. Everything in this file is written from the role /
// issuer / endpoint documentation (website/content/docs/api/secret/pki.mdx) and
// from the property statement - not from cert_util.go. Names are compared as
// sequences of DNS labels (case-insensitive, IDNA-normalised), never by string
// suffix.

import (
	"crypto/ecdsa"
	"crypto/ed25519"
	"crypto/rsa"
	"crypto/x509"
	"encoding/asn1"
	"fmt"
	"net"
	"strings"
	"time"

	"golang.org/x/net/idna"
)

// ---------------------------------------------------------------- role as sent

type c15Role struct {
	Name string

	AllowedDomains   []string
	AllowBare        bool
	AllowSub         bool
	AllowGlob        bool
	AllowWildcard    bool
	AllowLocalhost   bool
	AllowAny         bool
	EnforceHostnames bool

	AllowIPSANs bool
	IPCIDRs     []string
	URISANs     []string
	OtherSANs   []string

	KeyType string // rsa | ec | ed25519 | any
	KeyBits int    // 0 = documented default (rsa 2048, ec 256)

	TTL    time.Duration // 0 = unset
	MaxTTL time.Duration // 0 = unset

	NotBeforeDuration time.Duration // 0 = not sent (documented default 30s)
	NotBeforeBound    string        // permit | duration | forbid
	NotAfterBound     string        // permit | ttl-limited | forbid | RFC3339 timestamp
	RoleNotBefore     string
	RoleNotAfter      string

	KeyUsage    []string
	ServerFlag  bool
	ClientFlag  bool
	CodeSign    bool
	EmailProt   bool
	ExtKeyUsage []string
	EKUOIDs     []string

	UseCSRCN      bool
	UseCSRSANs    bool
	RequireCN     bool
	CNValidations []string // "email","hostname" or "disabled"
	BCValidNonCA  bool

	IssuerRef string

	Organization []string
	OU           []string

	AllowedSerials []string
	AllowedUserIDs []string

	NoStore       bool
	GenerateLease bool
}

func (r *c15Role) apiData() map[string]any {
	d := map[string]any{
		"allowed_domains":                    r.AllowedDomains,
		"allow_bare_domains":                 r.AllowBare,
		"allow_subdomains":                   r.AllowSub,
		"allow_glob_domains":                 r.AllowGlob,
		"allow_wildcard_certificates":        r.AllowWildcard,
		"allow_localhost":                    r.AllowLocalhost,
		"allow_any_name":                     r.AllowAny,
		"enforce_hostnames":                  r.EnforceHostnames,
		"allow_ip_sans":                      r.AllowIPSANs,
		"allowed_ip_sans_cidr":               r.IPCIDRs,
		"allowed_uri_sans":                   r.URISANs,
		"allowed_other_sans":                 r.OtherSANs,
		"key_type":                           r.KeyType,
		"key_bits":                           r.KeyBits,
		"not_before_bound":                   r.NotBeforeBound,
		"not_after_bound":                    r.NotAfterBound,
		"key_usage":                          r.KeyUsage,
		"server_flag":                        r.ServerFlag,
		"client_flag":                        r.ClientFlag,
		"code_signing_flag":                  r.CodeSign,
		"email_protection_flag":              r.EmailProt,
		"ext_key_usage":                      r.ExtKeyUsage,
		"ext_key_usage_oids":                 r.EKUOIDs,
		"use_csr_common_name":                r.UseCSRCN,
		"use_csr_sans":                       r.UseCSRSANs,
		"require_cn":                         r.RequireCN,
		"cn_validations":                     r.CNValidations,
		"basic_constraints_valid_for_non_ca": r.BCValidNonCA,
		"issuer_ref":                         r.IssuerRef,
		"organization":                       r.Organization,
		"ou":                                 r.OU,
		"allowed_serial_numbers":             r.AllowedSerials,
		"allowed_user_ids":                   r.AllowedUserIDs,
		"no_store":                           r.NoStore,
		"generate_lease":                     r.GenerateLease,
	}
	if r.TTL > 0 {
		d["ttl"] = fmt.Sprintf("%ds", int(r.TTL/time.Second))
	}
	if r.MaxTTL > 0 {
		d["max_ttl"] = fmt.Sprintf("%ds", int(r.MaxTTL/time.Second))
	}
	if r.NotBeforeDuration > 0 {
		d["not_before_duration"] = fmt.Sprintf("%ds", int(r.NotBeforeDuration/time.Second))
	}
	if r.RoleNotBefore != "" {
		d["not_before"] = r.RoleNotBefore
	}
	if r.RoleNotAfter != "" {
		d["not_after"] = r.RoleNotAfter
	}
	return d
}

// switchVector is the role's fingerprint used for de-duplicating evidence.
func (r *c15Role) switchVector() string {
	b := func(v bool) byte {
		if v {
			return '1'
		}
		return '0'
	}
	return fmt.Sprintf("%v|%c%c%c%c%c%c%c|ip%c%d|u%d|o%d|%s%d|%v/%v|%v|%s|%s|%s%s|ku%v|%c%c%c%c|%v%v|%c%c%c|%v|%c|%s|o%d|s%d|u%d|%c%c",
		r.AllowedDomains, b(r.AllowBare), b(r.AllowSub), b(r.AllowGlob), b(r.AllowWildcard), b(r.AllowLocalhost), b(r.AllowAny), b(r.EnforceHostnames),
		b(r.AllowIPSANs), len(r.IPCIDRs), len(r.URISANs), len(r.OtherSANs), r.KeyType, r.KeyBits, r.TTL, r.MaxTTL, r.NotBeforeDuration,
		r.NotBeforeBound, boundKind(r.NotAfterBound), tern(r.RoleNotBefore != "", "nb", ""), tern(r.RoleNotAfter != "", "na", ""), r.KeyUsage,
		b(r.ServerFlag), b(r.ClientFlag), b(r.CodeSign), b(r.EmailProt), r.ExtKeyUsage, r.EKUOIDs,
		b(r.UseCSRCN), b(r.UseCSRSANs), b(r.RequireCN), r.CNValidations, b(r.BCValidNonCA), r.IssuerRef,
		len(r.Organization), len(r.AllowedSerials), len(r.AllowedUserIDs), b(r.NoStore), b(r.GenerateLease))
}

func tern(c bool, a, b string) string {
	if c {
		return a
	}
	return b
}

func boundKind(s string) string {
	switch s {
	case "", "permit", "forbid", "ttl-limited":
		return s
	}
	return "timestamp"
}

// ---------------------------------------------------------------- label helpers

// refLabels splits a host name into labels: one trailing dot (the root label)
// is dropped, every label is lower-cased and converted to its ASCII (punycode)
// form so that U-labels and A-labels of the same name compare equal.
func refLabels(host string) []string {
	host = strings.TrimSuffix(host, ".")
	if host == "" {
		return nil
	}
	parts := strings.Split(host, ".")
	out := make([]string, len(parts))
	for i, p := range parts {
		out[i] = refNormLabel(p)
	}
	return out
}

func refNormLabel(l string) string {
	ascii := true
	for i := 0; i < len(l); i++ {
		if l[i] >= 0x80 {
			ascii = false
			break
		}
	}
	if !ascii {
		if a, err := idna.Punycode.ToASCII(l); err == nil {
			l = a
		}
	}
	return strings.ToLower(l)
}

func refEqLabels(a, b []string) bool {
	if len(a) != len(b) || len(a) == 0 {
		return false
	}
	for i := range a {
		if a[i] != b[i] {
			return false
		}
	}
	return true
}

// refProperSub: name is a proper descendant of base (has at least one more
// label and ends with base's label sequence).
func refProperSub(name, base []string) bool {
	if len(base) == 0 || len(name) <= len(base) {
		return false
	}
	return refEqLabels(name[len(name)-len(base):], base)
}

// refLDHLabel: RFC 952/1123 host name label (letters, digits, hyphen; no
// leading/trailing hyphen; 1..63 octets) after conversion to an A-label.
func refLDHLabel(l string) bool {
	l = refNormLabel(l)
	if len(l) < 1 || len(l) > 63 {
		return false
	}
	if l[0] == '-' || l[len(l)-1] == '-' {
		return false
	}
	for i := 0; i < len(l); i++ {
		c := l[i]
		if !(c >= 'a' && c <= 'z' || c >= '0' && c <= '9' || c == '-') {
			return false
		}
	}
	return true
}

// refGlob is a shell-style glob where '*' matches any (possibly empty) run of
// characters, including dots (documented: globs match across domain parts).
func refGlob(pattern, s string) bool {
	// iterative matcher with backtracking on the last star
	p, i := 0, 0
	star, mark := -1, 0
	for i < len(s) {
		if p < len(pattern) && pattern[p] == '*' {
			star, mark = p, i
			p++
			continue
		}
		if p < len(pattern) && pattern[p] == s[i] {
			p++
			i++
			continue
		}
		if star >= 0 {
			mark++
			i = mark
			p = star + 1
			continue
		}
		return false
	}
	for p < len(pattern) && pattern[p] == '*' {
		p++
	}
	return p == len(pattern)
}

func refGlobFold(pattern, s string) bool {
	if refGlob(strings.ToLower(pattern), strings.ToLower(s)) {
		return true
	}
	// also compare the A-label forms
	pa := strings.Join(refLabelsKeepEmpty(pattern), ".")
	sa := strings.Join(refLabelsKeepEmpty(s), ".")
	return refGlob(pa, sa)
}

func refLabelsKeepEmpty(host string) []string {
	parts := strings.Split(host, ".")
	for i, p := range parts {
		parts[i] = refNormLabel(p)
	}
	return parts
}

// ---------------------------------------------------------------- name oracle

type refVerdict struct {
	OK  bool
	Via string // which documented rule admits the name
	Why string // why it is not admissible
}

func refNo(why string) refVerdict  { return refVerdict{Why: why} }
func refYes(via string) refVerdict { return refVerdict{OK: true, Via: via} }

// refAdmit decides whether a DNS name, e-mail address or common name may appear
// on a certificate issued against role r (documentation of allowed_domains,
// allow_bare_domains, allow_subdomains, allow_glob_domains,
// allow_wildcard_certificates, allow_localhost, allow_any_name,
// enforce_hostnames).
func refAdmit(r *c15Role, name string) refVerdict {
	if name == "" {
		return refNo("empty")
	}
	host := name
	isEmail := false
	if i := strings.LastIndex(name, "@"); i >= 0 {
		isEmail = true
		host = name[i+1:]
		if host == "" {
			return refNo("email-without-domain")
		}
	}
	raw := strings.Split(strings.TrimSuffix(host, "."), ".")
	wild := strings.Contains(host, "*")
	reducedRaw := raw
	if wild {
		// allow_wildcard_certificates=false "prevents wildcards from being issued
		// even if they would've been allowed by an option above" (incl. allow_any_name).
		if !r.AllowWildcard {
			return refNo("wildcard-disallowed")
		}
		// only the four documented forms: a single '*' inside the left-most label
		if strings.Count(host, "*") != 1 || !strings.Contains(raw[0], "*") {
			return refNo("wildcard-form")
		}
		if isEmail {
			return refNo("wildcard-email")
		}
		reducedRaw = raw[1:]
	}
	if r.EnforceHostnames {
		total := 0
		for _, l := range reducedRaw {
			if !refLDHLabel(l) {
				return refNo("hostname")
			}
			total += len(refNormLabel(l)) + 1
		}
		if wild {
			wl := strings.Replace(raw[0], "*", "", 1)
			if wl != "" {
				// what remains of the wildcard label must be made of host name characters
				for i := 0; i < len(wl); i++ {
					c := wl[i]
					if !(c >= 'a' && c <= 'z' || c >= 'A' && c <= 'Z' || c >= '0' && c <= '9' || c == '-') {
						return refNo("hostname")
					}
				}
				if raw[0][0] == '-' || raw[0][len(raw[0])-1] == '-' {
					return refNo("hostname")
				}
			}
			total += len(raw[0]) + 1
		}
		if total > 254 {
			return refNo("hostname")
		}
	}
	if r.AllowAny {
		return refYes("any")
	}

	full := refLabels(host)
	reduced := full
	if wild {
		reduced = full[1:]
	}

	if r.AllowLocalhost {
		for _, base := range [][]string{{"localhost"}, {"localdomain"}} {
			if refEqLabels(full, base) {
				return refYes("localhost")
			}
			if r.AllowSub {
				if refProperSub(reduced, base) || (wild && refEqLabels(reduced, base)) {
					return refYes("localhost-sub")
				}
			}
		}
	}

	for _, d := range r.AllowedDomains {
		if d == "" {
			continue
		}
		dl := refLabels(d)
		if r.AllowBare && refEqLabels(full, dl) {
			return refYes("bare")
		}
		if r.AllowSub {
			if !wild && refProperSub(full, dl) {
				return refYes("sub")
			}
			if wild && (refProperSub(reduced, dl) || refEqLabels(reduced, dl)) {
				return refYes("wild-sub")
			}
		}
		if r.AllowGlob && strings.Contains(d, "*") && refGlobFold(d, host) {
			return refYes("glob")
		}
	}
	return refNo("no-domain-match")
}

// refEmailGlobSpansAt recognises the precise signature of one finding: an
// e-mail address whose *host part* is not admissible, but for which some glob
// in allowed_domains matches the whole string "local@host" (the '*' swallowing
// the '@').
func refEmailGlobSpansAt(r *c15Role, name string) bool {
	i := strings.LastIndex(name, "@")
	if i < 0 || !r.AllowGlob {
		return false
	}
	host := name[i+1:]
	for _, d := range r.AllowedDomains {
		if strings.Contains(d, "*") && refGlob(strings.ToLower(d), strings.ToLower(name)) && !refGlobFold(d, host) {
			return true
		}
	}
	return false
}

// refWildcardLocalhostNoSub recognises the precise signature of a second
// finding: a wildcard name whose remainder is exactly localhost/localdomain
// ("*.localhost", "w*.localdomain"), on a role with allow_localhost=true and
// allow_subdomains=false. The documentation says allow_localhost "strictly
// applies to localhost and localdomain"; a wildcard below localhost is a
// subdomain form and needs allow_subdomains.
func refWildcardLocalhostNoSub(r *c15Role, name string) bool {
	if !r.AllowLocalhost || r.AllowSub || strings.Contains(name, "@") || strings.Count(name, "*") != 1 {
		return false
	}
	l := refLabels(name)
	if len(l) != 2 || !strings.Contains(l[0], "*") {
		return false
	}
	return l[1] == "localhost" || l[1] == "localdomain"
}

// refCNType: cn_validations gate ("email" if it contains an @, "hostname" otherwise).
func refCNTypeAllowed(r *c15Role, cn string) bool {
	if len(r.CNValidations) == 1 && r.CNValidations[0] == "disabled" {
		return true
	}
	want := "hostname"
	if strings.Contains(cn, "@") {
		want = "email"
	}
	for _, v := range r.CNValidations {
		if v == want {
			return true
		}
	}
	return false
}

func refCNDisabled(r *c15Role) bool {
	return len(r.CNValidations) == 1 && r.CNValidations[0] == "disabled"
}

// ---------------------------------------------------------------- other SAN kinds

func refIPAllowed(r *c15Role, ip net.IP) (bool, string) {
	if !r.AllowIPSANs {
		return false, "ip-sans-disallowed"
	}
	if len(r.IPCIDRs) == 0 {
		return true, ""
	}
	for _, c := range r.IPCIDRs {
		_, n, err := net.ParseCIDR(c)
		if err == nil && n.Contains(ip) {
			return true, ""
		}
	}
	return false, "ip-outside-cidr"
}

func refURIAllowed(r *c15Role, uri string) bool {
	for _, p := range r.URISANs {
		if refGlob(p, uri) {
			return true
		}
	}
	return false
}

// other SAN spec "<oid>;<type>:<value>"
func refSplitOther(s string) (oid, val string, ok bool) {
	a := strings.SplitN(s, ";", 2)
	if len(a) != 2 {
		return "", "", false
	}
	b := strings.SplitN(a[1], ":", 2)
	if len(b) != 2 {
		return "", "", false
	}
	t := strings.ToLower(b[0])
	if t != "utf8" && t != "utf-8" {
		return "", "", false
	}
	return a[0], b[1], true
}

func refOtherAllowed(r *c15Role, oid, val string) bool {
	if len(r.OtherSANs) == 1 && r.OtherSANs[0] == "*" {
		return true
	}
	for _, a := range r.OtherSANs {
		ao, av, ok := refSplitOther(a)
		if ok && ao == oid && refGlob(av, val) {
			return true
		}
	}
	return false
}

func refListGlobFold(patterns []string, v string) bool {
	for _, p := range patterns {
		if p == "" {
			continue
		}
		if refGlob(strings.ToLower(p), strings.ToLower(v)) {
			return true
		}
	}
	return false
}

// ---------------------------------------------------------------- usages

var refKeyUsageNames = map[string]x509.KeyUsage{
	"digitalsignature":  x509.KeyUsageDigitalSignature,
	"contentcommitment": x509.KeyUsageContentCommitment,
	"keyencipherment":   x509.KeyUsageKeyEncipherment,
	"dataencipherment":  x509.KeyUsageDataEncipherment,
	"keyagreement":      x509.KeyUsageKeyAgreement,
	"certsign":          x509.KeyUsageCertSign,
	"crlsign":           x509.KeyUsageCRLSign,
	"encipheronly":      x509.KeyUsageEncipherOnly,
	"decipheronly":      x509.KeyUsageDecipherOnly,
}

func refKeyUsage(names []string) x509.KeyUsage {
	var ku x509.KeyUsage
	for _, n := range names {
		ku |= refKeyUsageNames[strings.ToLower(strings.TrimSpace(n))]
	}
	return ku
}

var refExtKeyUsageNames = map[string]x509.ExtKeyUsage{
	"any":                        x509.ExtKeyUsageAny,
	"serverauth":                 x509.ExtKeyUsageServerAuth,
	"clientauth":                 x509.ExtKeyUsageClientAuth,
	"codesigning":                x509.ExtKeyUsageCodeSigning,
	"emailprotection":            x509.ExtKeyUsageEmailProtection,
	"ipsecendsystem":             x509.ExtKeyUsageIPSECEndSystem,
	"ipsectunnel":                x509.ExtKeyUsageIPSECTunnel,
	"ipsecuser":                  x509.ExtKeyUsageIPSECUser,
	"timestamping":               x509.ExtKeyUsageTimeStamping,
	"ocspsigning":                x509.ExtKeyUsageOCSPSigning,
	"microsoftservergatedcrypto": x509.ExtKeyUsageMicrosoftServerGatedCrypto,
	"netscapeservergatedcrypto":  x509.ExtKeyUsageNetscapeServerGatedCrypto,
}

func refRoleEKUs(r *c15Role) map[x509.ExtKeyUsage]bool {
	m := map[x509.ExtKeyUsage]bool{}
	if r.ServerFlag {
		m[x509.ExtKeyUsageServerAuth] = true
	}
	if r.ClientFlag {
		m[x509.ExtKeyUsageClientAuth] = true
	}
	if r.CodeSign {
		m[x509.ExtKeyUsageCodeSigning] = true
	}
	if r.EmailProt {
		m[x509.ExtKeyUsageEmailProtection] = true
	}
	for _, n := range r.ExtKeyUsage {
		if v, ok := refExtKeyUsageNames[strings.ToLower(strings.TrimSpace(n))]; ok {
			m[v] = true
		}
	}
	return m
}

// ---------------------------------------------------------------- keys

// refKeyInfo returns ("rsa"|"ec"|"ed25519"|"?", bits).
func refKeyInfo(pub any) (string, int) {
	switch k := pub.(type) {
	case *rsa.PublicKey:
		return "rsa", k.N.BitLen()
	case *ecdsa.PublicKey:
		return "ec", k.Curve.Params().BitSize
	case ed25519.PublicKey:
		return "ed25519", 0
	}
	return "?", 0
}

func refDefaultBits(keyType string, bits int) int {
	if bits != 0 {
		return bits
	}
	switch keyType {
	case "rsa":
		return 2048
	case "ec":
		return 256
	}
	return 0
}

// ---------------------------------------------------------------- cert SAN parsing (otherName)

var refOIDSAN = asn1.ObjectIdentifier{2, 5, 29, 17}

type refOtherName struct{ OID, Value string }

// refOtherNames extracts otherName GeneralNames carrying a UTF8String from a
// certificate's subjectAltName extension; kinds counts every GeneralName tag.
func refOtherNames(cert *x509.Certificate) (others []refOtherName, kinds map[int]int, err error) {
	kinds = map[int]int{}
	for _, e := range cert.Extensions {
		if !e.Id.Equal(refOIDSAN) {
			continue
		}
		var seq asn1.RawValue
		if _, err = asn1.Unmarshal(e.Value, &seq); err != nil {
			return nil, kinds, err
		}
		rest := seq.Bytes
		for len(rest) > 0 {
			var v asn1.RawValue
			rest, err = asn1.Unmarshal(rest, &v)
			if err != nil {
				return nil, kinds, err
			}
			kinds[v.Tag]++
			if v.Class != asn1.ClassContextSpecific || v.Tag != 0 {
				continue
			}
			var oid asn1.ObjectIdentifier
			r2, e2 := asn1.Unmarshal(v.Bytes, &oid)
			if e2 != nil {
				return nil, kinds, e2
			}
			var expl asn1.RawValue
			if _, e2 = asn1.Unmarshal(r2, &expl); e2 != nil {
				return nil, kinds, e2
			}
			var inner asn1.RawValue
			if _, e2 = asn1.Unmarshal(expl.Bytes, &inner); e2 != nil {
				return nil, kinds, e2
			}
			others = append(others, refOtherName{OID: oid.String(), Value: string(inner.Bytes)})
		}
	}
	return others, kinds, nil
}

// refNormName normalises a DNS name or e-mail address for set comparison.
func refNormName(n string) string {
	if i := strings.LastIndex(n, "@"); i >= 0 {
		return n[:i] + "@" + strings.Join(refLabelsKeepEmpty(n[i+1:]), ".")
	}
	return strings.Join(refLabelsKeepEmpty(n), ".")
}
