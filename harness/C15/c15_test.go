//go:build verif

package pki

// C15 monitor: every certificate returned by issue / sign / sign-verbatim /
// sign-intermediate is parsed with crypto/x509 and compared with the role, the
// issuer and the request by the reference oracle in c15_oracle_test.go.

import (
	"bytes"
	"context"
	"crypto/x509"
	"encoding/asn1"
	"encoding/base64"
	"encoding/pem"
	"errors"
	"fmt"
	"math/big"
	"net"
	"net/url"
	"sort"
	"strconv"
	"strings"
	"testing"
	"time"

	log "github.com/hashicorp/go-hclog"
	"github.com/openbao/openbao/sdk/v2/helper/errutil"
	kit "github.com/openbao/openbao/sdk/v2/helper/verifkit"
	"github.com/openbao/openbao/sdk/v2/logical"
)

const c15DefaultSeed = 15

// ---------------------------------------------------------------- mount

type c15Issuer struct {
	Name     string
	Cert     *x509.Certificate
	Behavior string // err | truncate | permit
}

type c15Mount struct {
	idx        int
	b          *backend
	s          logical.Storage
	sysDefault time.Duration
	sysMax     time.Duration
	issuers    map[string]*c15Issuer
	serials    map[string]string // serial (hex) -> case that produced it
	lastClass  string            // outcome class of the most recent monitored request
}

type c15Outcome struct {
	Class string // issued | refused | internal | panic
	Err   string
	Resp  *logical.Response
}

func (m *c15Mount) call(path string, data map[string]any) (out c15Outcome) {
	defer func() {
		if p := recover(); p != nil {
			out = c15Outcome{Class: "panic", Err: fmt.Sprint(p)}
		}
	}()
	resp, err := m.b.HandleRequest(context.Background(), &logical.Request{
		Operation:  logical.UpdateOperation,
		Path:       path,
		Data:       data,
		Storage:    m.s,
		MountPoint: "pki/",
	})
	switch {
	case err != nil:
		cls := "internal"
		if isUserErr(err) {
			cls = "refused"
		}
		return c15Outcome{Class: cls, Err: err.Error(), Resp: resp}
	case resp != nil && resp.IsError():
		return c15Outcome{Class: "refused", Err: resp.Error().Error(), Resp: resp}
	}
	return c15Outcome{Class: "issued", Resp: resp}
}

// isUserErr: the backend refused the request as invalid (as opposed to failing internally).
func isUserErr(err error) bool {
	var ue errutil.UserError
	if errors.As(err, &ue) {
		return true
	}
	return errors.Is(err, logical.ErrInvalidRequest) || errors.Is(err, logical.ErrUnsupportedPath) || errors.Is(err, logical.ErrUnsupportedOperation)
}

func c15ParseCertField(v any, format string) (*x509.Certificate, error) {
	s, ok := v.(string)
	if !ok {
		return nil, fmt.Errorf("certificate field is %T", v)
	}
	if format == "der" {
		der, err := base64.StdEncoding.DecodeString(s)
		if err != nil {
			return nil, err
		}
		return x509.ParseCertificate(der)
	}
	rest := []byte(s)
	for {
		var blk *pem.Block
		blk, rest = pem.Decode(rest)
		if blk == nil {
			return nil, fmt.Errorf("no CERTIFICATE block")
		}
		if blk.Type == "CERTIFICATE" {
			return x509.ParseCertificate(blk.Bytes)
		}
	}
}

func c15NewMount(t *testing.T, idx int, rng *kit.Rand) (*c15Mount, error) {
	b, s := CreateBackendWithStorage(t)
	b.Logger().SetLevel(log.Off)
	sv, ok := b.System().(*logical.StaticSystemView)
	if !ok {
		return nil, fmt.Errorf("system view is %T", b.System())
	}
	m := &c15Mount{idx: idx, b: b, s: s, issuers: map[string]*c15Issuer{}, serials: map[string]string{}}
	// issuers are generated with a generous mount maximum, then the mount is
	// tightened to the values the workload runs under
	sv.DefaultLeaseTTLVal = 24 * time.Hour
	sv.MaxLeaseTTLVal = 100000 * time.Hour
	mk := func(name, keyType string, bits int, ttl string, behavior string, extra map[string]any) error {
		d := map[string]any{"common_name": "C15 " + name, "issuer_name": name, "key_type": keyType, "key_bits": bits, "ttl": ttl}
		for k, v := range extra {
			d[k] = v
		}
		out := m.call("root/generate/internal", d)
		if out.Class != "issued" {
			return fmt.Errorf("root %s: %s %s", name, out.Class, out.Err)
		}
		cert, err := c15ParseCertField(out.Resp.Data["certificate"], "pem")
		if err != nil {
			return fmt.Errorf("root %s: %w", name, err)
		}
		if behavior != "err" {
			resp, err := CBPatch(b, s, "issuer/"+name, map[string]any{"leaf_not_after_behavior": behavior})
			if err != nil || resp == nil || resp.Data["leaf_not_after_behavior"] != behavior {
				return fmt.Errorf("issuer %s: cannot set behaviour %s: %v", name, behavior, err)
			}
		}
		m.issuers[name] = &c15Issuer{Name: name, Cert: cert, Behavior: behavior}
		m.serials[cert.SerialNumber.Text(16)] = "issuer:" + name
		return nil
	}
	if err := mk("long", "ec", 256, "87600h", "err", nil); err != nil {
		return nil, err
	}
	if err := mk("short-err", "ec", 384, "3h", "err", nil); err != nil {
		return nil, err
	}
	if err := mk("short-trunc", "ed25519", 0, "5h", "truncate", nil); err != nil {
		return nil, err
	}
	if err := mk("short-permit", "ec", 256, "4h", "permit", nil); err != nil {
		return nil, err
	}
	if err := mk("pl1", "ec", 256, "87600h", "err", map[string]any{"max_path_length": 1}); err != nil {
		return nil, err
	}
	if out := m.call("config/issuers", map[string]any{"default": "long"}); out.Class != "issued" {
		return nil, fmt.Errorf("config/issuers: %s", out.Err)
	}
	// intermediate, signed by pl1 (path length 1 -> 0), imported as "inter"
	out := m.call("intermediate/generate/internal", map[string]any{"common_name": "C15 inter", "key_type": "ec", "key_bits": 256})
	if out.Class != "issued" {
		return nil, fmt.Errorf("intermediate/generate: %s", out.Err)
	}
	csr, _ := out.Resp.Data["csr"].(string)
	out = m.call("issuer/pl1/sign-intermediate", map[string]any{"csr": csr, "common_name": "C15 inter", "ttl": "20h"})
	if out.Class != "issued" {
		return nil, fmt.Errorf("sign-intermediate: %s", out.Err)
	}
	icert, err := c15ParseCertField(out.Resp.Data["certificate"], "pem")
	if err != nil {
		return nil, err
	}
	m.serials[icert.SerialNumber.Text(16)] = "issuer:inter"
	out = m.call("intermediate/set-signed", map[string]any{"certificate": out.Resp.Data["certificate"]})
	if out.Class != "issued" {
		return nil, fmt.Errorf("set-signed: %s", out.Err)
	}
	var interID string
	switch v := out.Resp.Data["imported_issuers"].(type) {
	case []string:
		if len(v) == 1 {
			interID = v[0]
		}
	}
	if interID == "" {
		return nil, fmt.Errorf("set-signed: imported_issuers = %v", out.Resp.Data["imported_issuers"])
	}
	if resp, err := CBPatch(b, s, "issuer/"+interID, map[string]any{"issuer_name": "inter", "leaf_not_after_behavior": "truncate"}); err != nil || resp == nil {
		return nil, fmt.Errorf("naming inter: %v", err)
	}
	m.issuers["inter"] = &c15Issuer{Name: "inter", Cert: icert, Behavior: "truncate"}
	m.issuers["default"] = m.issuers["long"]

	sv.MaxLeaseTTLVal = kit.Pick(rng, []time.Duration{48 * time.Hour, 72 * time.Hour})
	sv.DefaultLeaseTTLVal = kit.Pick(rng, []time.Duration{24 * time.Hour, 6 * time.Hour})
	m.sysDefault, m.sysMax = sv.DefaultLeaseTTLVal, sv.MaxLeaseTTLVal
	return m, nil
}

// ---------------------------------------------------------------- request execution

func c15Path(r *c15Role, q *c15Req) string {
	p := ""
	if q.PathIssuer != "" {
		p = "issuer/" + q.PathIssuer + "/"
	}
	switch q.Kind {
	case "issue":
		return p + "issue/" + r.Name
	case "sign":
		return p + "sign/" + r.Name
	case "verbatim":
		if q.RoleInPath {
			return p + "sign-verbatim/" + r.Name
		}
		return p + "sign-verbatim"
	}
	return p + "sign-intermediate"
}

func c15Data(q *c15Req, csrPEM string) map[string]any {
	d := map[string]any{"format": q.Format}
	if q.CN != "" {
		d["common_name"] = q.CN
	}
	if len(q.AltNames) > 0 {
		d["alt_names"] = strings.Join(q.AltNames, ",")
	}
	if len(q.IPs) > 0 {
		d["ip_sans"] = q.IPs
	}
	if len(q.URIs) > 0 {
		d["uri_sans"] = q.URIs
	}
	if len(q.Others) > 0 {
		d["other_sans"] = q.Others
	}
	if q.TTL > 0 {
		d["ttl"] = fmt.Sprintf("%ds", int(q.TTL/time.Second))
	}
	if q.NotAfter != "" {
		d["not_after"] = q.NotAfter
	}
	if q.NotBefore != "" {
		d["not_before"] = q.NotBefore
	}
	if q.ExcludeCN {
		d["exclude_cn_from_sans"] = true
	}
	if q.Serial != "" {
		d["serial_number"] = q.Serial
	}
	if len(q.UserIDs) > 0 {
		d["user_ids"] = q.UserIDs
	}
	if q.SetKey {
		d["key_type"] = q.KeyType
		d["key_bits"] = q.KeyBits
	}
	if csrPEM != "" {
		d["csr"] = csrPEM
	}
	if q.VKeyUsage != nil {
		d["key_usage"] = q.VKeyUsage
	}
	if q.VExtKeyUsage != nil {
		d["ext_key_usage"] = q.VExtKeyUsage
	}
	if q.VBCValid != nil {
		d["basic_constraints_valid_for_non_ca"] = *q.VBCValid
	}
	if q.MaxPathLen != nil {
		d["max_path_length"] = *q.MaxPathLen
	}
	if q.UseCSRValues {
		d["use_csr_values"] = true
	}
	return d
}

// ---------------------------------------------------------------- the oracle on one issued certificate

type c15Finding struct{ Class, What string }

type c15Ctx struct {
	m      *c15Mount
	role   *c15Role // nil for role-less sign-verbatim / sign-intermediate
	q      *c15Req
	issuer *c15Issuer
	t0, t1 time.Time
	res    *kit.Result
}

func c15ParseTime(s string) (time.Time, bool) {
	if s == "" {
		return time.Time{}, false
	}
	t, err := time.Parse(time.RFC3339, s)
	return t, err == nil
}

// effective validity parameters for the request kind
func (c *c15Ctx) ttlParams() (roleTTL, maxTTL time.Duration, naBound, nbBound, roleNA, roleNB string, nbd time.Duration) {
	maxTTL = c.m.sysMax
	naBound, nbBound = "permit", "permit"
	switch c.q.Kind {
	case "issue", "sign":
		r := c.role
		roleTTL = r.TTL
		if r.MaxTTL > 0 {
			maxTTL = r.MaxTTL
		}
		naBound, nbBound, roleNA, roleNB, nbd = r.NotAfterBound, r.NotBeforeBound, r.RoleNotAfter, r.RoleNotBefore, r.NotBeforeDuration
	case "verbatim":
		// "If set, the following parameters from the role will have effect: ttl, max_ttl, ... not_before_duration ..."
		if c.role != nil {
			roleTTL = c.role.TTL
			if c.role.MaxTTL > 0 {
				maxTTL = c.role.MaxTTL
			}
			nbd = c.role.NotBeforeDuration
		}
	}
	return
}

func c15Min(a, b time.Duration) time.Duration {
	if a < b {
		return a
	}
	return b
}

func (c *c15Ctx) checkValidity(cert *x509.Certificate) (fs []c15Finding) {
	q := c.q
	add := func(cls, f string, a ...any) { fs = append(fs, c15Finding{cls, fmt.Sprintf(f, a...)}) }
	behavior := c.issuer.Behavior
	if q.Kind == "intermediate" {
		behavior = "permit" // documented: "this can be after the expiration of the signing CA"
	}
	if behavior != "permit" && cert.NotAfter.After(c.issuer.Cert.NotAfter) {
		add("C15-notafter-beyond-issuer", "NotAfter %s is later than issuer %s NotAfter %s although leaf_not_after_behavior=%s",
			cert.NotAfter.UTC().Format(time.RFC3339), c.issuer.Name, c.issuer.Cert.NotAfter.UTC().Format(time.RFC3339), c.issuer.Behavior)
	}
	if !cert.NotBefore.Before(cert.NotAfter) {
		add("C15-empty-validity", "NotBefore %s is not before NotAfter %s", cert.NotBefore, cert.NotAfter)
	}
	roleTTL, maxTTL, naBound, nbBound, roleNA, roleNB, nbd := c.ttlParams()
	if q.Kind == "intermediate" {
		roleTTL = 0
	}
	eff := q.TTL
	if eff == 0 {
		eff = roleTTL
	}
	if eff == 0 {
		eff = c.m.sysDefault
	}
	eff = c15Min(eff, maxTTL)
	// ttl-limited is bounded by the role TTL (not by a TTL the request brings along)
	roleEff := roleTTL
	if roleEff == 0 {
		roleEff = c.m.sysDefault
	}
	roleEff = c15Min(roleEff, maxTTL)

	reqNA, haveReqNA := c15ParseTime(q.NotAfter)
	switch {
	case roleNA != "":
		if t, ok := c15ParseTime(roleNA); ok && cert.NotAfter.After(t) {
			add("C15-notafter-beyond-role", "NotAfter %s is later than the role's fixed not_after %s", cert.NotAfter.UTC().Format(time.RFC3339), roleNA)
		}
	case haveReqNA:
		switch boundKind(naBound) {
		case "forbid":
			add("C15-forbidden-not-after-accepted", "request carried not_after=%s, role has not_after_bound=forbid, and a certificate was issued", q.NotAfter)
		case "ttl-limited":
			if lim := c.t1.Add(roleEff); cert.NotAfter.After(lim) {
				add("C15-notafter-beyond-ttl", "not_after_bound=ttl-limited: NotAfter %s is later than now+TTL (%s, TTL %s)", cert.NotAfter.UTC().Format(time.RFC3339), lim.UTC().Format(time.RFC3339), roleEff)
			}
		}
		if cert.NotAfter.After(reqNA) {
			add("C15-notafter-beyond-request", "NotAfter %s is later than the requested not_after %s", cert.NotAfter.UTC().Format(time.RFC3339), q.NotAfter)
		}
	default:
		if lim := c.t1.Add(eff); cert.NotAfter.After(lim) {
			add("C15-notafter-beyond-ttl", "NotAfter %s is later than call time + min(ttl, max) = %s (effective ttl %s, max %s)", cert.NotAfter.UTC().Format(time.RFC3339), lim.UTC().Format(time.RFC3339), eff, maxTTL)
		}
	}
	if boundKind(naBound) == "timestamp" {
		if t, ok := c15ParseTime(naBound); ok && cert.NotAfter.After(t) {
			add("C15-notafter-beyond-role", "NotAfter %s is later than the role's not_after_bound %s", cert.NotAfter.UTC().Format(time.RFC3339), naBound)
		}
	}

	// NotBefore: never earlier than what the role lets the client choose
	back := nbd
	if back < 30*time.Second {
		back = 30 * time.Second
	}
	floor := c.t0.Add(-back).Add(-2 * time.Second)
	reqNB, haveReqNB := c15ParseTime(q.NotBefore)
	switch {
	case roleNB != "":
		if t, ok := c15ParseTime(roleNB); ok && t.Before(floor) {
			floor = t
		}
	case haveReqNB && q.Kind != "intermediate":
		switch nbBound {
		case "forbid":
			add("C15-forbidden-not-before-accepted", "request carried not_before=%s, role has not_before_bound=forbid, and a certificate was issued", q.NotBefore)
		case "duration":
			// must stay within not_before_duration
		default:
			if reqNB.Before(floor) {
				floor = reqNB
			}
		}
	case haveReqNB:
		if reqNB.Before(floor) {
			floor = reqNB
		}
	}
	if cert.NotBefore.Before(floor) {
		add("C15-notbefore-too-early", "NotBefore %s is earlier than permitted (%s; not_before_bound=%s, not_before_duration=%s)", cert.NotBefore.UTC().Format(time.RFC3339), floor.UTC().Format(time.RFC3339), nbBound, nbd)
	}
	return fs
}

func c15SetOf(xs []string) map[string]bool {
	m := map[string]bool{}
	for _, x := range xs {
		m[refNormName(x)] = true
	}
	return m
}

func c15UIDs(cert *x509.Certificate) (out []string) {
	uid := asn1.ObjectIdentifier{0, 9, 2342, 19200300, 100, 1, 1}
	for _, n := range cert.Subject.Names {
		if n.Type.Equal(uid) {
			out = append(out, fmt.Sprint(n.Value))
		}
	}
	return
}

// checkLeaf runs every constraint group on a certificate from issue / sign.
func (c *c15Ctx) checkRoleLeaf(cert *x509.Certificate) (fs []c15Finding) {
	r, q := c.role, c.q
	add := func(cls, f string, a ...any) { fs = append(fs, c15Finding{cls, fmt.Sprintf(f, a...)}) }

	// ---- where each name had to come from
	var cnChoices []string
	var sanSrc []string
	var ipSrc, uriSrc, otherSrc []string
	if q.Kind == "issue" {
		cnChoices = []string{q.CN}
		sanSrc = append(sanSrc, q.AltNames...)
		ipSrc, uriSrc, otherSrc = q.IPs, q.URIs, q.Others
	} else {
		if r.UseCSRCN && q.CSR.CN != "" {
			cnChoices = []string{q.CSR.CN}
		} else {
			cnChoices = []string{q.CN}
		}
		if r.UseCSRSANs {
			sanSrc = append(append(sanSrc, q.CSR.DNS...), q.CSR.Emails...)
			ipSrc, uriSrc = q.CSR.IPs, q.CSR.URIs
			otherSrc = append(append(otherSrc, q.CSR.Others...), q.Others...)
		} else {
			sanSrc = append(sanSrc, q.AltNames...)
			ipSrc, uriSrc, otherSrc = q.IPs, q.URIs, q.Others
		}
	}
	cn := cert.Subject.CommonName
	if cn != cnChoices[0] {
		add("C15-cn-not-requested", "certificate CN %q; the request's effective common name was %q (use_csr_common_name=%v)", cn, cnChoices[0], r.UseCSRCN)
	}
	if cn == "" && r.RequireCN {
		add("C15-cn-required", "certificate without CN although require_cn=true")
	}
	allowedSAN := c15SetOf(sanSrc)
	if cn != "" && !q.ExcludeCN {
		allowedSAN[refNormName(cn)] = true
	}
	for _, d := range append(append([]string{}, cert.DNSNames...), cert.EmailAddresses...) {
		if !allowedSAN[refNormName(d)] {
			add("C15-san-not-requested", "SAN %q is on the certificate but was not requested (requested: %v, cn %q, exclude_cn_from_sans=%v, use_csr_sans=%v)", d, sanSrc, cn, q.ExcludeCN, r.UseCSRSANs)
		}
	}

	// ---- admissibility of every name that is on the certificate
	checkName := func(kind, n string) {
		v := refAdmit(r, n)
		if v.OK {
			c.res.Count("admit_via:"+v.Via, 1)
			return
		}
		if refEmailGlobSpansAt(r, n) {
			add("C15-email-glob-spans-at", "%s %q: its host part is not permitted by the role (%s), but a glob in allowed_domains %v matches the whole address across the '@'", kind, n, v.Why, r.AllowedDomains)
			return
		}
		if refWildcardLocalhostNoSub(r, n) {
			add("C15-wildcard-localhost-without-subdomains", "%s %q: allow_localhost=true admits localhost/localdomain themselves, but this is a wildcard below them and allow_subdomains=false (allowed_domains=%v)", kind, n, r.AllowedDomains)
			return
		}
		add("C15-name-not-permitted", "%s %q is not permitted by the role: %s (allowed_domains=%v bare=%v sub=%v glob=%v wildcard=%v localhost=%v any=%v enforce_hostnames=%v)",
			kind, n, v.Why, r.AllowedDomains, r.AllowBare, r.AllowSub, r.AllowGlob, r.AllowWildcard, r.AllowLocalhost, r.AllowAny, r.EnforceHostnames)
	}
	if cn != "" && !refCNDisabled(r) {
		checkName("common name", cn)
		if !refCNTypeAllowed(r, cn) {
			add("C15-cn-type-not-permitted", "common name %q is of a type excluded by cn_validations=%v", cn, r.CNValidations)
		}
	}
	for _, d := range cert.DNSNames {
		checkName("DNS SAN", d)
	}
	for _, e := range cert.EmailAddresses {
		checkName("e-mail SAN", e)
	}

	// ---- IP / URI / other SANs
	ipSet := map[string]bool{}
	for _, s := range ipSrc {
		if ip := net.ParseIP(s); ip != nil {
			ipSet[ip.String()] = true
		}
	}
	for _, ip := range cert.IPAddresses {
		if !ipSet[ip.String()] {
			add("C15-san-not-requested", "IP SAN %s was not requested (%v)", ip, ipSrc)
		}
		if ok, why := refIPAllowed(r, ip); !ok {
			add("C15-ip-not-permitted", "IP SAN %s: %s (allow_ip_sans=%v cidr=%v)", ip, why, r.AllowIPSANs, r.IPCIDRs)
		} else {
			c.res.Count("ip_san_checked", 1)
		}
	}
	uriSet := map[string]bool{}
	for _, s := range uriSrc {
		uriSet[s] = true
		if u, err := url.Parse(s); err == nil {
			uriSet[u.String()] = true
		}
	}
	for _, u := range cert.URIs {
		if !uriSet[u.String()] {
			add("C15-san-not-requested", "URI SAN %s was not requested (%v)", u, uriSrc)
		}
		if !refURIAllowed(r, u.String()) {
			add("C15-uri-not-permitted", "URI SAN %s matches none of allowed_uri_sans=%v", u, r.URISANs)
		} else {
			c.res.Count("uri_san_checked", 1)
		}
	}
	others, kinds, err := refOtherNames(cert)
	if err != nil {
		add("C15-san-unparsable", "subjectAltName cannot be parsed: %v", err)
	}
	otherSet := map[string]bool{}
	for _, o := range otherSrc {
		if oid, v, ok := refSplitOther(o); ok {
			otherSet[oid+"\x00"+v] = true
		}
	}
	for _, o := range others {
		if !otherSet[o.OID+"\x00"+o.Value] {
			add("C15-san-not-requested", "otherName %s=%q was not requested (%v)", o.OID, o.Value, otherSrc)
		}
		if !refOtherAllowed(r, o.OID, o.Value) {
			add("C15-othersan-not-permitted", "otherName %s=%q is not covered by allowed_other_sans=%v", o.OID, o.Value, r.OtherSANs)
		} else {
			c.res.Count("other_san_checked", 1)
		}
	}
	for tag := range kinds {
		switch tag {
		case 0, 1, 2, 6, 7:
		default:
			add("C15-san-kind-unexpected", "subjectAltName contains a GeneralName with tag %d that no endpoint parameter asks for", tag)
		}
	}

	// ---- remaining subject attributes come from the role, never from the CSR
	in := func(xs []string, v string) bool {
		for _, x := range xs {
			if x == v {
				return true
			}
		}
		return false
	}
	for _, o := range cert.Subject.Organization {
		if !in(r.Organization, o) {
			add("C15-subject-not-permitted", "subject O=%q is not configured on the role (organization=%v)", o, r.Organization)
		}
	}
	for _, o := range cert.Subject.OrganizationalUnit {
		if !in(r.OU, o) {
			add("C15-subject-not-permitted", "subject OU=%q is not configured on the role (ou=%v)", o, r.OU)
		}
	}
	if n := len(cert.Subject.Country) + len(cert.Subject.Locality) + len(cert.Subject.Province) + len(cert.Subject.StreetAddress) + len(cert.Subject.PostalCode); n > 0 {
		add("C15-subject-not-permitted", "subject carries C/L/ST/street/postal values although the role configures none: %s", cert.Subject.String())
	}
	if sn := cert.Subject.SerialNumber; sn != "" {
		if !refListGlobFold(r.AllowedSerials, sn) {
			add("C15-subject-serial-not-permitted", "subject serialNumber %q is not covered by allowed_serial_numbers=%v", sn, r.AllowedSerials)
		} else {
			c.res.Count("subject_serial_checked", 1)
		}
	}
	for _, u := range c15UIDs(cert) {
		if !refListGlobFold(r.AllowedUserIDs, u) {
			add("C15-userid-not-permitted", "subject UID %q is not covered by allowed_user_ids=%v", u, r.AllowedUserIDs)
		} else {
			c.res.Count("userid_checked", 1)
		}
	}

	// ---- key
	kt, kb := refKeyInfo(cert.PublicKey)
	if q.Kind == "issue" {
		wantT, wantB := r.KeyType, refDefaultBits(r.KeyType, r.KeyBits)
		if r.KeyType == "any" {
			wantT, wantB = q.KeyType, refDefaultBits(q.KeyType, q.KeyBits)
		}
		if kt != wantT || (kt != "ed25519" && kb != wantB) {
			add("C15-key-not-permitted", "generated key is %s/%d, role asks for %s/%d", kt, kb, wantT, wantB)
		}
	} else {
		switch {
		case r.KeyType == "any":
			if kt == "rsa" && kb < 2048 || kt == "ec" && kb < 224 || kt == "?" {
				add("C15-key-not-permitted", "signed key %s/%d is below the documented minimum for key_type=any", kt, kb)
			}
		case kt != r.KeyType:
			add("C15-key-not-permitted", "signed a %s key, role key_type=%s", kt, r.KeyType)
		case kt != "ed25519" && kb < refDefaultBits(r.KeyType, r.KeyBits):
			add("C15-key-not-permitted", "signed a %s key of %d bits, role key_bits=%d", kt, kb, refDefaultBits(r.KeyType, r.KeyBits))
		}
	}

	// ---- usages
	if extra := cert.KeyUsage &^ refKeyUsage(r.KeyUsage); extra != 0 {
		add("C15-keyusage-not-permitted", "KeyUsage %#x contains bits %#x outside the role's key_usage=%v", cert.KeyUsage, extra, r.KeyUsage)
	}
	ekus := refRoleEKUs(r)
	for _, e := range cert.ExtKeyUsage {
		if !ekus[e] {
			add("C15-extkeyusage-not-permitted", "ExtKeyUsage %d is not granted by the role (flags s=%v c=%v cs=%v e=%v, ext_key_usage=%v)", e, r.ServerFlag, r.ClientFlag, r.CodeSign, r.EmailProt, r.ExtKeyUsage)
		}
	}
	for _, o := range cert.UnknownExtKeyUsage {
		if !in(r.EKUOIDs, o.String()) {
			add("C15-extkeyusage-not-permitted", "ExtKeyUsage OID %s is not in ext_key_usage_oids=%v", o, r.EKUOIDs)
		}
	}
	return fs
}

// checkVerbatim: sign-verbatim copies the CSR; nothing may be invented and the result is never a CA.
func (c *c15Ctx) checkVerbatim(cert *x509.Certificate) (fs []c15Finding) {
	q := c.q
	add := func(cls, f string, a ...any) { fs = append(fs, c15Finding{cls, fmt.Sprintf(f, a...)}) }
	if cert.Subject.CommonName != q.CSR.CN {
		add("C15-cn-not-requested", "sign-verbatim: CN %q, CSR CN %q", cert.Subject.CommonName, q.CSR.CN)
	}
	allowed := c15SetOf(append(append([]string{}, q.CSR.DNS...), q.CSR.Emails...))
	for _, d := range append(append([]string{}, cert.DNSNames...), cert.EmailAddresses...) {
		if !allowed[refNormName(d)] {
			add("C15-san-not-requested", "sign-verbatim: SAN %q is not in the CSR (%v %v)", d, q.CSR.DNS, q.CSR.Emails)
		}
	}
	ipSet := map[string]bool{}
	for _, s := range q.CSR.IPs {
		if ip := net.ParseIP(s); ip != nil {
			ipSet[ip.String()] = true
		}
	}
	for _, ip := range cert.IPAddresses {
		if !ipSet[ip.String()] {
			add("C15-san-not-requested", "sign-verbatim: IP SAN %s is not in the CSR", ip)
		}
	}
	uriSet := map[string]bool{}
	for _, u := range q.CSR.URIs {
		uriSet[u] = true
		if p, err := url.Parse(u); err == nil {
			uriSet[p.String()] = true
		}
	}
	for _, u := range cert.URIs {
		if !uriSet[u.String()] {
			add("C15-san-not-requested", "sign-verbatim: URI SAN %s is not in the CSR", u)
		}
	}
	if others, _, err := refOtherNames(cert); err == nil {
		want := map[string]bool{}
		for _, o := range append(append([]string{}, q.CSR.Others...), q.Others...) {
			if oid, v, ok := refSplitOther(o); ok {
				want[oid+"\x00"+v] = true
			}
		}
		for _, o := range others {
			if !want[o.OID+"\x00"+o.Value] {
				add("C15-san-not-requested", "sign-verbatim: otherName %s=%q is not in the CSR", o.OID, o.Value)
			}
		}
	}
	kt, kb := refKeyInfo(cert.PublicKey)
	if kt == "rsa" && kb < 2048 || kt == "ec" && kb < 224 || kt == "?" {
		add("C15-key-not-permitted", "sign-verbatim signed key %s/%d below the documented minimum", kt, kb)
	}
	// usages: the documented defaults apply only when the CSR carries no such extension
	if q.CSR.KeyUsage == 0 {
		def := []string{"DigitalSignature", "KeyAgreement", "KeyEncipherment"}
		if q.VKeyUsage != nil {
			def = q.VKeyUsage
		}
		if extra := cert.KeyUsage &^ refKeyUsage(def); extra != 0 {
			add("C15-keyusage-not-permitted", "sign-verbatim: KeyUsage %#x has bits %#x beyond the default %v and the CSR asked for none", cert.KeyUsage, extra, def)
		}
	}
	return fs
}

func (c *c15Ctx) checkIntermediate(cert *x509.Certificate) (fs []c15Finding) {
	add := func(cls, f string, a ...any) { fs = append(fs, c15Finding{cls, fmt.Sprintf(f, a...)}) }
	if !cert.IsCA || !cert.BasicConstraintsValid {
		add("C15-intermediate-not-ca", "sign-intermediate returned a certificate with IsCA=%v BasicConstraintsValid=%v", cert.IsCA, cert.BasicConstraintsValid)
	}
	ic := c.issuer.Cert
	issuerLimited := ic.MaxPathLen > 0 || (ic.MaxPathLen == 0 && ic.MaxPathLenZero)
	if issuerLimited {
		if ic.MaxPathLen == 0 {
			add("C15-pathlen", "issuer %s has path length 0 and still signed a CA certificate", c.issuer.Name)
		}
		got := cert.MaxPathLen
		limited := got > 0 || (got == 0 && cert.MaxPathLenZero)
		if c.q.MaxPathLen == nil || *c.q.MaxPathLen < 0 {
			if !limited || got != ic.MaxPathLen-1 {
				add("C15-pathlen", "issuer path length %d, max_path_length unset: signed CA has path length %d (limited=%v), documented: one less", ic.MaxPathLen, got, limited)
			}
		}
	}
	if c.q.MaxPathLen != nil && *c.q.MaxPathLen >= 0 {
		if cert.MaxPathLen != *c.q.MaxPathLen || (*c.q.MaxPathLen == 0 && !cert.MaxPathLenZero) {
			add("C15-pathlen", "max_path_length=%d requested, certificate has %d (zero=%v)", *c.q.MaxPathLen, cert.MaxPathLen, cert.MaxPathLenZero)
		}
	}
	return fs
}

// check runs the whole oracle on an issued certificate.
func (c *c15Ctx) check(caseID string, out c15Outcome) (cert *x509.Certificate, fs []c15Finding) {
	add := func(cls, f string, a ...any) { fs = append(fs, c15Finding{cls, fmt.Sprintf(f, a...)}) }
	cert, err := c15ParseCertField(out.Resp.Data["certificate"], c.q.Format)
	if err != nil {
		add("C15-certificate-unparsable", "response certificate cannot be parsed: %v", err)
		return nil, fs
	}
	// issuer and signature
	if err := cert.CheckSignatureFrom(c.issuer.Cert); err != nil {
		add("C15-signature", "certificate does not verify under issuer %s: %v", c.issuer.Name, err)
	}
	if !bytes.Equal(cert.RawIssuer, c.issuer.Cert.RawSubject) {
		add("C15-signature", "issuer DN %q differs from issuing CA subject %q", cert.Issuer.String(), c.issuer.Cert.Subject.String())
	}
	if ica, err := c15ParseCertField(out.Resp.Data["issuing_ca"], c.q.Format); err != nil || !ica.Equal(c.issuer.Cert) {
		add("C15-issuing-ca-field", "response issuing_ca is not the certificate of issuer %s (%v)", c.issuer.Name, err)
	}
	// serial
	ser := cert.SerialNumber.Text(16)
	if prev, dup := c.m.serials[ser]; dup {
		add("C15-serial-reused", "serial %s was already used on this mount by %s", ser, prev)
	}
	c.m.serials[ser] = caseID
	c.res.Count("serials_checked", 1)
	if cert.SerialNumber.Sign() <= 0 {
		add("C15-serial-reused", "serial %s is not positive", ser)
	}
	if s, ok := out.Resp.Data["serial_number"].(string); ok {
		if v, okk := new(big.Int).SetString(strings.ReplaceAll(s, ":", ""), 16); !okk || v.Cmp(cert.SerialNumber) != 0 {
			add("C15-serial-field", "response serial_number %q does not denote the certificate's serial %s", s, ser)
		}
	}
	// CA-ness
	if c.q.Kind == "intermediate" {
		fs = append(fs, c.checkIntermediate(cert)...)
	} else {
		if cert.IsCA {
			add("C15-leaf-is-ca", "%s returned a CA certificate (CSR carried BasicConstraints CA:TRUE: %v)", c.q.Kind, c.q.CSR != nil && c.q.CSR.CA)
		}
		if cert.MaxPathLen > 0 || cert.MaxPathLenZero {
			add("C15-leaf-is-ca", "%s returned a certificate with a path length constraint", c.q.Kind)
		}
		if c.q.CSR != nil && c.q.CSR.CA && !cert.IsCA {
			c.res.Count("csr_ca_ext_not_copied", 1)
		}
	}
	// public key is the one that was asked for
	if c.q.CSR != nil {
		if k := c15Pool[c.q.CSR.Key]; k != nil {
			a, e1 := x509.MarshalPKIXPublicKey(cert.PublicKey)
			b, e2 := x509.MarshalPKIXPublicKey(k.Signer.Public())
			if e1 != nil || e2 != nil || !bytes.Equal(a, b) {
				add("C15-public-key", "certificate public key is not the CSR's key %s", k.Name)
			}
		}
	}
	fs = append(fs, c.checkValidity(cert)...)
	switch c.q.Kind {
	case "issue", "sign":
		fs = append(fs, c.checkRoleLeaf(cert)...)
	case "verbatim":
		fs = append(fs, c.checkVerbatim(cert)...)
	}
	return cert, fs
}

var c15Pool map[string]*c15Key

// ---------------------------------------------------------------- reference view of a whole request (evidence only)

// refRequestVerdict lists the reasons for which the reference expects the
// request to be refused; it never produces a verdict by itself - refusing is
// always allowed - it only tells which deny branch a refusal exercised.
func (c *c15Ctx) refRequestReasons() (reasons []string) {
	r, q := c.role, c.q
	if r == nil || (q.Kind != "issue" && q.Kind != "sign") {
		return nil
	}
	cn := q.CN
	var sans, ips, uris, others []string
	if q.Kind == "sign" {
		if r.UseCSRCN && q.CSR.CN != "" {
			cn = q.CSR.CN
		}
		if r.UseCSRSANs {
			sans = append(append(sans, q.CSR.DNS...), q.CSR.Emails...)
			ips, uris, others = q.CSR.IPs, q.CSR.URIs, append(append([]string{}, q.CSR.Others...), q.Others...)
		} else {
			sans, ips, uris, others = q.AltNames, q.IPs, q.URIs, q.Others
		}
	} else {
		sans, ips, uris, others = q.AltNames, q.IPs, q.URIs, q.Others
	}
	if cn == "" && r.RequireCN {
		reasons = append(reasons, "cn-required")
	}
	if cn != "" && !refCNDisabled(r) {
		if v := refAdmit(r, cn); !v.OK {
			reasons = append(reasons, "cn:"+v.Why)
		} else if !refCNTypeAllowed(r, cn) {
			reasons = append(reasons, "cn-type")
		}
	}
	if cn != "" && !q.ExcludeCN && refCNDisabled(r) {
		// the CN is also entered as a DNS / e-mail SAN, where the name rules apply again
		if v := refAdmit(r, cn); !v.OK {
			reasons = append(reasons, "san:"+v.Why)
		}
	}
	for _, n := range sans {
		if v := refAdmit(r, n); !v.OK {
			reasons = append(reasons, "san:"+v.Why)
		}
	}
	for _, s := range ips {
		if ip := net.ParseIP(s); ip != nil {
			if ok, why := refIPAllowed(r, ip); !ok {
				reasons = append(reasons, why)
			}
		}
	}
	for _, u := range uris {
		if !refURIAllowed(r, u) {
			reasons = append(reasons, "uri-not-allowed")
		}
	}
	for _, o := range others {
		if oid, v, ok := refSplitOther(o); ok && !refOtherAllowed(r, oid, v) {
			reasons = append(reasons, "othersan-not-allowed")
		}
	}
	ser := q.Serial
	if ser == "" && q.CSR != nil {
		ser = q.CSR.SubjSerial
	}
	if ser != "" && !refListGlobFold(r.AllowedSerials, ser) {
		reasons = append(reasons, "subject-serial-not-allowed")
	}
	for _, u := range q.UserIDs {
		if !refListGlobFold(r.AllowedUserIDs, u) {
			reasons = append(reasons, "userid-not-allowed")
		}
	}
	if q.NotAfter != "" && r.RoleNotAfter == "" && r.NotAfterBound == "forbid" {
		reasons = append(reasons, "not-after-forbidden")
	}
	if q.NotBefore != "" && r.RoleNotBefore == "" && r.NotBeforeBound == "forbid" {
		reasons = append(reasons, "not-before-forbidden")
	}
	if t, ok := c15ParseTime(q.NotBefore); ok && r.RoleNotBefore == "" && r.NotBeforeBound == "duration" {
		back := r.NotBeforeDuration
		if back == 0 {
			back = 30 * time.Second
		}
		if t.Before(c.t0.Add(-back)) {
			reasons = append(reasons, "not-before-outside-duration")
		}
	}
	if q.TTL > 0 && ((q.NotAfter != "" && r.NotAfterBound != "forbid") || r.RoleNotAfter != "") {
		reasons = append(reasons, "ttl-and-not-after")
	}
	if boundKind(r.NotAfterBound) == "timestamp" {
		if t, ok := c15ParseTime(r.NotAfterBound); ok && c.expectedNotAfter().After(t.Add(2*time.Minute)) {
			reasons = append(reasons, "not-after-beyond-timestamp-bound")
		}
	}
	if t, ok := c15ParseTime(q.NotAfter); ok && r.RoleNotAfter == "" && r.NotAfterBound == "ttl-limited" {
		eff := r.TTL
		if eff == 0 {
			eff = c.m.sysDefault
		}
		max := c.m.sysMax
		if r.MaxTTL > 0 {
			max = r.MaxTTL
		}
		if t.After(c.t0.Add(c15Min(eff, max)).Add(2 * time.Minute)) {
			reasons = append(reasons, "not-after-beyond-ttl-limit")
		}
	}
	if q.Kind == "sign" {
		k := c15Pool[q.CSR.Key]
		switch {
		case r.KeyType == "any":
		case k.Type != r.KeyType:
			reasons = append(reasons, "key-type")
		case k.Type != "ed25519" && k.Bits < refDefaultBits(r.KeyType, r.KeyBits):
			reasons = append(reasons, "key-bits")
		}
	}
	if q.Kind == "issue" && r.KeyType == "any" && !q.SetKey {
		reasons = append(reasons, "key-type-any-needs-request-key")
	}
	return reasons
}

// expectedNotAfter is what the reference expects the end of validity to be
// before the issuer bound is applied (used for evidence counters only).
func (c *c15Ctx) expectedNotAfter() time.Time {
	roleTTL, maxTTL, naBound, _, roleNA, _, _ := c.ttlParams()
	if t, ok := c15ParseTime(roleNA); ok {
		return t
	}
	if t, ok := c15ParseTime(c.q.NotAfter); ok && naBound != "forbid" {
		return t
	}
	eff := c.q.TTL
	if eff == 0 {
		eff = roleTTL
	}
	if eff == 0 {
		eff = c.m.sysDefault
	}
	return c.t0.Add(c15Min(eff, maxTTL))
}

// ---------------------------------------------------------------- driver

func c15CaseID(m, r, q int) string { return fmt.Sprintf("m%d.r%d.q%d", m, r, q) }

func c15ParseCase(id string) (m, r, q int, ok bool) {
	if _, err := fmt.Sscanf(id, "m%d.r%d.q%d", &m, &r, &q); err != nil {
		return 0, 0, 0, false
	}
	return m, r, q, true
}

type c15Witness struct {
	Mount    map[string]any `json:"mount"`
	Role     map[string]any `json:"role,omitempty"`
	Path     string         `json:"path"`
	Request  map[string]any `json:"request"`
	CSR      *c15CSR        `json:"csr,omitempty"`
	Intent   string         `json:"intent"`
	Issuer   string         `json:"issuer"`
	CertPEM  string         `json:"certificate,omitempty"`
	Findings []string       `json:"findings"`
}

func c15RunOne(res *kit.Result, m *c15Mount, r *c15Role, q *c15Req, caseID string) {
	csrPEM := ""
	if q.CSR != nil {
		var err error
		csrPEM, err = c15MakeCSR(q.CSR, c15Pool)
		if err != nil {
			res.Count("csr_build_failed", 1)
			return
		}
	}
	path := c15Path(r, q)
	data := c15Data(q, csrPEM)
	issuerName := q.PathIssuer
	if issuerName == "" {
		issuerName = "default"
		if r != nil && (q.Kind == "issue" || q.Kind == "sign" || q.RoleInPath) {
			issuerName = r.IssuerRef
		}
	}
	ctx := &c15Ctx{m: m, role: r, q: q, issuer: m.issuers[issuerName], res: res}
	if q.Kind == "verbatim" && !q.RoleInPath {
		ctx.role = nil
	}
	ctx.t0 = time.Now()
	out := m.call(path, data)
	ctx.t1 = time.Now()
	m.lastClass = out.Class
	res.Eval(1)
	res.Count("requests", 1)
	res.Count("kind:"+q.Kind+":"+out.Class, 1)
	res.Count("outcome:"+out.Class, 1)
	res.Count("intent:"+strings.SplitN(q.Intent, ":", 2)[0]+":"+out.Class, 1)

	if kit.OnlyCase() != "" {
		rd := map[string]any{}
		if r != nil {
			rd = r.apiData()
		}
		res.Note("replay %s: path=%s request=%v csr=%+v role=%v outcome=%s %s", caseID, path, data2JSON(data), q.CSR, rd, out.Class, out.Err)
	}
	reasons := ctx.refRequestReasons()
	expNA := ctx.expectedNotAfter()
	beyondIssuer := expNA.After(ctx.issuer.Cert.NotAfter.Add(2 * time.Minute))
	sv := ""
	if r != nil {
		sv = r.switchVector()
	}

	switch out.Class {
	case "panic":
		res.Note("panic in %s (case %s): %s", path, caseID, out.Err)
		return
	case "internal":
		if res.Get("outcome:internal") <= 8 {
			res.Note("internal error (not a refusal by policy) case %s %s: %.200s", caseID, path, out.Err)
		}
		return
	case "refused":
		if len(reasons) > 0 {
			for _, why := range c15Uniq(reasons) {
				res.Count("refused_ref_inadmissible:"+why, 1)
			}
			res.Count("refused_and_reference_agrees", 1)
			res.Nontrivial("refused|" + sv + "|" + q.shape() + "|" + strings.Join(c15Uniq(reasons), ","))
		} else if beyondIssuer && ctx.issuer.Behavior == "err" {
			res.Count("refused_issuer_bound_err", 1)
			res.Nontrivial("refused-issuer|" + sv + "|" + q.shape())
		} else {
			res.Count("refused_reference_would_admit", 1)
			if res.Get("refused_reference_would_admit") <= 6 {
				res.Note("refused although the reference admits it (allowed; diagnostic only) case %s %s: %.160s", caseID, path, out.Err)
			}
		}
		if r != nil && r.AllowAny && !r.AllowWildcard && c15HasReason(reasons, "wildcard-disallowed") {
			res.Count("refused_wildcard_under_any_name", 1)
		}
		return
	}

	cert, fs := ctx.check(caseID, out)
	res.Count("issued_checked", 1)
	if cert != nil {
		// evidence about which bounds were live
		switch {
		case beyondIssuer && ctx.issuer.Behavior == "truncate" && cert.NotAfter.Equal(ctx.issuer.Cert.NotAfter):
			res.Count("issuer_bound_truncated", 1)
		case beyondIssuer && (ctx.issuer.Behavior == "permit" || q.Kind == "intermediate") && cert.NotAfter.After(ctx.issuer.Cert.NotAfter):
			res.Count("issuer_bound_permitted_beyond", 1)
		case !beyondIssuer:
			res.Count("issuer_bound_not_reached", 1)
		}
		_, maxTTL, _, _, _, _, _ := ctx.ttlParams()
		if q.TTL > maxTTL && q.NotAfter == "" {
			res.Count("ttl_request_above_max_capped", 1)
		}
		if q.CSR != nil && q.CSR.KeyUsage != 0 && q.Kind == "sign" {
			res.Count("csr_usage_ext_on_role_sign", 1)
		}
		if q.CSR != nil && len(q.CSR.Org) > 0 && q.Kind == "sign" {
			res.Count("csr_subject_org_on_role_sign", 1)
		}
		if len(reasons) > 0 {
			// the request contained something the reference rejects, yet a
			// certificate came back; the content checks above decide whether
			// anything was widened. Count silently-dropped elements.
			res.Count("issued_with_inadmissible_element_dropped_or_flagged", 1)
		}
		for _, n := range append(append([]string{cert.Subject.CommonName}, cert.DNSNames...), cert.EmailAddresses...) {
			switch {
			case n == "":
			case strings.Contains(n, "@"):
				res.Count("issued_name_form:email", 1)
			case strings.Contains(n, "*"):
				res.Count("issued_name_form:wildcard", 1)
			case !c15IsASCII(n) || strings.Contains(strings.ToLower(n), "xn--"):
				res.Count("issued_name_form:idn", 1)
				if c15ReqHasUnicode(q) {
					res.Count("issued_from_unicode_request", 1)
				}
			default:
				res.Count("issued_name_form:plain", 1)
			}
		}
		var vias []string
		for _, n := range append(append([]string{cert.Subject.CommonName}, cert.DNSNames...), cert.EmailAddresses...) {
			if r != nil && n != "" && (q.Kind == "issue" || q.Kind == "sign") {
				vias = append(vias, refAdmit(r, n).Via)
			}
		}
		res.Nontrivial("issued|" + sv + "|" + q.shape() + "|" + strings.Join(c15Uniq(vias), ","))
	}
	if len(fs) == 0 {
		if res.Get("issued_checked")%97 == 1 && cert != nil {
			res.Sample(map[string]any{"case": caseID, "path": path, "request": data2JSON(data), "role_switches": sv,
				"cert": map[string]any{"cn": cert.Subject.CommonName, "dns": cert.DNSNames, "email": cert.EmailAddresses, "not_after": cert.NotAfter.UTC().Format(time.RFC3339), "issuer": ctx.issuer.Name}})
		}
		return
	}
	// group findings by class; one violation per class per case
	byClass := map[string][]string{}
	for _, f := range fs {
		byClass[f.Class] = append(byClass[f.Class], f.What)
	}
	classes := make([]string, 0, len(byClass))
	for k := range byClass {
		classes = append(classes, k)
	}
	sort.Strings(classes)
	w := c15Witness{
		Mount:   map[string]any{"index": m.idx, "default_lease_ttl": m.sysDefault.String(), "max_lease_ttl": m.sysMax.String()},
		Path:    path,
		Request: data2JSON(data),
		CSR:     q.CSR,
		Intent:  q.Intent,
		Issuer:  fmt.Sprintf("%s (leaf_not_after_behavior=%s, NotAfter=%s)", ctx.issuer.Name, ctx.issuer.Behavior, ctx.issuer.Cert.NotAfter.UTC().Format(time.RFC3339)),
	}
	if r != nil {
		w.Role = r.apiData()
	}
	if cert != nil {
		w.CertPEM = string(pem.EncodeToMemory(&pem.Block{Type: "CERTIFICATE", Bytes: cert.Raw}))
	}
	for _, f := range fs {
		w.Findings = append(w.Findings, f.Class+": "+f.What)
	}
	for _, cls := range classes {
		res.Violate(cls, caseID, fmt.Sprintf("%s %s: %s", caseID, path, byClass[cls][0]), w)
	}
}

func c15ReqHasUnicode(q *c15Req) bool {
	names := append([]string{q.CN}, q.AltNames...)
	if q.CSR != nil {
		names = append(names, q.CSR.CN)
	}
	for _, n := range names {
		if !c15IsASCII(n) {
			return true
		}
	}
	return false
}

func data2JSON(d map[string]any) map[string]any {
	out := map[string]any{}
	for k, v := range d {
		if k == "csr" {
			out[k] = "<see csr spec>"
			continue
		}
		out[k] = v
	}
	return out
}

func c15Uniq(xs []string) []string {
	m := map[string]bool{}
	var out []string
	for _, x := range xs {
		if x != "" && !m[x] {
			m[x] = true
			out = append(out, x)
		}
	}
	sort.Strings(out)
	return out
}

func c15HasReason(rs []string, sub string) bool {
	for _, r := range rs {
		if strings.Contains(r, sub) {
			return true
		}
	}
	return false
}

// c15Intermediates exercises the CA-signing endpoint on a mount.
func c15Intermediates(res *kit.Result, m *c15Mount, seed int64, only string) {
	n := 8
	for i := 0; i < n; i++ {
		caseID := fmt.Sprintf("m%d.ca.q%d", m.idx, i)
		if !kit.WantCase(caseID) {
			continue
		}
		rng := kit.NewRand(seed, uint64(7_000_000_000+m.idx*1000+i))
		q := &c15Req{Kind: "intermediate", Format: "pem", Intent: "ca"}
		q.PathIssuer = kit.Pick(rng, []string{"long", "pl1", "inter", "short-err", "short-permit"})
		q.CN = "C15 sub CA " + strconv.Itoa(i)
		q.CSR = &c15CSR{Key: kit.Pick(rng, []string{"ec256", "ec384", "rsa2048", "rsa2046"}), CN: "csr-cn.example.com", CA: rng.Chance(1, 2)}
		switch rng.Intn(4) {
		case 0:
			q.TTL = 10 * time.Hour
		case 1:
			q.TTL = 1000 * time.Hour // above the mount maximum
		case 2:
			q.NotAfter = time.Now().Add(500 * time.Hour).UTC().Format(time.RFC3339)
		}
		if rng.Chance(1, 3) {
			v := rng.Intn(3)
			q.MaxPathLen = &v
		}
		q.UseCSRValues = rng.Chance(1, 3)
		c15RunOne(res, m, nil, q, caseID)
	}
}

func TestVerif_C15_Issuance(t *testing.T) {
	seed := kit.Seed(c15DefaultSeed)
	res := kit.NewResult(t, "c15-issuance", seed, "a case is one issue/sign/sign-verbatim/sign-intermediate request against a generated role (pairwise-covering design over 29 role switches plus random rows) on a mount with 6 issuers; every returned certificate is parsed and checked for signature, serial freshness, CA-ness, validity bounds (issuer, role/mount TTL, not_after/not_before bounds), key, usages, subject attributes and label-based admissibility of every name; a case is non-trivial when a certificate was checked or when the refusal coincides with an element the reference rejects (or with the issuer bound); distinct = distinct (role switch vector, request shape, admitting rules / refusal reasons)")
	defer res.Write(t)
	res.Assume("crypto/x509 parses and verifies certificates correctly (it is the observation instrument)")
	res.Assume("refusals are always acceptable: the monitor does not decide that a request should have been granted")

	var err error
	c15Pool, err = c15KeyPool()
	if err != nil {
		t.Fatalf("key pool: %v", err)
	}
	shard, nshards := kit.Shard()
	mounts := kit.N(6, 320)
	reqsPerRole := kit.N(20, 24)
	extraRoles := kit.N(10, 14)
	onlyM, onlyR, onlyQ, haveOnly := -1, -1, -1, false
	if oc := kit.OnlyCase(); oc != "" {
		if strings.Contains(oc, ".ca.") {
			fmt.Sscanf(oc, "m%d.ca.q%d", &onlyM, &onlyQ)
			haveOnly = true
		} else if m, r, q, ok := c15ParseCase(oc); ok {
			onlyM, onlyR, onlyQ, haveOnly = m, r, q, true
		}
	}
	if kit.OnlyCase() != "" && !haveOnly {
		return // a replay id of another C15 monitor
	}
	fs := c15Factors()
	for mi := 0; mi < mounts; mi++ {
		if mi%nshards != shard && !haveOnly {
			continue
		}
		if haveOnly && mi != onlyM {
			continue
		}
		mrng := kit.NewRand(seed, uint64(1_000_000+mi))
		m, err := c15NewMount(t, mi, mrng)
		if err != nil {
			res.Inconc("mount %d setup failed: %v", mi, err)
			continue
		}
		res.Count("mounts", 1)
		now := time.Now().Truncate(time.Second)
		drng := kit.NewRand(seed, uint64(2_000_000+mi))
		rows := c15Pairwise(drng, fs)
		res.Count("pairwise_rows", len(rows))
		for i := 0; i < extraRoles; i++ {
			row := make([]int, len(fs))
			for f := range row {
				row[f] = drng.Intn(fs[f].n)
			}
			// random rows lean towards restrictive name policies
			if drng.Chance(2, 3) {
				row[6] = 0
			}
			rows = append(rows, row)
		}
		for ri, row := range rows {
			rrng := kit.NewRand(seed, uint64(4_000_000_000+mi*100_000+ri))
			role := c15RoleFromRow(fs, row, fmt.Sprintf("r%d", ri), now, rrng)
			if haveOnly && (ri != onlyR || strings.Contains(kit.OnlyCase(), ".ca.")) {
				continue
			}
			out := m.call("roles/"+role.Name, role.apiData())
			if out.Class != "issued" {
				res.Count("role_write_refused", 1)
				res.Note("role write refused (mount %d role %d): %.200s", mi, ri, out.Err)
				continue
			}
			res.Count("roles", 1)
			for qi := 0; qi < reqsPerRole; qi++ {
				caseID := c15CaseID(mi, ri, qi)
				if !kit.WantCase(caseID) {
					continue
				}
				qrng := kit.NewRand(seed, uint64(5_000_000_000+mi*10_000_000+ri*1000+qi))
				q := c15GenReq(qrng, role, now)
				c15RunOne(res, m, role, q, caseID)
			}
		}
		if !haveOnly || strings.Contains(kit.OnlyCase(), ".ca.") {
			c15Intermediates(res, m, seed, kit.OnlyCase())
		}
	}
	_ = onlyQ

	q := int64(1)
	if kit.Tier() == "thorough" {
		q = 2 // per shard
	}
	res.Require("issued_checked", 300*q)
	res.Require("refused_and_reference_agrees", 200*q)
	res.Require("kind:issue:issued", 80*q)
	res.Require("kind:sign:issued", 80*q)
	res.Require("kind:verbatim:issued", 30*q)
	res.Require("kind:intermediate:issued", 4*q)
	for _, via := range []string{"any", "localhost", "bare", "sub", "wild-sub", "glob"} {
		res.Require("admit_via:"+via, 10*q)
	}
	for _, why := range []string{"san:no-domain-match", "san:wildcard-disallowed", "san:hostname", "cn:no-domain-match", "ip-outside-cidr", "ip-sans-disallowed", "uri-not-allowed", "othersan-not-allowed", "not-after-forbidden", "key-type", "key-bits"} {
		res.Require("refused_ref_inadmissible:"+why, 3*q)
	}
	res.Require("refused_wildcard_under_any_name", 2*q)
	res.Require("refused_issuer_bound_err", 5*q)
	res.Require("issuer_bound_truncated", 5*q)
	res.Require("issuer_bound_permitted_beyond", 5*q)
	res.Require("ttl_request_above_max_capped", 5*q)
	res.Require("csr_ca_ext_not_copied", 10*q)
	res.Require("csr_usage_ext_on_role_sign", 5*q)
	res.Require("csr_subject_org_on_role_sign", 5*q)
	res.Require("ip_san_checked", 10*q)
	res.Require("uri_san_checked", 10*q)
	res.Require("other_san_checked", 5*q)
	res.Require("serials_checked", 300*q)
	res.Require("issued_name_form:email", 30*q)
	res.Require("issued_name_form:wildcard", 30*q)
	res.Require("issued_name_form:idn", 10*q)
	res.Require("issued_from_unicode_request", 5*q)
}
