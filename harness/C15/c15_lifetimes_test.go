//go:build verif

package pki

// C15, lifetime clause: the full lattice of (role ttl, role max_ttl, not_after_bound, request
// ttl, request not_after, endpoint) on every mount maximum - the pairwise design of the
// issuance monitor covers each pair of these, this one every combination, because the bound
// that applies is decided by all of them together.

import (
	"fmt"
	"testing"
	"time"

	kit "github.com/openbao/openbao/sdk/v2/helper/verifkit"
)

func TestVerif_C15_Lifetimes(t *testing.T) {
	seed := kit.Seed(c15DefaultSeed)
	shard, shards := kit.Shard()
	res := kit.NewResult(t, "c15-lifetimes", seed, "every combination of role ttl {unset,1h,30h,100h} x role max_ttl {unset,2h,40h,200h} x not_after_bound {permit, ttl-limited, forbid, timestamp} x request ttl {none,30m,60h,150h} x request not_after {none,+30m,+5h,+60h,+90h,+150h} x endpoint {issue, sign, sign-verbatim with role} on mounts with maximum 48h / 72h and issuers with every leaf_not_after_behavior, for a role that admits any name: each returned certificate goes through the validity oracle (issuer bound, role/mount maximum from now, ttl-limited bound = min(role ttl, maximum), requested not_after, timestamp bound), a refusal is always acceptable; a case is non-trivial when a certificate was issued; distinct by the combination")
	defer res.Write(t)
	var err error
	if c15Pool == nil {
		if c15Pool, err = c15KeyPool(); err != nil {
			t.Fatal(err)
		}
	}
	h := time.Hour
	ttls := []time.Duration{0, 1 * h, 30 * h, 100 * h}
	maxs := []time.Duration{0, 2 * h, 40 * h, 200 * h}
	reqTTLs := []time.Duration{0, 30 * time.Minute, 60 * h, 150 * h}
	reqNAs := []time.Duration{0, 30 * time.Minute, 5 * h, 60 * h, 90 * h, 150 * h}
	kinds := []string{"issue", "sign", "verbatim"}
	nmount := kit.N(2, 4)
	idx := 0
	for mi := 0; mi < nmount; mi++ {
		m, err := c15NewMount(t, 9500+mi, kit.NewRand(seed, uint64(9500+mi)))
		if err != nil {
			res.Inconc("mount setup failed: %v", err)
			return
		}
		issuerNames := []string{}
		for n := range m.issuers {
			if n != "default" {
				issuerNames = append(issuerNames, n)
			}
		}
		rng := kit.NewRand(seed, uint64(9600+mi))
		for ti, ttl := range ttls {
			for xi, max := range maxs {
				if max > 0 && ttl > max {
					continue // the role endpoint refuses ttl > max_ttl
				}
				// shards split the (mount, role ttl, role max) combinations; every shard sees all four bounds
				idx++
				if idx%shards != shard {
					continue
				}
				for bi := 0; bi < 4; bi++ {
					bound := []string{"permit", "ttl-limited", "forbid", time.Now().Add(20 * h).UTC().Format(time.RFC3339)}[bi]
					issuer := "default"
					if len(issuerNames) > 0 && rng.Chance(1, 2) {
						issuer = issuerNames[rng.Intn(len(issuerNames))]
					}
					r := &c15Role{Name: fmt.Sprintf("life-%d-%d-%d", ti, xi, bi), AllowedDomains: []string{}, AllowAny: true, AllowIPSANs: true, KeyType: "ec",
						NotBeforeBound: "permit", NotAfterBound: bound, KeyUsage: []string{"DigitalSignature"}, ServerFlag: true, ClientFlag: true,
						UseCSRCN: true, UseCSRSANs: true, RequireCN: true, CNValidations: []string{"disabled"}, IssuerRef: issuer, TTL: ttl, MaxTTL: max}
					if out := m.call("roles/"+r.Name, r.apiData()); out.Class != "issued" {
						res.Count("role_write_refused", 1)
						res.Note("role write refused for ttl=%s max=%s bound=%s: %s", ttl, max, bound, out.Err)
						continue
					}
					res.Count("roles", 1)
					for qi, qt := range reqTTLs {
						for ni, na := range reqNAs {
							for _, kind := range kinds {
								caseID := fmt.Sprintf("life:%d:%d:%d:%d:%d:%d:%s", mi, ti, xi, bi, qi, ni, kind)
								if !kit.WantCase(caseID) {
									continue
								}
								if kit.Tier() == "quick" && !rng.Chance(1, 2) && !(bi == 1 && na > 0) {
									continue // quick: half of the lattice, all of the ttl-limited requests with a not_after
								}
								q := &c15Req{Kind: kind, Format: "pem", CN: "life.example.com", TTL: qt, Intent: "lifetime"}
								if na > 0 {
									q.NotAfter = time.Now().Add(na).UTC().Format(time.RFC3339)
								}
								if kind != "issue" {
									q.CSR = &c15CSR{Key: "ec256", CN: "life.example.com"}
								}
								if kind == "verbatim" {
									q.RoleInPath = true
								}
								before := res.NViolations()
								c15RunOne(res, m, r, q, caseID)
								if m.lastClass == "issued" {
									res.Count("lifetime_certificates_checked", 1)
									if bi == 1 && na > 0 {
										res.Count("ttl_limited_with_request_not_after_issued", 1)
									}
									res.Nontrivial(fmt.Sprintf("%d|%s|%s|%s|%s|%s|%s", mi, ttl, max, []string{"permit", "ttl-limited", "forbid", "timestamp"}[bi], qt, na, kind))
								} else {
									res.Count("lifetime_requests_refused", 1)
								}
								if res.NViolations() > before+20 {
									return
								}
							}
						}
					}
				}
			}
		}
	}
	res.Require("lifetime_certificates_checked", 600)
	res.Require("ttl_limited_with_request_not_after_issued", 60)
	res.Require("lifetime_requests_refused", 100)
}
