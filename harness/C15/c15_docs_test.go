//go:build verif

package pki

// Calibration monitor: the examples that the role documentation spells out
// (pki.mdx, "Create/Update role") are run against both the reference oracle and
// the engine. A reference that disagrees with the documentation makes the run
// inconclusive (broken monitor); an engine that issues a name the
// documentation says is not permitted is a violation; an engine that refuses a
// documented-as-permitted name is only noted (refusing is always allowed by C15).

import (
	"fmt"
	"testing"
	"time"

	kit "github.com/openbao/openbao/sdk/v2/helper/verifkit"
)

type c15DocExample struct {
	doc     string // paraphrase of the documentation sentence
	domains []string
	bare    bool
	sub     bool
	glob    bool
	wild    bool
	local   bool
	any     bool
	enforce bool
	name    string
	permit  bool
}

func c15DocExamples() []c15DocExample {
	ex := "example.com"
	return []c15DocExample{
		{"allow_subdomains: example.com allows foo.example.com", []string{ex}, false, true, false, true, false, false, true, "foo.example.com", true},
		{"allow_subdomains: ... and bar.example.com", []string{ex}, false, true, false, true, false, false, true, "bar.example.com", true},
		{"allow_subdomains: ... as well as *.example.com", []string{ex}, false, true, false, true, false, false, true, "*.example.com", true},
		{"allow_wildcard_certificates=false prevents wildcards even if allowed by an option above", []string{ex}, false, true, false, false, false, false, true, "*.example.com", false},
		{"allow_bare_domains: example.com itself may be requested", []string{ex}, true, false, false, true, false, false, true, "example.com", true},
		{"without allow_bare_domains the domain itself is not a permitted name", []string{ex}, false, true, false, true, false, false, true, "example.com", false},
		{"bare matching does not cover subdomains", []string{ex}, true, false, false, true, false, false, true, "foo.example.com", false},
		{"allowed_domains=*.example.com with bare+wildcard permits *.example.com", []string{"*.example.com"}, true, false, false, true, false, false, true, "*.example.com", true},
		{"allowed_domains=*.example.com with bare only is not a glob", []string{"*.example.com"}, true, false, false, true, false, false, true, "foo.example.com", false},
		{"allow_glob_domains: ftp*.example.com matches ftp1.example.com", []string{"ftp*.example.com"}, false, false, true, true, false, false, true, "ftp1.example.com", true},
		{"allow_glob_domains: ftp*.example.com does not match www.example.com", []string{"ftp*.example.com"}, false, false, true, true, false, false, true, "www.example.com", false},
		{"globs match across domain parts: *.example.com matches foo.example.com", []string{"*.example.com"}, false, false, true, true, false, false, true, "foo.example.com", true},
		{"globs match across domain parts: *.example.com matches baz.bar.foo.example.com", []string{"*.example.com"}, false, false, true, true, false, false, true, "baz.bar.foo.example.com", true},
		{"glob pattern without allow_glob_domains is inert", []string{"*.example.com"}, false, false, false, true, false, false, true, "foo.example.com", false},
		{"options are independent: foo.*.example.com with subdomains+glob does not permit bar.foo.baz.example.com", []string{"foo.*.example.com"}, false, true, true, true, false, false, true, "bar.foo.baz.example.com", false},
		{"... while foo.baz.example.com matches the glob", []string{"foo.*.example.com"}, false, true, true, true, false, false, true, "foo.baz.example.com", true},
		{"*.*.example.com with glob+wildcard permits *.foo.example.com", []string{"*.*.example.com"}, false, false, true, true, false, false, true, "*.foo.example.com", true},
		{"... unless restricted by allow_wildcard_certificates", []string{"*.*.example.com"}, false, false, true, false, false, false, true, "*.foo.example.com", false},
		{"allow_any_name: any CN", nil, false, false, false, true, false, true, true, "whatever.test", true},
		{"allow_any_name: allow_wildcard_certificates is still checked", nil, false, false, false, false, false, true, true, "*.whatever.test", false},
		{"allow_any_name: enforce_hostnames is still checked", nil, false, false, false, true, false, true, true, "under_score.whatever.test", false},
		{"allow_any_name without enforce_hostnames", nil, false, false, false, true, false, true, false, "under_score.whatever.test", true},
		{"allow_localhost: localhost may be requested", nil, false, false, false, true, true, false, true, "localhost", true},
		{"allow_localhost=false and not in allowed_domains", nil, false, false, false, true, false, false, true, "localhost", false},
		{"wildcard type foo*.example.com", []string{ex}, false, true, false, true, false, false, true, "foo*.example.com", true},
		{"wildcard type *foo.example.com", []string{ex}, false, true, false, true, false, false, true, "*foo.example.com", true},
		{"wildcard type f*o.example.com", []string{ex}, false, true, false, true, false, false, true, "f*o.example.com", true},
		{"a wildcard outside the left-most label is none of the four supported types", []string{ex}, false, true, false, true, false, false, false, "foo.*.example.com", false},
		{"two wildcards are none of the four supported types", []string{ex}, false, true, false, true, false, false, false, "*.*.example.com", false},
		{"enforce_hostnames: only valid host names", []string{ex}, false, true, false, true, false, false, true, "under_score.example.com", false},
		{"enforce_hostnames=false lifts that", []string{ex}, false, true, false, true, false, false, false, "under_score.example.com", true},
		{"a suffix that is not a label boundary is not a subdomain", []string{ex}, true, true, false, true, false, false, true, "fooexample.com", false},
		{"a name that merely starts with the domain is not a subdomain", []string{ex}, true, true, false, true, false, false, true, "example.com.evil.test", false},
		{"e-mail SAN entries are matched by their domain: bare", []string{ex}, true, false, false, true, false, false, true, "user@example.com", true},
		{"e-mail SAN entries are matched by their domain: foreign domain", []string{ex}, true, true, false, true, false, false, true, "user@evil.test", false},
	}
}

func TestVerif_C15_DocExamples(t *testing.T) {
	seed := kit.Seed(c15DefaultSeed)
	res := kit.NewResult(t, "c15-docexamples", seed, "each case is one example sentence of the role documentation (name, switches, permitted or not) run through the reference oracle and through issue/ on a fresh role; non-trivial = every example; distinct examples counted")
	defer res.Write(t)
	var err error
	if c15Pool == nil {
		if c15Pool, err = c15KeyPool(); err != nil {
			t.Fatal(err)
		}
	}
	m, err := c15NewMount(t, 9000, kit.NewRand(seed, 9000))
	if err != nil {
		res.Inconc("mount setup failed: %v", err)
		return
	}
	for i, e := range c15DocExamples() {
		caseID := fmt.Sprintf("doc%d", i)
		if !kit.WantCase(caseID) {
			continue
		}
		r := &c15Role{Name: caseID, AllowedDomains: e.domains, AllowBare: e.bare, AllowSub: e.sub, AllowGlob: e.glob, AllowWildcard: e.wild,
			AllowLocalhost: e.local, AllowAny: e.any, EnforceHostnames: e.enforce, AllowIPSANs: true, KeyType: "ec", NotBeforeBound: "permit", NotAfterBound: "permit",
			KeyUsage: []string{"DigitalSignature"}, ServerFlag: true, ClientFlag: true, UseCSRCN: true, UseCSRSANs: true, RequireCN: true,
			CNValidations: []string{"email", "hostname"}, IssuerRef: "default", TTL: time.Hour}
		if r.AllowedDomains == nil {
			r.AllowedDomains = []string{}
		}
		res.Nontrivial(caseID)
		v := refAdmit(r, e.name)
		if v.OK != e.permit {
			res.Inconc("reference oracle disagrees with the documentation on example %d (%s): name %q reference=%v (%s%s) documentation=%v", i, e.doc, e.name, v.OK, v.Via, v.Why, e.permit)
			continue
		}
		res.Count("reference_agrees_with_doc", 1)
		if out := m.call("roles/"+r.Name, r.apiData()); out.Class != "issued" {
			res.Inconc("role write for example %d failed: %s", i, out.Err)
			continue
		}
		q := &c15Req{Kind: "issue", Format: "pem", CN: e.name, Intent: "doc"}
		before := res.NViolations()
		c15RunOne(res, m, r, q, caseID)
		last := m.lastClass
		switch {
		case last == "issued" && !e.permit && res.NViolations() == before:
			// the content oracle must have flagged it; if not, flag here
			res.Violate("C15-doc-example-denied-name-issued", caseID, fmt.Sprintf("documentation: %s; name %q was issued", e.doc, e.name), map[string]any{"role": r.apiData(), "name": e.name})
		case last == "issued" && e.permit:
			res.Count("doc_permitted_issued", 1)
		case last != "issued" && !e.permit:
			res.Count("doc_denied_refused", 1)
		case last != "issued" && e.permit:
			res.Count("doc_permitted_but_refused", 1)
			res.Note("documentation says permitted (%s), engine refused %q - allowed by C15, noted only", e.doc, e.name)
		}
	}
	res.Sample(map[string]any{"example": "allow_subdomains: example.com ... as well as *.example.com", "reference": "wild-sub", "engine": "issued"})
	res.Require("reference_agrees_with_doc", int64(len(c15DocExamples())))
	res.Require("doc_permitted_issued", 12)
	res.Require("doc_denied_refused", 12)
}
