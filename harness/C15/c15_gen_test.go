//go:build verif

package pki

// Workload generators for C15: pairwise-covering role design, role-directed
// name grammar, request and CSR construction.

import (
	"crypto"
	"crypto/ecdsa"
	"crypto/ed25519"
	"crypto/elliptic"
	"crypto/rand"
	"crypto/rsa"
	"crypto/x509"
	"crypto/x509/pkix"
	"encoding/asn1"
	"encoding/pem"
	"fmt"
	"net"
	"net/url"
	"strings"
	"time"

	kit "github.com/openbao/openbao/sdk/v2/helper/verifkit"
	"golang.org/x/net/idna"
)

// ---------------------------------------------------------------- pairwise design

type c15Factor struct {
	name  string
	n     int
	apply func(r *c15Role, l int, now time.Time)
}

func c15Factors() []c15Factor {
	h := time.Hour
	return []c15Factor{
		{"domains", 8, func(r *c15Role, l int, _ time.Time) {
			r.AllowedDomains = [][]string{
				{},
				{"example.com"},
				{"example.com", "corp.internal.test"},
				{"*.example.com"},
				{"ftp*.example.com", "exact.test"},
				{"foo.*.example.com"},
				{"Example.COM"},
				{"bücher.example", "com"},
			}[l]
		}},
		{"bare", 2, func(r *c15Role, l int, _ time.Time) { r.AllowBare = l == 1 }},
		{"sub", 2, func(r *c15Role, l int, _ time.Time) { r.AllowSub = l == 1 }},
		{"glob", 2, func(r *c15Role, l int, _ time.Time) { r.AllowGlob = l == 1 }},
		{"wildcard", 2, func(r *c15Role, l int, _ time.Time) { r.AllowWildcard = l == 1 }},
		{"localhost", 2, func(r *c15Role, l int, _ time.Time) { r.AllowLocalhost = l == 1 }},
		{"anyname", 3, func(r *c15Role, l int, _ time.Time) { r.AllowAny = l == 2 }},
		{"enforce", 2, func(r *c15Role, l int, _ time.Time) { r.EnforceHostnames = l == 1 }},
		{"ip", 3, func(r *c15Role, l int, _ time.Time) {
			r.AllowIPSANs = l != 2
			r.IPCIDRs = []string{}
			if l == 1 {
				r.IPCIDRs = []string{"10.0.0.0/8", "fd00::/8"}
			}
		}},
		{"uri", 4, func(r *c15Role, l int, _ time.Time) {
			r.URISANs = [][]string{{}, {"spiffe://example.org/*"}, {"https://*.example.com/path", "urn:x:*"}, {"*"}}[l]
		}},
		{"other", 4, func(r *c15Role, l int, _ time.Time) {
			r.OtherSANs = [][]string{{}, {"1.3.6.1.4.1.311.20.2.3;UTF8:*"}, {"1.3.6.1.4.1.311.20.2.3;utf8:*@example.com", "1.2.3.4;UTF-8:fixed"}, {"*"}}[l]
		}},
		{"key", 6, func(r *c15Role, l int, _ time.Time) {
			kt := []string{"ec", "ec", "rsa", "rsa", "ed25519", "any"}[l]
			kb := []int{0, 384, 0, 3072, 0, 0}[l]
			r.KeyType, r.KeyBits = kt, kb
		}},
		{"ttl", 4, func(r *c15Role, l int, _ time.Time) { r.TTL = []time.Duration{0, 1 * h, 30 * h, 100 * h}[l] }},
		{"maxttl", 4, func(r *c15Role, l int, _ time.Time) { r.MaxTTL = []time.Duration{0, 2 * h, 40 * h, 200 * h}[l] }},
		{"nbd", 3, func(r *c15Role, l int, _ time.Time) { r.NotBeforeDuration = []time.Duration{0, 10 * time.Minute, 2 * h}[l] }},
		{"nbbound", 3, func(r *c15Role, l int, _ time.Time) { r.NotBeforeBound = []string{"permit", "duration", "forbid"}[l] }},
		{"nabound", 4, func(r *c15Role, l int, now time.Time) {
			r.NotAfterBound = []string{"permit", "ttl-limited", "forbid", now.Add(20 * h).UTC().Format(time.RFC3339)}[l]
		}},
		{"keyusage", 4, func(r *c15Role, l int, _ time.Time) {
			r.KeyUsage = [][]string{
				{"DigitalSignature", "KeyAgreement", "KeyEncipherment"},
				{},
				{"CertSign", "CRLSign"},
				{"DigitalSignature", "ContentCommitment", "DataEncipherment"},
			}[l]
		}},
		{"ekuflags", 4, func(r *c15Role, l int, _ time.Time) {
			r.ServerFlag, r.ClientFlag, r.CodeSign, r.EmailProt = l == 0 || l == 3, l == 0 || l == 3, l >= 2, l >= 2
		}},
		{"eku", 4, func(r *c15Role, l int, _ time.Time) {
			r.ExtKeyUsage = [][]string{{}, {"TimeStamping"}, {}, {"any"}}[l]
			r.EKUOIDs = [][]string{{}, {}, {"1.3.6.1.5.5.7.3.99"}, {"1.3.6.1.5.5.7.3.99"}}[l]
		}},
		{"usecsrcn", 2, func(r *c15Role, l int, _ time.Time) { r.UseCSRCN = l == 1 }},
		{"usecsrsans", 2, func(r *c15Role, l int, _ time.Time) { r.UseCSRSANs = l == 1 }},
		{"requirecn", 2, func(r *c15Role, l int, _ time.Time) { r.RequireCN = l == 1 }},
		{"cnval", 4, func(r *c15Role, l int, _ time.Time) {
			r.CNValidations = [][]string{{"email", "hostname"}, {"email"}, {"hostname"}, {"disabled"}}[l]
		}},
		{"bcvalid", 2, func(r *c15Role, l int, _ time.Time) { r.BCValidNonCA = l == 1 }},
		{"issuer", 6, func(r *c15Role, l int, _ time.Time) {
			r.IssuerRef = []string{"default", "long", "short-err", "short-trunc", "short-permit", "inter"}[l]
		}},
		{"org", 2, func(r *c15Role, l int, _ time.Time) {
			r.Organization, r.OU = []string{}, []string{}
			if l == 1 {
				r.Organization, r.OU = []string{"Acme Inc"}, []string{"Ops", "Ops"}
			}
		}},
		{"ids", 3, func(r *c15Role, l int, _ time.Time) {
			r.AllowedSerials = [][]string{{}, {"abc-*"}, {"*"}}[l]
			r.AllowedUserIDs = [][]string{{}, {"alice", "svc-*"}, {"*"}}[l]
		}},
		{"store", 3, func(r *c15Role, l int, _ time.Time) { r.NoStore, r.GenerateLease = l == 1, l == 2 }},
	}
}

// c15Pairwise returns rows (one level per factor) such that every pair of
// levels of every two factors occurs in some row (greedy, seeded).
func c15Pairwise(rng *kit.Rand, fs []c15Factor) [][]int {
	nf := len(fs)
	off := make([]int, nf+1)
	for i, f := range fs {
		off[i+1] = off[i] + f.n
	}
	L := off[nf]
	covered := make([]bool, L*L)
	left := 0
	for f1 := 0; f1 < nf; f1++ {
		for f2 := f1 + 1; f2 < nf; f2++ {
			left += fs[f1].n * fs[f2].n
		}
	}
	idx := func(f1, l1, f2, l2 int) int { return (off[f1]+l1)*L + off[f2] + l2 }
	gain := func(row []int) int {
		g := 0
		for f1 := 0; f1 < nf; f1++ {
			for f2 := f1 + 1; f2 < nf; f2++ {
				if !covered[idx(f1, row[f1], f2, row[f2])] {
					g++
				}
			}
		}
		return g
	}
	var rows [][]int
	for left > 0 {
		// first uncovered pair in a fixed scan order anchors the candidates
		a1, b1, a2, b2 := -1, 0, 0, 0
	scan:
		for f1 := 0; f1 < nf; f1++ {
			for f2 := f1 + 1; f2 < nf; f2++ {
				for l1 := 0; l1 < fs[f1].n; l1++ {
					for l2 := 0; l2 < fs[f2].n; l2++ {
						if !covered[idx(f1, l1, f2, l2)] {
							a1, b1, a2, b2 = f1, l1, f2, l2
							break scan
						}
					}
				}
			}
		}
		var best []int
		bestG := -1
		for c := 0; c < 24; c++ {
			row := make([]int, nf)
			for f := range row {
				row[f] = rng.Intn(fs[f].n)
			}
			row[a1], row[a2] = b1, b2
			if g := gain(row); g > bestG {
				best, bestG = row, g
			}
		}
		for f1 := 0; f1 < nf; f1++ {
			for f2 := f1 + 1; f2 < nf; f2++ {
				k := idx(f1, best[f1], f2, best[f2])
				if !covered[k] {
					covered[k] = true
					left--
				}
			}
		}
		rows = append(rows, best)
	}
	return rows
}

func c15RoleFromRow(fs []c15Factor, row []int, name string, now time.Time, rng *kit.Rand) *c15Role {
	r := &c15Role{Name: name}
	for i, f := range fs {
		f.apply(r, row[i], now)
	}
	// the role endpoint refuses ttl > max_ttl; keep the pair consistent
	if r.MaxTTL > 0 && r.TTL > r.MaxTTL {
		r.TTL = r.MaxTTL
	}
	// role-level fixed validity ends are rare extras (they override the TTL logic)
	if rng.Chance(1, 12) {
		r.RoleNotAfter = now.Add(15 * time.Hour).UTC().Format(time.RFC3339)
	}
	if rng.Chance(1, 16) {
		r.RoleNotBefore = now.Add(-3 * time.Hour).UTC().Format(time.RFC3339)
	}
	return r
}

// ---------------------------------------------------------------- key pool

type c15Key struct {
	Name   string
	Type   string
	Bits   int
	Signer crypto.Signer
}

func c15KeyPool() (map[string]*c15Key, error) {
	pool := map[string]*c15Key{}
	add := func(name, typ string, bits int, s crypto.Signer, err error) error {
		if err != nil {
			return fmt.Errorf("key %s: %w", name, err)
		}
		pool[name] = &c15Key{Name: name, Type: typ, Bits: bits, Signer: s}
		return nil
	}
	for _, c := range []struct {
		n string
		c elliptic.Curve
		b int
	}{{"ec224", elliptic.P224(), 224}, {"ec256", elliptic.P256(), 256}, {"ec384", elliptic.P384(), 384}, {"ec521", elliptic.P521(), 521}} {
		k, err := ecdsa.GenerateKey(c.c, rand.Reader)
		if err := add(c.n, "ec", c.b, k, err); err != nil {
			return nil, err
		}
	}
	k2, err := rsa.GenerateKey(rand.Reader, 2048)
	if err := add("rsa2048", "rsa", 2048, k2, err); err != nil {
		return nil, err
	}
	k3, err := rsa.GenerateKey(rand.Reader, 3072)
	if err := add("rsa3072", "rsa", 3072, k3, err); err != nil {
		return nil, err
	}
	// RSA sizes are the bit length of the modulus: keys a few bits under a minimum whose byte
	// length equals that of the minimum (2046 / 3070 bits) must be refused like any other
	for _, bits := range []int{2046, 3070} {
		k, err := rsa.GenerateKey(rand.Reader, bits)
		if err == nil && k.N.BitLen() != bits {
			err = fmt.Errorf("generated %d-bit modulus instead of %d", k.N.BitLen(), bits)
		}
		if err := add(fmt.Sprintf("rsa%d", bits), "rsa", bits, k, err); err != nil {
			return nil, err
		}
	}
	_, ed, err := ed25519.GenerateKey(rand.Reader)
	if err := add("ed25519", "ed25519", 0, ed, err); err != nil {
		return nil, err
	}
	return pool, nil
}

// ---------------------------------------------------------------- CSR

type c15CSR struct {
	Key        string
	CN         string
	Org        []string
	SubjSerial string
	DNS        []string
	Emails     []string
	IPs        []string
	URIs       []string
	Others     []string // "<oid>;UTF8:<value>"
	CA         bool     // BasicConstraints CA:TRUE extension
	KeyUsage   x509.KeyUsage
	EKU        []asn1.ObjectIdentifier
}

var (
	c15OIDBasicConstraints = asn1.ObjectIdentifier{2, 5, 29, 19}
	c15OIDKeyUsage         = asn1.ObjectIdentifier{2, 5, 29, 15}
	c15OIDExtKeyUsage      = asn1.ObjectIdentifier{2, 5, 29, 37}
	c15OIDOCSPSigning      = asn1.ObjectIdentifier{1, 3, 6, 1, 5, 5, 7, 3, 9}
	c15OIDCodeSigning      = asn1.ObjectIdentifier{1, 3, 6, 1, 5, 5, 7, 3, 3}
)

func c15Reverse(b byte) byte {
	var r byte
	for i := 0; i < 8; i++ {
		r = r<<1 | b&1
		b >>= 1
	}
	return r
}

func c15KeyUsageExt(ku x509.KeyUsage) (pkix.Extension, error) {
	a := []byte{c15Reverse(byte(ku)), c15Reverse(byte(ku >> 8))}
	l := 1
	if a[1] != 0 {
		l = 2
	}
	bits := a[:l]
	bl := 0
	for i := len(bits) - 1; i >= 0 && bl == 0; i-- {
		for bit := 0; bit < 8; bit++ {
			if bits[i]>>uint(bit)&1 == 1 {
				bl = (i+1)*8 - bit
				break
			}
		}
	}
	v, err := asn1.Marshal(asn1.BitString{Bytes: bits, BitLength: bl})
	return pkix.Extension{Id: c15OIDKeyUsage, Critical: true, Value: v}, err
}

func c15ToASCII(host string) (string, bool) {
	for i := 0; i < len(host); i++ {
		if host[i] >= 0x80 {
			a, err := idna.Punycode.ToASCII(host)
			return a, err == nil
		}
	}
	return host, true
}

// buildSAN marshals a subjectAltName value by hand (needed for otherName).
func c15BuildSAN(c *c15CSR) ([]byte, error) {
	var names []asn1.RawValue
	for _, o := range c.Others {
		oidS, val, ok := refSplitOther(o)
		if !ok {
			continue
		}
		var oid asn1.ObjectIdentifier
		for _, p := range strings.Split(oidS, ".") {
			var n int
			if _, err := fmt.Sscanf(p, "%d", &n); err != nil {
				return nil, err
			}
			oid = append(oid, n)
		}
		oidB, err := asn1.Marshal(oid)
		if err != nil {
			return nil, err
		}
		strB, err := asn1.MarshalWithParams(val, "utf8")
		if err != nil {
			return nil, err
		}
		expl, err := asn1.Marshal(asn1.RawValue{Class: asn1.ClassContextSpecific, Tag: 0, IsCompound: true, Bytes: strB})
		if err != nil {
			return nil, err
		}
		names = append(names, asn1.RawValue{Class: asn1.ClassContextSpecific, Tag: 0, IsCompound: true, Bytes: append(oidB, expl...)})
	}
	for _, e := range c.Emails {
		names = append(names, asn1.RawValue{Class: asn1.ClassContextSpecific, Tag: 1, Bytes: []byte(e)})
	}
	for _, d := range c.DNS {
		names = append(names, asn1.RawValue{Class: asn1.ClassContextSpecific, Tag: 2, Bytes: []byte(d)})
	}
	for _, u := range c.URIs {
		names = append(names, asn1.RawValue{Class: asn1.ClassContextSpecific, Tag: 6, Bytes: []byte(u)})
	}
	for _, s := range c.IPs {
		ip := net.ParseIP(s)
		if ip == nil {
			continue
		}
		if v4 := ip.To4(); v4 != nil {
			ip = v4
		}
		names = append(names, asn1.RawValue{Class: asn1.ClassContextSpecific, Tag: 7, Bytes: ip})
	}
	return asn1.Marshal(names)
}

// c15MakeCSR builds the PEM CSR. Non-ASCII or otherwise unencodable names are
// converted/dropped here and the spec is updated to what was really encoded.
func c15MakeCSR(c *c15CSR, pool map[string]*c15Key) (string, error) {
	key := pool[c.Key]
	if key == nil {
		return "", fmt.Errorf("no key %q", c.Key)
	}
	clean := func(in []string, email bool) []string {
		var out []string
		for _, n := range in {
			if email {
				i := strings.LastIndex(n, "@")
				if i < 0 {
					continue
				}
				h, ok := c15ToASCII(n[i+1:])
				if !ok || !c15IsASCII(n[:i]) {
					continue
				}
				out = append(out, n[:i]+"@"+h)
			} else {
				h, ok := c15ToASCII(n)
				if !ok || h == "" {
					continue
				}
				out = append(out, h)
			}
		}
		return out
	}
	c.DNS = clean(c.DNS, false)
	c.Emails = clean(c.Emails, true)
	tmpl := &x509.CertificateRequest{
		Subject: pkix.Name{CommonName: c.CN, Organization: c.Org, SerialNumber: c.SubjSerial},
	}
	if len(c.DNS)+len(c.Emails)+len(c.IPs)+len(c.URIs)+len(c.Others) > 0 {
		v, err := c15BuildSAN(c)
		if err != nil {
			return "", err
		}
		tmpl.ExtraExtensions = append(tmpl.ExtraExtensions, pkix.Extension{Id: refOIDSAN, Value: v})
	}
	if c.CA {
		v, err := asn1.Marshal(struct {
			IsCA bool `asn1:"optional"`
		}{true})
		if err != nil {
			return "", err
		}
		tmpl.ExtraExtensions = append(tmpl.ExtraExtensions, pkix.Extension{Id: c15OIDBasicConstraints, Critical: true, Value: v})
	}
	if c.KeyUsage != 0 {
		e, err := c15KeyUsageExt(c.KeyUsage)
		if err != nil {
			return "", err
		}
		tmpl.ExtraExtensions = append(tmpl.ExtraExtensions, e)
	}
	if len(c.EKU) > 0 {
		v, err := asn1.Marshal(c.EKU)
		if err != nil {
			return "", err
		}
		tmpl.ExtraExtensions = append(tmpl.ExtraExtensions, pkix.Extension{Id: c15OIDExtKeyUsage, Value: v})
	}
	der, err := x509.CreateCertificateRequest(rand.Reader, tmpl, key.Signer)
	if err != nil {
		return "", err
	}
	return string(pem.EncodeToMemory(&pem.Block{Type: "CERTIFICATE REQUEST", Bytes: der})), nil
}

func c15IsASCII(s string) bool {
	for i := 0; i < len(s); i++ {
		if s[i] >= 0x80 {
			return false
		}
	}
	return true
}

// ---------------------------------------------------------------- name grammar

var (
	c15GoodLabels = []string{"www", "a-b", "x1", "api", "db01", "UPPER", "MiXed", "n", "a1b2c3", "xn--bcher-kva"}
	c15BadLabels  = []string{"_srv", "-lead", "trail-", "sp ace", "ex!cl", "under_score", "a/b"}
	c15UniLabels  = []string{"bücher", "例え", "münchen", "Ünï"}
	c15Foreign    = []string{"evil.test", "example.org", "example.com", "example.net", "corp.internal.test", "exact.test", "localhost", "localdomain", "com", "test"}
	c15Locals     = []string{"user", "first.last", "admin+tag", "ftpx", "foo.x", "UPPER", "o'brien"}
)

// c15InstantiateGlob replaces glob stars of an allowed-domain pattern.
func c15InstantiateGlob(rng *kit.Rand, d string) string {
	if !strings.Contains(d, "*") || rng.Chance(1, 4) {
		return d
	}
	var sb strings.Builder
	for _, c := range d {
		if c == '*' {
			sb.WriteString(kit.Pick(rng, []string{"x", "ab1", "a.b", "", "*", "-", "X", "deep.er.still"}))
		} else {
			sb.WriteRune(c)
		}
	}
	return sb.String()
}

// c15GenName derives a DNS name / e-mail address / CN candidate aimed at the
// role's own switches (bare, sub, no-dot suffix attack, wildcard forms, ...).
func c15GenName(rng *kit.Rand, r *c15Role) string {
	var base string
	if len(r.AllowedDomains) > 0 && rng.Chance(7, 10) {
		base = c15InstantiateGlob(rng, kit.Pick(rng, r.AllowedDomains))
	} else {
		base = kit.Pick(rng, c15Foreign)
	}
	if r.AllowLocalhost && rng.Chance(1, 10) {
		base = kit.Pick(rng, []string{"localhost", "localdomain"})
	}
	lab := func() string {
		switch rng.Intn(10) {
		case 0:
			return kit.Pick(rng, c15BadLabels)
		case 1:
			return kit.Pick(rng, c15UniLabels)
		}
		return kit.Pick(rng, c15GoodLabels)
	}
	var name string
	switch w := rng.Intn(100); {
	case w < 15:
		name = base
	case w < 35:
		name = lab() + "." + base
	case w < 43:
		name = lab() + "." + lab() + "." + base
	case w < 51:
		name = kit.Pick(rng, []string{"foo", "x", "not", "www-"}) + base // missing dot
	case w < 56:
		name = base + "." + kit.Pick(rng, c15Foreign)
	case w < 59:
		if i := strings.LastIndex(base, "."); i >= 0 {
			name = base[:i] + ".co"
		} else {
			name = base + "x"
		}
	case w < 69:
		name = "*." + base
	case w < 75:
		name = kit.Pick(rng, []string{"w*", "*w", "w*w", "a-*", "*-a", "W*", "u_*", "*!x"}) + "." + base
	case w < 79:
		name = "*." + lab() + "." + base
	case w < 85:
		name = kit.Pick(rng, []string{"sub.*.", "*.*.", "**.", "*", "a.*b."}) + base
	case w < 87:
		name = base + "."
	case w < 93:
		name = kit.Pick(rng, c15BadLabels) + "." + base
	case w < 95:
		if rng.Chance(1, 2) {
			name = strings.Repeat("a", 64) + "." + base
		} else {
			name = strings.Repeat("abcdefghij.", 25) + base
		}
	default:
		name = kit.Pick(rng, c15UniLabels) + "." + base
	}
	if rng.Chance(1, 5) {
		b := []byte(name)
		for i := range b {
			if b[i] >= 'a' && b[i] <= 'z' && rng.Chance(1, 3) {
				b[i] -= 32
			}
		}
		name = string(b)
	}
	if rng.Chance(1, 4) {
		local := kit.Pick(rng, c15Locals)
		if rng.Chance(1, 3) {
			// local part crafted from the literal prefix of a glob pattern
			for _, d := range r.AllowedDomains {
				if i := strings.Index(d, "*"); i > 0 {
					local = d[:i] + kit.Pick(rng, []string{"x", "", "a.b"})
					if j := strings.LastIndex(d, "*"); j >= 0 && rng.Chance(2, 3) {
						name = kit.Pick(rng, []string{"victim", "y", "mail"}) + d[j+1:]
					}
					break
				}
			}
		}
		name = local + "@" + name
		if rng.Chance(1, 25) {
			name = "a@" + name
		}
	}
	return name
}

// c15SampleName draws names until the reference verdict equals want (bounded).
func c15SampleName(rng *kit.Rand, r *c15Role, want bool, email int) (string, bool) {
	for i := 0; i < 40; i++ {
		n := c15GenName(rng, r)
		isEmail := strings.Contains(n, "@")
		if email == 0 && isEmail || email == 1 && !isEmail {
			continue
		}
		if refAdmit(r, n).OK == want {
			return n, true
		}
	}
	return "", false
}

// ---------------------------------------------------------------- requests

type c15Req struct {
	Kind       string // issue | sign | verbatim | intermediate
	RoleInPath bool   // verbatim: role name appended
	PathIssuer string // non-empty: issuer/<ref>/... form

	CN        string
	AltNames  []string
	IPs       []string
	URIs      []string
	Others    []string
	TTL       time.Duration
	NotAfter  string
	NotBefore string
	ExcludeCN bool
	Serial    string
	UserIDs   []string
	Format    string
	KeyType   string
	KeyBits   int
	SetKey    bool
	CSR       *c15CSR

	// sign-verbatim parameters
	VKeyUsage    []string // nil = documented default
	VExtKeyUsage []string
	VBCValid     *bool

	// sign-intermediate
	MaxPathLen   *int
	UseCSRValues bool

	Intent string // how the generator meant it: positive | fault:<what> | random
}

func (q *c15Req) shape() string {
	nameClass := func(n string) string {
		switch {
		case n == "":
			return "-"
		case strings.Contains(n, "@"):
			return "e"
		case strings.Contains(n, "*"):
			return "w"
		case !c15IsASCII(n):
			return "u"
		}
		return "d"
	}
	cn, alts := q.CN, q.AltNames
	csr := "-"
	if q.CSR != nil {
		csr = fmt.Sprintf("%s/ca%v/ku%v/o%v/s%v|%s|d%de%di%du%do%d", q.CSR.Key, q.CSR.CA, q.CSR.KeyUsage != 0, len(q.CSR.Org) > 0, q.CSR.SubjSerial != "",
			nameClass(q.CSR.CN), len(q.CSR.DNS), len(q.CSR.Emails), len(q.CSR.IPs), len(q.CSR.URIs), len(q.CSR.Others))
	}
	ac := ""
	for _, a := range alts {
		ac += nameClass(a)
	}
	ttl := "0"
	switch {
	case q.TTL > 48*time.Hour:
		ttl = "xl"
	case q.TTL > 2*time.Hour:
		ttl = "l"
	case q.TTL > 0:
		ttl = "s"
	}
	return fmt.Sprintf("%s/%v/%v|cn%s|alt%s|ip%d|uri%d|oth%d|ttl%s|na%v|nb%v|x%v|s%v|u%d|%s|csr%s", q.Kind, q.RoleInPath, q.PathIssuer != "",
		nameClass(cn), ac, len(q.IPs), len(q.URIs), len(q.Others), ttl, q.NotAfter != "", q.NotBefore != "", q.ExcludeCN, q.Serial != "", len(q.UserIDs), q.Format, csr)
}

func c15PickIP(rng *kit.Rand, r *c15Role, want bool) string {
	in := []string{"10.1.2.3", "10.255.0.1", "fd00::1234"}
	out := []string{"192.168.1.7", "11.0.0.1", "2001:db8::1", "127.0.0.1", "9.255.255.255"}
	if len(r.IPCIDRs) == 0 {
		return kit.Pick(rng, append(in, out...))
	}
	if want {
		return kit.Pick(rng, in)
	}
	return kit.Pick(rng, out)
}

var c15URIPool = []string{
	"spiffe://example.org/ns/a", "spiffe://example.org/", "spiffe://example.org.evil.test/x", "spiffe://example.orgx/y",
	"https://a.example.com/path", "https://a.b.example.com/path", "https://a.example.com/path/more", "https://example.com/path", "http://a.example.com/path",
	"urn:x:1", "urn:y:1", "mailto:root@example.com",
}

func c15PickURI(rng *kit.Rand, r *c15Role, want bool) (string, bool) {
	for i := 0; i < 30; i++ {
		u := kit.Pick(rng, c15URIPool)
		if refURIAllowed(r, u) == want {
			return u, true
		}
	}
	return "", false
}

var c15OtherPool = []string{
	"1.3.6.1.4.1.311.20.2.3;UTF8:devops@example.com", "1.3.6.1.4.1.311.20.2.3;UTF8:devops@example.org", "1.3.6.1.4.1.311.20.2.3;utf-8:upn",
	"1.2.3.4;UTF8:fixed", "1.2.3.4;UTF8:other", "2.5.5.5;UTF8:x",
}

func c15PickOther(rng *kit.Rand, r *c15Role, want bool) (string, bool) {
	for i := 0; i < 30; i++ {
		o := kit.Pick(rng, c15OtherPool)
		oid, v, _ := refSplitOther(o)
		if refOtherAllowed(r, oid, v) == want {
			return o, true
		}
	}
	return "", false
}

func c15KeyFor(rng *kit.Rand, r *c15Role, want bool) string {
	good := map[string][]string{
		"ec/256": {"ec256", "ec384", "ec521"}, "ec/384": {"ec384", "ec521"},
		"rsa/2048": {"rsa2048", "rsa3072"}, "rsa/3072": {"rsa3072"},
		"ed25519/0": {"ed25519"}, "any/0": {"ec224", "ec256", "ec384", "rsa2048", "ed25519"},
	}
	bad := map[string][]string{
		"ec/256": {"ec224", "rsa2048", "ed25519"}, "ec/384": {"ec256", "ec224", "rsa3072"},
		"rsa/2048": {"ec256", "ed25519", "rsa2046", "rsa2046"}, "rsa/3072": {"rsa2048", "ec384", "rsa3070", "rsa3070"},
		"ed25519/0": {"ec256", "rsa2048"}, "any/0": {"ec256", "rsa2046"},
	}
	k := fmt.Sprintf("%s/%d", r.KeyType, refDefaultBits(r.KeyType, r.KeyBits))
	if want {
		return kit.Pick(rng, good[k])
	}
	return kit.Pick(rng, bad[k])
}

// c15GenReq builds one request against role r.
func c15GenReq(rng *kit.Rand, r *c15Role, now time.Time) *c15Req {
	q := &c15Req{Format: "pem"}
	switch w := rng.Intn(100); {
	case w < 42:
		q.Kind = "issue"
	case w < 86:
		q.Kind = "sign"
	default:
		q.Kind = "verbatim"
		q.RoleInPath = rng.Chance(3, 4)
	}
	// RSA key generation is slow: RSA roles are mostly exercised through sign
	if q.Kind == "issue" && r.KeyType == "rsa" && (r.KeyBits == 3072 || !rng.Chance(1, 8)) {
		q.Kind = "sign"
	}
	if rng.Chance(1, 6) {
		q.PathIssuer = kit.Pick(rng, []string{"long", "short-err", "short-trunc", "short-permit", "inter", "default"})
	}
	switch rng.Intn(12) {
	case 0:
		q.Format = "der"
	case 1:
		q.Format = "pem_bundle"
	}

	mode := rng.Intn(100)
	positive := mode < 70 // positive base; faults are injected below for 35..69
	fault := ""
	if mode >= 35 && mode < 70 {
		fault = kit.Pick(rng, []string{"name", "name", "name", "wildcard", "ip", "uri", "other", "ttl", "notafter", "notbefore", "serial", "userid", "csr-ca", "csr-ku", "csr-org", "key", "email"})
	}
	q.Intent = "random"
	if positive {
		q.Intent = "positive"
		if fault != "" {
			q.Intent = "fault:" + fault
		}
	}

	pickName := func(want bool, email int) string {
		if positive {
			if n, ok := c15SampleName(rng, r, want, email); ok {
				return n
			}
		}
		return c15GenName(rng, r)
	}

	// --- names
	var cn string
	var alts []string
	cnEmail := 0
	if !refCNDisabled(r) {
		if !refCNTypeAllowed(r, "x") && refCNTypeAllowed(r, "a@b") {
			cnEmail = 1
		}
	}
	if positive {
		cn = pickName(true, cnEmail)
		if !r.RequireCN && rng.Chance(1, 5) {
			cn = ""
		}
		for i := rng.Intn(3); i > 0; i-- {
			alts = append(alts, pickName(true, -1))
		}
	} else {
		if rng.Chance(9, 10) {
			cn = c15GenName(rng, r)
		}
		for i := rng.Intn(3); i > 0; i-- {
			alts = append(alts, c15GenName(rng, r))
		}
	}
	switch fault {
	case "name":
		bad := pickName(false, -1)
		if rng.Chance(1, 2) || len(alts) == 0 {
			if rng.Chance(1, 2) {
				cn = bad
			} else {
				alts = append(alts, bad)
			}
		} else {
			alts[rng.Intn(len(alts))] = bad
		}
	case "email":
		alts = append(alts, pickName(false, 1))
	case "wildcard":
		w := kit.Pick(rng, []string{"*.", "w*.", "*.sub.", "u_*.", "*!x.", "w*."})
		d := "example.com"
		if len(r.AllowedDomains) > 0 {
			d = c15InstantiateGlob(rng, kit.Pick(rng, r.AllowedDomains))
		}
		if rng.Chance(1, 2) {
			cn = w + d
		} else {
			alts = append(alts, w+d)
		}
	}

	// --- other SAN kinds
	var ips, uris, others []string
	if positive {
		if r.AllowIPSANs && rng.Chance(1, 3) {
			ips = append(ips, c15PickIP(rng, r, true))
		}
		if rng.Chance(1, 3) {
			if u, ok := c15PickURI(rng, r, true); ok {
				uris = append(uris, u)
			}
		}
		if rng.Chance(1, 4) {
			if o, ok := c15PickOther(rng, r, true); ok {
				others = append(others, o)
			}
		}
	} else {
		if rng.Chance(1, 3) {
			ips = append(ips, c15PickIP(rng, r, rng.Chance(1, 2)))
		}
		if rng.Chance(1, 3) {
			uris = append(uris, kit.Pick(rng, c15URIPool))
		}
		if rng.Chance(1, 4) {
			others = append(others, kit.Pick(rng, c15OtherPool))
		}
	}
	switch fault {
	case "ip":
		ips = append(ips, c15PickIP(rng, r, false))
	case "uri":
		if u, ok := c15PickURI(rng, r, false); ok {
			uris = append(uris, u)
		}
	case "other":
		if o, ok := c15PickOther(rng, r, false); ok {
			others = append(others, o)
		}
	}

	// --- validity
	h := time.Hour
	if positive {
		if rng.Chance(1, 2) {
			q.TTL = kit.Pick(rng, []time.Duration{30 * time.Minute, 90 * time.Minute})
		}
	} else if rng.Chance(2, 3) {
		q.TTL = kit.Pick(rng, []time.Duration{30 * time.Minute, 10 * h, 60 * h, 300 * h})
	}
	stamp := func(d time.Duration) string { return now.Add(d).UTC().Format(time.RFC3339) }
	if fault == "ttl" {
		q.TTL = kit.Pick(rng, []time.Duration{10 * h, 60 * h, 300 * h, 3000 * h})
	}
	if fault == "notafter" || (!positive && rng.Chance(1, 5)) || (positive && fault == "" && rng.Chance(1, 10)) {
		q.NotAfter = kit.Pick(rng, []string{stamp(30 * time.Minute), stamp(5 * h), stamp(100 * h), stamp(1000 * h), "9999-12-31T23:59:59Z"})
		if rng.Chance(4, 5) {
			q.TTL = 0
		}
	}
	if fault == "notbefore" || (!positive && rng.Chance(1, 6)) || (positive && fault == "" && rng.Chance(1, 12)) {
		q.NotBefore = kit.Pick(rng, []string{stamp(-1 * h), stamp(-10 * time.Second), stamp(-5 * time.Minute), stamp(-100 * h), "2020-01-01T00:00:00Z", stamp(20 * time.Minute)})
	}

	// --- subject extras
	if positive && fault == "" {
		if len(r.AllowedSerials) > 0 && rng.Chance(1, 4) {
			q.Serial = "abc-123"
		}
		if len(r.AllowedUserIDs) > 0 && rng.Chance(1, 4) {
			q.UserIDs = []string{kit.Pick(rng, []string{"alice", "svc-web"})}
		}
	} else if !positive {
		if rng.Chance(1, 5) {
			q.Serial = kit.Pick(rng, []string{"abc-123", "zzz-9"})
		}
		if rng.Chance(1, 5) {
			q.UserIDs = []string{kit.Pick(rng, []string{"alice", "svc-web", "mallory"})}
		}
	}
	if fault == "serial" {
		q.Serial = "zzz-9"
	}
	if fault == "userid" {
		q.UserIDs = []string{"mallory"}
	}
	q.ExcludeCN = rng.Chance(1, 8)

	// --- distribute over API fields / CSR
	q.CN, q.AltNames, q.IPs, q.URIs, q.Others = cn, alts, ips, uris, others
	if q.Kind == "issue" {
		if r.KeyType == "any" {
			if positive || rng.Chance(2, 3) {
				q.SetKey, q.KeyType, q.KeyBits = true, "ec", kit.Pick(rng, []int{0, 256, 384})
			}
		} else if rng.Chance(1, 10) {
			q.SetKey, q.KeyType, q.KeyBits = true, "ec", 521
		}
		return q
	}

	// CSR-carrying kinds
	c := &c15CSR{Key: c15KeyFor(rng, r, fault != "key" && (positive || rng.Chance(3, 4)))}
	if q.Kind == "verbatim" {
		c.Key = kit.Pick(rng, []string{"ec224", "ec256", "ec384", "rsa2048", "ed25519", "rsa2046"})
	}
	q.CSR = c
	if q.Kind == "verbatim" {
		// everything comes from the CSR
		c.CN = cn
		for _, a := range alts {
			if strings.Contains(a, "@") {
				c.Emails = append(c.Emails, a)
			} else {
				c.DNS = append(c.DNS, a)
			}
		}
		c.IPs, c.Others = ips, others
		for _, u := range uris {
			if _, err := url.Parse(u); err == nil {
				c.URIs = append(c.URIs, u)
			}
		}
		if rng.Chance(1, 2) {
			c.Org = []string{"Verbatim Org"}
		}
		q.CN, q.AltNames, q.IPs, q.URIs, q.Others = "", nil, nil, nil, nil
		if rng.Chance(1, 3) {
			q.VKeyUsage = kit.Pick(rng, [][]string{{}, {"DigitalSignature"}, {"CertSign"}})
		}
		if rng.Chance(1, 4) {
			q.VExtKeyUsage = []string{"ClientAuth"}
		}
		if rng.Chance(1, 4) {
			v := rng.Chance(1, 2)
			q.VBCValid = &v
		}
	} else {
		// sign: place names where the role will look for them, and decoys where it must not
		decoy := func() string {
			// half of the decoys would be admissible had they been requested properly
			if n, ok := c15SampleName(rng, r, rng.Chance(1, 2), 0); ok {
				return n
			}
			return "decoy.evil.test"
		}
		if r.UseCSRCN {
			c.CN = cn
			if rng.Chance(1, 2) {
				q.CN = decoy() // must be ignored in favour of the CSR's CN
			} else {
				q.CN = ""
			}
		} else {
			if rng.Chance(1, 2) {
				c.CN = decoy() // must be ignored
			}
		}
		if r.UseCSRSANs {
			for _, a := range alts {
				if strings.Contains(a, "@") {
					c.Emails = append(c.Emails, a)
				} else {
					c.DNS = append(c.DNS, a)
				}
			}
			c.IPs, c.URIs, c.Others = ips, uris, others
			q.AltNames, q.IPs, q.URIs = nil, nil, nil
			q.Others = nil
			if rng.Chance(1, 3) {
				q.AltNames = []string{decoy()} // must be ignored
			}
		} else if rng.Chance(1, 2) {
			c.DNS = []string{decoy()} // must be ignored
			if rng.Chance(1, 3) {
				c.IPs = []string{"203.0.113.9"}
			}
		}
	}
	if fault == "csr-ca" || rng.Chance(1, 10) {
		c.CA = true
	}
	if fault == "csr-ku" || rng.Chance(1, 10) {
		c.KeyUsage = x509.KeyUsageCertSign | x509.KeyUsageCRLSign | x509.KeyUsageDigitalSignature
		if rng.Chance(1, 2) {
			c.EKU = []asn1.ObjectIdentifier{c15OIDOCSPSigning, c15OIDCodeSigning}
		}
	}
	if fault == "csr-org" || rng.Chance(1, 8) {
		c.Org = []string{"Evil Corp"}
	}
	if rng.Chance(1, 12) {
		c.SubjSerial = kit.Pick(rng, []string{"abc-77", "zzz-1"})
	}
	return q
}
