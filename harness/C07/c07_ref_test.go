//go:build verif

package vault

// C07 reference: what a token created through auth/token/create*, or by an
// auth-method login, may carry. Written from the property statement and
// website/content/docs/api/auth/token.mdx, docs/concepts/tokens.mdx,
// partials/tokenstorefields.mdx - NOT from token_store.go. Every rule is an
// upper bound on the created token (a refusal is always acceptable), phrased as
// an independent invariant over (context, observed token).

import (
	"fmt"
	"sort"
	"strings"
	"time"
)

// ---------------------------------------------------------------- small helpers

// c07Norm: policy names are case-insensitive and trimmed; empty names do not exist.
func c07Norm(ps []string) []string {
	seen := map[string]bool{}
	var out []string
	for _, p := range ps {
		p = strings.ToLower(strings.TrimSpace(p))
		if p == "" || seen[p] {
			continue
		}
		seen[p] = true
		out = append(out, p)
	}
	sort.Strings(out)
	return out
}

func c07Has(ps []string, p string) bool {
	for _, x := range ps {
		if x == p {
			return true
		}
	}
	return false
}

// c07Glob: '*' matches any (possibly empty) run of characters, anywhere in the pattern.
func c07Glob(pattern, s string) bool {
	if pattern == "" {
		return s == ""
	}
	if pattern[0] == '*' {
		for i := 0; i <= len(s); i++ {
			if c07Glob(pattern[1:], s[i:]) {
				return true
			}
		}
		return false
	}
	if s == "" || s[0] != pattern[0] {
		return false
	}
	return c07Glob(pattern[1:], s[1:])
}

func c07GlobAny(patterns []string, s string) bool {
	for _, p := range patterns {
		if c07Glob(strings.ToLower(strings.TrimSpace(p)), s) {
			return true
		}
	}
	return false
}

// c07NormCIDRs: a /32 host block and the bare address are the same binding.
func c07NormCIDRs(cs []string) []string {
	var out []string
	for _, c := range cs {
		out = append(out, strings.TrimSuffix(strings.TrimSpace(c), "/32"))
	}
	return c07Norm(out)
}

// c07Dur parses the duration strings the generators use ("", "0", "30m", "100h").
func c07Dur(s string) time.Duration {
	if s == "" || s == "0" {
		return 0
	}
	d, err := time.ParseDuration(s)
	if err != nil {
		panic("c07: bad duration in generator: " + s)
	}
	return d
}

// ---------------------------------------------------------------- reference ACL (only what C07 needs: update + sudo on the create paths)

type c07Rule struct {
	Path string // relative to the namespace the policy lives in; trailing '*' = prefix glob
	Caps []string
}

// c07ACLPolicies is the single source for both the HCL written to the server
// and the reference evaluation. "x-" policies exist only in the root namespace
// and name paths inside ns1/.
var c07ACLPolicies = func() map[string][]c07Rule {
	up, su := []string{"update"}, []string{"update", "sudo"}
	base := map[string][]c07Rule{
		"tc":          {{"auth/token/create", up}, {"auth/token/create-orphan", up}, {"auth/token/create/*", up}},
		"tc-plain":    {{"auth/token/create", up}},
		"sudo-create": {{"auth/token/create", su}},
		"sudo-orphan": {{"auth/token/create-orphan", su}},
		"sudo-roles":  {{"auth/token/create/*", su}},
		"sudo-glob":   {{"auth/token/*", su}},
	}
	out := map[string][]c07Rule{}
	for n, rs := range base {
		out[n] = rs
		var xs []c07Rule
		for _, r := range rs {
			xs = append(xs, c07Rule{"ns1/" + r.Path, r.Caps})
		}
		out["x-"+n] = xs
	}
	return out
}()

func c07HCL(rules []c07Rule) string {
	var b strings.Builder
	for _, r := range rules {
		fmt.Fprintf(&b, "path %q { capabilities = [", r.Path)
		for i, c := range r.Caps {
			if i > 0 {
				b.WriteString(", ")
			}
			fmt.Fprintf(&b, "%q", c)
		}
		b.WriteString("] }\n")
	}
	return b.String()
}

// c07RefCaps: documented ACL semantics restricted to exact paths and prefix
// globs: capabilities of all policies naming the same path are merged; an exact
// path beats any glob; among globs the longest prefix wins. policies are names
// in namespace tokenNS ("" or "ns1/"); fullPath is namespace-qualified.
func c07RefCaps(tokenNS string, policies []string, fullPath string) (update, sudo bool) {
	if c07Has(policies, "root") {
		return true, true
	}
	exact := map[string]bool{}
	bestLen := -1
	glob := map[string]bool{}
	foundExact := false
	for _, p := range policies {
		if tokenNS != "" && strings.HasPrefix(p, "x-") {
			continue // not defined in ns1
		}
		for _, r := range c07ACLPolicies[p] {
			rp := tokenNS + r.Path
			if strings.HasSuffix(rp, "*") {
				pre := strings.TrimSuffix(rp, "*")
				if !strings.HasPrefix(fullPath, pre) {
					continue
				}
				if len(pre) > bestLen {
					bestLen = len(pre)
					glob = map[string]bool{}
				}
				if len(pre) == bestLen {
					for _, c := range r.Caps {
						glob[c] = true
					}
				}
				continue
			}
			if rp == fullPath {
				foundExact = true
				for _, c := range r.Caps {
					exact[c] = true
				}
			}
		}
	}
	if foundExact {
		return exact["update"], exact["sudo"]
	}
	return glob["update"], glob["sudo"]
}

// ---------------------------------------------------------------- case description

type c07Role struct {
	Name           string        `json:"name"`
	Allowed        []string      `json:"allowed_policies,omitempty"`
	Disallowed     []string      `json:"disallowed_policies,omitempty"`
	AllowedGlob    []string      `json:"allowed_policies_glob,omitempty"`
	DisallowedGlob []string      `json:"disallowed_policies_glob,omitempty"`
	Orphan         bool          `json:"orphan"`
	Renewable      bool          `json:"renewable"`
	Period         string        `json:"token_period,omitempty"`
	ExplicitMax    string        `json:"token_explicit_max_ttl,omitempty"`
	CIDRs          []string      `json:"token_bound_cidrs,omitempty"`
	Type           string        `json:"token_type,omitempty"`
	NoDefault      bool          `json:"token_no_default_policy,omitempty"`
	NumUses        int           `json:"token_num_uses,omitempty"`
	Aliases        []string      `json:"allowed_entity_aliases,omitempty"`
	Shown          *c07RoleLists `json:"lists_as_read_back,omitempty"`
}

// c07RoleLists: the four policy lists of a role as auth/token/roles/<name> shows them after the write.
type c07RoleLists struct {
	Allowed        []string `json:"allowed_policies"`
	Disallowed     []string `json:"disallowed_policies"`
	AllowedGlob    []string `json:"allowed_policies_glob"`
	DisallowedGlob []string `json:"disallowed_policies_glob"`
}

// The role's configuration is what its read endpoint shows (names are case-insensitive and trimmed, empty names
// do not exist). What widens (allowed lists) is taken from the read endpoint alone; what restricts (disallowed
// lists) holds if the entry was written OR is shown: a policy "in the given list" may not be requested,
// whatever else the list contains.
func (ro *c07Role) allowedList() []string {
	if ro.Shown != nil {
		return c07Norm(ro.Shown.Allowed)
	}
	return c07Norm(ro.Allowed)
}

func (ro *c07Role) allowedGlobs() []string {
	if ro.Shown != nil {
		return c07Norm(ro.Shown.AllowedGlob)
	}
	return c07Norm(ro.AllowedGlob)
}

func (ro *c07Role) deniedList() []string {
	out := append([]string{}, ro.Disallowed...)
	if ro.Shown != nil {
		out = append(out, ro.Shown.Disallowed...)
	}
	return c07Norm(out)
}

func (ro *c07Role) deniedGlobs() []string {
	out := append([]string{}, ro.DisallowedGlob...)
	if ro.Shown != nil {
		out = append(out, ro.Shown.DisallowedGlob...)
	}
	return c07Norm(out)
}

func (ro *c07Role) hasAllowLists() bool {
	return len(ro.allowedList()) > 0 || len(ro.allowedGlobs()) > 0
}
func (ro *c07Role) hasDenyLists() bool { return len(ro.deniedList()) > 0 || len(ro.deniedGlobs()) > 0 }
func (ro *c07Role) denies(p string) bool {
	return c07Has(ro.deniedList(), p) || c07GlobAny(ro.deniedGlobs(), p)
}
func (ro *c07Role) allows(p string) bool {
	return c07Has(ro.allowedList(), p) || c07GlobAny(ro.allowedGlobs(), p)
}

type c07Req struct {
	Endpoint    string   `json:"endpoint"` // create | create-orphan | role
	NS          string   `json:"ns"`       // namespace the request is sent to
	Role        *c07Role `json:"role,omitempty"`
	Policies    []string `json:"policies"` // nil = not given
	NoParent    bool     `json:"no_parent,omitempty"`
	NoDefault   bool     `json:"no_default_policy,omitempty"`
	Period      string   `json:"period,omitempty"`
	ExplicitMax string   `json:"explicit_max_ttl,omitempty"`
	TTL         string   `json:"ttl,omitempty"`
	Lease       string   `json:"lease,omitempty"` // deprecated spelling of ttl
	NumUses     int      `json:"num_uses,omitempty"`
	ID          string   `json:"id,omitempty"`
	Type        string   `json:"type,omitempty"`
	EntityAlias string   `json:"entity_alias,omitempty"`
}

func (q *c07Req) path() string {
	switch q.Endpoint {
	case "create-orphan":
		return "auth/token/create-orphan"
	case "role":
		return "auth/token/create/" + q.Role.Name
	}
	return "auth/token/create"
}

// c07Parent: facts about the calling token, read back from the server (lookup) after it was made.
type c07Parent struct {
	Kind             string        `json:"kind"`
	NS               string        `json:"ns"`
	ID               string        `json:"-"`
	TokenPolicies    []string      `json:"token_policies"`
	IdentityPolicies []string      `json:"identity_policies,omitempty"`
	Root             bool          `json:"root"`
	NonExpiring      bool          `json:"non_expiring"`
	TTL              time.Duration `json:"stored_ttl"`
	Period           time.Duration `json:"stored_period"`
	ExplicitMax      time.Duration `json:"stored_explicit_max"`
	NumUses          int           `json:"num_uses"`
	Batch            bool          `json:"batch"`
	EntityID         string        `json:"entity_id,omitempty"`
	EntityVia        string        `json:"entity_via,omitempty"`      // login | role-alias: how the harness bound the parent to its entity
	EntityPolicies   []string      `json:"entity_policies,omitempty"` // what the harness wrote on the entity
	GroupPolicies    []string      `json:"group_policies,omitempty"`  // what the harness wrote on the group the entity is a member of
	ident            *c07Ident
}

// allPolicies: what decides the CALLER's capabilities (concepts/identity.mdx: entity and group policies
// grant additional capabilities to the token at request time).
func (p *c07Parent) allPolicies() []string {
	return c07Norm(append(append([]string{}, p.TokenPolicies...), p.IdentityPolicies...))
}

// identityOnly: policies the parent derives from its entity / groups but that are not on the token itself.
// They are "only a means to grant additional capabilities and not a replacement for the policies on the
// token"; "the policy names on the token [are] immutable". What a caller without sudo may hand to a child
// is "a subset of the policies belonging to the token making the request" (api/auth/token.mdx): the token's
// own list.
func (p *c07Parent) identityOnly() []string {
	var out []string
	for _, x := range c07Norm(p.IdentityPolicies) {
		if !c07Has(p.TokenPolicies, x) {
			out = append(out, x)
		}
	}
	return out
}

// c07StripView names the lookup of the created token after the harness emptied the policy lists of the
// parent's entity and group.
const c07StripView = "lookup-after-identity-policies-removed"

type c07Case struct {
	ID       string        `json:"case"`
	Parent   *c07Parent    `json:"parent"`
	Req      c07Req        `json:"request"`
	Sudo     bool          `json:"ref_sudo_on_path"`
	Update   bool          `json:"ref_update_on_path"`
	CrossNS  bool          `json:"cross_namespace"`
	MountMax time.Duration `json:"mount_max_ttl"`
	// SudoViaIdentity: sudo on the called path comes from the entity/group policies only (still sudo for the caller)
	SudoViaIdentity bool `json:"ref_sudo_only_through_identity,omitempty"`
	// AliasEntity: the entity the accepted entity_alias of the request names on the token mount ("" = not resolved)
	AliasEntity string `json:"alias_entity,omitempty"`
}

// c07View is one observation of the created token (auth block of the response,
// lookup of the stored token, lookup after a renewal attempt).
type c07View struct {
	Name          string        `json:"view"`
	ID            string        `json:"-"`
	TokenPolicies []string      `json:"token_policies"`
	AllPolicies   []string      `json:"all_policies,omitempty"` // token + identity
	Orphan        bool          `json:"orphan"`
	Period        time.Duration `json:"period"`
	ExplicitMax   time.Duration `json:"explicit_max"` // stored explicit_max_ttl (lookup views; response: what the auth block states)
	TTL           time.Duration `json:"ttl"`          // granted TTL (response) / creation_ttl (lookup)
	Life          time.Duration `json:"lifetime"`     // what the mount max bounds: expire_time - issue_time; remaining TTL for periodic tokens
	Span          time.Duration `json:"span"`         // what an explicit max bounds: expire_time - issue_time (lookup) or TTL (response)
	NonExpiring   bool          `json:"non_expiring"`
	Type          string        `json:"type"`
	NumUses       int           `json:"num_uses"`
	EntityID      string        `json:"entity_id,omitempty"`
	NSPath        string        `json:"namespace_path"`
	HasNS         bool          `json:"-"`
	CIDRs         []string      `json:"bound_cidrs,omitempty"`
	HasCIDRs      bool          `json:"-"`         // this view reports CIDR binding
	CustomID      bool          `json:"custom_id"` // the token is reachable under the caller-chosen id
}

type c07Finding struct{ Class, What string }

const c07Slack = time.Second

func c07MinPos(ds ...time.Duration) time.Duration {
	var m time.Duration
	for _, d := range ds {
		if d > 0 && (m == 0 || d < m) {
			m = d
		}
	}
	return m
}

// c07Judge applies every invariant of the property to one view of a token that
// the create endpoints handed out.
func c07Judge(c *c07Case, v *c07View) []c07Finding {
	var out []c07Finding
	add := func(class, format string, a ...any) {
		out = append(out, c07Finding{class, "[" + v.Name + "] " + fmt.Sprintf(format, a...)})
	}
	p, q, ro := c.Parent, &c.Req, c.Req.Role
	pols := c07Norm(v.TokenPolicies)
	all := c07Norm(append(append([]string{}, v.TokenPolicies...), v.AllPolicies...))
	parentAll := p.allPolicies()

	// I1 use-limited or batch tokens cannot create tokens at all.
	if p.Batch {
		add("C07-batch-parent-created-token", "a batch token created a token")
	}
	if p.NumUses > 0 {
		add("C07-use-limited-parent-created-token", "a token with num_uses=%d created a token", p.NumUses)
	}

	// I2 never root unless the parent is root.
	if c07Has(all, "root") && !p.Root {
		add("C07-root-from-non-root-parent", "token carries root, parent policies %v (sudo=%v)", parentAll, c.Sudo)
	}
	// batch tokens can never be root tokens (tokens.mdx comparison table)
	if c07Has(all, "root") && v.Type == "batch" {
		add("C07-root-batch-token", "batch token carries root")
	}

	// I3 non-assignable policies are never carried.
	for _, na := range []string{"response-wrapping"} {
		if c07Has(all, na) {
			add("C07-non-assignable-policy-carried", "token carries %q", na)
		}
	}

	// I4 policy bound. sudo on the called path (or root) lifts it; a role with
	// allowed lists replaces it by the lists; otherwise: subset of the policies of the parent
	// TOKEN (its own, stored list - not what the parent's entity or groups add at request time)
	// plus default. A policy name in another namespace is another policy,
	// so across namespaces (without sudo) only default can be justified.
	if !c.Sudo {
		idOnly := p.identityOnly()
		for _, x := range pols {
			if x == "default" || x == "root" { // default: I6; root: I2
				continue
			}
			switch {
			case ro != nil && ro.hasAllowLists():
				if !ro.allows(x) {
					add("C07-policy-outside-role-allowed-lists", "policy %q neither in allowed_policies %v nor matched by allowed_policies_glob %v as the role shows them (written: %q / %q; no sudo)", x, ro.allowedList(), ro.allowedGlobs(), ro.Allowed, ro.AllowedGlob)
				}
			case c.CrossNS:
				add("C07-cross-namespace-policy-without-sudo", "token in %q created by a token of %q without sudo carries %q", q.NS, p.NS, x)
			default:
				if !c07Has(p.TokenPolicies, x) {
					switch {
					case ro != nil && ro.hasDenyLists():
						// signature of the one disagreement found on the pinned tree: role has ONLY
						// disallowed lists, caller has no sudo, policy is not one of the parent's
						add("C07-role-with-only-disallowed-lists-lifts-parent-subset", "policy %q is not a policy of the parent %v (identity-derived %v); the role has no allowed lists (disallowed %v glob %v), caller has no sudo", x, p.TokenPolicies, p.IdentityPolicies, ro.Disallowed, ro.DisallowedGlob)
					case c07Has(idOnly, x) && v.Name == c07StripView:
						add("C07-child-keeps-policy-after-parent-entity-and-group-lost-it", "the parent's entity and group no longer carry any policy, the child created without sudo still has token policy %q, which the parent token %v never had (entity had %v, group had %v)", x, p.TokenPolicies, p.EntityPolicies, p.GroupPolicies)
					case c07Has(idOnly, x):
						add("C07-child-carries-identity-only-policy-of-parent", "token policy %q of the child is not a policy of the parent token %v; the parent only derives it from its entity/group (entity %v, group %v); caller has no sudo, endpoint %s, requested %v", x, p.TokenPolicies, p.EntityPolicies, p.GroupPolicies, q.Endpoint, q.Policies)
					default:
						add("C07-policy-outside-parent", "policy %q is not a policy of the parent %v (no sudo, endpoint %s)", x, p.TokenPolicies, q.Endpoint)
					}
				}
			}
		}
	}

	// I5 disallowed lists of a role hold for everybody using the role.
	if ro != nil {
		for _, x := range pols {
			if ro.denies(x) {
				add("C07-role-disallowed-policy-granted", "policy %q is disallowed by the role: disallowed_policies %v, disallowed_policies_glob %v (written: %q / %q; sudo=%v)", x, ro.deniedList(), ro.deniedGlobs(), ro.Disallowed, ro.DisallowedGlob, c.Sudo)
			}
		}
	}

	// I6 default under the documented rule. The request flag removes default whatever its origin
	// ("will not be contained in this token's policy set"); the role flag token_no_default_policy is
	// read as the auth-method field it is shared with: default is not *added automatically* (it may
	// still be asked for by name, inherited as one of the parent's policies, or listed in allowed_policies).
	if c07Has(pols, "default") {
		req := c07Norm(q.Policies)
		switch {
		case q.NoDefault:
			add("C07-default-despite-no-default-policy", "no_default_policy=true but token carries default")
		case ro != nil && ro.NoDefault:
			byName := c07Has(req, "default") || (len(req) == 0 && (c07Has(p.TokenPolicies, "default") || c07Has(ro.allowedList(), "default")))
			if !byName {
				add("C07-role-token-no-default-policy-ignored-default-added-automatically", "role has token_no_default_policy=true, default was neither requested %v nor inherited, yet the token carries default (role has allow lists: %v, deny lists: %v, sudo=%v)", q.Policies, ro.hasAllowLists(), ro.hasDenyLists(), c.Sudo)
			}
		}
	}

	// I6b where default comes from when nobody lifted the parent bound (no sudo, same namespace, no role lists):
	// "policies ... must be a subset of the policies belonging to the token making the request ... If not specified,
	// defaults to all the policies of the calling token" (api/auth/token.mdx). default is a policy like any other in
	// that comparison, so the child has it only if the parent TOKEN has it: whether it was named in the request
	// (any spelling), inherited, or attached automatically. (Roles with allowed/disallowed lists document their own
	// automatic default; across namespaces only default can be justified at all: I4.)
	if c07Has(pols, "default") && !c.Sudo && !c.CrossNS && !q.NoDefault && !(ro != nil && (ro.hasAllowLists() || ro.hasDenyLists())) && !c07Has(p.TokenPolicies, "default") {
		if c07Has(c07Norm(q.Policies), "default") {
			add("C07-explicit-default-granted-although-parent-token-lacks-default", "request named default %v, the parent token %v does not hold it, caller has no sudo (endpoint %s), token carries %v", q.Policies, p.TokenPolicies, q.Endpoint, pols)
		} else {
			add("C07-default-attached-although-parent-token-lacks-default", "default was not requested %v, the parent token %v does not hold it, caller has no sudo (endpoint %s), token carries %v", q.Policies, p.TokenPolicies, q.Endpoint, pols)
		}
	}

	// I7 orphan only via create-orphan, a role with orphan=true, or sudo + no_parent.
	if v.Orphan && !(q.Endpoint == "create-orphan" || (ro != nil && ro.Orphan) || (c.Sudo && q.NoParent)) {
		add("C07-orphan-without-entitlement", "token is an orphan (endpoint %s, no_parent=%v, sudo=%v)", q.Endpoint, q.NoParent, c.Sudo)
	}

	// I8 periodic only via sudo + period or a role period, and not longer than those.
	if v.Period > 0 {
		var ent time.Duration
		if c.Sudo {
			ent = c07Dur(q.Period)
		}
		if ro != nil && c07Dur(ro.Period) > ent {
			ent = c07Dur(ro.Period)
		}
		switch {
		case ent == 0:
			add("C07-periodic-without-entitlement", "token has period %s (requested %q, sudo=%v, role period %v)", v.Period, q.Period, c.Sudo, ro != nil && ro.Period != "")
		case v.Period > ent:
			add("C07-period-exceeds-entitlement", "token has period %s > %s", v.Period, ent)
		}
	}

	// I9 caller-chosen ID needs sudo.
	if v.CustomID && !c.Sudo {
		add("C07-custom-id-without-sudo", "token is reachable under the caller-chosen id %q", q.ID)
	}

	// I10 token type only as requested / as the role states.
	if v.Type != "" {
		want := q.Type
		if ro != nil {
			switch ro.Type {
			case "service", "batch":
				want = ro.Type
			case "default-batch":
				if want == "" {
					want = "batch"
				}
			}
		}
		if want == "" {
			want = "service"
		}
		if v.Type != want {
			add("C07-token-type-not-as-stated", "token type %s, stated %s", v.Type, want)
		}
	}

	// I11 role CIDR binding (non-expiring root tokens are documented as exempt).
	if ro != nil && len(ro.CIDRs) > 0 && v.HasCIDRs && !v.NonExpiring {
		if strings.Join(c07NormCIDRs(v.CIDRs), ",") != strings.Join(c07NormCIDRs(ro.CIDRs), ",") {
			add("C07-role-cidr-binding-not-applied", "role binds to %v, token bound to %v", ro.CIDRs, v.CIDRs)
		}
	}

	// I12 role use limit (service tokens; batch tokens carry no use count).
	// A negative count in a stored view is the revocation-pending mark: the token is being torn down
	// and carries no more privilege than stated, so it is not judged here (0 = unlimited is).
	if ro != nil && ro.NumUses > 0 && v.Type == "service" && (v.NumUses == 0 || v.NumUses > ro.NumUses) {
		add("C07-role-num-uses-not-applied", "role token_num_uses=%d, token num_uses=%d", ro.NumUses, v.NumUses)
	}

	// I13 lifetime.
	reqMax := c07Dur(q.ExplicitMax)
	var roleMax time.Duration
	if ro != nil {
		roleMax = c07Dur(ro.ExplicitMax)
	}
	if v.NonExpiring {
		switch {
		case c07Has(pols, "root") && p.Root && p.NonExpiring:
			// the one documented exception
		case c07Has(pols, "root") && p.Root:
			// tokens.mdx: "a root token with an expiration cannot create a root token that never expires"; a periodic
			// root token, one with an explicit max and one with a plain ttl all have an expiration
			add("C07-non-expiring-root-token-from-expiring-root-parent", "root token that never expires (stored ttl %s, period %s, explicit max %s) made by a root parent that expires (parent stored ttl %s, period %s, explicit max %s)", v.TTL, v.Period, v.ExplicitMax, p.TTL, p.Period, p.ExplicitMax)
		default:
			add("C07-non-expiring-token-without-entitlement", "token never expires; token policies %v, parent root=%v non-expiring=%v", pols, p.Root, p.NonExpiring)
		}
	} else {
		life, span := v.Life, v.Span
		if v.TTL > life {
			life = v.TTL
		}
		if v.TTL > span {
			span = v.TTL
		}
		if eb := c07MinPos(reqMax, roleMax); eb > 0 && span > eb+c07Slack {
			if v.Type == "batch" && roleMax > 0 && (reqMax == 0 || span <= reqMax+c07Slack) {
				add("C07-batch-token-via-role-escapes-role-explicit-max-ttl", "role token_explicit_max_ttl=%s but the batch token lives %s", roleMax, span)
			} else if v.Name == "lookup-after-renew" && ro != nil && reqMax > 0 && (roleMax == 0 || (roleMax > reqMax && span <= roleMax+c07Slack)) {
				// the token was issued within its own explicit_max_ttl and only the renewal went past it,
				// staying inside what the role alone would give
				add("C07-renewal-of-role-token-drops-the-tokens-own-explicit-max-ttl", "token created through a role with explicit_max_ttl=%s (role token_explicit_max_ttl %s) lives %s after a renewal", reqMax, roleMax, span)
			} else {
				add("C07-lifetime-exceeds-explicit-max-ttl", "lifetime %s > explicit max %s (request %q, role %v)", span, eb, q.ExplicitMax, roleMax)
			}
		}
		if life > c.MountMax+c07Slack {
			eb := c07MinPos(reqMax, roleMax)
			if c07Has(pols, "root") && q.TTL == "" && q.Lease == "" && v.Period == 0 && eb > 0 && life <= eb+c07Slack {
				add("C07-root-token-without-ttl-gets-explicit-max-beyond-mount-max", "root token created without ttl lives its explicit_max_ttl %s, mount max is %s", life, c.MountMax)
			} else {
				add("C07-lifetime-exceeds-mount-max-ttl", "lifetime %s > mount max %s", life, c.MountMax)
			}
		}
	}

	// I14 identity binding (api/auth/token.mdx, entity_alias: "Only works in combination with role_name ... must be
	// listed in allowed_entity_aliases. If this has been specified, the entity will not be inherited from the parent"):
	//  - a token gets an entity other than its parent's only through a role that allows the requested alias, and then
	//    it is the entity of that alias;
	//  - otherwise a token that has a parent inherits the parent's entity (nothing is stated for orphans: they may
	//    carry the creator's entity or none).
	// (the stored entity id of a child-namespace token is suffixed with the namespace id)
	sameEnt := func(got, want string) bool {
		return want != "" && (got == want || strings.HasPrefix(got, want+".") || strings.HasPrefix(want, got+"."))
	}
	aliasOK := ro != nil && q.EntityAlias != "" && (c07Has(c07Norm(ro.Aliases), strings.ToLower(q.EntityAlias)) || c07GlobAny(ro.Aliases, strings.ToLower(q.EntityAlias)))
	switch {
	case aliasOK:
		if c.AliasEntity != "" && !sameEnt(v.EntityID, c.AliasEntity) {
			add("C07-entity-alias-accepted-but-token-not-bound-to-the-alias-entity", "entity_alias %q is allowed by the role and resolves to entity %s, token entity %q (parent entity %q)", q.EntityAlias, c.AliasEntity, v.EntityID, p.EntityID)
		}
	case v.EntityID != "" && !sameEnt(v.EntityID, p.EntityID):
		add("C07-entity-not-from-parent-or-allowed-alias", "token entity %s, parent entity %q, requested alias %q", v.EntityID, p.EntityID, q.EntityAlias)
	case v.EntityID == "" && p.EntityID != "" && !v.Orphan:
		add("C07-child-does-not-inherit-parent-entity", "non-orphan token without entity_alias has no entity, parent entity %q", p.EntityID)
	}

	// I14b once entity and group carry no policies, nothing may be derived from them any more
	if v.Name == c07StripView && sameEnt(v.EntityID, p.EntityID) {
		for _, x := range c07Norm(v.AllPolicies) {
			if c07Has(c07Norm(p.IdentityPolicies), x) {
				add("C07-identity-policy-still-derived-after-removal-from-entity-and-group", "lookup still reports identity policy %q", x)
			}
		}
	}

	// I15 the token lives in the namespace the request was sent to.
	if v.HasNS && v.NSPath != q.NS {
		add("C07-token-in-wrong-namespace", "token namespace %q, request namespace %q", v.NSPath, q.NS)
	}
	return out
}

// c07Asks lists what the request asks for that the reference says the caller is
// not entitled to (evidence: refusals of these are the guards being exercised).
func c07Asks(c *c07Case) []string {
	var asks []string
	p, q, ro := c.Parent, &c.Req, c.Req.Role
	if p.Batch {
		asks = append(asks, "batch-parent")
	}
	if p.NumUses > 0 {
		asks = append(asks, "use-limited-parent")
	}
	req := c07Norm(q.Policies)
	if c07Has(req, "root") && !p.Root {
		asks = append(asks, "root")
	}
	if c07Has(req, "response-wrapping") {
		asks = append(asks, "non-assignable")
	}
	if c.CrossNS && !c.Sudo {
		asks = append(asks, "cross-namespace-without-sudo")
	}
	if !c.Sudo && !c.CrossNS {
		for _, x := range req {
			if x == "default" || x == "root" || x == "response-wrapping" {
				continue
			}
			if ro != nil && ro.hasAllowLists() {
				if !ro.allows(x) {
					asks = append(asks, "policy-outside-role-lists")
					break
				}
			} else if !c07Has(p.TokenPolicies, x) && !c07Has(p.identityOnly(), x) {
				asks = append(asks, "policy-outside-parent")
				break
			}
		}
		for _, x := range req {
			if c07Has(p.identityOnly(), x) && !(ro != nil && ro.hasAllowLists()) {
				asks = append(asks, "identity-only-policy")
				break
			}
		}
	}
	if !c.Sudo && !c.CrossNS && !(ro != nil && (ro.hasAllowLists() || ro.hasDenyLists())) && c07Has(req, "default") && !c07Has(p.TokenPolicies, "default") {
		asks = append(asks, "explicit-default-not-held-by-parent")
	}
	if p.Root && !p.NonExpiring && c07AsksNonExpiringRoot(q, c.CrossNS) {
		asks = append(asks, "non-expiring-root-from-expiring-root")
	}
	if ro != nil {
		for _, x := range req {
			if ro.denies(x) {
				asks = append(asks, "role-disallowed-policy")
				break
			}
		}
	}
	if q.NoParent && !c.Sudo && ro == nil && q.Endpoint == "create" {
		asks = append(asks, "no_parent")
	}
	if c07Dur(q.Period) > 0 && !c.Sudo {
		asks = append(asks, "period")
	}
	if q.ID != "" && !c.Sudo {
		asks = append(asks, "id")
	}
	if q.EntityAlias != "" && (ro == nil || !(c07Has(c07Norm(ro.Aliases), strings.ToLower(q.EntityAlias)) || c07GlobAny(ro.Aliases, strings.ToLower(q.EntityAlias)))) {
		asks = append(asks, "entity_alias")
	}
	return asks
}

// c07AsksNonExpiringRoot: a root caller sending this request asks for a root token and states nothing that would
// give it an expiration (no ttl/lease/period/explicit max in the request or the role).
func c07AsksNonExpiringRoot(q *c07Req, crossNS bool) bool {
	ro := q.Role
	if q.TTL != "" || q.Lease != "" || c07Dur(q.Period) > 0 || c07Dur(q.ExplicitMax) > 0 {
		return false
	}
	if ro != nil && (ro.Period != "" || ro.ExplicitMax != "" || ro.Name == "missing") {
		return false
	}
	req := c07Norm(q.Policies)
	if c07Has(req, "root") {
		return true
	}
	if len(req) > 0 {
		return false
	}
	// nothing requested: the parent's policies (root) are inherited (not across namespaces: a policy name of the parent's
	// namespace means nothing in the child namespace), or the role's allowed list is used
	if crossNS && (ro == nil || !ro.hasAllowLists()) {
		return false
	}
	return ro == nil || !ro.hasAllowLists() || c07Has(ro.allowedList(), "root")
}

// ---------------------------------------------------------------- logins

type c07Login struct {
	ID                               string         `json:"case"`
	NS                               string         `json:"ns"`
	Mount                            string         `json:"mount"`
	Claim                            map[string]any `json:"claimed_auth"` // what the auth backend returns
	Policies                         []string       `json:"-"`
	NoDefault                        bool           `json:"-"`
	TTL, MaxTTL, Period, ExplicitMax time.Duration  `json:"-"`
	MountMax                         time.Duration  `json:"mount_max_ttl"`
	MountType                        string         `json:"mount_token_type"`
	IdentityPolicies                 []string       `json:"identity_policies,omitempty"` // policies the harness put on the alias' entity / its group
}

func c07JudgeLogin(l *c07Login, v *c07View) []c07Finding {
	var out []c07Finding
	add := func(class, format string, a ...any) {
		out = append(out, c07Finding{class, "[" + v.Name + "] " + fmt.Sprintf(format, a...)})
	}
	pols := c07Norm(v.TokenPolicies)
	all := c07Norm(append(append([]string{}, v.TokenPolicies...), v.AllPolicies...))
	if c07Has(all, "root") {
		add("C07-login-root-token", "login produced a token carrying root (claimed %v, identity %v)", l.Policies, l.IdentityPolicies)
	}
	if c07Has(all, "response-wrapping") {
		add("C07-login-non-assignable-policy", "login produced a token carrying response-wrapping (claimed %v)", l.Policies)
	}
	claimed := c07Norm(l.Policies)
	for _, x := range pols {
		if x == "default" {
			if l.NoDefault && !c07Has(claimed, "default") {
				add("C07-login-default-despite-no-default-policy", "backend said no default policy, token carries default")
			}
			continue
		}
		if !c07Has(claimed, x) {
			add("C07-login-policy-not-claimed", "token policy %q was not in the backend's claim %v", x, claimed)
		}
	}
	for _, x := range all {
		if x != "default" && !c07Has(claimed, x) && !c07Has(c07Norm(l.IdentityPolicies), x) {
			add("C07-login-policy-not-claimed", "policy %q neither claimed %v nor an identity policy %v", x, claimed, l.IdentityPolicies)
		}
	}
	if v.NonExpiring {
		add("C07-login-non-expiring-token", "login token never expires")
		return out
	}
	life, span := v.Life, v.Span
	if v.TTL > life {
		life = v.TTL
	}
	if v.TTL > span {
		span = v.TTL
	}
	if l.ExplicitMax > 0 && span > l.ExplicitMax+c07Slack {
		add("C07-login-lifetime-exceeds-explicit-max-ttl", "lifetime %s > explicit max %s", span, l.ExplicitMax)
	}
	if life > l.MountMax+c07Slack {
		add("C07-login-lifetime-exceeds-mount-max-ttl", "lifetime %s > mount max %s", life, l.MountMax)
	}
	if l.MaxTTL > 0 && l.Period == 0 && life > l.MaxTTL+c07Slack {
		add("C07-login-lifetime-exceeds-backend-max-ttl", "lifetime %s > backend max_ttl %s", life, l.MaxTTL)
	}
	if v.HasNS && v.NSPath != l.NS {
		add("C07-token-in-wrong-namespace", "token namespace %q, login namespace %q", v.NSPath, l.NS)
	}
	return out
}
