//go:build verif

package vault

// C07 monitor: token creation and login never escalate privilege.
//
// Every case builds its own parent token (so cases are independent and
// replayable), optionally writes a token role, sends one create request with
// the parent token, and - when a token comes back - judges the auth block of
// the response, the lookup of the stored token and the lookup after a renewal
// attempt against the doc-derived reference in c07_ref_test.go.

import (
	"fmt"
	"sort"
	"strings"
	"testing"
	"time"

	kit "github.com/openbao/openbao/sdk/v2/helper/verifkit"
	"github.com/openbao/openbao/sdk/v2/logical"
)

const c07NS1 = "ns1/"

const c07ParentRole = "c07-parent-alias"

var c07Content = []string{"a", "b", "c", "dev-app", "dev-db", "ops-x"}

type c07Ent struct {
	Alias    string
	ID       string
	Policies []string
}

type c07World struct {
	t        *testing.T
	v        *vCore
	mountMax map[string]time.Duration // token mount max TTL per namespace
	ents     map[string]*c07Ent
	loginMax map[string]time.Duration // "<ns>|<mount>" -> max
	tokenAcc map[string]string        // namespace -> accessor of its token mount
	n        int

	lastLookupErr string
}

func c07TuneMax(t *testing.T, v *vCore, ns, mount string) time.Duration {
	resp := v.MustDo(vReq{Op: logical.ReadOperation, Path: "sys/auth/" + mount + "/tune", Token: v.Root, NS: ns})
	switch x := resp.Data["max_lease_ttl"].(type) {
	case int:
		return time.Duration(x) * time.Second
	case int64:
		return time.Duration(x) * time.Second
	case float64:
		return time.Duration(x) * time.Second
	case time.Duration:
		return x
	}
	t.Fatalf("c07: cannot read max_lease_ttl of %s%s: %#v", ns, mount, resp.Data)
	return 0
}

func c07Boot(t *testing.T) *c07World {
	v := vBoot(t, vOpts{})
	w := &c07World{t: t, v: v, mountMax: map[string]time.Duration{}, ents: map[string]*c07Ent{}, loginMax: map[string]time.Duration{}, tokenAcc: map[string]string{}}
	v.MustDo(vReq{Op: logical.UpdateOperation, Path: "sys/namespaces/ns1", Token: v.Root})
	for _, ns := range []string{"", c07NS1} {
		for _, p := range c07Content {
			v.Policy(p, fmt.Sprintf("path \"secret/%s/*\" { capabilities = [\"read\"] }\n", p), ns)
		}
		for name, rules := range c07ACLPolicies {
			if ns != "" && strings.HasPrefix(name, "x-") {
				continue
			}
			v.Policy(name, c07HCL(rules), ns)
		}
		v.EnableAuth("vr", "verifrec", ns)
		// the role through which entity-bound parents of kind "ent"/role-alias are made (by the root token)
		v.MustDo(vReq{Op: logical.UpdateOperation, Path: "auth/token/roles/" + c07ParentRole, Token: v.Root, NS: ns, Data: map[string]any{"allowed_entity_aliases": []string{"c07e-*"}, "renewable": true}})
		if resp := v.MustDo(vReq{Op: logical.ReadOperation, Path: "sys/auth", Token: v.Root, NS: ns}); resp != nil {
			if m, ok := resp.Data["token/"].(map[string]any); ok {
				w.tokenAcc[ns], _ = m["accessor"].(string)
			}
		}
		if w.tokenAcc[ns] == "" {
			t.Fatalf("c07: cannot read the accessor of the token mount of %q", ns)
		}
	}
	// token mount of the root namespace: 1h default, 24h max; ns1 keeps whatever it has (read back)
	v.MustDo(vReq{Op: logical.UpdateOperation, Path: "sys/auth/token/tune", Token: v.Root, Data: map[string]any{"default_lease_ttl": "1h", "max_lease_ttl": "24h"}})
	if resp, err := v.Do(vReq{Op: logical.UpdateOperation, Path: "sys/auth/token/tune", Token: v.Root, NS: c07NS1, Data: map[string]any{"default_lease_ttl": "2h", "max_lease_ttl": "100h"}}); !vOK(resp, err) {
		t.Logf("c07: tuning ns1 token mount refused (%s); using its current values", vErrStr(resp, err))
	}
	w.mountMax[""] = c07TuneMax(t, v, "", "token")
	w.mountMax[c07NS1] = c07TuneMax(t, v, c07NS1, "token")
	if w.mountMax[""] != 24*time.Hour {
		t.Fatalf("c07: token mount max is %s, wanted 24h", w.mountMax[""])
	}
	// login mounts with different maxima / token types (root namespace)
	v.EnableAuth("vrs", "verifrec", "")
	v.MustDo(vReq{Op: logical.UpdateOperation, Path: "sys/auth/vrs/tune", Token: v.Root, Data: map[string]any{"default_lease_ttl": "30m", "max_lease_ttl": "2h"}})
	v.EnableAuth("vrb", "verifrec", "")
	v.MustDo(vReq{Op: logical.UpdateOperation, Path: "sys/auth/vrb/tune", Token: v.Root, Data: map[string]any{"token_type": "batch"}})
	v.EnableAuth("vrdb", "verifrec", "")
	v.MustDo(vReq{Op: logical.UpdateOperation, Path: "sys/auth/vrdb/tune", Token: v.Root, Data: map[string]any{"token_type": "default-batch", "max_lease_ttl": "10h"}})
	for _, m := range []string{"vr", "vrs", "vrb", "vrdb"} {
		w.loginMax["|"+m] = c07TuneMax(t, v, "", m)
	}
	w.loginMax[c07NS1+"|vr"] = c07TuneMax(t, v, c07NS1, "vr")
	// entities (root namespace, auth/vr): created by a first login with the alias, then given identity policies
	for _, e := range []*c07Ent{{Alias: "ent-plain"}, {Alias: "ent-sudo", Policies: []string{"sudo-create"}}, {Alias: "ent-b", Policies: []string{"b"}}, {Alias: "ent-hostile"}} {
		resp := v.MustDo(vReq{Op: logical.UpdateOperation, Path: "auth/vr/login/" + e.Alias, Data: map[string]any{"policies": []string{"a"}, "alias": e.Alias, "ttl": "1h"}})
		if resp == nil || resp.Auth == nil || resp.Auth.EntityID == "" {
			t.Fatalf("c07: login with alias %s produced no entity", e.Alias)
		}
		e.ID = resp.Auth.EntityID
		if len(e.Policies) > 0 {
			v.MustDo(vReq{Op: logical.UpdateOperation, Path: "identity/entity/id/" + e.ID, Token: v.Root, Data: map[string]any{"policies": e.Policies}})
		}
		w.ents[e.Alias] = e
	}
	return w
}

// ---------------------------------------------------------------- reading tokens back

func c07Int(x any) int64 {
	switch n := x.(type) {
	case int:
		return int64(n)
	case int64:
		return n
	case int32:
		return int64(n)
	case float64:
		return int64(n)
	case uint64:
		return int64(n)
	}
	return 0
}

func c07Strs(x any) []string {
	switch s := x.(type) {
	case []string:
		return append([]string{}, s...)
	case []any:
		var out []string
		for _, e := range s {
			out = append(out, fmt.Sprint(e))
		}
		return out
	}
	return nil
}

// lookup returns the lookup view of a token (nil when the token cannot be looked up).
func (w *c07World) lookup(name, id, ns string, periodic bool) (*c07View, map[string]any) {
	resp, err := w.v.Do(vReq{Op: logical.UpdateOperation, Path: "auth/token/lookup", Token: w.v.Root, NS: ns, Data: map[string]any{"token": id}})
	if !vOK(resp, err) || resp == nil || resp.Data == nil {
		w.lastLookupErr = vErrStr(resp, err)
		return nil, nil
	}
	d := resp.Data
	v := &c07View{Name: name, ID: fmt.Sprint(d["id"])}
	v.TokenPolicies = c07Strs(d["policies"])
	v.AllPolicies = c07Strs(d["identity_policies"])
	v.Orphan, _ = d["orphan"].(bool)
	v.Period = time.Duration(c07Int(d["period"])) * time.Second
	v.ExplicitMax = time.Duration(c07Int(d["explicit_max_ttl"])) * time.Second
	v.TTL = time.Duration(c07Int(d["creation_ttl"])) * time.Second
	v.Type, _ = d["type"].(string)
	v.NumUses = int(c07Int(d["num_uses"]))
	v.EntityID, _ = d["entity_id"].(string)
	v.NSPath, _ = d["namespace_path"].(string)
	v.HasNS = true
	v.HasCIDRs = true
	switch cs := d["bound_cidrs"].(type) {
	case nil:
	default:
		s := strings.Trim(fmt.Sprint(cs), "[]")
		if s != "" {
			v.CIDRs = strings.Fields(s)
		}
	}
	exp, hasExp := d["expire_time"].(time.Time)
	iss, hasIss := d["issue_time"].(time.Time)
	remaining := time.Duration(c07Int(d["ttl"])) * time.Second
	hasExp = hasExp && !exp.IsZero()
	switch {
	case hasExp && hasIss:
		v.Span = exp.Sub(iss)
	default:
		v.Span = remaining
	}
	v.Life = v.Span
	if periodic {
		// a periodic token is renewed "from now" by design: the mount max bounds its remaining TTL
		v.Life = remaining
	}
	if v.Type == "batch" {
		// batch tokens have no lease; creation_ttl is their fixed TTL
		v.NonExpiring = v.TTL == 0
		v.Life, v.Span = v.TTL, v.TTL
	} else {
		v.NonExpiring = v.TTL == 0 && !hasExp
	}
	return v, d
}

func c07AuthView(a *logical.Auth) *c07View {
	v := &c07View{Name: "response", ID: a.ClientToken}
	v.TokenPolicies = append([]string{}, a.TokenPolicies...)
	v.AllPolicies = append(append([]string{}, a.Policies...), a.IdentityPolicies...)
	v.Orphan = a.Orphan
	v.Period = a.Period
	v.ExplicitMax = a.ExplicitMaxTTL
	v.TTL = a.TTL
	v.Life, v.Span = a.TTL, a.TTL
	v.NonExpiring = a.TTL == 0
	v.Type = a.TokenType.String()
	v.NumUses = a.NumUses
	v.EntityID = a.EntityID
	return v
}

// ---------------------------------------------------------------- parents

type c07ParentSpec struct {
	Kind     string        `json:"kind"` // root0 | rootchild | rootexp | rootx | svc | batch | uses | login | login-ent | ent
	NS       string        `json:"ns"`
	Policies []string      `json:"policies,omitempty"`
	Default  bool          `json:"default"`
	TTL      string        `json:"ttl,omitempty"`
	NumUses  int           `json:"num_uses,omitempty"`
	Alias    string        `json:"alias,omitempty"`
	Ident    *c07IdentSpec `json:"identity,omitempty"` // kind ent
	// kind rootx: a root token made by the initial root token with exactly these lifetime parameters (TTL, NumUses too)
	Period      string `json:"period,omitempty"`
	ExplicitMax string `json:"explicit_max_ttl,omitempty"`
}

// c07IdentSpec: the entity a parent of kind "ent" is bound to. The entity is made for the case (fresh alias),
// gets EntityPolicies, and - when GroupPolicies is not nil - is the member of a fresh group carrying GroupPolicies.
type c07IdentSpec struct {
	Via            string   `json:"via"` // login: alias returned by an auth-method login | role-alias: token role + entity_alias
	EntityPolicies []string `json:"entity_policies"`
	GroupPolicies  []string `json:"group_policies"`
}

// c07Ident is the identity made for one parent.
type c07Ident struct {
	ns, entityID, groupID string
	hasGroup              bool
}

// makeEntityParent makes a token bound to a fresh entity that carries the identity policies of the spec.
func (w *c07World) makeEntityParent(s c07ParentSpec) (string, *c07Ident, error) {
	v := w.v
	w.n++
	alias := fmt.Sprintf("c07e-%d", w.n)
	var resp *logical.Response
	var err error
	switch s.Ident.Via {
	case "login":
		resp, err = v.Do(vReq{Op: logical.UpdateOperation, Path: "auth/vr/login/p", NS: s.NS, Data: map[string]any{"policies": append([]string{}, s.Policies...), "ttl": "6h", "no_default_policy": !s.Default, "alias": alias}})
	case "role-alias":
		resp, err = v.Do(vReq{Op: logical.UpdateOperation, Path: "auth/token/create/" + c07ParentRole, Token: v.Root, NS: s.NS, Data: map[string]any{"policies": append([]string{}, s.Policies...), "ttl": "6h", "no_default_policy": !s.Default, "entity_alias": alias}})
	default:
		return "", nil, fmt.Errorf("unknown identity binding %q", s.Ident.Via)
	}
	if !vOK(resp, err) || resp == nil || resp.Auth == nil || resp.Auth.EntityID == "" {
		return "", nil, fmt.Errorf("entity-bound parent (%s) not made: %s", s.Ident.Via, vErrStr(resp, err))
	}
	id := resp.Auth.ClientToken
	ident := &c07Ident{ns: s.NS, entityID: resp.Auth.EntityID}
	if r2, e2 := v.Do(vReq{Op: logical.UpdateOperation, Path: "identity/entity/id/" + ident.entityID, Token: v.Root, NS: s.NS, Data: map[string]any{"policies": append([]string{}, s.Ident.EntityPolicies...)}}); !vOK(r2, e2) {
		w.dropIdent(ident)
		return "", nil, fmt.Errorf("writing entity policies %v failed: %s", s.Ident.EntityPolicies, vErrStr(r2, e2))
	}
	if s.Ident.GroupPolicies != nil {
		r3, e3 := v.Do(vReq{Op: logical.UpdateOperation, Path: "identity/group", Token: v.Root, NS: s.NS, Data: map[string]any{"name": "c07g-" + alias, "policies": append([]string{}, s.Ident.GroupPolicies...), "member_entity_ids": []string{ident.entityID}}})
		if !vOK(r3, e3) || r3 == nil || r3.Data == nil || fmt.Sprint(r3.Data["id"]) == "" {
			w.dropIdent(ident)
			return "", nil, fmt.Errorf("writing group with policies %v failed: %s", s.Ident.GroupPolicies, vErrStr(r3, e3))
		}
		ident.groupID, ident.hasGroup = fmt.Sprint(r3.Data["id"]), true
	}
	return id, ident, nil
}

// stripIdent empties the policy lists of the entity and of its group (membership stays).
func (w *c07World) stripIdent(i *c07Ident) error {
	if r, e := w.v.Do(vReq{Op: logical.UpdateOperation, Path: "identity/entity/id/" + i.entityID, Token: w.v.Root, NS: i.ns, Data: map[string]any{"policies": []string{}}}); !vOK(r, e) {
		return fmt.Errorf("emptying entity policies: %s", vErrStr(r, e))
	}
	if i.hasGroup {
		if r, e := w.v.Do(vReq{Op: logical.UpdateOperation, Path: "identity/group/id/" + i.groupID, Token: w.v.Root, NS: i.ns, Data: map[string]any{"policies": []string{}}}); !vOK(r, e) {
			return fmt.Errorf("emptying group policies: %s", vErrStr(r, e))
		}
	}
	return nil
}

func (w *c07World) dropIdent(i *c07Ident) {
	if i == nil {
		return
	}
	if i.hasGroup {
		_, _ = w.v.Do(vReq{Op: logical.DeleteOperation, Path: "identity/group/id/" + i.groupID, Token: w.v.Root, NS: i.ns})
	}
	_, _ = w.v.Do(vReq{Op: logical.DeleteOperation, Path: "identity/entity/id/" + i.entityID, Token: w.v.Root, NS: i.ns})
}

func (w *c07World) makeParent(s c07ParentSpec) (*c07Parent, error) {
	v := w.v
	var id string
	var ident *c07Ident
	switch s.Kind {
	case "root0":
		id = v.Root
	case "login", "login-ent":
		data := map[string]any{"policies": append([]string{}, s.Policies...), "ttl": "6h", "no_default_policy": !s.Default}
		if s.Kind == "login-ent" {
			data["alias"] = s.Alias
		}
		resp, err := v.Do(vReq{Op: logical.UpdateOperation, Path: "auth/vr/login/p", NS: s.NS, Data: data})
		if !vOK(resp, err) || resp == nil || resp.Auth == nil {
			return nil, fmt.Errorf("parent login failed: %s", vErrStr(resp, err))
		}
		id = resp.Auth.ClientToken
	case "ent":
		var err error
		if id, ident, err = w.makeEntityParent(s); err != nil {
			return nil, err
		}
	default:
		data := map[string]any{"no_default_policy": !s.Default}
		switch s.Kind {
		case "rootchild":
		case "rootexp":
			data["ttl"] = "8h"
		case "rootx":
			if s.TTL != "" {
				data["ttl"] = s.TTL
			}
			if s.Period != "" {
				data["period"] = s.Period
			}
			if s.ExplicitMax != "" {
				data["explicit_max_ttl"] = s.ExplicitMax
			}
			if s.NumUses > 0 {
				data["num_uses"] = s.NumUses
			}
		default:
			data["policies"] = append([]string{}, s.Policies...)
			data["ttl"] = "6h"
			if s.TTL != "" {
				data["ttl"] = s.TTL
			}
		}
		if s.Kind == "batch" {
			data["type"] = "batch"
		}
		if s.Kind == "uses" {
			data["num_uses"] = s.NumUses
		}
		resp, err := v.Do(vReq{Op: logical.UpdateOperation, Path: "auth/token/create", Token: v.Root, NS: s.NS, Data: data})
		if !vOK(resp, err) || resp == nil || resp.Auth == nil {
			return nil, fmt.Errorf("parent create failed: %s", vErrStr(resp, err))
		}
		id = resp.Auth.ClientToken
	}
	lv, d := w.lookup("parent", id, s.NS, false)
	if lv == nil {
		w.dropIdent(ident)
		return nil, fmt.Errorf("parent lookup failed")
	}
	p := &c07Parent{Kind: s.Kind, NS: s.NS, ID: id, TokenPolicies: c07Norm(lv.TokenPolicies), IdentityPolicies: c07Norm(c07Strs(d["identity_policies"])),
		NumUses: lv.NumUses, Batch: lv.Type == "batch", EntityID: lv.EntityID, NonExpiring: lv.NonExpiring,
		TTL: lv.TTL, Period: lv.Period, ExplicitMax: lv.ExplicitMax}
	p.Root = c07Has(p.TokenPolicies, "root")
	if s.Kind == "rootx" && (!p.Root || (p.Period > 0) != (c07Dur(s.Period) > 0) || (p.ExplicitMax > 0) != (c07Dur(s.ExplicitMax) > 0) || (p.NumUses > 0) != (s.NumUses > 0)) {
		_, _ = v.Do(vReq{Op: logical.UpdateOperation, Path: "auth/token/revoke", Token: v.Root, NS: s.NS, Data: map[string]any{"token": id}})
		return nil, fmt.Errorf("root parent not of the requested shape: lookup says policies %v ttl %s period %s explicit max %s uses %d", p.TokenPolicies, p.TTL, p.Period, p.ExplicitMax, p.NumUses)
	}
	if ident != nil {
		// the reference takes the identity-derived policies from what the harness wrote, not from the server's report;
		// a parent whose lookup disagrees with that is not used (counted as a failed setup)
		p.ident = ident
		p.EntityVia = s.Ident.Via
		p.EntityPolicies, p.GroupPolicies = c07Norm(s.Ident.EntityPolicies), c07Norm(s.Ident.GroupPolicies)
		want := c07Norm(append(append([]string{}, s.Ident.EntityPolicies...), s.Ident.GroupPolicies...))
		if strings.Join(want, ",") != strings.Join(p.IdentityPolicies, ",") || p.EntityID == "" {
			w.dropIdent(ident)
			_, _ = v.Do(vReq{Op: logical.UpdateOperation, Path: "auth/token/revoke", Token: v.Root, NS: s.NS, Data: map[string]any{"token": id}})
			return nil, fmt.Errorf("entity-bound parent: lookup reports entity %q identity_policies %v, the harness wrote entity %v group %v", p.EntityID, p.IdentityPolicies, s.Ident.EntityPolicies, s.Ident.GroupPolicies)
		}
		p.IdentityPolicies = want
	}
	return p, nil
}

func (w *c07World) writeRole(ro *c07Role, ns string) error {
	data := map[string]any{
		"allowed_policies": ro.Allowed, "disallowed_policies": ro.Disallowed,
		"allowed_policies_glob": ro.AllowedGlob, "disallowed_policies_glob": ro.DisallowedGlob,
		"orphan": ro.Orphan, "renewable": ro.Renewable, "token_no_default_policy": ro.NoDefault,
	}
	if ro.Period != "" {
		data["token_period"] = ro.Period
	}
	if ro.ExplicitMax != "" {
		data["token_explicit_max_ttl"] = ro.ExplicitMax
	}
	if len(ro.CIDRs) > 0 {
		data["token_bound_cidrs"] = ro.CIDRs
	}
	if ro.Type != "" {
		data["token_type"] = ro.Type
	}
	if ro.NumUses > 0 {
		data["token_num_uses"] = ro.NumUses
	}
	if len(ro.Aliases) > 0 {
		data["allowed_entity_aliases"] = ro.Aliases
	}
	resp, err := w.v.Do(vReq{Op: logical.UpdateOperation, Path: "auth/token/roles/" + ro.Name, Token: w.v.Root, NS: ns, Data: data})
	if !vOK(resp, err) {
		return fmt.Errorf("role write refused: %s", vErrStr(resp, err))
	}
	// the role's configuration, for the reference, is what its read endpoint shows
	rr, re := w.v.Do(vReq{Op: logical.ReadOperation, Path: "auth/token/roles/" + ro.Name, Token: w.v.Root, NS: ns})
	if !vOK(rr, re) || rr == nil || rr.Data == nil {
		return fmt.Errorf("role read failed: %s", vErrStr(rr, re))
	}
	ro.Shown = &c07RoleLists{Allowed: c07Strs(rr.Data["allowed_policies"]), Disallowed: c07Strs(rr.Data["disallowed_policies"]),
		AllowedGlob: c07Strs(rr.Data["allowed_policies_glob"]), DisallowedGlob: c07Strs(rr.Data["disallowed_policies_glob"])}
	return nil
}

// c07RoleTags describes which special entries the WRITTEN lists of a role contain (evidence keys).
func c07RoleTags(ro *c07Role) []string {
	var tags []string
	for _, l := range []struct {
		name string
		raw  []string
	}{{"deny", ro.Disallowed}, {"denyglob", ro.DisallowedGlob}, {"allow", ro.Allowed}, {"allowglob", ro.AllowedGlob}} {
		if len(l.raw) == 0 {
			continue
		}
		norm := c07Norm(l.raw)
		nonEmpty, variant := 0, false
		for _, x := range l.raw {
			t := strings.ToLower(strings.TrimSpace(x))
			if t == "" {
				continue
			}
			nonEmpty++
			if t != x {
				variant = true
			}
		}
		ordinary := 0
		for _, x := range norm {
			if x != "root" && x != "default" && x != "response-wrapping" {
				ordinary++
			}
		}
		add := func(cond bool, what string) {
			if cond {
				tags = append(tags, l.name+"-has-"+what)
			}
		}
		add(c07Has(norm, "root") && ordinary > 0, "root-and-ordinary-entries")
		add(c07Has(norm, "root") && ordinary == 0, "root-only")
		add(c07Has(norm, "default"), "default")
		add(c07Has(norm, "response-wrapping"), "non-assignable")
		add(nonEmpty < len(l.raw), "empty-name")
		add(nonEmpty > len(norm), "duplicate")
		add(variant, "case-or-padding-variant")
	}
	return tags
}

// ---------------------------------------------------------------- one create case

func c07ReqData(q *c07Req) map[string]any {
	d := map[string]any{}
	if q.Policies != nil {
		d["policies"] = append([]string{}, q.Policies...)
	}
	if q.NoParent {
		d["no_parent"] = true
	}
	if q.NoDefault {
		d["no_default_policy"] = true
	}
	if q.Period != "" {
		d["period"] = q.Period
	}
	if q.ExplicitMax != "" {
		d["explicit_max_ttl"] = q.ExplicitMax
	}
	if q.TTL != "" {
		d["ttl"] = q.TTL
	}
	if q.Lease != "" {
		d["lease"] = q.Lease
	}
	if q.NumUses != 0 {
		d["num_uses"] = q.NumUses
	}
	if q.ID != "" {
		d["id"] = q.ID
	}
	if q.Type != "" {
		d["type"] = q.Type
	}
	if q.EntityAlias != "" {
		d["entity_alias"] = q.EntityAlias
	}
	return d
}

// run executes one case and judges it. renewProbe adds a renewal attempt + third view.
func (w *c07World) run(r *kit.Result, id string, ps c07ParentSpec, q c07Req, renewProbe bool) {
	v := w.v
	r.Eval(1)
	parent, err := w.makeParent(ps)
	if err != nil {
		r.Count("harness_parent_setup_failed", 1)
		r.Note("case %s: %v (spec %+v)", id, err, ps)
		return
	}
	defer func() {
		if ps.Kind != "root0" && !parent.Batch {
			_, _ = v.Do(vReq{Op: logical.UpdateOperation, Path: "auth/token/revoke", Token: v.Root, NS: ps.NS, Data: map[string]any{"token": parent.ID}})
		}
		w.dropIdent(parent.ident)
	}()
	idOnly := parent.identityOnly()
	if parent.ident != nil {
		r.Count("parents_with_entity", 1)
		r.Count("parents_with_entity:via-"+parent.EntityVia, 1)
		if parent.NS != "" {
			r.Count("parents_with_entity_in_child_namespace", 1)
		}
		if len(parent.GroupPolicies) > 0 {
			r.Count("parents_with_group_policies", 1)
		}
		if len(idOnly) > 0 {
			r.Count("parents_with_identity_only_policies", 1)
		}
	}
	if q.Role != nil && q.Role.Name != "missing" {
		if err := w.writeRole(q.Role, q.NS); err != nil {
			r.Count("role_write_refused", 1)
			return
		}
		defer func() {
			_, _ = v.Do(vReq{Op: logical.DeleteOperation, Path: "auth/token/roles/" + q.Role.Name, Token: v.Root, NS: q.NS})
		}()
		// the read endpoint may not show an allowed entry nobody configured, nor lose a disallowed one
		sh := q.Role.Shown
		for _, chk := range []struct {
			class, what string
			sub, super  []string
		}{
			{"C07-role-shows-allowed-entry-never-configured", "allowed_policies", c07Norm(sh.Allowed), c07Norm(q.Role.Allowed)},
			{"C07-role-shows-allowed-entry-never-configured", "allowed_policies_glob", c07Norm(sh.AllowedGlob), c07Norm(q.Role.AllowedGlob)},
			{"C07-role-drops-configured-disallowed-entry", "disallowed_policies", c07Norm(q.Role.Disallowed), c07Norm(sh.Disallowed)},
			{"C07-role-drops-configured-disallowed-entry", "disallowed_policies_glob", c07Norm(q.Role.DisallowedGlob), c07Norm(sh.DisallowedGlob)},
		} {
			for _, x := range chk.sub {
				if !c07Has(chk.super, x) {
					r.Violate(chk.class, id, fmt.Sprintf("%s: entry %q; written %q, read back %q", chk.what, x, map[string][]string{"allowed_policies": q.Role.Allowed, "allowed_policies_glob": q.Role.AllowedGlob, "disallowed_policies": q.Role.Disallowed, "disallowed_policies_glob": q.Role.DisallowedGlob}[chk.what], map[string][]string{"allowed_policies": sh.Allowed, "allowed_policies_glob": sh.AllowedGlob, "disallowed_policies": sh.Disallowed, "disallowed_policies_glob": sh.DisallowedGlob}[chk.what]), map[string]any{"role": q.Role})
					break
				}
			}
		}
		r.Count("role_read_backs", 1)
		if len(c07Norm(sh.Allowed)) < len(c07Norm(q.Role.Allowed)) {
			r.Count("role_allowed_list_narrower_when_read_back", 1)
		}
	}
	var roleTags []string
	if q.Role != nil {
		roleTags = c07RoleTags(q.Role)
		for _, tg := range roleTags {
			r.Count("roles:"+tg, 1)
		}
	}
	c := &c07Case{ID: id, Parent: parent, Req: q, CrossNS: q.NS != parent.NS, MountMax: w.mountMax[q.NS]}
	c.Update, c.Sudo = c07RefCaps(parent.NS, parent.allPolicies(), q.NS+q.path())
	if parent.NS != "" && q.NS == "" {
		c.Update, c.Sudo = false, false // a namespace token has no standing in the parent namespace
	}
	if c.Sudo && !parent.Root && parent.ident != nil {
		// identity-derived sudo is sudo: the caller's capabilities come from token and identity policies
		if _, own := c07RefCaps(parent.NS, parent.TokenPolicies, q.NS+q.path()); !own {
			c.SudoViaIdentity = true
			r.Count("identity_derived_sudo_callers", 1)
		}
	}
	reqIdOnly := false
	for _, x := range c07Norm(q.Policies) {
		if c07Has(idOnly, x) {
			reqIdOnly = true
		}
	}
	if reqIdOnly {
		r.Count("requests_naming_identity_only_policy", 1)
	}
	// guard against an error in the reference ACL: compare with sys/capabilities (diagnostic only)
	if !parent.Batch && parent.NumUses == 0 {
		rel := strings.TrimPrefix(q.NS+q.path(), parent.NS)
		if resp, err := v.Do(vReq{Op: logical.UpdateOperation, Path: "sys/capabilities", Token: v.Root, NS: parent.NS, Data: map[string]any{"token": parent.ID, "path": rel}}); vOK(resp, err) && resp != nil {
			caps := c07Strs(resp.Data["capabilities"])
			got := c07Has(caps, "sudo") || c07Has(caps, "root")
			r.Count("sudo_reference_crosschecks", 1)
			if got != c.Sudo && !(parent.NS != "" && q.NS == "") {
				r.Count("sudo_reference_disagrees_with_sys_capabilities", 1)
				r.Note("case %s: reference sudo=%v, sys/capabilities says %v for %s with %v", id, c.Sudo, caps, rel, parent.allPolicies())
			}
		}
	}
	asks := c07Asks(c)
	rootShape := ""
	if parent.Root {
		rootShape = c07RootShape(parent)
		r.Count("root_parents:"+rootShape, 1)
	}
	noDefaultParent := !parent.Root && !parent.Batch && parent.NumUses == 0 && !c07Has(parent.TokenPolicies, "default")
	namesDefault := c07Has(c07Norm(q.Policies), "default")
	if noDefaultParent {
		r.Count("parents_without_default", 1)
		if namesDefault {
			r.Count("parents_without_default_naming_default", 1)
		}
	}
	// evidence for the namespace dimension: the caller's policy NAMES would grant sudo if they were (wrongly)
	// resolved in the request namespace, while the caller's own policies do not
	namesake := false
	if c.CrossNS && !c.Sudo && parent.NS == "" {
		if _, s := c07RefCaps(q.NS, parent.allPolicies(), q.NS+q.path()); s {
			namesake = true
			r.Count("cross_namespace_caller_whose_policy_namesakes_grant_sudo", 1)
		}
	}

	resp, rerr := v.Do(vReq{Op: logical.UpdateOperation, Path: q.path(), Token: parent.ID, NS: q.NS, Data: c07ReqData(&q)})
	created := vOK(resp, rerr) && resp != nil && resp.Auth != nil && resp.Auth.ClientToken != ""

	capName := "none"
	switch {
	case parent.Root:
		capName = "root"
	case c.Sudo:
		capName = "sudo"
	}
	shape := "-"
	if q.Role != nil {
		shape = fmt.Sprintf("role[a%v,d%v,o%v,p%v,t%s]", q.Role.hasAllowLists(), q.Role.hasDenyLists(), q.Role.Orphan, q.Role.Period != "", q.Role.Type)
	}
	key := fmt.Sprintf("%s|%s|%s|x%v|asks%v|pol%v|np%v|nd%v|per%v|id%v|ty%s|created%v|ent%s,g%v,idsudo%v,reqid%v,alias%v", capName, q.Endpoint, shape, c.CrossNS, asks, q.Policies != nil, q.NoParent, q.NoDefault, q.Period != "", q.ID != "", q.Type, created,
		parent.EntityVia, len(parent.GroupPolicies) > 0, c.SudoViaIdentity, reqIdOnly, q.EntityAlias != "")
	r.Nontrivial(key)

	if !created {
		r.Count("refused", 1)
		if namesake {
			r.Count("cross_namespace_namesake_caller_refused", 1)
		}
		if !c.Update {
			r.Count("refused_reference_says_no_update_capability", 1)
		}
		for _, a := range asks {
			r.Count("refused_unentitled_ask:"+a, 1)
		}
		for _, a := range asks {
			if a == "role-disallowed-policy" || a == "policy-outside-role-lists" {
				for _, tg := range roleTags {
					r.Count("refused:"+a+":role:"+tg, 1)
				}
			}
			switch {
			case a == "non-expiring-root-from-expiring-root" && len(asks) == 1:
				r.Count("expiring_root_parent_refused_non_expiring_root_child:"+rootShape, 1)
			case a == "explicit-default-not-held-by-parent" && len(asks) == 1 && c.Update:
				r.Count("explicit_default_refused_for_that_alone:"+q.Endpoint, 1)
			}
		}
		if reqIdOnly {
			r.Count("identity_only_policy_request_refused", 1)
			if len(asks) == 1 && asks[0] == "identity-only-policy" && c.Update {
				// nothing else in the request is objectionable: the refusal is the token-policies-only subset rule at work
				r.Count("identity_only_policy_request_refused_for_that_alone", 1)
			}
		}
		if len(asks) == 0 && c.Update {
			r.Count("refused_without_unentitled_ask", 1)
		}
		// a refused request with a caller-chosen id must not have left a token under that id
		if q.ID != "" {
			if lv, _ := w.lookup("lookup-by-chosen-id", q.ID, q.NS, false); lv != nil {
				cv := *lv
				cv.CustomID = true
				w.report(r, c, []*c07View{&cv}, "request was refused ("+vErrStr(resp, rerr)+") but a token exists under the chosen id")
			}
		}
		return
	}
	r.Count("created", 1)
	r.Count("created:"+capName+":"+q.Endpoint, 1)
	for _, tg := range roleTags {
		r.Count("created_through_role:"+tg, 1)
	}
	if !c.Update {
		r.Count("created_although_reference_says_no_update_capability", 1)
		r.Note("case %s: reference ACL says the parent %v cannot update %s but the request succeeded", id, parent.allPolicies(), q.NS+q.path())
	}
	for _, a := range asks {
		r.Count("created_despite_unentitled_ask:"+a, 1)
	}
	a := resp.Auth
	if q.Role != nil && q.EntityAlias != "" {
		// which entity does the requested alias name on the token mount of the request namespace?
		if lr, le := v.Do(vReq{Op: logical.UpdateOperation, Path: "identity/lookup/entity", Token: v.Root, NS: q.NS, Data: map[string]any{"alias_name": q.EntityAlias, "alias_mount_accessor": w.tokenAcc[q.NS]}}); vOK(lr, le) && lr != nil && lr.Data != nil {
			c.AliasEntity, _ = lr.Data["id"].(string)
		}
		if c.AliasEntity != "" {
			r.Count("requested_alias_resolved_to_entity", 1)
		}
	}
	views := []*c07View{c07AuthView(a)}
	periodic := a.Period > 0
	defer func() {
		if a.TokenType != logical.TokenTypeBatch {
			_, _ = v.Do(vReq{Op: logical.UpdateOperation, Path: "auth/token/revoke", Token: v.Root, NS: q.NS, Data: map[string]any{"token": a.ClientToken}})
		}
	}()
	lv, _ := w.lookup("lookup", a.ClientToken, q.NS, periodic)
	if lv == nil {
		// not a clause of the property: counted and noted (the stored-token view is then missing;
		// Require(lookup_views) keeps a systematic loss of this view from passing as "held")
		r.Count("created_token_not_lookupable", 1)
		self, serr := v.Do(vReq{Op: logical.ReadOperation, Path: "auth/token/lookup-self", Token: a.ClientToken, NS: q.NS})
		r.Note("case %s: root cannot look up the created token in %q (%s); lookup-self with it: %s; response: policies %v ttl %s orphan %v type %s", id, q.NS, strings.Join(strings.Fields(w.lastLookupErr), " "), strings.Join(strings.Fields(vErrStr(self, serr)), " "), views[0].TokenPolicies, views[0].TTL, views[0].Orphan, views[0].Type)
	} else {
		r.Count("lookup_views", 1)
		if lv.Period > 0 {
			periodic = true
		}
		views = append(views, lv)
		if strings.Join(c07Norm(lv.TokenPolicies), ",") != strings.Join(c07Norm(a.TokenPolicies), ",") {
			r.Violate("C07-response-and-stored-token-disagree-on-policies", id, fmt.Sprintf("response token_policies %v, lookup policies %v", a.TokenPolicies, lv.TokenPolicies), map[string]any{"case": c})
		}
	}
	if q.ID != "" {
		if cv, _ := w.lookup("lookup-by-chosen-id", q.ID, q.NS, periodic); cv != nil {
			cv.CustomID = true
			views = append(views, cv)
			r.Count("token_reachable_under_chosen_id", 1)
		}
		for _, x := range views[:1] {
			if x.ID == q.ID || strings.HasPrefix(x.ID, q.ID+".") {
				x.CustomID = true
			}
		}
	}
	if renewProbe && a.TokenType != logical.TokenTypeBatch && a.TTL > 0 {
		rr, re := v.Do(vReq{Op: logical.UpdateOperation, Path: "auth/token/renew", Token: v.Root, NS: q.NS, Data: map[string]any{"token": a.ClientToken, "increment": "5000h"}})
		if vOK(rr, re) {
			r.Count("renewals_granted", 1)
			if rv, _ := w.lookup("lookup-after-renew", a.ClientToken, q.NS, periodic); rv != nil {
				views = append(views, rv)
			}
		} else {
			r.Count("renewals_refused", 1)
		}
	}

	if parent.ident != nil {
		// take every policy away from the parent's entity and group: whatever the child still shows in its
		// stored entry is its own (no waiting involved: lookup reads the entry and the identity store)
		if err := w.stripIdent(parent.ident); err != nil {
			r.Count("harness_identity_strip_failed", 1)
			r.Note("case %s: %v", id, err)
		} else if sv, _ := w.lookup(c07StripView, a.ClientToken, q.NS, periodic); sv != nil {
			views = append(views, sv)
			r.Count("views_after_identity_policies_removed", 1)
			if pl, pd := w.lookup("parent-after-strip", parent.ID, parent.NS, false); pl != nil && len(c07Strs(pd["identity_policies"])) == 0 {
				r.Count("parent_lost_identity_policies_after_removal", 1)
			}
		}
	}

	// evidence: which entitlements were actually exercised
	pv := views[0]
	pols := c07Norm(pv.TokenPolicies)
	beyond := false
	for _, x := range pols {
		if x != "default" && !c07Has(parent.TokenPolicies, x) {
			beyond = true
		}
	}
	carriesIdOnly := false
	for _, x := range pols {
		if c07Has(idOnly, x) {
			carriesIdOnly = true
		}
	}
	if c.SudoViaIdentity {
		r.Count("created_by_identity_derived_sudo_caller", 1)
	}
	if carriesIdOnly {
		switch {
		case c.SudoViaIdentity:
			r.Count("identity_only_policy_granted_via_identity_derived_sudo", 1)
		case c.Sudo:
			r.Count("identity_only_policy_granted_via_sudo", 1)
		case q.Role != nil && q.Role.hasAllowLists():
			r.Count("identity_only_policy_granted_via_role_allow_lists", 1)
		default:
			r.Count("identity_only_policy_granted_without_entitlement", 1)
		}
	}
	if len(idOnly) > 0 && len(c07Norm(q.Policies)) == 0 && !carriesIdOnly && !(q.Role != nil && q.Role.hasAllowLists()) {
		r.Count("inherit_from_entity_parent_gave_token_policies_only", 1)
	}
	if len(idOnly) > 0 && !c.Sudo && !carriesIdOnly && len(c07Norm(q.Policies)) > 0 {
		r.Count("entity_parent_without_sudo_narrowed_to_token_policies", 1)
	}
	switch {
	case beyond && c.Sudo:
		r.Count("policy_beyond_parent_via_sudo", 1)
	case beyond && q.Role != nil && q.Role.hasAllowLists():
		r.Count("policy_beyond_parent_via_role_allow_lists", 1)
		for _, x := range pols {
			if !c07Has(q.Role.allowedList(), x) && c07GlobAny(q.Role.allowedGlobs(), x) {
				r.Count("policy_via_role_allow_glob", 1)
				break
			}
		}
	case !beyond && !c.Sudo && q.Policies != nil:
		r.Count("explicit_subset_of_parent_granted", 1)
	}
	if pv.Orphan {
		switch {
		case q.Endpoint == "create-orphan":
			r.Count("orphan_via_endpoint", 1)
		case q.Role != nil && q.Role.Orphan:
			r.Count("orphan_via_role", 1)
		case c.Sudo && q.NoParent:
			r.Count("orphan_via_sudo_no_parent", 1)
		}
	} else {
		r.Count("non_orphan_created", 1)
	}
	if pv.Period > 0 {
		if q.Role != nil && q.Role.Period != "" {
			r.Count("periodic_via_role", 1)
		} else {
			r.Count("periodic_via_sudo", 1)
		}
	}
	if c07Has(pols, "root") {
		r.Count("root_child_of_root_parent", 1)
		if pv.NonExpiring {
			r.Count("non_expiring_root_child", 1)
			r.Count("non_expiring_root_child_of_parent:"+rootShape, 1)
		} else {
			r.Count("expiring_root_child_of_parent:"+rootShape, 1)
		}
	}
	if noDefaultParent && !c.CrossNS && !(q.Role != nil && (q.Role.hasAllowLists() || q.Role.hasDenyLists())) {
		switch {
		case c07Has(pols, "default") && c.Sudo:
			r.Count("child_of_parent_without_default_carries_default_via_sudo", 1)
		case c07Has(pols, "default"):
			r.Count("child_of_parent_without_default_carries_default_without_sudo", 1)
		case !c.Sudo && len(c07Norm(q.Policies)) == 0:
			r.Count("inherit_from_parent_without_default_gave_no_default", 1)
		case !c.Sudo:
			r.Count("subset_of_parent_without_default_gave_no_default", 1)
		}
	}
	if noDefaultParent && q.Role != nil && (q.Role.hasAllowLists() || q.Role.hasDenyLists()) && c07Has(pols, "default") {
		r.Count("child_of_parent_without_default_carries_default_via_role_lists", 1)
	}
	if q.ID != "" {
		r.Count("created_with_chosen_id_requested", 1)
	}
	if pv.Type == "batch" {
		r.Count("batch_token_created", 1)
	}
	if c.CrossNS {
		r.Count("cross_namespace_created", 1)
	}
	if q.NS != "" {
		r.Count("created_in_child_namespace", 1)
	}
	if c07Has(pols, "default") {
		r.Count("carries_default", 1)
	}
	if pv.EntityID != "" && parent.EntityID == "" {
		r.Count("entity_via_role_alias", 1)
	}
	if pv.EntityID != "" && parent.EntityID != "" && c.AliasEntity != "" && (pv.EntityID == c.AliasEntity || strings.HasPrefix(pv.EntityID, c.AliasEntity+".")) {
		r.Count("entity_via_role_alias_instead_of_parent_entity", 1)
	}
	if pv.EntityID == "" && parent.EntityID != "" && pv.Orphan {
		r.Count("orphan_of_entity_parent_without_entity", 1)
	}
	if pv.EntityID != "" && (pv.EntityID == parent.EntityID || strings.HasPrefix(pv.EntityID, parent.EntityID+".")) {
		r.Count("entity_inherited_from_parent", 1)
	}
	w.report(r, c, views, "")
	if r.Get("created") <= 4 {
		r.Sample(map[string]any{"case": c, "response": vErrStr(resp, rerr), "views": views})
	}
}

func (w *c07World) report(r *kit.Result, c *c07Case, views []*c07View, prefix string) {
	seen := map[string]bool{}
	for _, vw := range views {
		r.Count("views_judged", 1)
		for _, f := range c07Judge(c, vw) {
			if seen[f.Class] {
				continue // one witness per class and case
			}
			seen[f.Class] = true
			what := f.What
			if prefix != "" {
				what = prefix + ": " + what
			}
			r.Violate(f.Class, c.ID, what, map[string]any{"case": c, "views": views})
		}
	}
}

// ---------------------------------------------------------------- generators

func c07Sub(rng *kit.Rand, xs []string, pNum, pDen int) []string {
	var out []string
	for _, x := range xs {
		if rng.Chance(pNum, pDen) {
			out = append(out, x)
		}
	}
	return out
}

func c07Mangle(rng *kit.Rand, p string) string {
	switch rng.Intn(4) {
	case 0:
		return strings.ToUpper(p)
	case 1:
		return " " + p + " "
	case 2:
		return strings.ToUpper(p[:1]) + p[1:]
	}
	return p
}

// c07Spice inserts special names at random positions of a role list: root, default, the non-assignable policy,
// a name that looks reserved, empty names, duplicates and case / padding variants of the entries already there.
func c07Spice(rng *kit.Rand, list []string) []string {
	if len(list) == 0 || !rng.Chance(2, 5) {
		return list
	}
	out := append([]string{}, list...)
	for k := 1 + rng.Intn(2); k > 0; k-- {
		var sp string
		switch rng.Intn(10) {
		case 0, 1, 2:
			sp = kit.Pick(rng, []string{"root", "root", " ROOT", "Root "})
		case 3:
			sp = kit.Pick(rng, []string{"default", " Default"})
		case 4:
			sp = kit.Pick(rng, []string{"response-wrapping", "Response-Wrapping "})
		case 5:
			sp = "control-group"
		case 6:
			sp = kit.Pick(rng, []string{"", " "})
		case 7:
			sp = kit.Pick(rng, out)
		default:
			if sp = kit.Pick(rng, out); strings.TrimSpace(sp) != "" {
				sp = c07Mangle(rng, sp)
			}
		}
		at := rng.Intn(len(out) + 1)
		out = append(out[:at], append([]string{sp}, out[at:]...)...)
	}
	return out
}

// c07RolePool: names worth asking for through a role: the ordinary entries of its lists and names its globs match.
func c07RolePool(ro *c07Role) []string {
	var pool []string
	for _, x := range c07Norm(append(append([]string{}, ro.Allowed...), ro.Disallowed...)) {
		pool = append(pool, x)
	}
	for _, g := range c07Norm(append(append([]string{}, ro.AllowedGlob...), ro.DisallowedGlob...)) {
		if !strings.Contains(g, "*") {
			pool = append(pool, g)
			continue
		}
		for _, x := range c07Content {
			if c07Glob(g, x) {
				pool = append(pool, x)
			}
		}
		pool = append(pool, strings.ReplaceAll(g, "*", "x"))
	}
	return pool
}

func c07RandRole(rng *kit.Rand, name string) *c07Role {
	ro := &c07Role{Name: name, Renewable: rng.Chance(3, 4)}
	uni := append(append([]string{}, c07Content...), "default", "tc", "ghost")
	if rng.Chance(1, 2) {
		ro.Allowed = c07Sub(rng, uni, 1, 3)
		if rng.Chance(1, 12) {
			ro.Allowed = append(ro.Allowed, "root")
		}
		if rng.Chance(1, 20) {
			ro.Allowed = append(ro.Allowed, "response-wrapping")
		}
	}
	if rng.Chance(1, 3) {
		ro.AllowedGlob = []string{kit.Pick(rng, []string{"dev-*", "ops-*", "*-db", "d*", "*"})}
	}
	if rng.Chance(2, 5) {
		ro.Disallowed = c07Sub(rng, uni, 1, 4)
	}
	if rng.Chance(1, 4) {
		ro.DisallowedGlob = []string{kit.Pick(rng, []string{"dev-d*", "ops-*", "def*", "*-app", "b*"})}
	}
	if rng.Chance(1, 6) && len(ro.DisallowedGlob) > 0 {
		ro.DisallowedGlob = append(ro.DisallowedGlob, kit.Pick(rng, []string{"dev-d*", "ops-*", "*-app", "b*", "c"}))
	}
	ro.Allowed, ro.Disallowed = c07Spice(rng, ro.Allowed), c07Spice(rng, ro.Disallowed)
	ro.AllowedGlob, ro.DisallowedGlob = c07Spice(rng, ro.AllowedGlob), c07Spice(rng, ro.DisallowedGlob)
	ro.Orphan = rng.Chance(1, 3)
	if rng.Chance(1, 4) {
		ro.Period = kit.Pick(rng, []string{"20m", "30h"})
	}
	if rng.Chance(1, 4) {
		ro.ExplicitMax = kit.Pick(rng, []string{"3h", "50h"})
	}
	if rng.Chance(1, 5) {
		ro.CIDRs = [][]string{{"127.0.0.0/8"}, {"10.1.0.0/16"}, {"127.0.0.1/32", "192.168.7.0/24"}}[rng.Intn(3)]
	}
	ro.Type = kit.Pick(rng, []string{"", "", "service", "default-service", "default-batch", "batch"})
	if ro.Type == "batch" { // the role endpoint only accepts batch with these
		ro.Orphan, ro.Period, ro.ExplicitMax, ro.Renewable = true, "", "", false
	}
	ro.NoDefault = rng.Chance(1, 8)
	if rng.Chance(1, 8) {
		ro.NumUses = 1 + rng.Intn(3)
	}
	if rng.Chance(1, 5) {
		ro.Aliases = []string{"web-*", "svc"}
	}
	return ro
}

// c07RandPolicies draws the requested policy list relative to the parent and the role.
func c07RandPolicies(rng *kit.Rand, parentPols []string, ro *c07Role, ident []string) []string {
	if len(ident) > 0 && rng.Chance(1, 2) {
		// the parent derives `ident` from its entity / group: name those
		tok := c07Sub(rng, parentPols, 1, 2)
		var out []string
		switch rng.Intn(7) {
		case 0:
			out = []string{kit.Pick(rng, ident)}
		case 1:
			out = append(tok, kit.Pick(rng, ident))
		case 2:
			out = append([]string{}, ident...)
		case 3:
			out = append(append([]string{}, parentPols...), ident...)
		case 4:
			out = []string{c07Mangle(rng, kit.Pick(rng, ident))}
		case 5:
			out = append([]string{kit.Pick(rng, ident)}, tok...)
			if rng.Chance(1, 2) {
				out = append(out, "default")
			}
		default:
			return nil
		}
		return out
	}
	if ro != nil && rng.Chance(1, 4) {
		if pool := c07RolePool(ro); len(pool) > 0 {
			out := []string{kit.Pick(rng, pool)}
			if rng.Chance(1, 3) {
				out = append(out, kit.Pick(rng, pool))
			}
			if rng.Chance(1, 3) && len(parentPols) > 0 {
				out = append(out, kit.Pick(rng, parentPols))
			}
			if rng.Chance(1, 5) {
				out[0] = c07Mangle(rng, out[0])
			}
			return out
		}
	}
	sub := func() []string {
		s := c07Sub(rng, parentPols, 1, 2)
		if len(s) == 0 && len(parentPols) > 0 {
			s = []string{kit.Pick(rng, parentPols)}
		}
		return s
	}
	extra := func() string {
		return kit.Pick(rng, append(append([]string{}, c07Content...), "ghost", "sudo-create", "sudo-glob"))
	}
	var out []string
	switch k := rng.Intn(20); {
	case k < 4:
		return nil
	case k < 8:
		out = sub()
	case k < 11:
		out = append(sub(), extra())
	case k < 12:
		out = []string{extra(), extra()}
	case k < 13:
		out = []string{"root"}
	case k < 14:
		out = append(sub(), "root")
	case k < 15:
		out = []string{"default"}
	case k < 16:
		out = append(sub(), "default")
	case k < 17:
		out = []string{kit.Pick(rng, []string{"response-wrapping", "Response-Wrapping"})}
	case k < 18:
		if rng.Chance(1, 2) {
			out = []string{"", kit.Pick(rng, c07Content)}
		} else {
			out = append(append([]string{}, parentPols...), "default", extra()) // everything the parent has, and more
		}
	default:
		if ro != nil && (len(ro.Allowed) > 0 || len(ro.Disallowed) > 0) {
			pool := append(append([]string{}, ro.Allowed...), ro.Disallowed...)
			out = []string{kit.Pick(rng, pool)}
			if rng.Chance(1, 2) {
				out = append(out, kit.Pick(rng, pool))
			}
		} else {
			out = []string{"dev-app", "dev-db"}[:1+rng.Intn(2)]
		}
	}
	if rng.Chance(1, 5) {
		for i := range out {
			if out[i] != "" {
				out[i] = c07Mangle(rng, out[i])
			}
		}
	}
	if rng.Chance(1, 10) && len(out) > 0 {
		out = append(out, out[0])
	}
	return out
}

// c07RootShapes: lifetime shapes of root parents of kind rootx (the non-expiring shape is kinds root0 / rootchild).
var c07RootShapes = []c07ParentSpec{
	{Kind: "rootx", TTL: "8h"},
	{Kind: "rootx", Period: "2h"},
	{Kind: "rootx", Period: "2h", ExplicitMax: "10h"},
	{Kind: "rootx", ExplicitMax: "10h"},
	{Kind: "rootx", TTL: "4h", ExplicitMax: "10h"},
	{Kind: "rootx", TTL: "3h", Period: "2h"},
	{Kind: "rootx", NumUses: 3},
	{Kind: "rootx", Period: "30h"}, // period above the mount max
}

// c07RootShape names the lifetime shape of a root parent from what lookup reported.
func c07RootShape(p *c07Parent) string {
	var parts []string
	if p.NonExpiring {
		parts = append(parts, "non-expiring")
	}
	if p.Period > 0 {
		parts = append(parts, "period")
	}
	if p.ExplicitMax > 0 {
		parts = append(parts, "explicit-max")
	}
	if !p.NonExpiring && p.Period == 0 && p.ExplicitMax == 0 {
		parts = append(parts, "ttl")
	}
	if p.NumUses > 0 {
		parts = append(parts, "use-limited")
	}
	return strings.Join(parts, "+")
}

var c07AccessSets = [][]string{
	{"tc"}, {"tc"}, {"tc-plain"},
	{"tc", "sudo-create"}, {"tc", "sudo-orphan"}, {"tc", "sudo-roles"},
	{"sudo-glob"}, {"tc", "sudo-glob"}, {"tc", "sudo-create", "sudo-orphan", "sudo-roles"},
	{"tc-plain", "sudo-orphan"},
}

func c07RandCase(rng *kit.Rand, w *c07World, n int) (c07ParentSpec, c07Req) {
	var ps c07ParentSpec
	ps.Default = rng.Chance(2, 3)
	nsMode := rng.Intn(10) // 0-4 root/root, 5-7 ns1/ns1, 8-9 root token -> ns1
	if nsMode >= 5 && nsMode <= 7 {
		ps.NS = c07NS1
	}
	reqNS := ps.NS
	if nsMode >= 8 {
		reqNS = c07NS1
	}
	access := append([]string{}, kit.Pick(rng, c07AccessSets)...)
	if nsMode >= 8 {
		for i := range access {
			access[i] = "x-" + access[i]
		}
		if rng.Chance(1, 4) {
			access = append(access, "tc") // access in the wrong namespace only
		}
		if rng.Chance(1, 3) {
			// a policy of the caller's namespace whose namesake in the child namespace grants sudo there
			access = append(access, kit.Pick(rng, []string{"sudo-create", "sudo-orphan", "sudo-roles", "sudo-glob"}))
		}
	}
	content := c07Sub(rng, c07Content, 1, 3)
	ps.Policies = append(access, content...)
	if ps.Default && rng.Chance(1, 2) {
		ps.Policies = append(ps.Policies, "default")
	}
	switch k := rng.Intn(43); {
	case k >= 40:
		sh := kit.Pick(rng, c07RootShapes)
		ps.Kind, ps.TTL, ps.Period, ps.ExplicitMax, ps.NumUses = sh.Kind, sh.TTL, sh.Period, sh.ExplicitMax, sh.NumUses
		ps.NS = ""
	case k < 2:
		ps.Kind = "root0"
		ps.NS = ""
	case k < 4:
		ps.Kind = "rootchild"
		ps.NS = ""
	case k < 7:
		ps.Kind = "rootexp"
		ps.NS = ""
	case k < 9:
		ps.Kind = "batch"
	case k < 11:
		ps.Kind = "uses"
		ps.NumUses = 1 + rng.Intn(4)
	case k < 13:
		ps.Kind = "login"
	case k < 15:
		if ps.NS == "" {
			ps.Kind = "login-ent"
			ps.Alias = kit.Pick(rng, []string{"ent-plain", "ent-sudo", "ent-b"})
		} else {
			ps.Kind = "login"
		}
	case k < 25:
		// bound to an entity made for the case; the entity and (mostly) a group it belongs to carry policies:
		// content policies the token lacks, some the token has too, and now and then sudo on a create path
		ps.Kind = "ent"
		id := &c07IdentSpec{Via: kit.Pick(rng, []string{"login", "role-alias"})}
		sudoPol := func() string {
			sp := kit.Pick(rng, []string{"sudo-create", "sudo-create", "sudo-orphan", "sudo-roles", "sudo-glob"})
			if nsMode >= 8 {
				sp = "x-" + sp
			}
			return sp
		}
		var lacking []string
		for _, x := range c07Content {
			if !c07Has(content, x) {
				lacking = append(lacking, x)
			}
		}
		id.EntityPolicies = c07Sub(rng, lacking, 1, 3)
		if rng.Chance(1, 3) && len(content) > 0 {
			id.EntityPolicies = append(id.EntityPolicies, kit.Pick(rng, content))
		}
		if rng.Chance(1, 4) {
			id.EntityPolicies = append(id.EntityPolicies, sudoPol())
		}
		if rng.Chance(2, 3) {
			id.GroupPolicies = c07Sub(rng, lacking, 1, 3)
			if rng.Chance(1, 3) && len(content) > 0 {
				id.GroupPolicies = append(id.GroupPolicies, kit.Pick(rng, content))
			}
			if rng.Chance(1, 4) {
				id.GroupPolicies = append(id.GroupPolicies, sudoPol())
			}
			if id.GroupPolicies == nil {
				id.GroupPolicies = []string{}
			}
		}
		if len(id.EntityPolicies)+len(id.GroupPolicies) == 0 && len(lacking) > 0 {
			id.EntityPolicies = []string{kit.Pick(rng, lacking)}
		}
		ps.Ident = id
	default:
		ps.Kind = "svc"
		ps.TTL = kit.Pick(rng, []string{"", "20m", "12h"})
	}
	if ps.NS == "" && nsMode >= 5 && nsMode <= 7 {
		reqNS = kit.Pick(rng, []string{"", c07NS1}) // root tokens were moved to the root namespace
	}

	q := c07Req{NS: reqNS}
	switch k := rng.Intn(10); {
	case k < 4:
		q.Endpoint = "create"
	case k < 6:
		q.Endpoint = "create-orphan"
	default:
		q.Endpoint = "role"
		q.Role = c07RandRole(rng, fmt.Sprintf("r%d", n))
		if rng.Chance(1, 40) {
			q.Role = &c07Role{Name: "missing"}
		}
	}
	var ident []string
	if ps.Ident != nil && ps.Kind == "ent" {
		for _, x := range c07Norm(append(append([]string{}, ps.Ident.EntityPolicies...), ps.Ident.GroupPolicies...)) {
			if !c07Has(ps.Policies, x) {
				ident = append(ident, x)
			}
		}
	}
	q.Policies = c07RandPolicies(rng, ps.Policies, q.Role, ident)
	q.NoParent = rng.Chance(1, 8)
	q.NoDefault = rng.Chance(1, 4)
	if rng.Chance(1, 6) {
		q.Period = kit.Pick(rng, []string{"30m", "100h", "0"})
	}
	if rng.Chance(1, 3) {
		q.ExplicitMax = kit.Pick(rng, []string{"2h", "1000h", "0"})
	}
	if rng.Chance(1, 2) {
		q.TTL = kit.Pick(rng, []string{"10m", "5h", "2000h"})
	} else if rng.Chance(1, 6) {
		q.Lease = kit.Pick(rng, []string{"5h", "2000h"})
	}
	if rng.Chance(1, 10) {
		q.NumUses = 1 + rng.Intn(5)
	}
	if rng.Chance(1, 10) {
		q.ID = fmt.Sprintf("cid-%d-%d", n, rng.Intn(1<<30))
	}
	if rng.Chance(1, 5) {
		q.Type = kit.Pick(rng, []string{"service", "batch", "batch"})
	}
	if rng.Chance(1, 14) {
		q.EntityAlias = kit.Pick(rng, []string{"web-1", "WEB-2", "svc", "other", "ent-sudo"})
	}
	if strings.HasPrefix(ps.Kind, "root") {
		// root parents: lean towards root children and towards requests that state no lifetime
		if rng.Chance(1, 2) {
			q.Policies = [][]string{nil, {"root"}, {"ROOT "}, {"root", "a"}}[rng.Intn(4)]
		}
		if rng.Chance(1, 2) {
			q.TTL, q.Lease, q.Period, q.ExplicitMax = "", "", "", ""
			if rng.Chance(1, 4) {
				q.ExplicitMax = "0"
			}
		}
	}
	return ps, q
}

// ---------------------------------------------------------------- tests

// c07Shard returns the shard whose PRNG streams are used: this process' shard,
// or - when a single case is replayed - the shard named in the case id
// ("<prefix>:<shard>:<n>"), so that witnesses of any thorough shard replay in one process.
func c07Shard(prefix string) int {
	shard, _ := kit.Shard()
	if oc := kit.OnlyCase(); strings.HasPrefix(oc, prefix+":") {
		var s, n int
		if _, err := fmt.Sscanf(oc, prefix+":%d:%d", &s, &n); err == nil {
			return s
		}
	}
	return shard
}

const c07Rule0 = "a case = one parent token made for the case (kind root/expiring root/service/batch/use-limited/login/login with entity/bound to an entity made for the case - through a login alias or a token role with entity_alias - whose entity and group carry policies the token has, policies it lacks and now and then sudo on a create path; namespace; access policy set with or without sudo on the called path; content policies; default or not) x one request to auth/token/create | create-orphan | create/<role> (role written for the case and read back; random roles get special names - root, default, response-wrapping, control-group, empty, duplicates, case/padding variants - spliced into their four policy lists at random positions) in the same or the child namespace; every returned token is judged on the response auth block, on lookup of the stored token, on lookup under a caller-chosen id and after a renewal attempt against the doc-derived invariants (policy bound against the parent TOKEN's own policies incl. role lists/globs/sudo (token- or identity-derived)/cross-namespace; for entity-bound parents also on a lookup after every policy was taken off the entity and its group; root, non-assignable, default rule, orphan, period, id, type, role CIDRs/uses, lifetime vs explicit and mount max, entity, namespace); distinct non-trivial = distinct (capability, endpoint, role shape, cross-namespace, set of unentitled asks, flags, outcome)"

func c07Requires(r *kit.Result, scale int64) {
	r.Require("cross_namespace_caller_whose_policy_namesakes_grant_sudo", 10*scale)
	r.Require("created", 40*scale)
	r.Require("refused", 40*scale)
	r.Require("lookup_views", 40*scale)
	for _, a := range []string{"policy-outside-parent", "root", "no_parent", "period", "id", "batch-parent", "use-limited-parent", "cross-namespace-without-sudo", "non-assignable", "role-disallowed-policy", "policy-outside-role-lists"} {
		r.Require("refused_unentitled_ask:"+a, 2*scale)
	}
	for _, k := range []string{"policy_beyond_parent_via_sudo", "policy_beyond_parent_via_role_allow_lists", "explicit_subset_of_parent_granted", "orphan_via_endpoint", "orphan_via_role", "orphan_via_sudo_no_parent", "non_orphan_created", "periodic_via_role", "periodic_via_sudo", "root_child_of_root_parent", "token_reachable_under_chosen_id", "cross_namespace_created", "created_in_child_namespace", "created:none:create", "created:none:create-orphan", "created:none:role", "created:sudo:create", "created:sudo:role", "created:root:create"} {
		r.Require(k, 2*scale)
	}
	// the identity dimension of the parents: without these "held" says nothing about entity-bound callers
	for k, min := range map[string]int64{
		"parents_with_entity": 100, "parents_with_entity:via-login": 40, "parents_with_entity:via-role-alias": 40,
		"parents_with_entity_in_child_namespace": 30, "parents_with_group_policies": 40, "parents_with_identity_only_policies": 80,
		"requests_naming_identity_only_policy":                   60,
		"refused_unentitled_ask:identity-only-policy":            20,
		"identity_only_policy_request_refused_for_that_alone":    10,
		"identity_derived_sudo_callers":                          8,
		"created_by_identity_derived_sudo_caller":                4,
		"identity_only_policy_granted_via_identity_derived_sudo": 2,
		"identity_only_policy_granted_via_sudo":                  10,
		"identity_only_policy_granted_via_role_allow_lists":      1,
		"inherit_from_entity_parent_gave_token_policies_only":    10,
		"entity_parent_without_sudo_narrowed_to_token_policies":  5,
		"views_after_identity_policies_removed":                  50,
		"parent_lost_identity_policies_after_removal":            50,
		"entity_inherited_from_parent":                           30,
		"orphan_of_entity_parent_without_entity":                 15,
		// parents that do not hold default
		"parents_without_default": 100, "parents_without_default_naming_default": 20,
		"refused_unentitled_ask:explicit-default-not-held-by-parent": 10,
		"child_of_parent_without_default_carries_default_via_sudo":   10,
		"inherit_from_parent_without_default_gave_no_default":        5,
		"subset_of_parent_without_default_gave_no_default":           8,
		// root parents by lifetime shape
		"root_parents:non-expiring": 80, "root_parents:ttl": 50, "root_parents:period": 20, "root_parents:explicit-max": 10, "root_parents:period+explicit-max": 5,
		"root_parents:non-expiring+use-limited":                                    5,
		"refused_unentitled_ask:non-expiring-root-from-expiring-root":              30,
		"expiring_root_parent_refused_non_expiring_root_child:period":              5,
		"expiring_root_parent_refused_non_expiring_root_child:ttl":                 10,
		"expiring_root_parent_refused_non_expiring_root_child:explicit-max":        3,
		"expiring_root_parent_refused_non_expiring_root_child:period+explicit-max": 3,
		"non_expiring_root_child_of_parent:non-expiring":                           10,
		// role lists containing special names next to ordinary entries
		"role_read_backs": 300, "roles:deny-has-root-and-ordinary-entries": 15, "roles:denyglob-has-root-and-ordinary-entries": 12,
		"roles:allow-has-root-and-ordinary-entries": 20, "roles:deny-has-default": 20, "roles:deny-has-case-or-padding-variant": 20,
		"refused:role-disallowed-policy:role:deny-has-root-and-ordinary-entries":     6,
		"refused:role-disallowed-policy:role:denyglob-has-root-and-ordinary-entries": 6,
		"refused:role-disallowed-policy:role:deny-has-case-or-padding-variant":       8,
		"refused:policy-outside-role-lists:role:allow-has-root-and-ordinary-entries": 8,
	} {
		r.Require(k, min*scale)
	}
}

func TestVerif_C07_Random(t *testing.T) {
	seed := kit.Seed(7)
	shard := c07Shard("rand")
	r := kit.NewResult(t, "c07-random", seed, "seeded random cases; "+c07Rule0)
	defer r.Write(t)
	w := c07Boot(t)
	n := kit.N(1800, 40000)
	for i := 0; i < n; i++ {
		id := fmt.Sprintf("rand:%d:%d", shard, i)
		if !kit.WantCase(id) {
			continue
		}
		rng := kit.NewRand(seed, uint64(shard)*1_000_000+uint64(i)+17)
		ps, q := c07RandCase(rng, w, i)
		w.run(r, id, ps, q, true)
		if r.NViolations() > 20000 {
			r.Note("stopped after %d cases: too many violations", i+1)
			break
		}
	}
	c07Requires(r, 1)
	r.Require("renewals_granted", 100)
	r.Require("sudo_reference_crosschecks", 500)
}

// TestVerif_C07_Lattice walks the policy-resolution lattice as a full product
// instead of sampling it.
func TestVerif_C07_Lattice(t *testing.T) {
	seed := kit.Seed(7)
	shard := c07Shard("lat")
	r := kit.NewResult(t, "c07-lattice", seed, "full product capability{none, sudo on the called path, sudo only elsewhere, (cross-namespace) sudo only through a same-named policy of the other namespace, root} x namespaces{root, ns1, root->ns1} x endpoint{create, create-orphan, role without lists, role allowed, role allowed+glob, role disallowed, role disallowed glob, role allowed+disallowed, role allowing root, role with token_no_default_policy} x requested policies{none, subset, superset, all of the parent plus one, default, subset plus default, default in another spelling, all of the parent plus default, root, root in upper case, response-wrapping (two spellings), glob-matched, role-disallowed} x no_default_policy x parent has default; capability x namespaces x endpoint{create, create-orphan, plain role, orphan role, period role, explicit-max role, default-batch role with explicit max} (with a renewal attempt) x flag{no_parent, period, id, batch type, explicit max, huge ttl, combinations}; entity-bound parents {root, ns1} x binding{login alias, role entity_alias} x capability{none, sudo by token policy, sudo only by entity policy, sudo only by group policy} x endpoint{create, create-orphan, role without lists, role allowed, role allowed+glob, role disallowed, role with allowed_entity_aliases + entity_alias, orphan role} x requested{none, token subset, entity-only policy, group-only policy, mixtures, upper case, all identity-only, all of the parent plus identity-only} x no_default_policy, plus root->ns1 and allow-list+alias roles; role lists {disallowed, disallowed glob, allowed, allowed glob, allowed+disallowed} holding a special name {root, ' ROOT ', default, response-wrapping, control-group, empty name, duplicate, case/padding variant} in every position next to ordinary entries x capability{none, sudo} x requests naming the ordinary entries / glob-matched names / nothing (the role's lists are judged as its read endpoint shows them; written disallowed entries count too); root parents of every lifetime shape {initial root, non-expiring child of it, ttl, period, period+explicit max, explicit max only, ttl+explicit max, ttl+period, use-limited, period above the mount max} x endpoint{create, create-orphan, role without lists, role allowing root, orphan role, period role, explicit-max role} x child policies{inherit, root, a} x lifetime stated{nothing, ttl, period, explicit max, explicit max 0, ttl+explicit, no_parent, period+explicit}; batch and use-limited parents x capability x namespaces x endpoints; "+c07Rule0)
	defer r.Write(t)
	w := c07Boot(t)
	rng := kit.NewRand(seed, uint64(shard)+900)
	n := 0
	type nsm struct{ pns, qns string }
	special := "" // batch | uses: the parent is a batch / use-limited token
	access := func(capability, endpoint string, cross bool) []string {
		var a []string
		target := map[string]string{"create": "sudo-create", "create-orphan": "sudo-orphan", "role": "sudo-roles"}[endpoint]
		switch capability {
		case "none":
			a = []string{"tc"}
		case "sudo":
			a = []string{"tc", target}
			if rng.Chance(1, 4) {
				a = []string{"sudo-glob"}
			}
		case "elsewhere":
			other := map[string]string{"create": "sudo-orphan", "create-orphan": "sudo-roles", "role": "sudo-create"}[endpoint]
			a = []string{"tc", other}
			if rng.Chance(1, 3) {
				a = []string{"tc", "sudo-glob"} // shadowed by the more specific non-sudo paths of tc
			}
		case "namesake":
			// cross-namespace only: access to the child namespace's endpoint without sudo, plus a policy of the
			// caller's own namespace whose NAMESAKE in the child namespace grants sudo on the called path.
			// Policy names are per namespace, so this caller has no sudo there.
			return []string{"x-tc", kit.Pick(rng, []string{target, target, "sudo-glob"})}
		}
		if cross {
			for i := range a {
				a[i] = "x-" + a[i]
			}
		}
		return a
	}
	mkParent := func(capability, endpoint string, m nsm, hasDefault bool) c07ParentSpec {
		if capability == "root" {
			return c07ParentSpec{Kind: kit.Pick(rng, []string{"root0", "rootchild", "rootexp"}), NS: "", Default: false}
		}
		ps := c07ParentSpec{Kind: "svc", NS: m.pns, Default: hasDefault}
		if special != "" {
			ps.Kind, ps.NumUses = special, 2
		}
		ps.Policies = append(access(capability, endpoint, m.pns != m.qns), "a", "b", "dev-app")
		return ps
	}
	roles := map[string]func(name string) *c07Role{
		"role-nolists": func(n string) *c07Role { return &c07Role{Name: n, Renewable: true} },
		"role-allowed": func(n string) *c07Role {
			return &c07Role{Name: n, Renewable: true, Allowed: []string{"a", "c", "ops-x"}}
		},
		"role-allowglob": func(n string) *c07Role {
			return &c07Role{Name: n, Renewable: true, Allowed: []string{"c"}, AllowedGlob: []string{"dev-*"}}
		},
		"role-disallowed": func(n string) *c07Role { return &c07Role{Name: n, Renewable: true, Disallowed: []string{"b", "ops-x"}} },
		"role-denyglob": func(n string) *c07Role {
			return &c07Role{Name: n, Renewable: true, DisallowedGlob: []string{"ops-*", "b*"}}
		},
		"role-both": func(n string) *c07Role {
			return &c07Role{Name: n, Renewable: true, Allowed: []string{"a", "b", "c", "ops-x"}, Disallowed: []string{"b", "ops-x"}}
		},
		"role-allowroot": func(n string) *c07Role { return &c07Role{Name: n, Renewable: true, Allowed: []string{"root", "a"}} },
		"role-emax":      func(n string) *c07Role { return &c07Role{Name: n, Renewable: true, ExplicitMax: "3h"} },
		"role-nodefault": func(n string) *c07Role { return &c07Role{Name: n, Renewable: true, NoDefault: true} },
		"role-defbatch": func(n string) *c07Role {
			return &c07Role{Name: n, Renewable: true, Type: "default-batch", ExplicitMax: "3h"}
		},
		"role-orphan": func(n string) *c07Role { return &c07Role{Name: n, Renewable: true, Orphan: true} },
		"role-period": func(n string) *c07Role { return &c07Role{Name: n, Renewable: true, Period: "20m"} },
	}
	endpoints := []string{"create", "create-orphan", "role-nolists", "role-allowed", "role-allowglob", "role-disallowed", "role-denyglob", "role-both", "role-allowroot", "role-nodefault"}
	requested := map[string][]string{
		"none": nil, "subset": {"a"}, "superset": {"a", "c"}, "default": {"default"}, "root": {"root"},
		"non-assignable": {"response-wrapping"}, "glob-matched": {"dev-db"}, "role-disallowed": {"b", "ops-x"},
		"root-upper": {"a", " ROOT"}, "non-assignable-upper": {"Response-Wrapping "},
		"parent-plus":    {"@parent", "default", "c"}, // every policy of the parent, default and one more
		"subset-default": {"a", "default"}, "default-upper": {" Default ", "a"}, "parent-default": {"@parent", "default"},
	}
	reqKeys := make([]string, 0, len(requested))
	for k := range requested {
		reqKeys = append(reqKeys, k)
	}
	sort.Strings(reqKeys)
	modes := []nsm{{"", ""}, {c07NS1, c07NS1}, {"", c07NS1}}
	renew := false
	do := func(capability, ep string, m nsm, hasDefault bool, fill func(q *c07Req)) {
		n++
		id := fmt.Sprintf("lat:%d:%d", shard, n)
		if !kit.WantCase(id) {
			return
		}
		rng = kit.NewRand(seed, uint64(shard)*1_000_000+uint64(n)+900_000_000) // incidental choices: per case, so a single case replays
		q := c07Req{NS: m.qns, Endpoint: ep}
		base := ep
		if strings.HasPrefix(ep, "role-") {
			q.Endpoint = "role"
			base = "role"
			q.Role = roles[ep](fmt.Sprintf("l%d", n))
		}
		ps := mkParent(capability, base, m, hasDefault)
		fill(&q)
		if len(q.Policies) > 0 && q.Policies[0] == "@parent" {
			q.Policies = append(append([]string{}, ps.Policies...), q.Policies[1:]...)
		}
		w.run(r, id, ps, q, renew)
	}
	for _, capability := range []string{"none", "sudo", "elsewhere", "namesake", "root"} {
		for _, m := range modes {
			if capability == "root" && m.pns != "" {
				continue
			}
			if capability == "namesake" && m.pns == m.qns {
				continue
			}
			renew = false
			for _, ep := range endpoints {
				for _, rk := range reqKeys {
					if (capability == "elsewhere" || capability == "namesake") && !(rk == "none" || rk == "superset" || rk == "root" || rk == "parent-plus" || rk == "role-disallowed") {
						continue // behaves like "none"; keep the informative points only
					}
					for _, nd := range []bool{false, true} {
						for _, hd := range []bool{true, false} {
							if capability == "root" && !hd {
								continue
							}
							do(capability, ep, m, hd, func(q *c07Req) {
								q.Policies = requested[rk]
								q.NoDefault = nd
								if hd && (rk == "root" || rk == "root-upper" || ep == "role-allowroot") {
									q.TTL = "5h" // otherwise the "no non-expiring root from an expiring parent" rule answers first
								}
							})
						}
					}
				}
			}
			renew = true
			for _, ep := range []string{"create", "create-orphan", "role-nolists", "role-orphan", "role-period", "role-emax", "role-defbatch"} {
				for _, flag := range []string{"no_parent", "period", "id", "batch", "explicit", "bigttl", "period+explicit", "explicit+bigttl", "smallexplicit+bigttl"} {
					do(capability, ep, m, true, func(q *c07Req) {
						switch flag {
						case "no_parent":
							q.NoParent = true
						case "period":
							q.Period = "30m"
						case "id":
							q.ID = fmt.Sprintf("lid-%d", n)
						case "batch":
							q.Type = "batch"
						case "explicit":
							q.ExplicitMax = kit.Pick(rng, []string{"2h", "1000h"})
						case "bigttl":
							q.TTL = "2000h"
						case "period+explicit":
							q.Period, q.ExplicitMax = "100h", "2h"
						case "explicit+bigttl":
							q.ExplicitMax, q.TTL = "1000h", "2000h"
						case "smallexplicit+bigttl":
							q.ExplicitMax, q.TTL = "2h", "2000h"
						}
					})
				}
			}
		}
	}
	renew = false
	// parents bound to an entity. Token policies: access + a, b, dev-app (+default). The entity carries c (identity
	// only) and a (also on the token); its group carries ops-x (identity only) and b (also on the token). Capability:
	// none | sudo on the called path through a TOKEN policy | through an ENTITY policy only | through a GROUP policy only.
	roles["role-alias"] = func(n string) *c07Role { return &c07Role{Name: n, Renewable: true, Aliases: []string{"web-*"}} }
	roles["role-allowed-alias"] = func(n string) *c07Role {
		return &c07Role{Name: n, Renewable: true, Allowed: []string{"a", "c", "ops-x"}, Aliases: []string{"web-*"}}
	}
	identRequested := map[string][]string{
		"none": nil, "token-subset": {"a"}, "ident-entity": {"c"}, "ident-group": {"ops-x"}, "mix-entity": {"a", "c"}, "mix-group": {"dev-app", "ops-x"},
		"ident-upper": {" C "}, "all-ident": {"c", "ops-x"}, "parent-plus-ident": {"@parent", "c"},
	}
	identReqKeys := []string{"none", "token-subset", "ident-entity", "ident-group", "mix-entity", "mix-group", "ident-upper", "all-ident", "parent-plus-ident"}
	doIdent := func(capability, via, ep string, m nsm, hasDefault bool, fill func(q *c07Req)) {
		n++
		id := fmt.Sprintf("lat:%d:%d", shard, n)
		if !kit.WantCase(id) {
			return
		}
		rng = kit.NewRand(seed, uint64(shard)*1_000_000+uint64(n)+900_000_000)
		q := c07Req{NS: m.qns, Endpoint: ep}
		base := ep
		if strings.HasPrefix(ep, "role-") {
			q.Endpoint, base = "role", "role"
			q.Role = roles[ep](fmt.Sprintf("l%d", n))
		}
		cross := m.pns != m.qns
		target := map[string]string{"create": "sudo-create", "create-orphan": "sudo-orphan", "role": "sudo-roles"}[base]
		tc := "tc"
		if cross {
			target, tc = "x-"+target, "x-tc"
		}
		ps := c07ParentSpec{Kind: "ent", NS: m.pns, Default: hasDefault, Policies: []string{tc, "a", "b", "dev-app"},
			Ident: &c07IdentSpec{Via: via, EntityPolicies: []string{"c", "a"}, GroupPolicies: []string{"ops-x", "b"}}}
		switch capability {
		case "sudo":
			ps.Policies = append(ps.Policies, target)
		case "idsudo-entity":
			ps.Ident.EntityPolicies = append(ps.Ident.EntityPolicies, target)
		case "idsudo-group":
			ps.Ident.GroupPolicies = append(ps.Ident.GroupPolicies, target)
		}
		fill(&q)
		if len(q.Policies) > 0 && q.Policies[0] == "@parent" {
			q.Policies = append(append([]string{}, ps.Policies...), q.Policies[1:]...)
		}
		w.run(r, id, ps, q, false)
	}
	for _, m := range modes[:2] {
		for _, via := range []string{"login", "role-alias"} {
			for _, capability := range []string{"none", "sudo", "idsudo-entity", "idsudo-group"} {
				for _, ep := range []string{"create", "create-orphan", "role-nolists", "role-allowed", "role-allowglob", "role-disallowed", "role-alias", "role-orphan"} {
					for _, rk := range identReqKeys {
						for _, nd := range []bool{false, true} {
							if nd && !(rk == "none" || rk == "ident-entity" || rk == "mix-group") {
								continue
							}
							doIdent(capability, via, ep, m, !nd || rk != "none", func(q *c07Req) {
								q.Policies = identRequested[rk]
								q.NoDefault = nd
								if ep == "role-alias" {
									q.EntityAlias = "web-1"
								}
							})
						}
					}
				}
			}
		}
	}
	// entity-bound parent of the root namespace calling into the child namespace; role with allow lists + alias
	for _, capability := range []string{"none", "idsudo-entity", "idsudo-group"} {
		for _, ep := range []string{"create", "role-nolists"} {
			for _, rk := range []string{"none", "token-subset", "ident-entity"} {
				doIdent(capability, "login", ep, modes[2], true, func(q *c07Req) { q.Policies = identRequested[rk] })
			}
		}
	}
	for _, m := range modes[:2] {
		for _, capability := range []string{"none", "idsudo-group"} {
			for _, rk := range []string{"none", "ident-entity", "mix-group"} {
				doIdent(capability, "login", "role-allowed-alias", m, true, func(q *c07Req) { q.Policies, q.EntityAlias = identRequested[rk], "WEB-2" })
			}
		}
	}
	// role lists that contain special names next to ordinary entries, in every position: whatever else a list
	// contains, an entry of a disallowed list / a name its globs match is never handed out, and an allowed list
	// allows what the role shows and nothing more
	type spName struct{ name, val string }
	specials := []spName{{"root", "root"}, {"root-variant", " ROOT "}, {"default", "default"}, {"non-assignable", "response-wrapping"},
		{"control-group", "control-group"}, {"empty", ""}, {"duplicate", "@dup"}, {"variant", "@variant"}}
	insert := func(base []string, sp spName, pos int) []string {
		v := sp.val
		switch v {
		case "@dup":
			v = base[0]
		case "@variant":
			v = " " + strings.ToUpper(base[0]) + " "
		}
		out := append([]string{}, base[:pos]...)
		out = append(out, v)
		return append(out, base[pos:]...)
	}
	listKinds := []string{"deny", "denyglob", "allow", "allowglob", "allow+deny"}
	mkListRole := func(kind string, sp spName, pos int) func(string) *c07Role {
		return func(name string) *c07Role {
			ro := &c07Role{Name: name, Renewable: true}
			switch kind {
			case "deny":
				ro.Disallowed = insert([]string{"b", "ops-x"}, sp, pos)
			case "denyglob":
				ro.DisallowedGlob = insert([]string{"b*", "ops-*"}, sp, pos)
			case "allow":
				ro.Allowed = insert([]string{"a", "c"}, sp, pos)
			case "allowglob":
				ro.Allowed, ro.AllowedGlob = []string{"c"}, insert([]string{"dev-*", "ops-*"}, sp, pos)
			case "allow+deny":
				ro.Allowed, ro.Disallowed = []string{"a", "b", "c", "ops-x"}, insert([]string{"b", "ops-x"}, sp, pos)
			}
			return ro
		}
	}
	for _, kind := range listKinds {
		for _, sp := range specials {
			for pos := 0; pos <= 3; pos++ {
				m := modes[0]
				if pos == 3 { // last position again, in the child namespace
					m = modes[1]
				}
				var reqs [][]string
				switch kind {
				case "deny", "denyglob", "allow+deny":
					reqs = [][]string{{"b"}, {"ops-x"}, {"a"}, {"a", "b"}, nil, {" B "}}
				default:
					spv := strings.TrimSpace(sp.val)
					if spv == "" || strings.HasPrefix(spv, "@") {
						spv = "b"
					}
					reqs = [][]string{{"a"}, {"c"}, {"ops-x"}, {"dev-db"}, nil, {spv}}
				}
				for _, capability := range []string{"none", "sudo"} {
					for _, rq := range reqs {
						ep := "role-list-" + kind
						p := pos
						if p == 3 {
							p = 2
						}
						roles[ep] = mkListRole(kind, sp, p)
						do(capability, ep, m, true, func(q *c07Req) { q.Policies = rq })
					}
				}
			}
		}
	}
	// root parents of every lifetime shape x root (and non-root) children requested with every way of stating a lifetime:
	// only the non-expiring shapes may yield a root token that never expires; a use-limited root token creates nothing
	rootParents := append([]c07ParentSpec{{Kind: "root0"}, {Kind: "rootchild"}}, c07RootShapes...)
	doRoot := func(ps c07ParentSpec, ep string, fill func(q *c07Req)) {
		n++
		id := fmt.Sprintf("lat:%d:%d", shard, n)
		if !kit.WantCase(id) {
			return
		}
		rng = kit.NewRand(seed, uint64(shard)*1_000_000+uint64(n)+900_000_000)
		q := c07Req{Endpoint: ep}
		if strings.HasPrefix(ep, "role-") {
			q.Endpoint = "role"
			q.Role = roles[ep](fmt.Sprintf("l%d", n))
		}
		fill(&q)
		w.run(r, id, ps, q, true)
	}
	for _, rp := range rootParents {
		for _, ep := range []string{"create", "create-orphan", "role-nolists", "role-allowroot", "role-orphan", "role-period", "role-emax"} {
			for _, pol := range []string{"inherit", "root", "a"} {
				for _, lt := range []string{"none", "ttl", "period", "explicit", "explicit0", "ttl+explicit", "no_parent", "period+explicit"} {
					if pol == "a" && !(lt == "none" || lt == "period") {
						continue
					}
					doRoot(rp, ep, func(q *c07Req) {
						switch pol {
						case "root":
							q.Policies = []string{"root"}
						case "a":
							q.Policies = []string{"a"}
						}
						switch lt {
						case "ttl":
							q.TTL = kit.Pick(rng, []string{"5h", "2000h"})
						case "period":
							q.Period = kit.Pick(rng, []string{"30m", "100h"})
						case "explicit":
							q.ExplicitMax = kit.Pick(rng, []string{"2h", "1000h"})
						case "explicit0":
							q.ExplicitMax = "0"
						case "ttl+explicit":
							q.TTL, q.ExplicitMax = "2000h", "2h"
						case "no_parent":
							q.NoParent = true
						case "period+explicit":
							q.Period, q.ExplicitMax = "30m", "2h"
						}
					})
				}
			}
		}
	}
	// batch and use-limited parents: nothing at all may be created, whatever the capability
	for _, special = range []string{"batch", "uses"} {
		for _, capability := range []string{"none", "sudo"} {
			for _, m := range modes {
				for _, ep := range []string{"create", "create-orphan", "role-nolists", "role-allowed", "role-orphan"} {
					for _, rk := range []string{"none", "subset"} {
						do(capability, ep, m, true, func(q *c07Req) { q.Policies = requested[rk] })
					}
				}
			}
		}
	}
	special = ""
	r.Count("lattice_points", n)
	c07Requires(r, 1)
	for k, min := range map[string]int64{
		"identity_derived_sudo_callers": 300, "created_by_identity_derived_sudo_caller": 200, "identity_only_policy_granted_via_identity_derived_sudo": 100,
		"identity_only_policy_granted_via_role_allow_lists": 20, "identity_only_policy_request_refused_for_that_alone": 60,
		"entity_via_role_alias_instead_of_parent_entity": 40, "views_after_identity_policies_removed": 500,
		"explicit_default_refused_for_that_alone:create": 8, "explicit_default_refused_for_that_alone:create-orphan": 8, "explicit_default_refused_for_that_alone:role": 8,
		"expiring_root_parent_refused_non_expiring_root_child:period": 40, "expiring_root_parent_refused_non_expiring_root_child:explicit-max": 30,
		"expiring_root_parent_refused_non_expiring_root_child:period+explicit-max": 15, "expiring_root_parent_refused_non_expiring_root_child:ttl": 20,
		"expiring_root_child_of_parent:period": 100, "expiring_root_child_of_parent:explicit-max": 60, "non_expiring_root_child_of_parent:non-expiring": 40,
		"refused:role-disallowed-policy:role:deny-has-root-and-ordinary-entries": 60, "refused:role-disallowed-policy:role:denyglob-has-root-and-ordinary-entries": 30,
		"refused:role-disallowed-policy:role:deny-has-default": 30, "refused:role-disallowed-policy:role:deny-has-non-assignable": 30,
		"refused:role-disallowed-policy:role:deny-has-empty-name": 30, "refused:role-disallowed-policy:role:deny-has-duplicate": 60,
		"refused:role-disallowed-policy:role:denyglob-has-default": 15, "refused:role-disallowed-policy:role:denyglob-has-empty-name": 15,
		"refused:policy-outside-role-lists:role:allow-has-root-and-ordinary-entries": 60, "refused:policy-outside-role-lists:role:allowglob-has-root-and-ordinary-entries": 10,
		"created_through_role:deny-has-root-and-ordinary-entries": 15, "created_through_role:allowglob-has-root-and-ordinary-entries": 15,
		"role_read_backs": 3000,
	} {
		r.Require(k, min)
	}
}

// ---------------------------------------------------------------- logins

func TestVerif_C07_Login(t *testing.T) {
	seed := kit.Seed(7)
	shard := c07Shard("login")
	r := kit.NewResult(t, "c07-login", seed, "seeded random auth-backend login responses through the recording credential backend (claimed policies incl. root / response-wrapping / case and whitespace variants / duplicates, ttl, max_ttl, period, explicit_max_ttl, token type, no_default_policy, alias with identity policies) on mounts with different max TTLs and token-type tunes in two namespaces; each issued token is judged on the response and on lookup: no root, no non-assignable policy, only claimed (+default, +identity) policies, finite lifetime bounded by explicit max, mount max and backend max; non-trivial = distinct (mount, claim shape, outcome)")
	defer r.Write(t)
	w := c07Boot(t)
	v := w.v
	// hostile identity data: try to put root / response-wrapping on an entity and on a group
	hostile := map[string]any{}
	for _, pol := range []string{"response-wrapping", "root", " Root "} {
		e := w.ents["ent-hostile"]
		resp, err := v.Do(vReq{Op: logical.UpdateOperation, Path: "identity/entity/id/" + e.ID, Token: v.Root, Data: map[string]any{"policies": []string{pol, "c"}}})
		hostile["entity:"+pol] = vErrStr(resp, err)
		r.Count("identity_hostile_policy_writes", 1)
	}
	if resp, err := v.Do(vReq{Op: logical.UpdateOperation, Path: "identity/group", Token: v.Root, Data: map[string]any{"name": "c07g", "policies": []string{"root", "ops-x"}, "member_entity_ids": []string{w.ents["ent-b"].ID}}}); true {
		hostile["group:root"] = vErrStr(resp, err)
	}
	r.Note("identity writes with root/response-wrapping: %v", hostile)
	entPol := map[string][]string{}
	for alias, e := range w.ents {
		if resp, err := v.Do(vReq{Op: logical.ReadOperation, Path: "identity/entity/id/" + e.ID, Token: v.Root}); vOK(resp, err) && resp != nil {
			entPol[alias] = c07Strs(resp.Data["policies"])
		}
	}
	if resp, err := v.Do(vReq{Op: logical.ReadOperation, Path: "identity/group/name/c07g", Token: v.Root}); vOK(resp, err) && resp != nil {
		entPol["ent-b"] = append(entPol["ent-b"], c07Strs(resp.Data["policies"])...) // whatever the group write was allowed to keep
	}

	n := kit.N(1500, 30000)
	durs := []string{"", "", "10m", "90m", "5h", "30h", "2000h"}
	for i := 0; i < n; i++ {
		id := fmt.Sprintf("login:%d:%d", shard, i)
		if !kit.WantCase(id) {
			continue
		}
		rng := kit.NewRand(seed, uint64(shard)*1_000_000+uint64(i)+5_000_000_000)
		l := &c07Login{ID: id}
		l.Mount = kit.Pick(rng, []string{"vr", "vr", "vrs", "vrb", "vrdb"})
		if rng.Chance(1, 4) {
			l.NS, l.Mount = c07NS1, "vr"
		}
		l.MountMax = w.loginMax[l.NS+"|"+l.Mount]
		var pols []string
		switch k := rng.Intn(12); {
		case k < 1:
		case k < 6:
			pols = c07Sub(rng, append(append([]string{}, c07Content...), "default", "ghost"), 1, 3)
		case k < 7:
			pols = []string{"root"}
		case k < 8:
			pols = append(c07Sub(rng, c07Content, 1, 3), kit.Pick(rng, []string{"root", "ROOT", " root", "Root ", "rOOt"}))
			rng.Shuffle(len(pols), func(a, b int) { pols[a], pols[b] = pols[b], pols[a] })
		case k < 9:
			pols = append(c07Sub(rng, c07Content, 1, 3), kit.Pick(rng, []string{"response-wrapping", "Response-Wrapping", " response-wrapping "}))
		case k < 10:
			pols = []string{"A", " b ", "a", ""}
		default:
			pols = c07Sub(rng, c07Content, 1, 2)
		}
		l.Policies = pols
		claim := map[string]any{"policies": append([]string{}, pols...)}
		set := func(key string, dst *time.Duration) {
			if s := kit.Pick(rng, durs); s != "" {
				claim[key] = s
				*dst = c07Dur(s)
			}
		}
		set("ttl", &l.TTL)
		if rng.Chance(1, 2) {
			set("max_ttl", &l.MaxTTL)
		}
		if rng.Chance(1, 4) {
			set("period", &l.Period)
		}
		if rng.Chance(1, 3) {
			set("explicit_max_ttl", &l.ExplicitMax)
		}
		if rng.Chance(1, 4) {
			l.NoDefault = true
			claim["no_default_policy"] = true
		}
		if tt := kit.Pick(rng, []string{"", "", "service", "batch", "default-service", "default-batch"}); tt != "" {
			claim["token_type"] = tt
		}
		if rng.Chance(1, 8) {
			claim["num_uses"] = 1 + rng.Intn(3)
		}
		if l.NS == "" && l.Mount == "vr" && rng.Chance(1, 3) {
			alias := kit.Pick(rng, []string{"ent-plain", "ent-sudo", "ent-b", "ent-hostile"})
			claim["alias"] = alias
			l.IdentityPolicies = entPol[alias]
		}
		l.Claim = claim
		r.Eval(1)
		resp, err := v.Do(vReq{Op: logical.UpdateOperation, Path: "auth/" + l.Mount + "/login/u", NS: l.NS, Data: claim})
		ok := vOK(resp, err) && resp != nil && resp.Auth != nil && resp.Auth.ClientToken != ""
		claimed := c07Norm(pols)
		hasRoot, hasNA := c07Has(claimed, "root"), c07Has(claimed, "response-wrapping") || c07Has(c07Norm(l.IdentityPolicies), "response-wrapping")
		r.Nontrivial(fmt.Sprintf("%s|%s|root%v|na%v|n%d|per%v|emax%v|tt%v|alias%v|ok%v", l.NS, l.Mount, hasRoot, hasNA, len(claimed), l.Period > 0, l.ExplicitMax > 0, claim["token_type"], claim["alias"] != nil, ok))
		if !ok {
			r.Count("login_refused", 1)
			if hasRoot {
				r.Count("login_refused_claiming_root", 1)
			}
			if hasNA {
				r.Count("login_refused_claiming_non_assignable", 1)
			}
			if !hasRoot && !hasNA {
				r.Count("login_refused_other", 1)
				if r.Get("login_refused_other") <= 5 {
					r.Note("login %s refused without root/non-assignable claim: %s (claim %v)", id, vErrStr(resp, err), claim)
				}
			}
			continue
		}
		r.Count("login_tokens", 1)
		a := resp.Auth
		views := []*c07View{c07AuthView(a)}
		if lv, _ := w.lookup("lookup", a.ClientToken, l.NS, a.Period > 0); lv != nil {
			views = append(views, lv)
			r.Count("login_lookup_views", 1)
		} else {
			r.Violate("C07-created-token-cannot-be-looked-up", id, "login returned a token that root cannot look up", map[string]any{"login": l})
		}
		if a.TokenType == logical.TokenTypeBatch {
			r.Count("login_batch_tokens", 1)
		}
		if len(a.IdentityPolicies) > 0 {
			r.Count("login_tokens_with_identity_policies", 1)
		}
		if a.Period > 0 {
			r.Count("login_periodic_tokens", 1)
		}
		if l.ExplicitMax > 0 && l.TTL > l.ExplicitMax {
			r.Count("login_ttl_claim_above_explicit_max", 1)
		}
		if l.TTL > l.MountMax || l.Period > l.MountMax {
			r.Count("login_ttl_claim_above_mount_max", 1)
		}
		seen := map[string]bool{}
		for _, vw := range views {
			r.Count("views_judged", 1)
			for _, f := range c07JudgeLogin(l, vw) {
				if !seen[f.Class] {
					seen[f.Class] = true
					r.Violate(f.Class, id, f.What, map[string]any{"login": l, "views": views})
				}
			}
		}
		if r.Get("login_tokens") <= 3 {
			r.Sample(map[string]any{"login": l, "views": views})
		}
		if a.TokenType != logical.TokenTypeBatch {
			_, _ = v.Do(vReq{Op: logical.UpdateOperation, Path: "auth/token/revoke", Token: v.Root, NS: l.NS, Data: map[string]any{"token": a.ClientToken}})
		}
	}
	r.Require("login_tokens", 300)
	r.Require("login_lookup_views", 300)
	r.Require("login_refused_claiming_root", 50)
	r.Require("login_refused_claiming_non_assignable", 30)
	r.Require("login_batch_tokens", 30)
	r.Require("login_tokens_with_identity_policies", 10)
	r.Require("login_ttl_claim_above_mount_max", 30)
	r.Require("login_ttl_claim_above_explicit_max", 10)
}
