//go:build verif

package transit

import (
	"bytes"
	"context"
	"crypto/hmac"
	"encoding/base64"
	"fmt"
	"sort"
	"strconv"
	"testing"

	kit "github.com/openbao/openbao/sdk/v2/helper/verifkit"
)

// c17Bind holds one key with three versions behind the API.
type c17Bind struct {
	a    *c17API
	r    *kit.Result
	rng  *kit.Rand
	id   string
	spec c17Spec
	nver int
	mats map[int]*c17Material
	kctx []byte
	alt  []byte
}

func c17NewBind(ctx context.Context, r *kit.Result, rng *kit.Rand, id string, spec c17Spec, noCache bool) *c17Bind {
	a, err := c17NewAPI(ctx, r, id, noCache)
	if err != nil {
		r.Inconc("%s: backend: %v", id, err)
		return nil
	}
	b := &c17Bind{a: a, r: r, rng: rng, id: id, spec: spec, nver: 3, mats: map[int]*c17Material{}}
	if spec.isRSA() {
		b.nver = 2
	}
	d := map[string]any{"type": spec.Type, "derived": spec.Derived, "convergent_encryption": spec.Convergent}
	if spec.Type == "hmac" {
		d["key_size"] = 64
	}
	if resp := a.write("keys/b", d); resp.Refused {
		r.Inconc("%s: create: %s", id, resp.Err)
		return nil
	}
	for v := 1; v <= b.nver; v++ {
		if v > 1 {
			if resp := a.write("keys/b/rotate", map[string]any{}); resp.Refused {
				r.Inconc("%s: rotate: %s", id, resp.Err)
				return nil
			}
		}
		km, err := a.capture("b", spec, v)
		if err != nil {
			r.Inconc("%s: %v", id, err)
			return nil
		}
		b.mats[v] = km
	}
	if spec.Derived {
		b.kctx, b.alt = rng.Bytes(1+rng.Intn(40)), rng.Bytes(1+rng.Intn(40))
	}
	return b
}

func (b *c17Bind) withCtx(d map[string]any, kctx []byte) map[string]any {
	if len(kctx) > 0 {
		d["context"] = c17b64(kctx)
	}
	return d
}

func (b *c17Bind) decrypt(ct string, kctx, aad []byte) ([]byte, bool, string) {
	d := b.withCtx(map[string]any{"ciphertext": ct}, kctx)
	if len(aad) > 0 {
		d["associated_data"] = c17b64(aad)
	}
	resp := b.a.write("decrypt/b", d)
	if resp.Refused {
		return nil, false, resp.Err
	}
	pt, err := base64.StdEncoding.DecodeString(c17Str(resp.Data["plaintext"]))
	if err != nil || resp.Data["plaintext"] == nil {
		return []byte("\x00undecodable"), true, ""
	}
	return pt, true, ""
}

// c17BindSpecs adds the large RSA sizes in the thorough tier (one per shard).
func c17BindSpecs(shard int) []c17Spec {
	out := append([]c17Spec(nil), c17APISpecs...)
	if kit.Tier() == "thorough" {
		switch shard % 4 {
		case 0:
			out = append(out, c17Spec{Type: "rsa-3072"})
		case 1:
			out = append(out, c17Spec{Type: "rsa-4096"})
		}
	}
	return out
}

// The test function names are the same as in the keysutil harness on purpose:
// /verif/check replays a case by test-function name in every package of the
// plan, and the case-id prefixes (rt/hist/sv vs bind/api/sig) select the one
// package that owns the case.
func TestVerif_C17_RoundTrip(t *testing.T) {
	seed := kit.Seed(17)
	shard := c17Shard()
	r := kit.NewResult(t, "c17-api-roundtrip", seed, "case = (key type, mode, key_version incl. default, plaintext size, associated data) through encrypt/<key> and decrypt/<key> of the transit backend: round trip, version label and reported key_version, independent re-open on the stored key material (exact equality for convergent keys), refusal of wrong/missing context and associated data and of ~70 mutants of the ciphertext string unless they decode to the same (version, bytes); non-trivial when the tuple is distinct")
	defer r.Write(t)
	ctx := context.Background()
	for si, spec := range c17BindSpecs(shard) {
		id := fmt.Sprintf("bind:%d:%s", shard, spec.name())
		if !kit.WantCase(id) || !spec.encrypts() {
			continue
		}
		rng := kit.NewRand(seed, 1747000+uint64(si)+1000*uint64(shard))
		if b := c17NewBind(ctx, r, rng, id, spec, (si+shard)%2 == 1); b != nil {
			b.encryptCases()
		}
	}
	r.Require("api_roundtrip_ok", 200)
	r.Require("api_ref_reopen_ok", 100)
	r.Require("api_convergent_exact_match", 30)
	r.Require("api_mutant_refused", 10000)
	r.Require("api_mutant_alias_returned_original", 50)
	r.Require("api_wrong_context_refused", 50)
	r.Require("api_wrong_aad_refused", 100)
}

func TestVerif_C17_SignVerify(t *testing.T) {
	seed := kit.Seed(17)
	shard := c17Shard()
	r := kit.NewResult(t, "c17-api-signverify", seed, "case = (signing key type, key_version, hash_algorithm, prehashed, signature_algorithm, salt_length, marshaling_algorithm) through sign/ and verify/ of the transit backend: standard-library verification on the stored public key of the labelled version, valid with equal parameters, not valid for each changed parameter / input / label / derivation context / mutant of the signature string; and (key type, key_version, algorithm) through hmac/ and verify/: equality with HMAC computed on the stored HMAC key of the labelled version, not valid for changed input / algorithm / label / mutants; non-trivial when the tuple is distinct")
	defer r.Write(t)
	ctx := context.Background()
	for si, spec := range c17BindSpecs(shard) {
		id := fmt.Sprintf("sig:%d:%s", shard, spec.name())
		if !kit.WantCase(id) {
			continue
		}
		rng := kit.NewRand(seed, 1757000+uint64(si)+1000*uint64(shard))
		if b := c17NewBind(ctx, r, rng, id, spec, (si+shard)%2 == 0); b != nil {
			if spec.signs() {
				b.signCases()
			}
			b.hmacCases()
		}
	}
	r.Require("api_sign_verify_ok", 150)
	r.Require("api_sig_changed_not_valid", 600)
	r.Require("api_sig_mutant_not_valid", 3000)
	r.Require("api_hmac_ok", 100)
	r.Require("api_hmac_changed_not_valid", 300)
}

func (b *c17Bind) encryptCases() {
	r, s, rng := b.r, b.spec, b.rng
	sizes := []int{0, 1, 16, 17, 1000}
	if s.isRSA() {
		sizes = []int{0, 1, 16, 17, s.rsaBits()/8 - 66}
	}
	if kit.Tier() == "thorough" && !s.isRSA() {
		sizes = append(sizes, 15, 31, 32, 33, 4096, 40000)
	}
	aads := [][]byte{nil}
	if s.isSym() {
		aads = append(aads, rng.Bytes(1+rng.Intn(50)))
	}
	donors := map[int]string{}
	for v := 1; v <= b.nver; v++ {
		resp := b.a.write("encrypt/b", b.withCtx(map[string]any{"plaintext": c17b64([]byte("donor")), "key_version": v}, b.kctx))
		if !resp.Refused {
			donors[v] = c17Str(resp.Data["ciphertext"])
		}
	}
	sampled := false
	for _, reqVer := range []int{0, 1, 2, 3} {
		if reqVer > b.nver {
			continue
		}
		ver := reqVer
		if ver == 0 {
			ver = b.nver
		}
		for _, size := range sizes {
			for _, aad := range aads {
				pt := rng.Bytes(size)
				caseKey := fmt.Sprintf("%s|v%d|%d|a%d", s.name(), reqVer, size, len(aad))
				r.Eval(1)
				r.Nontrivial(fmt.Sprintf("%s|%x|%x|%x", caseKey, pt[:min(len(pt), 16)], b.kctx, aad))
				d := b.withCtx(map[string]any{"plaintext": c17b64(pt)}, b.kctx)
				if reqVer != 0 {
					d["key_version"] = reqVer
				}
				if len(aad) > 0 {
					d["associated_data"] = c17b64(aad)
				}
				resp := b.a.write("encrypt/b", d)
				if resp.Refused {
					r.Violate("C17-encrypt-refused", b.id, fmt.Sprintf("%s: encrypt refused: %s", caseKey, resp.Err), nil)
					continue
				}
				ct := c17Str(resp.Data["ciphertext"])
				lv, body, ok := c17Parse(ct, base64.StdEncoding)
				if !ok || lv != ver || c17Int(resp.Data["key_version"]) != ver {
					r.Violate("C17-version-label", b.id, fmt.Sprintf("%s: label %.14q / key_version %v, expected v%d", caseKey, ct, resp.Data["key_version"], ver), nil)
					continue
				}
				got, okd, derr := b.decrypt(ct, b.kctx, aad)
				if !okd {
					r.Violate("C17-decrypt-refused", b.id, fmt.Sprintf("%s: decrypt of a fresh ciphertext refused: %s", caseKey, derr), nil)
					continue
				}
				if !bytes.Equal(got, pt) {
					r.Violate("C17-wrong-plaintext", b.id, caseKey+": decrypt returned another plaintext", nil)
					continue
				}
				r.Count("api_roundtrip_ok", 1)
				if s.isSym() {
					if ref, err := c17RefOpen(s, b.mats[ver].Sym, b.kctx, aad, body); err != nil || !bytes.Equal(ref, pt) {
						r.Violate("C17-ref-reopen", b.id, fmt.Sprintf("%s: ciphertext does not open to the plaintext under the reference construction with version %d's stored key (%v)", caseKey, ver, err), nil)
					} else {
						r.Count("api_ref_reopen_ok", 1)
					}
					for ov, om := range b.mats {
						if ov != ver {
							if _, err := c17RefOpen(s, om.Sym, b.kctx, aad, body); err == nil {
								r.Violate("C17-version-key-binding", b.id, fmt.Sprintf("%s: ciphertext labelled v%d opens with the key of version %d", caseKey, ver, ov), nil)
							}
						}
					}
				}
				if s.Convergent {
					if ref, ok := c17RefConvergent(s, b.mats[ver].Sym, b.kctx, aad, pt); ok && !bytes.Equal(ref, body) {
						r.Violate("C17-convergent-reference", b.id, caseKey+": convergent ciphertext differs from the reference construction", nil)
					} else if ok {
						r.Count("api_convergent_exact_match", 1)
					}
					if again := b.a.write("encrypt/b", d); again.Refused || c17Str(again.Data["ciphertext"]) != ct {
						r.Violate("C17-convergent-nondeterministic", b.id, caseKey+": same request encrypted twice gave different ciphertexts", nil)
					}
					d2 := map[string]any{}
					for k, v := range d {
						d2[k] = v
					}
					d2["plaintext"] = c17b64(append(c17clone(pt), 1))
					if o := b.a.write("encrypt/b", d2); !o.Refused && c17Str(o.Data["ciphertext"]) == ct {
						r.Violate("C17-convergent-collision", b.id, caseKey+": different plaintexts gave the same ciphertext", nil)
					}
				}
				if s.Derived {
					for _, wc := range [][]byte{b.alt, append(c17clone(b.kctx), 0), nil} {
						g, okw, _ := b.decrypt(ct, wc, aad)
						switch {
						case okw && bytes.Equal(g, pt):
							r.Violate("C17-context-binding", b.id, fmt.Sprintf("%s: decrypt with context %x instead of %x returned the plaintext", caseKey, wc, b.kctx), nil)
						case okw:
							r.Violate("C17-wrong-plaintext", b.id, caseKey+": decrypt with another context returned a different plaintext", nil)
						default:
							r.Count("api_wrong_context_refused", 1)
						}
					}
				}
				if s.isSym() {
					var wrong [][]byte
					if len(aad) == 0 {
						wrong = [][]byte{{0}, rng.Bytes(8)}
					} else {
						fl := c17clone(aad)
						fl[rng.Intn(len(fl))] ^= 1 << uint(rng.Intn(8))
						wrong = [][]byte{nil, fl, append(c17clone(aad), 0)}
					}
					for _, wa := range wrong {
						g, okw, _ := b.decrypt(ct, b.kctx, wa)
						switch {
						case okw && bytes.Equal(g, pt):
							r.Violate("C17-aad-binding", b.id, fmt.Sprintf("%s: decrypt with associated data %x instead of %x returned the plaintext", caseKey, wa, aad), nil)
						case okw:
							r.Violate("C17-wrong-plaintext", b.id, caseKey+": decrypt with other associated data returned a different plaintext", nil)
						default:
							r.Count("api_wrong_aad_refused", 1)
						}
					}
				}
				var others []string
				for v, dn := range donors {
					if v != ver {
						others = append(others, dn)
					}
				}
				sort.Strings(others)
				for _, m := range c17Mutants(rng, ct, others, base64.StdEncoding) {
					g, okm, _ := b.decrypt(m.S, b.kctx, aad)
					same := c17SameInput(ct, m.S, base64.StdEncoding, true)
					switch {
					case !okm && same:
						r.Count("api_mutant_alias_refused", 1)
					case !okm:
						r.Count("api_mutant_refused", 1)
					case same && bytes.Equal(g, pt):
						r.Count("api_mutant_alias_returned_original", 1)
					case bytes.Equal(g, pt):
						r.Violate("C17-ciphertext-binding", b.id, fmt.Sprintf("%s: mutant %s (different version or bytes) still decrypted to the plaintext", caseKey, m.Name), map[string]any{"original": c17trunc(ct), "mutant": c17trunc(m.S)})
					default:
						r.Violate("C17-wrong-plaintext", b.id, fmt.Sprintf("%s: mutant %s decrypted to a different plaintext", caseKey, m.Name), map[string]any{"original": c17trunc(ct), "mutant": c17trunc(m.S)})
					}
				}
				if !sampled && size == 17 {
					sampled = true
					r.Sample(map[string]any{"case": caseKey, "ciphertext": c17trunc(ct), "decrypt": "== plaintext", "reference_reopen": s.isSym()})
				}
			}
		}
	}
}

func (b *c17Bind) verify(input []byte, sig string, kctx []byte, o c17SigParams) bool {
	d := b.withCtx(map[string]any{"input": c17b64(input), "signature": sig}, kctx)
	for k, v := range o.data() {
		d[k] = v
	}
	resp := b.a.write("verify/b", d)
	return !resp.Refused && resp.Data["valid"] == true
}

func (b *c17Bind) signCases() {
	r, s, rng := b.r, b.spec, b.rng
	var params []c17SigParams
	switch {
	case s.isRSA():
		for _, h := range []string{"sha1", "sha2-224", "sha2-256", "sha2-384", "sha2-512", "sha3-224", "sha3-256", "sha3-384", "sha3-512"} {
			for _, pre := range []bool{false, true} {
				for _, salt := range []string{"auto", "hash", strconv.Itoa(1 + rng.Intn(40))} {
					params = append(params, c17SigParams{Hash: h, Alg: "pss", Salt: salt, Marsh: "asn1", Prehashed: pre})
				}
				params = append(params, c17SigParams{Hash: h, Alg: "pkcs1v15", Marsh: "asn1", Prehashed: pre})
			}
			params = append(params, c17SigParams{Hash: h, Alg: "", Salt: "auto", Marsh: "jws"})
		}
		params = append(params, c17SigParams{Hash: "none", Alg: "pkcs1v15", Marsh: "asn1", Prehashed: true})
	case s.isEC():
		for _, h := range []string{"sha1", "sha2-224", "sha2-256", "sha2-384", "sha2-512", "sha3-256", "sha3-512"} {
			for _, pre := range []bool{false, true} {
				for _, m := range []string{"asn1", "jws"} {
					params = append(params, c17SigParams{Hash: h, Marsh: m, Prehashed: pre})
				}
			}
		}
	default:
		for _, m := range []string{"asn1", "jws"} {
			params = append(params, c17SigParams{Hash: "sha2-256", Marsh: m}, c17SigParams{Hash: "sha2-512", Marsh: m, Prehashed: true})
		}
	}
	sameSize := map[string]string{"sha2-224": "sha3-224", "sha3-224": "sha2-224", "sha2-256": "sha3-256", "sha3-256": "sha2-256", "sha2-384": "sha3-384", "sha3-384": "sha2-384", "sha2-512": "sha3-512", "sha3-512": "sha2-512", "sha1": "sha2-256"}
	donors := map[int]string{}
	sampled := false
	for _, reqVer := range []int{0, 1, 2, 3} {
		if reqVer > b.nver {
			continue
		}
		ver := reqVer
		if ver == 0 {
			ver = b.nver
		}
		for pi, o := range params {
			input := rng.Bytes(1 + rng.Intn(100))
			if o.Prehashed && s.Type != "ed25519" {
				if o.Hash == "none" {
					input = rng.Bytes(32)
				} else {
					hf := c17Hash(o.Hash)()
					hf.Write(input)
					input = hf.Sum(nil)
				}
			}
			caseKey := fmt.Sprintf("%s|v%d|%+v", s.name(), reqVer, o)
			r.Eval(1)
			r.Nontrivial(caseKey)
			d := b.withCtx(map[string]any{"input": c17b64(input)}, b.kctx)
			if reqVer != 0 {
				d["key_version"] = reqVer
			}
			for k, v := range o.data() {
				d[k] = v
			}
			resp := b.a.write("sign/b", d)
			if resp.Refused {
				r.Violate("C17-sign-refused", b.id, fmt.Sprintf("%s: sign refused: %s", caseKey, resp.Err), nil)
				continue
			}
			sig := c17Str(resp.Data["signature"])
			lv, raw, ok := c17Parse(sig, o.enc())
			if !ok || lv != ver || c17Int(resp.Data["key_version"]) != ver {
				r.Violate("C17-version-label", b.id, fmt.Sprintf("%s: label %.14q / key_version %v, expected v%d", caseKey, sig, resp.Data["key_version"], ver), nil)
				continue
			}
			if _, have := donors[ver]; !have {
				donors[ver] = sig
			}
			if why := c17RefVerify(s, b.mats[ver], b.kctx, input, raw, o); why != "" {
				r.Violate("C17-sig-reference", b.id, fmt.Sprintf("%s: signature does not verify with the standard library on version %d's stored public key: %s", caseKey, ver, why), nil)
				continue
			}
			for ov, om := range b.mats {
				if ov != ver && c17RefVerify(s, om, b.kctx, input, raw, o) == "" {
					r.Violate("C17-version-key-binding", b.id, fmt.Sprintf("%s: signature labelled v%d verifies under version %d's public key", caseKey, ver, ov), nil)
				}
			}
			if !b.verify(input, sig, b.kctx, o) {
				r.Violate("C17-verify-refused", b.id, caseKey+": verify with the signing parameters said not valid", nil)
				continue
			}
			r.Count("api_sign_verify_ok", 1)
			mustNot := func(what string, in []byte, sg string, kctx []byte, vo c17SigParams) {
				if b.verify(in, sg, kctx, vo) {
					r.Violate("C17-signature-binding", b.id, fmt.Sprintf("%s: verify said valid although %s", caseKey, what), map[string]any{"signature": c17trunc(sg)})
				} else {
					r.Count("api_sig_changed_not_valid", 1)
				}
			}
			in2 := c17clone(input)
			span := len(in2)
			if s.isEC() && o.Prehashed && span > 20 {
				span = 20 // ECDSA only uses the leftmost order-size bits of a pre-hashed input
			}
			in2[rng.Intn(span)] ^= 1 << uint(rng.Intn(8))
			mustNot("one input bit was flipped", in2, sig, b.kctx, o)
			if !(s.isEC() && o.Prehashed) {
				mustNot("the input got one more byte", append(c17clone(input), 0), sig, b.kctx, o)
			}
			for ov := 0; ov <= b.nver+1; ov++ {
				if ov != ver {
					mustNot(fmt.Sprintf("the label was changed to v%d", ov), input, fmt.Sprintf("vault:v%d:%s", ov, o.enc().EncodeToString(raw)), b.kctx, o)
				}
			}
			if s.Derived {
				mustNot("another derivation context was given", input, sig, b.alt, o)
			}
			if s.Type != "ed25519" && !o.Prehashed {
				vo := o
				vo.Prehashed = true
				mustNot("prehashed=true was given for an input signed with prehashed=false", input, sig, b.kctx, vo)
			}
			{
				vo := o
				vo.Marsh = map[string]string{"asn1": "jws", "jws": "asn1"}[o.Marsh]
				_, vraw, vok := c17Parse(sig, vo.enc())
				if s.isEC() || !vok || !bytes.Equal(vraw, raw) {
					mustNot("the other marshaling_algorithm was given", input, sig, b.kctx, vo)
				}
			}
			if s.Type != "ed25519" && o.Hash != "none" && !o.Prehashed {
				if oh, ok := sameSize[o.Hash]; ok {
					vo := o
					vo.Hash = oh
					if vo.Alg != "pkcs1v15" {
						vo.Salt = "auto"
					}
					mustNot("hash_algorithm "+oh+" was given instead of "+o.Hash, input, sig, b.kctx, vo)
				}
			}
			if s.isRSA() && o.Hash != "none" {
				alg := o.Alg
				if alg == "" {
					alg = "pss"
				}
				vo := o
				vo.Alg = map[string]string{"pss": "pkcs1v15", "pkcs1v15": "pss"}[alg]
				vo.Salt = "auto"
				mustNot("the other signature_algorithm was given", input, sig, b.kctx, vo)
				if alg == "pss" {
					hs := c17Hash(o.Hash)().Size()
					max := (s.rsaBits()-1+7)/8 - 2 - hs
					eff := max
					switch o.Salt {
					case "hash":
						eff = hs
					case "auto", "":
					default:
						eff, _ = strconv.Atoi(o.Salt)
					}
					for _, vs := range []string{"auto", "hash", strconv.Itoa(eff), strconv.Itoa(eff + 1), strconv.Itoa(eff - 1)} {
						veff := -2
						switch vs {
						case "auto":
						case "hash":
							veff = hs
						default:
							veff, _ = strconv.Atoi(vs)
							if veff > max || veff < 1 {
								continue
							}
						}
						vo := o
						vo.Salt = vs
						if veff == -2 || veff == eff {
							if !b.verify(input, sig, b.kctx, vo) {
								r.Violate("C17-verify-refused", b.id, fmt.Sprintf("%s: verify with salt_length %s (signing salt %d) said not valid", caseKey, vs, eff), nil)
							} else {
								r.Count("api_salt_compatible_valid", 1)
							}
						} else {
							mustNot(fmt.Sprintf("salt_length %s differs from the signing salt length %d", vs, eff), input, sig, b.kctx, vo)
						}
					}
				}
			}
			if pi%4 == 0 || !s.isRSA() {
				var others []string
				for v, dn := range donors {
					if v != ver {
						others = append(others, dn)
					}
				}
				sort.Strings(others)
				for _, m := range c17Mutants(rng, sig, others, o.enc()) {
					okv := b.verify(input, m.S, b.kctx, o)
					same := c17SameInput(sig, m.S, o.enc(), false)
					switch {
					case !okv:
						r.Count("api_sig_mutant_not_valid", 1)
					case same:
						r.Count("api_sig_mutant_alias_valid", 1)
					default:
						r.Violate("C17-signature-binding", b.id, fmt.Sprintf("%s: mutant %s of the signature string still verifies", caseKey, m.Name), map[string]any{"signature": c17trunc(sig), "mutant": c17trunc(m.S)})
					}
				}
			}
			if !sampled {
				sampled = true
				r.Sample(map[string]any{"case": caseKey, "signature": c17trunc(sig), "stdlib_verify": "ok", "api_verify": "valid; changed input/label/params/mutants not valid"})
			}
		}
	}
}

func (b *c17Bind) hmacCases() {
	r, s, rng := b.r, b.spec, b.rng
	algs := []string{"sha2-224", "sha2-256", "sha2-384", "sha2-512", "sha3-224", "sha3-256", "sha3-384", "sha3-512"}
	verifyH := func(input []byte, mac, alg string) bool {
		resp := b.a.write("verify/b", map[string]any{"input": c17b64(input), "hmac": mac, "hash_algorithm": alg})
		return !resp.Refused && resp.Data["valid"] == true
	}
	for _, reqVer := range []int{0, 1, 2, 3} {
		if reqVer > b.nver {
			continue
		}
		ver := reqVer
		if ver == 0 {
			ver = b.nver
		}
		for ai, alg := range algs {
			input := rng.Bytes(rng.Intn(120))
			caseKey := fmt.Sprintf("%s|hmac|v%d|%s", s.name(), reqVer, alg)
			r.Eval(1)
			r.Nontrivial(caseKey)
			d := map[string]any{"input": c17b64(input), "algorithm": alg}
			if reqVer != 0 {
				d["key_version"] = reqVer
			}
			resp := b.a.write("hmac/b", d)
			if resp.Refused {
				r.Violate("C17-hmac-refused", b.id, fmt.Sprintf("%s: hmac refused: %s", caseKey, resp.Err), nil)
				continue
			}
			mac := c17Str(resp.Data["hmac"])
			lv, raw, ok := c17Parse(mac, base64.StdEncoding)
			if !ok || lv != ver {
				r.Violate("C17-version-label", b.id, fmt.Sprintf("%s: label %.14q, expected v%d", caseKey, mac, ver), nil)
				continue
			}
			ref := hmac.New(c17Hash(alg), b.mats[ver].HMAC)
			ref.Write(input)
			if !bytes.Equal(ref.Sum(nil), raw) {
				r.Violate("C17-hmac-reference", b.id, fmt.Sprintf("%s: not HMAC-%s of the input under version %d's stored HMAC key", caseKey, alg, ver), nil)
				continue
			}
			if !verifyH(input, mac, alg) {
				r.Violate("C17-verify-refused", b.id, caseKey+": verify of a fresh HMAC said not valid", nil)
				continue
			}
			r.Count("api_hmac_ok", 1)
			mustNot := func(what string, in []byte, m, a string) {
				if verifyH(in, m, a) {
					r.Violate("C17-signature-binding", b.id, fmt.Sprintf("%s: HMAC verify said valid although %s", caseKey, what), nil)
				} else {
					r.Count("api_hmac_changed_not_valid", 1)
				}
			}
			mustNot("the input got one more byte", append(c17clone(input), 0), mac, alg)
			if len(input) > 0 {
				in2 := c17clone(input)
				in2[rng.Intn(len(in2))] ^= 1 << uint(rng.Intn(8))
				mustNot("one input bit was flipped", in2, mac, alg)
			}
			mustNot("another algorithm was given", input, mac, algs[(ai+4)%len(algs)])
			for ov := 0; ov <= b.nver+1; ov++ {
				if ov != ver {
					mustNot(fmt.Sprintf("the label was changed to v%d", ov), input, fmt.Sprintf("vault:v%d:%s", ov, c17b64(raw)), alg)
				}
			}
			if ai%3 == 0 {
				for _, m := range c17Mutants(rng, mac, nil, base64.StdEncoding) {
					okv := verifyH(input, m.S, alg)
					same := c17SameInput(mac, m.S, base64.StdEncoding, false)
					switch {
					case !okv:
						r.Count("api_hmac_mutant_not_valid", 1)
					case same:
						r.Count("api_hmac_mutant_alias_valid", 1)
					default:
						r.Violate("C17-signature-binding", b.id, fmt.Sprintf("%s: mutant %s of the HMAC string still verifies", caseKey, m.Name), map[string]any{"hmac": mac, "mutant": m.S})
					}
				}
			}
		}
	}
}
