//go:build verif

package transit

// C17 (API level): the transit backend is driven through HandleRequest on a
// logical.InmemStorage. A reference model of every key ring (latest, minimum
// versions, trim point, soft-delete / deletion flags, which generated key sits
// at which version) predicts for every remembered ciphertext, signature and
// HMAC whether the backend must still accept it; key material is read from
// storage when a version is created so that results can be re-checked with
// the Go crypto primitives directly.

import (
	"bytes"
	"context"
	"crypto/aes"
	"crypto/cipher"
	"crypto/ecdsa"
	"crypto/ed25519"
	"crypto/elliptic"
	"crypto/hmac"
	"crypto/rsa"
	"crypto/sha256"
	"encoding/base64"
	"encoding/json"
	"fmt"
	"hash"
	"io"
	"math/big"
	"sort"
	"strconv"
	"strings"

	"golang.org/x/crypto/chacha20poly1305"
	"golang.org/x/crypto/hkdf"

	"github.com/openbao/openbao/sdk/v2/helper/keysutil"
	kit "github.com/openbao/openbao/sdk/v2/helper/verifkit"
	"github.com/openbao/openbao/sdk/v2/logical"
)

// ---------------------------------------------------------------- helpers

func c17Shard() int {
	if oc := kit.OnlyCase(); oc != "" {
		if f := strings.SplitN(oc, ":", 3); len(f) == 3 {
			if v, err := strconv.Atoi(f[1]); err == nil {
				return v
			}
		}
	}
	s, _ := kit.Shard()
	return s
}

func c17b64(b []byte) string { return base64.StdEncoding.EncodeToString(b) }

func c17clone(b []byte) []byte { return append([]byte(nil), b...) }

func c17trunc(s string) string {
	if len(s) > 120 {
		return s[:100] + fmt.Sprintf("...(%d chars)", len(s))
	}
	return s
}

// c17Spec is one key configuration as created through keys/<name>.
type c17Spec struct {
	Type       string
	Derived    bool
	Convergent bool
}

func (s c17Spec) name() string {
	switch {
	case s.Convergent:
		return s.Type + "/convergent"
	case s.Derived:
		return s.Type + "/derived"
	}
	return s.Type + "/plain"
}
func (s c17Spec) isSym() bool {
	switch s.Type {
	case "aes128-gcm96", "aes256-gcm96", "chacha20-poly1305", "xchacha20-poly1305":
		return true
	}
	return false
}
func (s c17Spec) isRSA() bool    { return strings.HasPrefix(s.Type, "rsa-") }
func (s c17Spec) isEC() bool     { return strings.HasPrefix(s.Type, "ecdsa-") }
func (s c17Spec) encrypts() bool { return s.isSym() || s.isRSA() }
func (s c17Spec) signs() bool    { return s.isRSA() || s.isEC() || s.Type == "ed25519" }
func (s c17Spec) rsaBits() int {
	n, _ := strconv.Atoi(strings.TrimPrefix(s.Type, "rsa-"))
	return n
}

// c17Material: what is remembered about one generated key version.
type c17Material struct {
	ID     int
	Sym    []byte
	HMAC   []byte
	RSAPub *rsa.PublicKey
	ECPub  *ecdsa.PublicKey
	EdPub  ed25519.PublicKey
	Needle string
}

var c17NextID int

// ------------------------------------------------ reference constructions

func c17NonceSize(typ string) int {
	if typ == "xchacha20-poly1305" {
		return chacha20poly1305.NonceSizeX
	}
	return 12
}

func c17EncKeyLen(typ string) int {
	if typ == "aes128-gcm96" {
		return 16
	}
	return 32
}

func c17RefAEAD(typ string, key []byte) (cipher.AEAD, error) {
	switch typ {
	case "aes128-gcm96", "aes256-gcm96":
		blk, err := aes.NewCipher(key)
		if err != nil {
			return nil, err
		}
		return cipher.NewGCM(blk)
	case "chacha20-poly1305":
		return chacha20poly1305.New(key)
	case "xchacha20-poly1305":
		return chacha20poly1305.NewX(key)
	}
	return nil, fmt.Errorf("no reference AEAD for %v", typ)
}

func c17RefKeys(s c17Spec, verKey, kctx []byte) (enc, nonceKey []byte) {
	n := c17EncKeyLen(s.Type)
	if !s.Derived {
		return verKey, nil
	}
	buf := make([]byte, n+32)
	if _, err := io.ReadFull(hkdf.New(sha256.New, verKey, nil, kctx), buf); err != nil {
		return nil, nil
	}
	return buf[:n], buf[n:]
}

func c17RefOpen(s c17Spec, verKey, kctx, aad, body []byte) ([]byte, error) {
	enc, _ := c17RefKeys(s, verKey, kctx)
	a, err := c17RefAEAD(s.Type, enc)
	if err != nil {
		return nil, err
	}
	ns := c17NonceSize(s.Type)
	if len(body) < ns {
		return nil, fmt.Errorf("short body")
	}
	return a.Open(nil, body[:ns], body[ns:], aad)
}

func c17RefConvergent(s c17Spec, verKey, kctx, aad, pt []byte) ([]byte, bool) {
	enc, nk := c17RefKeys(s, verKey, kctx)
	if nk == nil {
		return nil, false
	}
	a, err := c17RefAEAD(s.Type, enc)
	if err != nil {
		return nil, false
	}
	h := hmac.New(sha256.New, nk)
	h.Write(pt)
	nonce := h.Sum(nil)[:c17NonceSize(s.Type)]
	return append(c17clone(nonce), a.Seal(nil, nonce, pt, aad)...), true
}

// c17SigParams are the API parameters of sign/verify.
type c17SigParams struct {
	Hash      string
	Alg       string // "", pss, pkcs1v15
	Salt      string // auto, hash, <n>
	Marsh     string // asn1, jws
	Prehashed bool
}

func (o c17SigParams) data() map[string]any {
	d := map[string]any{"hash_algorithm": o.Hash, "marshaling_algorithm": o.Marsh, "prehashed": o.Prehashed}
	if o.Alg != "" {
		d["signature_algorithm"] = o.Alg
	}
	if o.Salt != "" {
		d["salt_length"] = o.Salt
	}
	return d
}

func (o c17SigParams) enc() *base64.Encoding {
	if o.Marsh == "jws" {
		return base64.RawURLEncoding
	}
	return base64.StdEncoding
}

func c17Hash(name string) func() hash.Hash {
	return keysutil.HashFuncMap[keysutil.HashTypeMap[name]]
}

// c17Digest is what gets signed for hashing key types: hash(input) unless prehashed.
func c17Digest(s c17Spec, o c17SigParams, input []byte) []byte {
	if s.Type == "ed25519" || o.Prehashed {
		return input
	}
	hf := c17Hash(o.Hash)
	if hf == nil {
		return input
	}
	h := hf()
	h.Write(input)
	return h.Sum(nil)
}

// c17RefVerify verifies raw signature bytes with the standard library. "" = valid.
func c17RefVerify(s c17Spec, km *c17Material, kctx, input, raw []byte, o c17SigParams) string {
	msg := c17Digest(s, o, input)
	switch {
	case km.RSAPub != nil:
		h := keysutil.CryptoHashMap[keysutil.HashTypeMap[o.Hash]]
		if o.Alg == "pkcs1v15" {
			if err := rsa.VerifyPKCS1v15(km.RSAPub, h, msg, raw); err != nil {
				return err.Error()
			}
			return ""
		}
		if err := rsa.VerifyPSS(km.RSAPub, h, msg, raw, &rsa.PSSOptions{SaltLength: rsa.PSSSaltLengthAuto}); err != nil {
			return err.Error()
		}
		return ""
	case km.ECPub != nil:
		if o.Marsh == "jws" {
			n := (km.ECPub.Curve.Params().BitSize + 7) / 8
			if len(raw) != 2*n {
				return fmt.Sprintf("jws signature is %d bytes, want %d", len(raw), 2*n)
			}
			if !ecdsa.Verify(km.ECPub, msg, new(big.Int).SetBytes(raw[:n]), new(big.Int).SetBytes(raw[n:])) {
				return "ecdsa.Verify false"
			}
			return ""
		}
		if !ecdsa.VerifyASN1(km.ECPub, msg, raw) {
			return "ecdsa.VerifyASN1 false"
		}
		return ""
	case s.Type == "ed25519":
		pub := km.EdPub
		if s.Derived {
			seed := make([]byte, ed25519.SeedSize)
			if _, err := io.ReadFull(hkdf.New(sha256.New, km.Sym, nil, kctx), seed); err != nil {
				return err.Error()
			}
			pub = ed25519.NewKeyFromSeed(seed).Public().(ed25519.PublicKey)
		}
		if len(pub) != ed25519.PublicKeySize || !ed25519.Verify(pub, msg, raw) {
			return "ed25519.Verify false"
		}
		return ""
	}
	return "no reference for key type"
}

// ------------------------------------------------ versioned string parsing

func c17Parse(s string, enc *base64.Encoding) (ver int, body []byte, ok bool) {
	const pfx = "vault:v"
	if !strings.HasPrefix(s, pfx) {
		return 0, nil, false
	}
	rest := s[len(pfx):]
	i := strings.IndexByte(rest, ':')
	if i < 0 {
		return 0, nil, false
	}
	v, err := strconv.Atoi(rest[:i])
	if err != nil {
		return 0, nil, false
	}
	b, err := enc.DecodeString(rest[i+1:])
	if err != nil {
		return 0, nil, false
	}
	return v, b, true
}

func c17SameInput(orig, mutant string, enc *base64.Encoding, zeroIsOne bool) bool {
	v1, b1, ok1 := c17Parse(orig, enc)
	v2, b2, ok2 := c17Parse(mutant, enc)
	if !ok1 || !ok2 {
		return false
	}
	if zeroIsOne {
		if v1 == 0 {
			v1 = 1
		}
		if v2 == 0 {
			v2 = 1
		}
	}
	return v1 == v2 && bytes.Equal(b1, b2)
}

type c17Mut struct{ Name, S string }

const c17B64Alphabet = "ABCDEFGHIJKLMNOPQRSTUVWXYZabcdefghijklmnopqrstuvwxyz0123456789+/"

// c17Mutants: see the policy-level harness (same generator).
func c17Mutants(rng *kit.Rand, s string, others []string, enc *base64.Encoding) []c17Mut {
	var out []c17Mut
	seen := map[string]bool{s: true}
	add := func(n, v string) {
		if !seen[v] {
			seen[v] = true
			out = append(out, c17Mut{n, v})
		}
	}
	split := func(x string) (string, string, string) {
		i := strings.IndexByte(x[len("vault:v"):], ':')
		h := len("vault:v") + i + 1
		return x[:h], x[h:], x[len("vault:v") : h-1]
	}
	hdr, body, verStr := split(s)
	for k := 0; k < len(hdr); k++ {
		c := hdr[k]
		repl := []byte{'x'}
		if c >= '0' && c <= '9' {
			repl = append(repl, '0'+(c-'0'+1)%10, '0'+(c-'0'+9)%10)
		} else {
			repl = append(repl, c^0x20, c+1)
		}
		for _, rc := range repl {
			add(fmt.Sprintf("hdr[%d]=%q", k, rc), hdr[:k]+string(rc)+hdr[k+1:]+body)
		}
		add(fmt.Sprintf("hdr-del[%d]", k), hdr[:k]+hdr[k+1:]+body)
	}
	for _, vs := range []string{"0", "1", "2", "3", "4", "5", "6", "-1", "-" + verStr, "+" + verStr, "0" + verStr, verStr + "0", " " + verStr, verStr + " ", "", "99999999999999999999", "0x" + verStr, verStr + ".0", "v" + verStr} {
		add("ver="+vs, "vault:v"+vs+":"+body)
	}
	raw, err := enc.DecodeString(body)
	if err == nil {
		e := enc.EncodeToString
		flip := func(pos int) {
			b := c17clone(raw)
			bit := uint(rng.Intn(8))
			b[pos] ^= 1 << bit
			add(fmt.Sprintf("flip[%d.%d]", pos, bit), hdr+e(b))
		}
		if n := len(raw); n > 0 {
			cl := func(i int) int {
				if i < 0 {
					return 0
				}
				if i >= n {
					return n - 1
				}
				return i
			}
			for _, pos := range []int{0, n - 1, n / 2, cl(11), cl(12), cl(23), cl(24), cl(n - 16), cl(n - 17)} {
				flip(pos)
			}
			for q := 0; q < 10; q++ {
				flip(rng.Intn(n))
			}
			for _, cut := range []int{1, 2, 16, 17, n - 12, n - 11, n - 24, n} {
				if cut > 0 && cut <= n {
					add(fmt.Sprintf("trunc-%d", cut), hdr+e(raw[:n-cut]))
				}
			}
		}
		add("append-1", hdr+e(append(c17clone(raw), 0)))
		add("append-16", hdr+e(append(c17clone(raw), make([]byte, 16)...)))
		add("prepend-1", hdr+e(append([]byte{0}, raw...)))
		add("double", hdr+e(append(c17clone(raw), raw...)))
	}
	if len(body) > 2 {
		h := len(body) / 2
		add("b64-newline", hdr+body[:h]+"\n"+body[h:])
		add("b64-space", hdr+body[:h]+" "+body[h:])
		add("b64-bang", hdr+body[:h]+"!"+body[h+1:])
	}
	add("b64-trailing-newline", s+"\n")
	add("b64-nopad", hdr+strings.TrimRight(body, "="))
	add("b64-extrapad", s+"=")
	add("b64-altalphabet", hdr+strings.NewReplacer("+", "-", "/", "_", "-", "+", "_", "/").Replace(body))
	if t := strings.TrimRight(body, "="); len(t) > 0 && len(t) != len(body) {
		if idx := strings.IndexByte(c17B64Alphabet, t[len(t)-1]); idx >= 0 {
			add("b64-noncanonical", hdr+t[:len(t)-1]+string(c17B64Alphabet[idx^1])+body[len(t):])
		}
	}
	for i, o := range others {
		if !strings.HasPrefix(o, "vault:v") || strings.IndexByte(o[len("vault:v"):], ':') < 0 {
			continue
		}
		oh, ob, _ := split(o)
		add(fmt.Sprintf("transplant-body[%d]", i), hdr+ob)
		add(fmt.Sprintf("transplant-hdr[%d]", i), oh+body)
	}
	add("hdr-only", hdr)
	add("body-only", body)
	add("lead-space", " "+s)
	add("upper-hdr", strings.ToUpper(hdr)+body)
	add("no-colon", strings.TrimSuffix(hdr, ":")+body)
	return out
}

// ---------------------------------------------------------------- API wrapper

// c17FaultStore is a logical.Storage that fails one chosen operation once.
// It wraps the in-memory storage as a plain (non-transactional) Storage.
type c17FaultStore struct {
	logical.Storage
	armed   bool
	failAt  int
	n       int
	fired   bool
	firedOp string
}

var errC17Injected = fmt.Errorf("verif: injected storage fault")

func (f *c17FaultStore) hit(op, key string) error {
	if !f.armed {
		return nil
	}
	i := f.n
	f.n++
	if i == f.failAt && !f.fired {
		f.fired = true
		pfx := key
		if j := strings.IndexByte(key, '/'); j >= 0 {
			pfx = key[:j]
		}
		f.firedOp = op + "_" + pfx
		return errC17Injected
	}
	return nil
}

// arm makes the k-th storage operation from now on fail (k < 0: none).
func (f *c17FaultStore) arm(k int) {
	f.armed, f.failAt, f.n, f.fired, f.firedOp = k >= 0, k, 0, false, ""
}

// disarm reports whether the fault fired and on what.
func (f *c17FaultStore) disarm() (bool, string) {
	f.armed = false
	return f.fired, f.firedOp
}

func (f *c17FaultStore) Get(ctx context.Context, key string) (*logical.StorageEntry, error) {
	if err := f.hit("get", key); err != nil {
		return nil, err
	}
	return f.Storage.Get(ctx, key)
}

func (f *c17FaultStore) Put(ctx context.Context, e *logical.StorageEntry) error {
	if err := f.hit("put", e.Key); err != nil {
		return err
	}
	return f.Storage.Put(ctx, e)
}

func (f *c17FaultStore) Delete(ctx context.Context, key string) error {
	if err := f.hit("delete", key); err != nil {
		return err
	}
	return f.Storage.Delete(ctx, key)
}

func (f *c17FaultStore) List(ctx context.Context, prefix string) ([]string, error) {
	if err := f.hit("list", prefix); err != nil {
		return nil, err
	}
	return f.Storage.List(ctx, prefix)
}

type c17API struct {
	ctx     context.Context
	st      *logical.InmemStorage // raw view for the harness
	fs      *c17FaultStore        // nil: requests see the (transactional) in-memory storage itself
	b       *backend
	noCache bool
	r       *kit.Result
	id      string
	// panicClass overrides the class of a recovered handler panic while a
	// request whose failure signature is already known is being retried.
	panicClass string
}

func c17NewAPI(ctx context.Context, r *kit.Result, id string, noCache bool) (*c17API, error) {
	a := &c17API{ctx: ctx, st: &logical.InmemStorage{}, noCache: noCache, r: r, id: id}
	return a, a.restart()
}

// withFaults routes all requests through a fault-injecting, non-transactional storage.
func (a *c17API) withFaults() *c17API {
	a.fs = &c17FaultStore{Storage: a.st}
	return a
}

func (a *c17API) reqStorage() logical.Storage {
	if a.fs != nil {
		return a.fs
	}
	return a.st
}

// restart builds a new backend object over the same storage (cold cache).
func (a *c17API) restart() error {
	sys := logical.TestSystemView()
	sys.CachingDisabledVal = a.noCache
	conf := &logical.BackendConfig{StorageView: a.st, System: sys}
	b, err := Backend(a.ctx, conf)
	if err != nil {
		return err
	}
	if err := b.Setup(a.ctx, conf); err != nil {
		return err
	}
	a.b = b
	return nil
}

type c17Resp struct {
	Data    map[string]any
	Err     string
	Refused bool
}

func (a *c17API) do(op logical.Operation, path string, data map[string]any) (out c17Resp) {
	defer func() {
		if p := recover(); p != nil {
			out = c17Resp{Refused: true, Err: fmt.Sprintf("PANIC: %v", p)}
			cls := "C17-panic"
			if a.panicClass != "" {
				cls = a.panicClass
			}
			a.r.Violate(cls, a.id, fmt.Sprintf("%s %s panicked: %v", op, path, p), nil)
		}
	}()
	resp, err := a.b.HandleRequest(a.ctx, &logical.Request{Operation: op, Path: path, Data: data, Storage: a.reqStorage()})
	if err != nil {
		out.Refused = true
		out.Err = err.Error()
	}
	if resp != nil {
		if resp.IsError() {
			out.Refused = true
			if out.Err == "" {
				out.Err = resp.Error().Error()
			}
		}
		out.Data = resp.Data
		if raw, ok := resp.Data[logical.HTTPRawBody]; ok {
			var body struct {
				Data map[string]any `json:"data"`
			}
			if s, ok := raw.(string); ok && json.Unmarshal([]byte(s), &body) == nil {
				out.Data = body.Data
			}
		}
	}
	return out
}

func (a *c17API) write(path string, data map[string]any) c17Resp {
	return a.do(logical.UpdateOperation, path, data)
}

// c17Batch normalises batch_results (typed slice or decoded JSON) to maps.
func c17Batch(resp c17Resp) []map[string]any {
	raw, ok := resp.Data["batch_results"]
	if !ok {
		return nil
	}
	b, err := json.Marshal(raw)
	if err != nil {
		return nil
	}
	var out []map[string]any
	if json.Unmarshal(b, &out) != nil {
		return nil
	}
	return out
}

func c17Int(v any) int {
	switch x := v.(type) {
	case int:
		return x
	case int64:
		return int(x)
	case float64:
		return int(x)
	case json.Number:
		n, _ := x.Int64()
		return int(n)
	}
	return -999
}

func c17Str(v any) string {
	s, _ := v.(string)
	return s
}

// c17NeedleOf is the textual form under which the private part of a key entry
// appears in serialised storage ("" if none).
func c17NeedleOf(ke keysutil.KeyEntry, s c17Spec) string {
	switch {
	case s.isRSA():
		if ke.RSAKey == nil || ke.RSAKey.D == nil {
			return ""
		}
		return ke.RSAKey.D.String()
	case s.isEC():
		if ke.EC_D == nil {
			return ""
		}
		return ke.EC_D.String()
	}
	if len(ke.Key) == 0 {
		return ""
	}
	return c17b64(ke.Key)
}

// capture reads the freshly generated version from storage.
func (a *c17API) capture(name string, s c17Spec, ver int) (*c17Material, error) {
	p, err := keysutil.LoadPolicy(a.ctx, a.st, "policy/"+name)
	if err != nil || p == nil {
		return nil, fmt.Errorf("cannot load stored policy %s: %v", name, err)
	}
	ke, ok := p.Keys[strconv.Itoa(ver)]
	if !ok {
		return nil, fmt.Errorf("version %d not in stored policy", ver)
	}
	c17NextID++
	m := &c17Material{ID: c17NextID, HMAC: c17clone(ke.HMACKey)}
	switch {
	case s.isRSA():
		if ke.RSAKey == nil {
			return nil, fmt.Errorf("no rsa key")
		}
		pub := ke.RSAKey.PublicKey
		m.RSAPub = &pub
		m.Needle = ke.RSAKey.D.String()
	case s.isEC():
		curve := map[string]elliptic.Curve{"ecdsa-p256": elliptic.P256(), "ecdsa-p384": elliptic.P384(), "ecdsa-p521": elliptic.P521()}[s.Type]
		m.ECPub = &ecdsa.PublicKey{Curve: curve, X: new(big.Int).Set(ke.EC_X), Y: new(big.Int).Set(ke.EC_Y)}
		m.Needle = ke.EC_D.String()
	case s.Type == "ed25519":
		m.Sym = c17clone(ke.Key)
		if len(m.Sym) == ed25519.PrivateKeySize {
			m.EdPub = ed25519.PrivateKey(m.Sym).Public().(ed25519.PublicKey)
		}
		m.Needle = c17b64(ke.Key)
	default:
		m.Sym = c17clone(ke.Key)
		m.Needle = c17b64(ke.Key)
		if s.Type == "hmac" {
			m.HMAC = c17clone(ke.Key)
		}
	}
	if len(m.Needle) < 16 {
		return nil, fmt.Errorf("key material too short (%d chars)", len(m.Needle))
	}
	return m, nil
}

// dump returns every storage entry.
func (a *c17API) dump() map[string][]byte {
	out := map[string][]byte{}
	var walk func(prefix string)
	walk = func(prefix string) {
		keys, _ := a.st.List(a.ctx, prefix)
		for _, k := range keys {
			if strings.HasSuffix(k, "/") {
				walk(prefix + k)
				continue
			}
			if e, _ := a.st.Get(a.ctx, prefix+k); e != nil {
				out[prefix+k] = e.Value
			}
		}
	}
	walk("")
	return out
}

var _ = sort.Strings
