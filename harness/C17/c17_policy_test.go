//go:build verif

package keysutil

// C17 (policy level): transit encryption round-trips, binds its inputs and
// honours version limits. The monitors below drive keysutil.Policy through
// the lock manager on an in-memory logical.Storage and compare what they see
// with (a) algebraic oracles (round trip, binding, version window) over a
// reference model of the key ring and (b) an independent re-open of every
// symmetric ciphertext / signature with the Go crypto primitives used
// directly on the key material of the labelled version.

import (
	"bytes"
	"context"
	"crypto"
	"crypto/aes"
	"crypto/cipher"
	"crypto/ecdsa"
	"crypto/ed25519"
	"crypto/elliptic"
	"crypto/hmac"
	crand "crypto/rand"
	"crypto/rsa"
	"crypto/sha256"
	"encoding/base64"
	"fmt"
	"io"
	"math/big"
	"sort"
	"strconv"
	"strings"
	"testing"

	"golang.org/x/crypto/chacha20poly1305"
	"golang.org/x/crypto/hkdf"

	kit "github.com/openbao/openbao/sdk/v2/helper/verifkit"
	"github.com/openbao/openbao/sdk/v2/logical"
)

// ---------------------------------------------------------------- helpers

// c17Shard is this process's shard index; when a single case is replayed
// (case ids are "<kind>:<shard>:<rest>") it is the shard that produced it, so
// the same PRNG streams are used.
func c17Shard() int {
	if oc := kit.OnlyCase(); oc != "" {
		if f := strings.SplitN(oc, ":", 3); len(f) == 3 {
			if v, err := strconv.Atoi(f[1]); err == nil {
				return v
			}
		}
	}
	s, _ := kit.Shard()
	return s
}

func c17b64(b []byte) string { return base64.StdEncoding.EncodeToString(b) }

func c17clone(b []byte) []byte { return append([]byte(nil), b...) }

type c17AAD []byte

func (a c17AAD) GetAssociatedData() ([]byte, error) { return []byte(a), nil }

func c17factories(aad []byte) []any {
	if len(aad) == 0 {
		return nil
	}
	return []any{c17AAD(aad)}
}

// c17Spec is one key configuration.
type c17Spec struct {
	Type       KeyType
	Derived    bool
	Convergent bool
	KDF        int
}

func (s c17Spec) mode() string {
	switch {
	case s.Convergent:
		return "convergent"
	case s.Derived && s.KDF == Kdf_hmac_sha256_counter:
		return "derived-ctrkdf"
	case s.Derived:
		return "derived"
	}
	return "plain"
}

func (s c17Spec) name() string { return s.Type.String() + "/" + s.mode() }

func (s c17Spec) isRSA() bool {
	return s.Type == KeyType_RSA2048 || s.Type == KeyType_RSA3072 || s.Type == KeyType_RSA4096
}

func (s c17Spec) isSym() bool {
	switch s.Type {
	case KeyType_AES128_GCM96, KeyType_AES256_GCM96, KeyType_ChaCha20_Poly1305, KeyType_XChaCha20_Poly1305:
		return true
	}
	return false
}

func c17EncSpecs(withBigRSA int) []c17Spec {
	var out []c17Spec
	for _, kt := range []KeyType{KeyType_AES256_GCM96, KeyType_AES128_GCM96, KeyType_ChaCha20_Poly1305, KeyType_XChaCha20_Poly1305} {
		out = append(out,
			c17Spec{Type: kt},
			c17Spec{Type: kt, Derived: true, KDF: Kdf_hkdf_sha256},
			c17Spec{Type: kt, Derived: true, Convergent: true, KDF: Kdf_hkdf_sha256},
			c17Spec{Type: kt, Derived: true, KDF: Kdf_hmac_sha256_counter},
		)
	}
	out = append(out, c17Spec{Type: KeyType_RSA2048})
	if withBigRSA&1 != 0 {
		out = append(out, c17Spec{Type: KeyType_RSA3072})
	}
	if withBigRSA&2 != 0 {
		out = append(out, c17Spec{Type: KeyType_RSA4096})
	}
	return out
}

// c17Ring is a key under test: storage + lock manager + reference knowledge
// about the key material of each version (captured when the version was made).
// c17FaultStore is a logical.Storage that fails one chosen operation once.
// It wraps the in-memory storage as a plain (non-transactional) Storage.
type c17FaultStore struct {
	logical.Storage
	armed   bool
	failAt  int
	n       int
	fired   bool
	firedOp string
}

var errC17Injected = fmt.Errorf("verif: injected storage fault")

func (f *c17FaultStore) hit(op, key string) error {
	if !f.armed {
		return nil
	}
	i := f.n
	f.n++
	if i == f.failAt && !f.fired {
		f.fired = true
		pfx := key
		if j := strings.IndexByte(key, '/'); j >= 0 {
			pfx = key[:j]
		}
		f.firedOp = op + "_" + pfx
		return errC17Injected
	}
	return nil
}

func (f *c17FaultStore) arm(k int) {
	f.armed, f.failAt, f.n, f.fired, f.firedOp = k >= 0, k, 0, false, ""
}

func (f *c17FaultStore) disarm() (bool, string) {
	f.armed = false
	return f.fired, f.firedOp
}

func (f *c17FaultStore) Get(ctx context.Context, key string) (*logical.StorageEntry, error) {
	if err := f.hit("get", key); err != nil {
		return nil, err
	}
	return f.Storage.Get(ctx, key)
}

func (f *c17FaultStore) Put(ctx context.Context, e *logical.StorageEntry) error {
	if err := f.hit("put", e.Key); err != nil {
		return err
	}
	return f.Storage.Put(ctx, e)
}

func (f *c17FaultStore) Delete(ctx context.Context, key string) error {
	if err := f.hit("delete", key); err != nil {
		return err
	}
	return f.Storage.Delete(ctx, key)
}

type c17Ring struct {
	ctx     context.Context
	raw     *logical.InmemStorage // harness view
	st      logical.Storage       // what the code under test gets (raw or the fault store)
	fs      *c17FaultStore
	lm      *LockManager
	noCache bool
	name    string
	spec    c17Spec
}

func c17NewRing(ctx context.Context, name string, s c17Spec, noCache bool) (*c17Ring, error) {
	return c17NewRingF(ctx, name, s, noCache, false)
}

func c17NewRingF(ctx context.Context, name string, s c17Spec, noCache, faults bool) (*c17Ring, error) {
	k := &c17Ring{ctx: ctx, raw: &logical.InmemStorage{}, name: name, spec: s, noCache: noCache}
	k.st = k.raw
	if faults {
		k.fs = &c17FaultStore{Storage: k.raw}
		k.st = k.fs
	}
	k.lm, _ = NewLockManager(!noCache, 0)
	if s.Derived && s.KDF == Kdf_hmac_sha256_counter {
		// legacy KDF: the lock manager only creates hkdf policies, so build
		// the policy the way library users do.
		p := NewPolicy(PolicyConfig{Name: name, Type: s.Type, Derived: true, KDF: Kdf_hmac_sha256_counter, Exportable: true, AllowPlaintextBackup: true})
		if err := p.Rotate(ctx, k.st, crand.Reader); err != nil {
			return nil, err
		}
		return k, nil
	}
	req := PolicyRequest{Upsert: true, Storage: k.st, Name: name, KeyType: s.Type, Derived: s.Derived, Convergent: s.Convergent, Exportable: true, AllowPlaintextBackup: true}
	if s.Type == KeyType_HMAC {
		req.KeySize = 32
	}
	p, _, err := k.lm.GetPolicy(ctx, req, crand.Reader)
	if err != nil {
		return nil, err
	}
	if p == nil {
		return nil, fmt.Errorf("nil policy")
	}
	p.Unlock()
	return k, nil
}

// with runs f with the policy locked the way the transit handlers do.
func (k *c17Ring) with(exclusive bool, f func(p *Policy) error) error {
	p, _, err := k.lm.GetPolicyWithLockType(k.ctx, PolicyRequest{Storage: k.st, Name: k.name}, crand.Reader, exclusive)
	if err != nil {
		return err
	}
	if p == nil {
		return fmt.Errorf("policy %s not found", k.name)
	}
	defer p.Unlock()
	return f(p)
}

// reload forgets every cached policy object (process restart).
func (k *c17Ring) reload() { k.lm, _ = NewLockManager(!k.noCache, 0) }

// c17Material is what the harness remembers about one generated key version.
type c17Material struct {
	ID     int    // unique per generated key
	Sym    []byte // symmetric / ed25519 private (64 bytes) / hmac key
	HMAC   []byte
	RSAPub *rsa.PublicKey
	ECPub  *ecdsa.PublicKey
	EdPub  ed25519.PublicKey
	// Needle is the textual form under which the private part appears in a
	// JSON-serialised key entry (base64 of the bytes, decimal of the big int).
	Needle string
}

var c17NextID int

// c17NeedleOf is the textual form under which the private part of a key entry
// appears in serialised storage ("" if the entry holds no private part).
func c17NeedleOf(ke KeyEntry, kt KeyType) string {
	switch kt {
	case KeyType_RSA2048, KeyType_RSA3072, KeyType_RSA4096:
		if ke.RSAKey == nil || ke.RSAKey.D == nil {
			return ""
		}
		return ke.RSAKey.D.String()
	case KeyType_ECDSA_P256, KeyType_ECDSA_P384, KeyType_ECDSA_P521:
		if ke.EC_D == nil {
			return ""
		}
		return ke.EC_D.String()
	}
	if len(ke.Key) == 0 {
		return ""
	}
	return c17b64(ke.Key)
}

func c17Capture(p *Policy, ver int) (*c17Material, error) {
	ke, ok := p.Keys[strconv.Itoa(ver)]
	if !ok {
		return nil, fmt.Errorf("version %d not in the working key set", ver)
	}
	c17NextID++
	m := &c17Material{ID: c17NextID, HMAC: c17clone(ke.HMACKey)}
	switch p.Type {
	case KeyType_RSA2048, KeyType_RSA3072, KeyType_RSA4096:
		if ke.RSAKey == nil {
			return nil, fmt.Errorf("no rsa key in version %d", ver)
		}
		pub := ke.RSAKey.PublicKey
		m.RSAPub = &pub
		m.Needle = ke.RSAKey.D.String()
	case KeyType_ECDSA_P256, KeyType_ECDSA_P384, KeyType_ECDSA_P521:
		curve := map[KeyType]elliptic.Curve{KeyType_ECDSA_P256: elliptic.P256(), KeyType_ECDSA_P384: elliptic.P384(), KeyType_ECDSA_P521: elliptic.P521()}[p.Type]
		m.ECPub = &ecdsa.PublicKey{Curve: curve, X: new(big.Int).Set(ke.EC_X), Y: new(big.Int).Set(ke.EC_Y)}
		m.Needle = ke.EC_D.String()
	case KeyType_ED25519:
		m.Sym = c17clone(ke.Key)
		if len(m.Sym) == ed25519.PrivateKeySize {
			m.EdPub = ed25519.PrivateKey(m.Sym).Public().(ed25519.PublicKey)
		}
		m.Needle = c17b64(ke.Key)
	default:
		m.Sym = c17clone(ke.Key)
		m.Needle = c17b64(ke.Key)
	}
	if len(m.Needle) < 16 {
		return nil, fmt.Errorf("key material of version %d too short to be a key (%d chars)", ver, len(m.Needle))
	}
	return m, nil
}

// ------------------------------------------------ reference constructions

func c17NonceSize(kt KeyType) int {
	if kt == KeyType_XChaCha20_Poly1305 {
		return chacha20poly1305.NonceSizeX
	}
	return 12
}

func c17EncKeyLen(kt KeyType) int {
	if kt == KeyType_AES128_GCM96 {
		return 16
	}
	return 32
}

func c17RefAEAD(kt KeyType, key []byte) (cipher.AEAD, error) {
	switch kt {
	case KeyType_AES128_GCM96, KeyType_AES256_GCM96:
		blk, err := aes.NewCipher(key)
		if err != nil {
			return nil, err
		}
		return cipher.NewGCM(blk)
	case KeyType_ChaCha20_Poly1305:
		return chacha20poly1305.New(key)
	case KeyType_XChaCha20_Poly1305:
		return chacha20poly1305.NewX(key)
	}
	return nil, fmt.Errorf("no reference AEAD for %v", kt)
}

// c17RefKeys returns the (encryption key, convergent nonce key) the documented
// construction uses for this version and context: the version's key itself
// when the key is not derived, HKDF-SHA256(key, info=context) otherwise, the
// convergent nonce key being the next 32 bytes of the same HKDF stream.
func c17RefKeys(s c17Spec, verKey, kctx []byte) (enc, nonceKey []byte, ok bool) {
	n := c17EncKeyLen(s.Type)
	if !s.Derived {
		return verKey, nil, true
	}
	if s.KDF != Kdf_hkdf_sha256 {
		return nil, nil, false
	}
	buf := make([]byte, n+32)
	if _, err := io.ReadFull(hkdf.New(sha256.New, verKey, nil, kctx), buf); err != nil {
		return nil, nil, false
	}
	return buf[:n], buf[n:], true
}

// c17RefOpen opens body = nonce || AEAD(ct||tag) with the reference key.
func c17RefOpen(s c17Spec, verKey, kctx, aad, body []byte) ([]byte, error) {
	enc, _, ok := c17RefKeys(s, verKey, kctx)
	if !ok {
		return nil, fmt.Errorf("no reference")
	}
	a, err := c17RefAEAD(s.Type, enc)
	if err != nil {
		return nil, err
	}
	ns := c17NonceSize(s.Type)
	if len(body) < ns {
		return nil, fmt.Errorf("short body")
	}
	return a.Open(nil, body[:ns], body[ns:], aad)
}

// c17RefConvergent computes the exact ciphertext body convergent mode (v3)
// must produce: nonce = HMAC-SHA256(nonceKey, plaintext)[:nonceSize].
func c17RefConvergent(s c17Spec, verKey, kctx, aad, pt []byte) ([]byte, bool) {
	enc, nk, ok := c17RefKeys(s, verKey, kctx)
	if !ok || nk == nil {
		return nil, false
	}
	a, err := c17RefAEAD(s.Type, enc)
	if err != nil {
		return nil, false
	}
	h := hmac.New(sha256.New, nk)
	h.Write(pt)
	nonce := h.Sum(nil)[:c17NonceSize(s.Type)]
	return append(c17clone(nonce), a.Seal(nil, nonce, pt, aad)...), true
}

// ------------------------------------------------ versioned string parsing

// c17Parse splits "vault:v<ver>:<base64>" the way the documentation describes
// the format. ok=false when the string is not of that shape at all.
func c17Parse(s string, enc *base64.Encoding) (ver int, body []byte, ok bool) {
	const pfx = "vault:v"
	if !strings.HasPrefix(s, pfx) {
		return 0, nil, false
	}
	rest := s[len(pfx):]
	i := strings.IndexByte(rest, ':')
	if i < 0 {
		return 0, nil, false
	}
	v, err := strconv.Atoi(rest[:i])
	if err != nil {
		return 0, nil, false
	}
	b, err := enc.DecodeString(rest[i+1:])
	if err != nil {
		return 0, nil, false
	}
	return v, b, true
}

// c17SameInput reports whether mutant decodes to the same (version, bytes)
// tuple as orig; v0 is the documented legacy alias of v1 for ciphertexts.
func c17SameInput(orig, mutant string, enc *base64.Encoding, zeroIsOne bool) bool {
	v1, b1, ok1 := c17Parse(orig, enc)
	v2, b2, ok2 := c17Parse(mutant, enc)
	if !ok1 || !ok2 {
		return false
	}
	if zeroIsOne {
		if v1 == 0 {
			v1 = 1
		}
		if v2 == 0 {
			v2 = 1
		}
	}
	return v1 == v2 && bytes.Equal(b1, b2)
}

type c17Mut struct{ Name, S string }

const c17B64Alphabet = "ABCDEFGHIJKLMNOPQRSTUVWXYZabcdefghijklmnopqrstuvwxyz0123456789+/"

// c17Mutants derives ~70 strings from a versioned ciphertext/signature:
// every header character, version spellings, sampled bit flips, truncations,
// extensions, base64-level re-spellings and transplants of header/body from
// other strings (which must come from other key versions).
func c17Mutants(rng *kit.Rand, s string, others []string, enc *base64.Encoding) []c17Mut {
	var out []c17Mut
	seen := map[string]bool{s: true}
	add := func(n, v string) {
		if !seen[v] {
			seen[v] = true
			out = append(out, c17Mut{n, v})
		}
	}
	split := func(x string) (string, string, string) {
		i := strings.IndexByte(x[len("vault:v"):], ':')
		h := len("vault:v") + i + 1
		return x[:h], x[h:], x[len("vault:v") : h-1]
	}
	hdr, body, verStr := split(s)
	for k := 0; k < len(hdr); k++ {
		c := hdr[k]
		repl := []byte{'x'}
		if c >= '0' && c <= '9' {
			repl = append(repl, '0'+(c-'0'+1)%10, '0'+(c-'0'+9)%10)
		} else {
			repl = append(repl, c^0x20, c+1)
		}
		for _, rc := range repl {
			add(fmt.Sprintf("hdr[%d]=%q", k, rc), hdr[:k]+string(rc)+hdr[k+1:]+body)
		}
		add(fmt.Sprintf("hdr-del[%d]", k), hdr[:k]+hdr[k+1:]+body)
	}
	for _, vs := range []string{"0", "1", "2", "3", "4", "5", "6", "-1", "-" + verStr, "+" + verStr, "0" + verStr, verStr + "0", " " + verStr, verStr + " ", "", "99999999999999999999", "0x" + verStr, verStr + ".0", "v" + verStr} {
		add("ver="+vs, "vault:v"+vs+":"+body)
	}
	raw, err := enc.DecodeString(body)
	if err == nil {
		e := enc.EncodeToString
		flip := func(pos int) {
			b := c17clone(raw)
			bit := uint(rng.Intn(8))
			b[pos] ^= 1 << bit
			add(fmt.Sprintf("flip[%d.%d]", pos, bit), hdr+e(b))
		}
		if n := len(raw); n > 0 {
			cl := func(i int) int {
				if i < 0 {
					return 0
				}
				if i >= n {
					return n - 1
				}
				return i
			}
			for _, pos := range []int{0, n - 1, n / 2, cl(11), cl(12), cl(23), cl(24), cl(n - 16), cl(n - 17)} {
				flip(pos)
			}
			for q := 0; q < 10; q++ {
				flip(rng.Intn(n))
			}
			for _, cut := range []int{1, 2, 16, 17, n - 12, n - 11, n - 24, n} {
				if cut > 0 && cut <= n {
					add(fmt.Sprintf("trunc-%d", cut), hdr+e(raw[:n-cut]))
				}
			}
		}
		add("append-1", hdr+e(append(c17clone(raw), 0)))
		add("append-16", hdr+e(append(c17clone(raw), make([]byte, 16)...)))
		add("prepend-1", hdr+e(append([]byte{0}, raw...)))
		add("double", hdr+e(append(c17clone(raw), raw...)))
	}
	if len(body) > 2 {
		h := len(body) / 2
		add("b64-newline", hdr+body[:h]+"\n"+body[h:])
		add("b64-space", hdr+body[:h]+" "+body[h:])
		add("b64-bang", hdr+body[:h]+"!"+body[h+1:])
	}
	add("b64-trailing-newline", s+"\n")
	add("b64-nopad", hdr+strings.TrimRight(body, "="))
	add("b64-extrapad", s+"=")
	add("b64-altalphabet", hdr+strings.NewReplacer("+", "-", "/", "_", "-", "+", "_", "/").Replace(body))
	if t := strings.TrimRight(body, "="); len(t) > 0 && len(t) != len(body) {
		// same bytes, non-canonical trailing bits
		if idx := strings.IndexByte(c17B64Alphabet, t[len(t)-1]); idx >= 0 {
			add("b64-noncanonical", hdr+t[:len(t)-1]+string(c17B64Alphabet[idx^1])+body[len(t):])
		}
	}
	for i, o := range others {
		if !strings.HasPrefix(o, "vault:v") || strings.IndexByte(o[len("vault:v"):], ':') < 0 {
			continue
		}
		oh, ob, _ := split(o)
		add(fmt.Sprintf("transplant-body[%d]", i), hdr+ob)
		add(fmt.Sprintf("transplant-hdr[%d]", i), oh+body)
	}
	add("empty", "")
	add("hdr-only", hdr)
	add("body-only", body)
	add("lead-space", " "+s)
	add("upper-hdr", strings.ToUpper(hdr)+body)
	add("no-colon", strings.TrimSuffix(hdr, ":")+body)
	return out
}

// ---------------------------------------------------------- round trip

func c17Sizes(s c17Spec, bits int) []int {
	if s.isRSA() {
		max := bits/8 - 2*sha256.Size - 2
		return []int{0, 1, 15, 16, 17, max}
	}
	if kit.Tier() == "thorough" {
		return []int{0, 1, 15, 16, 17, 31, 32, 33, 255, 1000, 4096, 65536}
	}
	return []int{0, 1, 15, 16, 17, 4096}
}

func c17RSABits(kt KeyType) int {
	switch kt {
	case KeyType_RSA3072:
		return 3072
	case KeyType_RSA4096:
		return 4096
	}
	return 2048
}

// c17Decrypt returns the decoded plaintext or the refusal.
func c17Decrypt(p *Policy, kctx, aad []byte, ct string) ([]byte, error) {
	out, err := p.DecryptWithFactory(kctx, nil, ct, c17factories(aad)...)
	if err != nil {
		return nil, err
	}
	b, derr := base64.StdEncoding.DecodeString(out)
	if derr != nil {
		return []byte("\x00undecodable:" + out), nil
	}
	return b, nil
}

func TestVerif_C17_RoundTrip(t *testing.T) {
	seed := kit.Seed(17)
	shard := c17Shard()
	r := kit.NewResult(t, "c17-policy-roundtrip", seed, "case = (key type, mode in {plain, derived-hkdf, convergent-v3, derived-legacy-kdf}, key version incl. 'latest', plaintext size in {0,1,15,16,17,4096 | RSA-OAEP max}, context, associated data) on keysutil.Policy; non-trivial when the tuple is distinct; per case: encrypt, check the version label, decrypt = plaintext, independent re-open with crypto/aes|chacha20poly1305 + HKDF on the labelled version's key material (exact ciphertext equality in convergent mode), wrong/missing context and associated data must be refused, and ~70 mutants of the ciphertext string (every header char, version spellings, bit flips, truncation/extension, base64 re-spellings, header/body transplants across versions) must be refused unless they decode to the same (version, bytes) tuple, in which case only the original plaintext is acceptable")
	defer r.Write(t)
	ctx := context.Background()
	big := 0
	if kit.Tier() == "thorough" {
		big = 1 + shard%2
		if shard >= 4 {
			big = 0
		}
	}
	for si, s := range c17EncSpecs(big) {
		id := fmt.Sprintf("rt:%d:%s", shard, s.name())
		if !kit.WantCase(id) {
			continue
		}
		rng := kit.NewRand(seed, 17000+uint64(si)+1000*uint64(shard))
		c17RoundTripSpec(ctx, r, rng, id, s)
	}
	r.Require("roundtrip_ok", 400)
	r.Require("ref_reopen_ok", 200)
	r.Require("convergent_exact_match", 40)
	r.Require("mutant_refused", 20000)
	r.Require("mutant_alias_returned_original", 100)
	r.Require("wrong_context_refused", 100)
	r.Require("wrong_aad_refused", 100)
	r.Require("old_version_roundtrip_ok", 100)
}

func c17RoundTripSpec(ctx context.Context, r *kit.Result, rng *kit.Rand, id string, s c17Spec) {
	k, err := c17NewRing(ctx, "k", s, false)
	if err != nil {
		r.Inconc("%s: cannot create key: %v", id, err)
		return
	}
	nver := kit.N(3, 5)
	if s.isRSA() {
		nver = kit.N(2, 3)
	}
	mats := map[int]*c17Material{}
	err = k.with(true, func(p *Policy) error {
		for v := 1; v <= nver; v++ {
			if v > 1 {
				if err := p.Rotate(ctx, k.st, crand.Reader); err != nil {
					return err
				}
			}
			m, err := c17Capture(p, v)
			if err != nil {
				return err
			}
			mats[v] = m
		}
		return nil
	})
	if err != nil {
		r.Inconc("%s: rotate: %v", id, err)
		return
	}
	var kctxs [][]byte
	if s.Derived {
		kctxs = [][]byte{rng.Bytes(1 + rng.Intn(40)), rng.Bytes(1 + rng.Intn(40))}
	} else {
		kctxs = [][]byte{nil}
	}
	aads := [][]byte{nil}
	if s.Type.AssociatedDataSupported() {
		aads = append(aads, rng.Bytes(1+rng.Intn(64)))
	}
	sizes := c17Sizes(s, c17RSABits(s.Type))
	sampled := false
	_ = k.with(false, func(p *Policy) error {
		// one ciphertext per version of a fixed plaintext: transplant donors
		donors := map[int]string{}
		for v := 1; v <= nver; v++ {
			ct, err := p.EncryptWithFactory(v, kctxs[0], nil, c17b64([]byte("donor-plaintext")))
			if err == nil {
				donors[v] = ct
			}
		}
		for _, reqVer := range append([]int{0}, c17seq(1, nver)...) {
			ver := reqVer
			if ver == 0 {
				ver = nver
			}
			for _, size := range sizes {
				for ci, kctx := range kctxs {
					for _, aad := range aads {
						pt := rng.Bytes(size)
						caseKey := fmt.Sprintf("%s|v%d|%d|c%d|a%d", s.name(), reqVer, size, ci, len(aad))
						r.Eval(1)
						r.Nontrivial(fmt.Sprintf("%s|%x|%x|%x", caseKey, sha256.Sum256(pt), kctx, aad))
						ct, err := p.EncryptWithFactory(reqVer, kctx, nil, c17b64(pt), c17factories(aad)...)
						if err != nil {
							r.Violate("C17-encrypt-refused", id, fmt.Sprintf("%s: encrypt of %d bytes with key version %d (latest %d, no minimum set) was refused: %v", caseKey, size, reqVer, nver, err), nil)
							continue
						}
						wantPfx := fmt.Sprintf("vault:v%d:", ver)
						if !strings.HasPrefix(ct, wantPfx) {
							r.Violate("C17-version-label", id, fmt.Sprintf("%s: requested version %d (latest %d) but ciphertext is labelled %.12q", caseKey, reqVer, nver, ct), nil)
							continue
						}
						got, err := c17Decrypt(p, kctx, aad, ct)
						if err != nil {
							cls := "C17-decrypt-refused"
							if s.Type == KeyType_AES128_GCM96 && s.Derived && s.KDF == Kdf_hmac_sha256_counter && strings.Contains(err.Error(), "length not correct") {
								// precise signature: legacy counter KDF yields 32 bytes, decrypt insists on 16 for aes128
								cls = "C17-aes128-legacy-kdf-undecryptable"
							}
							r.Violate(cls, id, fmt.Sprintf("%s: decrypt of a ciphertext just returned by encrypt was refused: %v", caseKey, err), map[string]any{"ciphertext": c17trunc(ct)})
							continue
						}
						if !bytes.Equal(got, pt) {
							r.Violate("C17-wrong-plaintext", id, fmt.Sprintf("%s: decrypt returned %d bytes different from the %d-byte original", caseKey, len(got), len(pt)), map[string]any{"ciphertext": c17trunc(ct)})
							continue
						}
						r.Count("roundtrip_ok", 1)
						if ver < nver {
							r.Count("old_version_roundtrip_ok", 1)
						}
						_, body, _ := c17Parse(ct, base64.StdEncoding)
						// independent re-open
						if s.isSym() {
							if ref, rerr := c17RefOpen(s, mats[ver].Sym, kctx, aad, body); rerr == nil {
								if !bytes.Equal(ref, pt) {
									r.Violate("C17-ref-reopen", id, caseKey+": reference re-open with the labelled version's key gave another plaintext", nil)
								} else {
									r.Count("ref_reopen_ok", 1)
								}
							} else if rerr.Error() != "no reference" {
								r.Violate("C17-ref-reopen", id, fmt.Sprintf("%s: ciphertext labelled v%d does not open under the reference construction with version %d's key, this context and this associated data: %v", caseKey, ver, ver, rerr), nil)
							}
							// and it must NOT open under any other version's key
							for ov, om := range mats {
								if ov == ver {
									continue
								}
								if _, rerr := c17RefOpen(s, om.Sym, kctx, aad, body); rerr == nil {
									r.Violate("C17-version-key-binding", id, fmt.Sprintf("%s: ciphertext labelled v%d opens with the key of version %d", caseKey, ver, ov), nil)
								} else {
									r.Count("ref_other_version_key_rejected", 1)
								}
							}
						}
						if s.Convergent {
							c17ConvergentChecks(r, p, id, caseKey, s, mats[ver], reqVer, kctx, kctxs, aad, pt, ct, body)
						} else if s.isSym() || s.isRSA() {
							// randomised encryption: two encryptions of the same input should differ
							if ct2, err := p.EncryptWithFactory(reqVer, kctx, nil, c17b64(pt), c17factories(aad)...); err == nil && ct2 == ct {
								r.Violate("C17-nonce-reuse", id, caseKey+": two non-convergent encryptions of the same input gave the identical ciphertext (nonce reuse)", nil)
							} else {
								r.Count("randomised_distinct", 1)
							}
						}
						// binding: context
						if s.Derived {
							for _, wc := range [][]byte{kctxs[1-ci], append(c17clone(kctx), 0), kctx[:len(kctx)-1], nil} {
								g, err := c17Decrypt(p, wc, aad, ct)
								if err == nil {
									c17Accepted(r, id, "C17-context-binding", fmt.Sprintf("%s: decrypt with context %x instead of %x", caseKey, wc, kctx), g, pt)
								} else {
									r.Count("wrong_context_refused", 1)
								}
							}
							if _, err := p.EncryptWithFactory(reqVer, nil, nil, c17b64(pt), c17factories(aad)...); err == nil {
								r.Violate("C17-context-binding", id, caseKey+": derived key encrypted without a context", nil)
							}
						}
						// binding: associated data
						if s.Type.AssociatedDataSupported() {
							var wrong [][]byte
							if len(aad) == 0 {
								wrong = [][]byte{{0}, rng.Bytes(8)}
							} else {
								fl := c17clone(aad)
								fl[rng.Intn(len(fl))] ^= 1 << uint(rng.Intn(8))
								wrong = [][]byte{nil, fl, append(c17clone(aad), 0), aad[:len(aad)-1]}
							}
							for _, wa := range wrong {
								g, err := c17Decrypt(p, kctx, wa, ct)
								if err == nil {
									c17Accepted(r, id, "C17-aad-binding", fmt.Sprintf("%s: decrypt with associated data %x instead of %x", caseKey, wa, aad), g, pt)
								} else {
									r.Count("wrong_aad_refused", 1)
								}
							}
						}
						// binding: the ciphertext string itself
						var others []string
						for v, d := range donors {
							if v != ver {
								others = append(others, d)
							}
						}
						sort.Strings(others)
						for _, m := range c17Mutants(rng, ct, others, base64.StdEncoding) {
							r.Count("mutants", 1)
							g, err := c17Decrypt(p, kctx, aad, m.S)
							same := c17SameInput(ct, m.S, base64.StdEncoding, true)
							switch {
							case err != nil && same:
								r.Count("mutant_alias_refused", 1)
							case err != nil:
								r.Count("mutant_refused", 1)
							case same && bytes.Equal(g, pt):
								r.Count("mutant_alias_returned_original", 1)
							case bytes.Equal(g, pt):
								r.Violate("C17-ciphertext-binding", id, fmt.Sprintf("%s: mutant %s (different version or bytes) still decrypted to the original plaintext", caseKey, m.Name), map[string]any{"original": c17trunc(ct), "mutant": c17trunc(m.S)})
							default:
								r.Violate("C17-wrong-plaintext", id, fmt.Sprintf("%s: mutant %s decrypted to a different plaintext (%d bytes)", caseKey, m.Name, len(g)), map[string]any{"original": c17trunc(ct), "mutant": c17trunc(m.S)})
							}
						}
						// a caller-supplied nonce: may be refused; if accepted it must still round-trip
						if s.isSym() && size == 16 {
							nct, err := p.EncryptWithFactory(reqVer, kctx, rng.Bytes(c17NonceSize(s.Type)), c17b64(pt), c17factories(aad)...)
							if err != nil {
								r.Count("caller_nonce_refused", 1)
							} else if g, err := c17Decrypt(p, kctx, aad, nct); err != nil || !bytes.Equal(g, pt) {
								r.Violate("C17-wrong-plaintext", id, caseKey+": encryption with a caller nonce does not round-trip", nil)
							} else {
								r.Count("caller_nonce_roundtrip", 1)
							}
						}
						if !sampled && size == 17 {
							sampled = true
							r.Sample(map[string]any{"case": caseKey, "ciphertext": c17trunc(ct), "decrypt": "== plaintext", "mutants_tried": "see counters", "reference_reopen": s.isSym()})
						}
					}
				}
			}
		}
		// version arguments outside the ring
		for _, bad := range []int{-1, nver + 1, nver + 100} {
			if ct, err := p.EncryptWithFactory(bad, kctxs[0], nil, c17b64([]byte("x"))); err == nil {
				r.Violate("C17-version-label", id, fmt.Sprintf("%s: encrypt with key version %d (latest %d) succeeded: %.14q", s.name(), bad, nver, ct), nil)
			} else {
				r.Count("enc_version_out_of_ring_refused", 1)
			}
		}
		return nil
	})
}

// c17Accepted classifies a decrypt that should have been refused.
func c17Accepted(r *kit.Result, id, class, what string, got, pt []byte) {
	if bytes.Equal(got, pt) {
		r.Violate(class, id, what+" was accepted and returned the plaintext", nil)
	} else {
		r.Violate("C17-wrong-plaintext", id, what+" was accepted and returned a DIFFERENT plaintext", nil)
	}
}

func c17ConvergentChecks(r *kit.Result, p *Policy, id, caseKey string, s c17Spec, m *c17Material, reqVer int, kctx []byte, kctxs [][]byte, aad, pt []byte, ct string, body []byte) {
	enc := func(ver int, c, a, x []byte) string {
		out, err := p.EncryptWithFactory(ver, c, nil, c17b64(x), c17factories(a)...)
		if err != nil {
			return "error:" + err.Error()
		}
		return out
	}
	if again := enc(reqVer, kctx, aad, pt); again != ct {
		r.Violate("C17-convergent-nondeterministic", id, caseKey+": same (version, context, plaintext, associated data) encrypted twice gave different ciphertexts", map[string]any{"first": c17trunc(ct), "second": c17trunc(again)})
	} else {
		r.Count("convergent_deterministic", 1)
	}
	other := append(c17clone(pt), 1)
	if len(pt) > 0 {
		other = c17clone(pt)
		other[len(other)-1] ^= 1
	}
	if oc := enc(reqVer, kctx, aad, other); oc == ct {
		r.Violate("C17-convergent-collision", id, caseKey+": different plaintexts gave the same convergent ciphertext", nil)
	} else {
		_, ob, ok := c17Parse(oc, base64.StdEncoding)
		ns := c17NonceSize(s.Type)
		if ok && len(ob) >= ns && len(body) >= ns && bytes.Equal(ob[:ns], body[:ns]) {
			r.Violate("C17-convergent-nonce-reuse", id, caseKey+": different plaintexts under the same key were sealed with the same nonce", nil)
		} else {
			r.Count("convergent_distinct_plaintext_distinct_nonce", 1)
		}
	}
	// the nonce must depend on the version's key and on the context
	for _, c2 := range kctxs {
		if bytes.Equal(c2, kctx) {
			continue
		}
		_, b2, ok := c17Parse(enc(reqVer, c2, aad, pt), base64.StdEncoding)
		ns := c17NonceSize(s.Type)
		if ok && len(b2) >= ns && bytes.Equal(b2[:ns], body[:ns]) {
			r.Violate("C17-convergent-nonce-derivation", id, caseKey+": same nonce for two different contexts", nil)
		}
	}
	for ov := 1; ov <= p.LatestVersion; ov++ {
		pv, _, _ := c17Parse(ct, base64.StdEncoding)
		if ov == pv {
			continue
		}
		_, b2, ok := c17Parse(enc(ov, kctx, aad, pt), base64.StdEncoding)
		ns := c17NonceSize(s.Type)
		if ok && len(b2) >= ns && bytes.Equal(b2[:ns], body[:ns]) {
			r.Violate("C17-convergent-nonce-derivation", id, fmt.Sprintf("%s: versions %d and %d derive the same convergent nonce for the same context and plaintext", caseKey, pv, ov), nil)
		} else if ok {
			r.Count("convergent_nonce_differs_across_versions", 1)
		}
	}
	if ref, ok := c17RefConvergent(s, m.Sym, kctx, aad, pt); ok {
		if !bytes.Equal(ref, body) {
			r.Violate("C17-convergent-reference", id, caseKey+": convergent ciphertext differs from nonce=HMAC-SHA256(hkdf[n:n+32], plaintext) || AEAD(hkdf[:n]) computed on the labelled version's key", nil)
		} else {
			r.Count("convergent_exact_match", 1)
		}
	}
}

func c17seq(a, b int) []int {
	var out []int
	for i := a; i <= b; i++ {
		out = append(out, i)
	}
	return out
}

func c17trunc(s string) string {
	if len(s) > 120 {
		return s[:100] + fmt.Sprintf("...(%d chars)", len(s))
	}
	return s
}

// ---------------------------------------------------------- histories

// c17Model is the reference state of one key ring.
type c17Model struct {
	Latest, MinDec, MinEnc, MinAvail int
	Keys                             map[int]*c17Material
}

func (m *c17Model) clone() *c17Model {
	c := *m
	c.Keys = map[int]*c17Material{}
	for v, k := range m.Keys {
		c.Keys[v] = k
	}
	return &c
}

// c17Entry is something a key version produced earlier in the history.
type c17Entry struct {
	Kind  string // ct | sig
	S     string
	Ver   int
	KeyID int
	PT    []byte // plaintext or signed message
	Ctx   []byte
	AAD   []byte
	Opts  SigningOptions
	Step  int
}

type c17Hist struct {
	r      *kit.Result
	rng    *kit.Rand
	id     string
	k      *c17Ring
	m      *c17Model
	ledger []*c17Entry
	kctx   []byte
	steps  []string
	bad    bool
	saw    map[string]bool

	backups       []c17BackupP
	restoreNoName bool // the next restores pass no name (it is taken from the backup)
	forceLatest   bool
	limbo         int    // a trim to this version failed half-way and was not retried yet
	trimFault     string // storage op whose failure made an earlier (retried) trim fail
	onFaultFail   func(what string)
	onFaultRetry  func()
}

func (h *c17Hist) log(format string, a ...any) {
	h.steps = append(h.steps, fmt.Sprintf("%d: ", len(h.steps))+fmt.Sprintf(format, a...))
}

func (h *c17Hist) violate(class, what string) {
	h.bad = true
	st := h.steps
	if len(st) > 60 {
		st = st[len(st)-60:]
	}
	h.r.Violate(class, h.id, fmt.Sprintf("%s [%s, model latest=%d min_dec=%d min_enc=%d min_avail=%d]", what, h.k.spec.name(), h.m.Latest, h.m.MinDec, h.m.MinEnc, h.m.MinAvail), map[string]any{"history": st})
}

func (h *c17Hist) usable(e *c17Entry) (bool, string) {
	switch {
	case e.Ver > h.m.Latest:
		return false, "too_new"
	case e.Ver < h.m.MinDec:
		return false, "below_min_dec"
	case h.m.Keys[e.Ver] == nil || h.m.Keys[e.Ver].ID != e.KeyID:
		return false, "key_replaced"
	}
	return true, ""
}

// checkEntry replays one ledger entry against the current policy.
func (h *c17Hist) checkEntry(p *Policy, e *c17Entry) {
	want, why := h.usable(e)
	h.r.Count("ledger_checks", 1)
	switch e.Kind {
	case "ct":
		got, err := c17Decrypt(p, e.Ctx, e.AAD, e.S)
		switch {
		case err == nil && !bytes.Equal(got, e.PT):
			h.violate("C17-wrong-plaintext", fmt.Sprintf("ciphertext of step %d (v%d) decrypted to a different plaintext", e.Step, e.Ver))
		case err == nil && !want:
			cls := "C17-version-window"
			if why == "key_replaced" {
				cls = "C17-version-key-binding"
			}
			h.violate(cls, fmt.Sprintf("ciphertext of step %d labelled v%d was decrypted although it must be refused (%s)", e.Step, e.Ver, why))
		case err != nil && want:
			h.violate("C17-decrypt-refused", fmt.Sprintf("ciphertext of step %d labelled v%d must still decrypt but was refused: %v", e.Step, e.Ver, err))
		case err == nil:
			h.r.Count("hist_decrypt_ok", 1)
			if e.Ver < h.m.Latest {
				h.r.Count("hist_decrypt_ok_old_version", 1)
			}
			if h.saw[fmt.Sprintf("refused:%p", e)] {
				h.r.Count("hist_decrypt_ok_again_after_refusal", 1)
			}
		default:
			h.r.Count("hist_refused_"+why, 1)
			h.saw[fmt.Sprintf("refused:%p", e)] = true
		}
	case "sig":
		o := e.Opts
		ok, err := p.VerifySignatureWithOptions(e.Ctx, e.PT, e.S, &o)
		valid := err == nil && ok
		switch {
		case valid && !want:
			cls := "C17-version-window"
			if why == "key_replaced" {
				cls = "C17-version-key-binding"
			}
			h.violate(cls, fmt.Sprintf("signature of step %d labelled v%d verified although it must be refused (%s)", e.Step, e.Ver, why))
		case !valid && want:
			h.violate("C17-verify-refused", fmt.Sprintf("signature of step %d labelled v%d must still verify but did not (valid=%v err=%v)", e.Step, e.Ver, ok, err))
		case valid:
			h.r.Count("hist_verify_ok", 1)
		default:
			h.r.Count("hist_verify_refused_"+why, 1)
		}
		// a changed message never verifies
		msg := c17clone(e.PT)
		msg[0] ^= 1
		if ok, err := p.VerifySignatureWithOptions(e.Ctx, msg, e.S, &o); err == nil && ok {
			h.violate("C17-signature-binding", fmt.Sprintf("signature of step %d verified for a different message", e.Step))
		}
	}
}

func (h *c17Hist) checkLedger(p *Policy) {
	n := len(h.ledger)
	idx := map[int]bool{}
	// newest entry of every version plus a random sample
	last := map[int]int{}
	for i, e := range h.ledger {
		last[e.Ver*2+map[string]int{"ct": 0, "sig": 1}[e.Kind]] = i
	}
	for _, i := range last {
		idx[i] = true
	}
	for q := 0; q < 8 && q < n; q++ {
		idx[h.rng.Intn(n)] = true
	}
	order := make([]int, 0, len(idx))
	for i := range idx {
		order = append(order, i)
	}
	sort.Ints(order)
	for _, i := range order {
		h.checkEntry(p, h.ledger[i])
	}
}

// checkStorage: the serialised archive holds the private material of every
// version from the minimum available one to the latest, and no storage entry
// of this key holds material of trimmed versions.
func (h *c17Hist) checkStorage() {
	var arch, pol []byte
	if e, _ := h.k.raw.Get(h.k.ctx, "archive/"+h.k.name); e != nil {
		arch = e.Value
	}
	if e, _ := h.k.raw.Get(h.k.ctx, "policy/"+h.k.name); e != nil {
		pol = e.Value
	}
	lo := h.m.MinAvail
	if lo < 1 {
		lo = 1
	}
	for v, km := range h.m.Keys {
		inArch := bytes.Contains(arch, []byte(km.Needle))
		inPol := bytes.Contains(pol, []byte(km.Needle))
		switch {
		case v >= lo && v < h.limbo:
			h.r.Count("storage_limbo_after_failed_trim", 1)
		case v >= lo && v <= h.m.Latest:
			if !inArch {
				h.violate("C17-archive-missing-version", fmt.Sprintf("stored archive does not contain the key material of version %d, which is between the minimum available version and the latest", v))
			} else {
				h.r.Count("archive_has_version", 1)
			}
			if v >= h.m.MinDec && !inPol {
				h.violate("C17-archive-missing-version", fmt.Sprintf("stored policy does not contain the key material of usable version %d", v))
			}
		case v < lo:
			if inArch || inPol {
				h.violate("C17-trim-residue", fmt.Sprintf("key material of trimmed version %d is still in storage (archive=%v policy=%v)", v, inArch, inPol))
			} else {
				h.r.Count("trimmed_version_gone", 1)
			}
		}
	}
}

func (h *c17Hist) checkFields(p *Policy) {
	if p.LatestVersion != h.m.Latest || p.MinDecryptionVersion != h.m.MinDec || p.MinEncryptionVersion != h.m.MinEnc || p.MinAvailableVersion != h.m.MinAvail {
		h.violate("C17-policy-bookkeeping", fmt.Sprintf("policy says latest=%d min_dec=%d min_enc=%d min_avail=%d", p.LatestVersion, p.MinDecryptionVersion, p.MinEncryptionVersion, p.MinAvailableVersion))
	}
}

func (h *c17Hist) pickVersion() int {
	if h.forceLatest {
		return 0
	}
	switch h.rng.Intn(10) {
	case 0:
		return -1
	case 1:
		return h.m.Latest + 1
	case 2, 3, 4:
		return 0
	}
	return 1 + h.rng.Intn(h.m.Latest)
}

// expectProduce: may version k be used to encrypt/sign? 1 yes, 0 no, -1 either.
func (h *c17Hist) expectProduce(k int) int {
	switch {
	case k == 0:
		return 1
	case k < 0 || k > h.m.Latest:
		return 0
	case h.m.MinEnc > 0 && k < h.m.MinEnc:
		return 0
	case k < h.m.MinDec:
		return -1 // no minimum encryption version set: the property is silent
	}
	return 1
}

func (h *c17Hist) opEncrypt(p *Policy, step int) {
	s := h.k.spec
	k := h.pickVersion()
	size := []int{0, 1, 15, 16, 17, 64, 190}[h.rng.Intn(7)]
	pt := h.rng.Bytes(size)
	var aad []byte
	if s.Type.AssociatedDataSupported() && h.rng.Chance(1, 3) {
		aad = h.rng.Bytes(1 + h.rng.Intn(20))
	}
	ct, err := p.EncryptWithFactory(k, h.kctx, nil, c17b64(pt), c17factories(aad)...)
	h.log("encrypt key_version=%d size=%d aad=%d -> %.14q err=%v", k, size, len(aad), ct, err)
	exp := h.expectProduce(k)
	eff := k
	if eff == 0 {
		eff = h.m.Latest
	}
	if err != nil {
		if exp == 1 {
			h.violate("C17-encrypt-refused", fmt.Sprintf("encrypt with key version %d was refused: %v", k, err))
		} else if exp == 0 && k > 0 && k <= h.m.Latest {
			h.r.Count("hist_encrypt_refused_below_min_enc", 1)
		}
		return
	}
	lv, _, ok := c17Parse(ct, base64.StdEncoding)
	if exp == 0 {
		if k > 0 && k <= h.m.Latest {
			h.violate("C17-min-encryption-version", fmt.Sprintf("encrypt with key version %d below min_encryption_version %d succeeded (%.14q)", k, h.m.MinEnc, ct))
		} else {
			h.violate("C17-version-label", fmt.Sprintf("encrypt with key version %d outside 1..%d succeeded (%.14q)", k, h.m.Latest, ct))
		}
		return
	}
	if !ok || lv != eff {
		h.violate("C17-version-label", fmt.Sprintf("encrypt with key version %d produced label %.14q, expected v%d", k, ct, eff))
		return
	}
	if h.m.MinEnc > 0 && lv < h.m.MinEnc {
		h.violate("C17-min-encryption-version", fmt.Sprintf("ciphertext labelled v%d below min_encryption_version %d", lv, h.m.MinEnc))
	}
	h.r.Count("hist_encrypts", 1)
	if k != 0 && k < h.m.Latest {
		h.r.Count("hist_encrypts_explicit_old_version", 1)
	}
	e := &c17Entry{Kind: "ct", S: ct, Ver: lv, KeyID: h.m.Keys[lv].ID, PT: pt, Ctx: h.kctx, AAD: aad, Step: step}
	if s.Convergent {
		// determinism across the whole history: an equal earlier input under the same key must give the same string
		ct2, err2 := p.EncryptWithFactory(k, h.kctx, nil, c17b64(pt), c17factories(aad)...)
		if err2 != nil || ct2 != ct {
			h.violate("C17-convergent-nondeterministic", "re-encrypting the same input gave another ciphertext")
		}
		if ref, ok := c17RefConvergent(s, h.m.Keys[lv].Sym, h.kctx, aad, pt); ok {
			_, body, _ := c17Parse(ct, base64.StdEncoding)
			if !bytes.Equal(ref, body) {
				h.violate("C17-convergent-reference", fmt.Sprintf("convergent ciphertext v%d differs from the reference construction on that version's key", lv))
			} else {
				h.r.Count("hist_convergent_exact_match", 1)
			}
		}
	} else if s.isSym() {
		_, body, _ := c17Parse(ct, base64.StdEncoding)
		if ref, rerr := c17RefOpen(s, h.m.Keys[lv].Sym, h.kctx, aad, body); rerr == nil && bytes.Equal(ref, pt) {
			h.r.Count("hist_ref_reopen_ok", 1)
		} else if rerr == nil || rerr.Error() != "no reference" {
			h.violate("C17-ref-reopen", fmt.Sprintf("ciphertext labelled v%d does not open to the plaintext with version %d's key under the reference construction (%v)", lv, lv, rerr))
		}
	}
	h.ledger = append(h.ledger, e)
}

func (h *c17Hist) sigOpts() (SigningOptions, []byte) {
	s := h.k.spec
	o := SigningOptions{HashAlgorithm: HashTypeSHA2256, Marshaling: MarshalingTypeASN1}
	msg := h.rng.Bytes(32)
	switch {
	case s.isRSA():
		o.SigAlgorithm = []string{"pss", "pkcs1v15", ""}[h.rng.Intn(3)]
		o.SaltLength = []int{rsa.PSSSaltLengthAuto, rsa.PSSSaltLengthEqualsHash, 20}[h.rng.Intn(3)]
	case s.Type == KeyType_ED25519:
		msg = h.rng.Bytes(1 + h.rng.Intn(100))
		fallthrough
	default:
		if h.rng.Chance(1, 2) {
			o.Marshaling = MarshalingTypeJWS
		}
	}
	return o, msg
}

func (h *c17Hist) opSign(p *Policy, step int) {
	k := h.pickVersion()
	o, msg := h.sigOpts()
	res, err := p.SignWithOptions(k, h.kctx, msg, &o)
	sig := ""
	if res != nil {
		sig = res.Signature
	}
	h.log("sign key_version=%d alg=%q salt=%d marsh=%d -> %.14q err=%v", k, o.SigAlgorithm, o.SaltLength, o.Marshaling, sig, err)
	exp := h.expectProduce(k)
	eff := k
	if eff == 0 {
		eff = h.m.Latest
	}
	if err != nil {
		if exp == 1 {
			h.violate("C17-sign-refused", fmt.Sprintf("sign with key version %d was refused: %v", k, err))
		} else if exp == 0 && k > 0 && k <= h.m.Latest {
			h.r.Count("hist_sign_refused_below_min_enc", 1)
		}
		return
	}
	enc := base64.StdEncoding
	if o.Marshaling == MarshalingTypeJWS {
		enc = base64.RawURLEncoding
	}
	lv, raw, ok := c17Parse(sig, enc)
	if exp == 0 {
		h.violate("C17-min-encryption-version", fmt.Sprintf("sign with key version %d (min_encryption_version %d, latest %d) succeeded", k, h.m.MinEnc, h.m.Latest))
		return
	}
	if !ok || lv != eff {
		h.violate("C17-version-label", fmt.Sprintf("sign with key version %d produced label %.14q, expected v%d", k, sig, eff))
		return
	}
	var derivedPub ed25519.PublicKey
	if res != nil {
		derivedPub = res.PublicKey
	}
	if why := c17RefVerify(h.k.spec, h.m.Keys[lv], h.kctx, msg, raw, o, derivedPub); why != "" {
		h.violate("C17-sig-reference", fmt.Sprintf("signature labelled v%d does not verify with version %d's public key using the standard library directly: %s", lv, lv, why))
	} else {
		h.r.Count("hist_sig_ref_verified", 1)
	}
	h.r.Count("hist_signs", 1)
	h.ledger = append(h.ledger, &c17Entry{Kind: "sig", S: sig, Ver: lv, KeyID: h.m.Keys[lv].ID, PT: msg, Ctx: h.kctx, Opts: o, Step: step})
}

// c17RefVerify checks raw signature bytes with the standard library against
// the public key remembered for that version. "" = valid.
func c17RefVerify(s c17Spec, km *c17Material, kctx, msg, raw []byte, o SigningOptions, reportedPub []byte) string {
	switch {
	case km.RSAPub != nil:
		h := CryptoHashMap[o.HashAlgorithm]
		if o.SigAlgorithm == "pkcs1v15" {
			if err := rsa.VerifyPKCS1v15(km.RSAPub, h, msg, raw); err != nil {
				return err.Error()
			}
			return ""
		}
		if err := rsa.VerifyPSS(km.RSAPub, h, msg, raw, &rsa.PSSOptions{SaltLength: rsa.PSSSaltLengthAuto}); err != nil {
			return err.Error()
		}
		return ""
	case km.ECPub != nil:
		if o.Marshaling == MarshalingTypeJWS {
			n := (km.ECPub.Curve.Params().BitSize + 7) / 8
			if len(raw) != 2*n {
				return fmt.Sprintf("jws signature is %d bytes, want %d", len(raw), 2*n)
			}
			if !ecdsa.Verify(km.ECPub, msg, new(big.Int).SetBytes(raw[:n]), new(big.Int).SetBytes(raw[n:])) {
				return "ecdsa.Verify false"
			}
			return ""
		}
		if !ecdsa.VerifyASN1(km.ECPub, msg, raw) {
			return "ecdsa.VerifyASN1 false"
		}
		return ""
	case s.Type == KeyType_ED25519:
		pub := km.EdPub
		if s.Derived {
			seed := make([]byte, ed25519.SeedSize)
			if _, err := io.ReadFull(hkdf.New(sha256.New, km.Sym, nil, kctx), seed); err != nil {
				return err.Error()
			}
			pub = ed25519.NewKeyFromSeed(seed).Public().(ed25519.PublicKey)
			if len(reportedPub) > 0 && !bytes.Equal(reportedPub, pub) {
				return "reported derived public key differs from HKDF(version key, context)"
			}
		}
		if len(pub) != ed25519.PublicKeySize || !ed25519.Verify(pub, msg, raw) {
			return "ed25519.Verify false"
		}
		return ""
	}
	return "no reference for key type"
}

var c17HistSpecs = []c17Spec{
	{Type: KeyType_AES256_GCM96},
	{Type: KeyType_AES256_GCM96, Derived: true, KDF: Kdf_hkdf_sha256},
	{Type: KeyType_AES256_GCM96, Derived: true, Convergent: true, KDF: Kdf_hkdf_sha256},
	{Type: KeyType_AES128_GCM96},
	{Type: KeyType_AES128_GCM96, Derived: true, Convergent: true, KDF: Kdf_hkdf_sha256},
	{Type: KeyType_ChaCha20_Poly1305, Derived: true, KDF: Kdf_hkdf_sha256},
	{Type: KeyType_ChaCha20_Poly1305, Derived: true, KDF: Kdf_hmac_sha256_counter},
	{Type: KeyType_XChaCha20_Poly1305},
	{Type: KeyType_XChaCha20_Poly1305, Derived: true, Convergent: true, KDF: Kdf_hkdf_sha256},
	{Type: KeyType_ED25519},
	{Type: KeyType_ED25519, Derived: true, KDF: Kdf_hkdf_sha256},
	{Type: KeyType_ECDSA_P256},
	{Type: KeyType_ECDSA_P384},
	{Type: KeyType_ECDSA_P521},
	{Type: KeyType_RSA2048},
}

func TestVerif_C17_History(t *testing.T) {
	seed := kit.Seed(17)
	shard := c17Shard()
	r := kit.NewResult(t, "c17-policy-history", seed, "case = one seeded history of 30 operations on one keysutil policy (rotate, raise/lower min_decryption_version, set min_encryption_version, trim via min_available_version, backup, restore of an earlier backup (with force: name given or taken from the backup, on the cached policy / a new lock manager / after invalidation; without force: must be refused and change nothing), cache drop/reload, encrypt, sign, invalid settings that Persist must reject) with cached and cache-less lock managers; in two thirds of the histories the storage is a wrapper that makes one PRNG-chosen storage operation (#0..6) of a rotate/config/trim/backup/restore fail once, the caller rolls its field change back as the transit handlers do and retries; plus fixed scenarios in which EVERY storage-operation index of rotate / raise min_dec / lower min_dec / trim / restore / backup is failed in turn and the ring is then rotated, used, raised to latest and lowered again. After every operation (including a failed one) every remembered ciphertext/signature (newest per version + sample) is replayed: it must decrypt/verify to the original iff min_dec <= version <= latest and that version still holds the key that produced it, encrypt/sign must refuse versions below min_encryption_version, labels must equal the version used, the stored archive must contain the private material of every version in [min_available, latest] and storage must hold none of trimmed versions; a history is non-trivial when its operation sequence is distinct")
	defer r.Write(t)
	ctx := context.Background()
	scenSpecs := []c17Spec{{Type: KeyType_AES256_GCM96}, {Type: KeyType_ChaCha20_Poly1305, Derived: true, KDF: Kdf_hkdf_sha256}, {Type: KeyType_AES128_GCM96, Derived: true, Convergent: true, KDF: Kdf_hkdf_sha256}, {Type: KeyType_ED25519}}
	if kit.Tier() == "thorough" {
		scenSpecs = append(scenSpecs, c17HistSpecs[3], c17HistSpecs[6], c17HistSpecs[7], c17HistSpecs[10], c17HistSpecs[11], c17HistSpecs[14])
	}
	for si, spec := range scenSpecs {
		for _, noCache := range []bool{false, true} {
			for _, kind := range c17ScenarioKinds {
				for k := 0; k < 40; k++ {
					id := fmt.Sprintf("pscen:%d:%s:%v:%s:%d", shard, spec.name(), noCache, kind, k)
					if !kit.WantCase(id) {
						continue
					}
					rng := kit.NewRand(seed, 1767000+uint64(si)*100+uint64(k)+100000*uint64(shard))
					if !c17RunScenario(ctx, r, rng, id, spec, noCache, kind, k) {
						break
					}
				}
				r.Count("scenario_requests_fully_enumerated", 1)
			}
		}
	}
	n := kit.N(240, 3000)
	for i := 0; i < n; i++ {
		id := fmt.Sprintf("hist:%d:%d", shard, i)
		if !kit.WantCase(id) {
			continue
		}
		rng := kit.NewRand(seed, 1717000+uint64(i)+100000*uint64(shard))
		spec := c17HistSpecs[i%len(c17HistSpecs)]
		if spec.isRSA() && i >= kit.N(4, 12)*len(c17HistSpecs) {
			spec = c17HistSpecs[rng.Intn(len(c17HistSpecs)-1)]
		}
		c17RunHistory(ctx, r, rng, id, spec, (i/len(c17HistSpecs))%2 == 1, i%3 != 0)
	}
	r.Require("hist_decrypt_ok_old_version", 300)
	r.Require("hist_refused_below_min_dec", 100)
	r.Require("hist_refused_too_new", 10)
	r.Require("hist_refused_key_replaced", 10)
	r.Require("hist_decrypt_ok_again_after_refusal", 20)
	r.Require("hist_encrypt_refused_below_min_enc", 20)
	r.Require("hist_verify_ok", 100)
	r.Require("hist_sig_ref_verified", 50)
	r.Require("trimmed_version_gone", 20)
	r.Require("archive_has_version", 1000)
	r.Require("restores", 20)
	r.Require("unforced_restore_refused", 20)
	r.Require("unforced_restore_refused:new lock manager:name_given=false", 2)
	r.Require("forced_restore:new lock manager:name_given=false", 2)
	r.Require("invalid_setting_rejected", 20)
	r.Require("fault_failed_request:rotate", 20)
	r.Require("fault_failed_request:config", 20)
	r.Require("fault_failed_request:trim", 5)
	r.Require("fault_failed_request:restore", 10)
	r.Require("fault_fired:rotate:put_policy", 5)
	r.Require("fault_fired:rotate:put_archive", 5)
	r.Require("fault_retried:rotate", 20)
	r.Require("scenario_requests_fully_enumerated", 30)
}

var c17ScenarioKinds = []string{"rotate", "raise-min-dec", "lower-min-dec", "trim", "restore", "backup"}

type c17BackupP struct {
	blob string
	m    *c17Model
}

func (h *c17Hist) checkNow() {
	if h.bad {
		return
	}
	if err := h.k.with(false, func(p *Policy) error {
		h.checkFields(p)
		h.checkLedger(p)
		return nil
	}); err != nil {
		h.violate("C17-policy-unloadable", fmt.Sprintf("policy can no longer be loaded: %v", err))
	}
	if !h.bad {
		h.checkStorage()
	}
}

// faulted runs one mutating operation with the k-th storage operation failing
// once (k < 0: none). do must leave the model untouched when it returns an
// error. After a failure caused by the fault the unchanged model is checked
// against the policy (unless the state cannot be known: half-done restore)
// and the caller retries.
func (h *c17Hist) faulted(kind string, k int, unknownAfterFail bool, do func() error) (err error, fired bool) {
	defer func() { h.onFaultFail, h.onFaultRetry = nil, nil }()
	fs := h.k.fs
	if fs == nil || k < 0 {
		return do(), false
	}
	fs.arm(k)
	err = do()
	var what string
	fired, what = fs.disarm()
	if !fired {
		return err, false
	}
	h.r.Count("fault_fired:"+kind+":"+what, 1)
	if err == nil {
		h.r.Count("fault_tolerated:"+kind, 1)
		return nil, true
	}
	h.r.Count("fault_failed_request:"+kind, 1)
	h.log("  storage fault on %s (op #%d) made the %s fail (%v); model unchanged; the caller retries", what, k, kind, err)
	if h.onFaultFail != nil {
		h.onFaultFail(what)
	}
	if !unknownAfterFail {
		h.checkNow()
	}
	if h.onFaultRetry != nil {
		h.onFaultRetry()
	}
	if h.bad {
		return nil, true
	}
	fs.arm(-1)
	err = do()
	h.r.Count("fault_retried:"+kind, 1)
	if kind == "trim" && err == nil && !h.bad {
		h.afterRetriedTrim(what)
	}
	if kind == "trim" && err != nil && !h.bad && what == "put_policy" && h.k.noCache {
		// known signature (see afterRetriedTrim): the second trim slices the already trimmed archive again
		h.violate("C17-trim-retry-after-policy-write-fault", fmt.Sprintf("cache-less: a trim failed on the policy write after the trimmed archive had been written; the retried trim slices the already trimmed archive again and fails: %v", err))
		err = nil
	}
	return err, true
}

// afterRetriedTrim looks at the archive layout right after a trim whose first
// attempt failed on an injected fault and whose retry succeeded: entry
// [v - min_available_version] of the stored archive must be version v's key
// for every v in [min_available, latest]. Two precise failure signatures of
// the unchanged tree are classified on their own.
func (h *c17Hist) afterRetriedTrim(what string) {
	why := ""
	if err := h.k.with(false, func(p *Policy) error {
		arch, err := p.LoadArchive(h.k.ctx, h.k.raw)
		if err != nil {
			return err
		}
		lo := h.m.MinAvail
		if lo < 1 {
			lo = 1
		}
		for v := lo; v <= h.m.Latest && why == ""; v++ {
			i := v - p.MinAvailableVersion
			switch {
			case i < 0 || i >= len(arch.Keys):
				why = fmt.Sprintf("the archive has %d entries, version %d (index %d with min_available_version %d) is outside it", len(arch.Keys), v, i, p.MinAvailableVersion)
			case c17NeedleOf(arch.Keys[i], p.Type) != h.m.Keys[v].Needle:
				why = fmt.Sprintf("archive entry %d (= version %d with min_available_version %d) does not hold version %d's key", i, v, p.MinAvailableVersion, v)
			}
		}
		return nil
	}); err != nil {
		why = err.Error()
	}
	if why == "" {
		h.r.Count("archive_index_ok_after_retried_trim", 1)
		return
	}
	switch {
	case what == "put_archive" && !h.k.noCache:
		h.violate("C17-trim-retry-after-archive-write-fault", "cached policy: a trim failed because the archive write failed; Persist does not roll the in-memory ArchiveMinVersion back, so the retried trim succeeded without trimming/re-basing the stored archive: "+why)
	case what == "put_policy" && h.k.noCache:
		h.violate("C17-trim-retry-after-policy-write-fault", "cache-less: a trim failed on the policy write after the trimmed archive had been written; the retried trim (policy reloaded from storage) trimmed the archive a second time: "+why)
	default:
		h.violate("C17-archive-index", fmt.Sprintf("after a trim that failed on %s and was retried: %s", what, why))
	}
}

func (h *c17Hist) pickFault() int {
	if h.k.fs != nil && h.rng.Chance(2, 5) {
		return h.rng.Intn(7)
	}
	return -1
}

func (h *c17Hist) doRotate() error {
	return h.k.with(true, func(p *Policy) error {
		if err := p.Rotate(h.k.ctx, h.k.st, crand.Reader); err != nil {
			return err
		}
		m, err := c17Capture(p, p.LatestVersion)
		if err != nil {
			return err
		}
		h.m.Latest++
		h.m.Keys[h.m.Latest] = m
		h.r.Count("rotations", 1)
		return nil
	})
}

// setField applies one field change the way the transit handlers do: set,
// Persist, roll the field back when Persist refuses.
func (h *c17Hist) setField(which string, v int) (err error) {
	defer func() {
		if pv := recover(); pv != nil {
			err = fmt.Errorf("PANIC: %v", pv)
		}
	}()
	return h.k.with(true, func(p *Policy) error {

		var f *int
		switch which {
		case "min_dec":
			f = &p.MinDecryptionVersion
		case "min_enc":
			f = &p.MinEncryptionVersion
		default:
			f = &p.MinAvailableVersion
		}
		old := *f
		*f = v
		if err := p.Persist(h.k.ctx, h.k.st); err != nil {
			*f = old
			return err
		}
		switch which {
		case "min_dec":
			if v > h.m.MinDec {
				h.r.Count("min_dec_raised", 1)
			} else if v < h.m.MinDec {
				h.r.Count("min_dec_lowered", 1)
			}
			h.m.MinDec = v
		case "min_enc":
			h.m.MinEnc = v
		default:
			if v > 1 && v > h.m.MinAvail {
				h.r.Count("trims_effective", 1)
			}
			h.m.MinAvail = v
		}
		return nil
	})
}

func (h *c17Hist) trimHooks(v int) {
	h.onFaultFail = func(what string) { h.limbo, h.trimFault = v, what }
	h.onFaultRetry = func() { h.limbo = 0 }
}

func (h *c17Hist) doBackup() error {
	blob, err := h.k.lm.BackupPolicy(h.k.ctx, h.k.st, h.k.name)
	if err != nil {
		return err
	}
	h.backups = append(h.backups, c17BackupP{blob, h.m.clone()})
	h.r.Count("backups", 1)
	return nil
}

func (h *c17Hist) doRestore(b c17BackupP) error {
	// the name is given explicitly or taken from the backup (the backups of a
	// history are all of this key)
	name := h.k.name
	if h.restoreNoName {
		name = ""
	}
	if err := h.k.lm.RestorePolicy(h.k.ctx, h.k.st, name, b.blob, true); err != nil {
		return err
	}
	h.m = b.m.clone()
	h.trimFault = ""
	h.r.Count("restores", 1)
	return nil
}

func c17NewHist(ctx context.Context, r *kit.Result, rng *kit.Rand, id string, spec c17Spec, noCache, faults bool) *c17Hist {
	k, err := c17NewRingF(ctx, "h", spec, noCache, faults)
	if err != nil {
		r.Inconc("%s: cannot create key: %v", id, err)
		return nil
	}
	h := &c17Hist{r: r, rng: rng, id: id, k: k, m: &c17Model{Latest: 1, MinDec: 1, Keys: map[int]*c17Material{}}, saw: map[string]bool{}}
	if spec.Derived {
		h.kctx = rng.Bytes(1 + rng.Intn(32))
	}
	if err := k.with(false, func(p *Policy) error {
		m, err := c17Capture(p, 1)
		h.m.Keys[1] = m
		return err
	}); err != nil {
		r.Inconc("%s: %v", id, err)
		return nil
	}
	h.log("create %s nocache=%v faults=%v", spec.name(), noCache, faults)
	return h
}

// c17RunScenario: a fixed history in which storage operation #k of one
// maintenance operation fails once; false when there is no k-th operation.
func c17RunScenario(ctx context.Context, r *kit.Result, rng *kit.Rand, id string, spec c17Spec, noCache bool, kind string, k int) bool {
	h := c17NewHist(ctx, r, rng, id, spec, noCache, true)
	if h == nil {
		return false
	}
	r.Eval(1)
	r.Nontrivial(id)
	h.forceLatest = true
	step := 0
	produce := func() {
		step++
		if h.bad {
			return
		}
		_ = h.k.with(false, func(p *Policy) error {
			if spec.Type.EncryptionSupported() {
				h.opEncrypt(p, step)
			}
			if spec.Type.SigningSupported() && !h.bad {
				h.opSign(p, step)
			}
			return nil
		})
		h.checkNow()
	}
	plain := func(what string, f func() error) {
		if h.bad {
			return
		}
		err := f()
		h.log("%s err=%v", what, err)
		if err != nil {
			h.violate("C17-config-refused", fmt.Sprintf("%s failed without any fault: %v", what, err))
		}
		h.checkNow()
	}
	fired := false
	target := func(kindName, what string, unknown bool, f func() error) {
		if h.bad {
			return
		}
		var err error
		err, fired = h.faulted(kindName, k, unknown, f)
		h.log("%s (fault at op #%d fired=%v) err=%v", what, k, fired, err)
		if err != nil && !h.bad {
			h.violate("C17-config-refused", fmt.Sprintf("%s still fails when retried without a fault: %v", what, err))
		}
		h.checkNow()
	}
	produce()
	plain("rotate", h.doRotate)
	produce()
	plain("backup", h.doBackup)
	switch kind {
	case "rotate":
		target("rotate", "rotate", false, h.doRotate)
	case "raise-min-dec":
		plain("rotate", h.doRotate)
		produce()
		target("config", "min_decryption_version=3", false, func() error { return h.setField("min_dec", 3) })
	case "lower-min-dec":
		plain("rotate", h.doRotate)
		produce()
		plain("min_decryption_version=3", func() error { return h.setField("min_dec", 3) })
		target("config", "min_decryption_version=1", false, func() error { return h.setField("min_dec", 1) })
	case "trim":
		plain("rotate", h.doRotate)
		produce()
		plain("min_encryption_version=3", func() error { return h.setField("min_enc", 3) })
		plain("min_decryption_version=2", func() error { return h.setField("min_dec", 2) })
		h.trimHooks(2)
		target("trim", "min_available_version=2", false, func() error { return h.setField("min_avail", 2) })
	case "restore":
		plain("rotate", h.doRotate)
		produce()
		if len(h.backups) > 0 {
			b := h.backups[0]
			target("restore", "restore first backup", true, func() error { return h.doRestore(b) })
		}
	case "backup":
		plain("rotate", h.doRotate)
		target("backup", "backup", false, h.doBackup)
	}
	produce()
	plain("rotate", h.doRotate)
	produce()
	plain("rotate", h.doRotate)
	produce()
	lo := h.m.MinAvail
	if lo < 1 {
		lo = 1
	}
	plain("min_encryption_version=latest", func() error { return h.setField("min_enc", h.m.Latest) })
	plain("min_decryption_version=latest", func() error { return h.setField("min_dec", h.m.Latest) })
	produce()
	plain("min_decryption_version=lowest", func() error { return h.setField("min_dec", lo) })
	produce()
	if len(h.backups) > 0 {
		b := h.backups[len(h.backups)-1]
		plain("restore last backup", func() error { return h.doRestore(b) })
		plain("rotate", h.doRotate)
		produce()
	}
	r.Count("scenarios", 1)
	if fired {
		r.Count("scenarios_with_fault", 1)
	}
	return fired
}

func c17RunHistory(ctx context.Context, r *kit.Result, rng *kit.Rand, id string, spec c17Spec, noCache, faults bool) {
	h := c17NewHist(ctx, r, rng, id, spec, noCache, faults)
	if h == nil {
		return
	}
	k := h.k
	signing := spec.Type.SigningSupported()
	encrypting := spec.Type.EncryptionSupported()
	nops := 30
	var sig strings.Builder
	r.Eval(1)
	for step := 1; step <= nops && !h.bad; step++ {
		op := rng.Intn(100)
		switch {
		case op < 16: // rotate
			sig.WriteString("R")
			err, _ := h.faulted("rotate", h.pickFault(), false, h.doRotate)
			h.log("rotate -> latest %d err=%v", h.m.Latest, err)
			if err != nil && !h.bad {
				h.violate("C17-rotate-failed", fmt.Sprintf("rotate failed: %v", err))
			}
		case op < 28: // min_decryption_version (legal values)
			hi := h.m.Latest
			if h.m.MinEnc > 0 && h.m.MinEnc < hi {
				hi = h.m.MinEnc
			}
			lo := 1
			if h.m.MinAvail > lo {
				lo = h.m.MinAvail
			}
			d := lo + rng.Intn(hi-lo+1)
			sig.WriteString(fmt.Sprintf("D%d", d))
			err, _ := h.faulted("config", h.pickFault(), false, func() error { return h.setField("min_dec", d) })
			h.log("min_decryption_version=%d err=%v", d, err)
			if err != nil && !h.bad {
				h.violate("C17-config-refused", fmt.Sprintf("legal min_decryption_version %d refused: %v", d, err))
			}
		case op < 38: // min_encryption_version (legal values)
			e := h.m.MinDec + rng.Intn(h.m.Latest-h.m.MinDec+1)
			if h.m.MinAvail == 0 && rng.Chance(1, 5) {
				e = 0
			}
			sig.WriteString(fmt.Sprintf("E%d", e))
			err, _ := h.faulted("config", h.pickFault(), false, func() error { return h.setField("min_enc", e) })
			h.log("min_encryption_version=%d err=%v", e, err)
			if err != nil && !h.bad {
				h.violate("C17-config-refused", fmt.Sprintf("legal min_encryption_version %d refused: %v", e, err))
			}
		case op < 47: // trim
			if h.m.MinEnc == 0 {
				continue
			}
			hi := h.m.MinDec
			if h.m.MinEnc < hi {
				hi = h.m.MinEnc
			}
			lo := h.m.MinAvail
			if lo < 1 {
				lo = 1
			}
			if hi < lo {
				continue
			}
			m := lo + rng.Intn(hi-lo+1)
			if m < hi && rng.Chance(1, 2) {
				m = hi
			}
			sig.WriteString(fmt.Sprintf("T%d", m))
			h.trimHooks(m)
			err, _ := h.faulted("trim", h.pickFault(), false, func() error { return h.setField("min_avail", m) })
			h.log("trim min_available_version=%d err=%v", m, err)
			if err != nil && !h.bad {
				h.violate("C17-config-refused", fmt.Sprintf("legal min_available_version %d refused: %v", m, err))
			}
		case op < 52: // settings Persist must reject; nothing may change
			sig.WriteString("X")
			which := rng.Intn(3)
			err := k.with(true, func(p *Policy) error {
				od, oe := p.MinDecryptionVersion, p.MinEncryptionVersion
				switch which {
				case 0:
					p.MinDecryptionVersion = p.LatestVersion + 1 + rng.Intn(3)
				case 1:
					p.MinDecryptionVersion = 0
				case 2:
					if p.MinDecryptionVersion < 2 {
						p.MinDecryptionVersion, p.MinEncryptionVersion = od, oe
						return fmt.Errorf("skip")
					}
					p.MinEncryptionVersion = p.MinDecryptionVersion - 1
				}
				err := p.Persist(ctx, k.st)
				p.MinDecryptionVersion, p.MinEncryptionVersion = od, oe
				return err
			})
			h.log("invalid setting kind %d -> err=%v", which, err)
			if err == nil {
				h.violate("C17-invalid-config-accepted", fmt.Sprintf("Persist accepted an invalid version window (kind %d: 0=min_dec>latest 1=min_dec=0 2=0<min_enc<min_dec)", which))
			} else if err.Error() != "skip" {
				r.Count("invalid_setting_rejected", 1)
			}
		case op < 58: // backup
			sig.WriteString("B")
			err, _ := h.faulted("backup", h.pickFault(), false, h.doBackup)
			h.log("backup err=%v", err)
			if err != nil && !h.bad {
				h.violate("C17-backup-failed", fmt.Sprintf("backup of an exportable key failed: %v", err))
			}
		case op < 64: // restore (forced) of any earlier backup
			if len(h.backups) == 0 {
				continue
			}
			b := h.backups[rng.Intn(len(h.backups))]
			// matrix: {name given, taken from the backup} x {force, no force} x
			// {policy as cached (or cache disabled), new lock manager on the same
			// storage, invalidated}
			h.restoreNoName = rng.Chance(1, 2)
			force := rng.Chance(3, 5)
			how := "as-is"
			switch rng.Intn(4) {
			case 0:
				how = "new lock manager"
				k.reload()
			case 1:
				how = "invalidated"
				k.lm.InvalidatePolicy(k.name)
			}
			if !force {
				name := k.name
				if h.restoreNoName {
					name = ""
				}
				sig.WriteString("s")
				err := k.lm.RestorePolicy(ctx, k.st, name, b.blob, false)
				h.log("restore WITHOUT force name=%q (%s) backup(latest=%d min_dec=%d min_avail=%d) err=%v", name, how, b.m.Latest, b.m.MinDec, b.m.MinAvail, err)
				if err == nil {
					h.violate("C17-unforced-restore-replaced-existing-key", fmt.Sprintf("restore without force (name %q, policy %s, cache disabled=%v) of a backup (latest=%d min_dec=%d) onto the existing key was accepted", name, how, noCache, b.m.Latest, b.m.MinDec))
				} else {
					r.Count("unforced_restore_refused:"+how+fmt.Sprintf(":name_given=%v", !h.restoreNoName), 1)
					r.Count("unforced_restore_refused", 1)
				}
				h.checkNow()
				continue
			}
			r.Count("forced_restore:"+how+fmt.Sprintf(":name_given=%v", !h.restoreNoName), 1)
			sig.WriteString("S")
			err, _ := h.faulted("restore", h.pickFault(), true, func() error { return h.doRestore(b) })
			h.log("restore backup(latest=%d min_dec=%d min_avail=%d) err=%v", b.m.Latest, b.m.MinDec, b.m.MinAvail, err)
			if err != nil && !h.bad {
				h.violate("C17-restore-failed", fmt.Sprintf("forced restore failed: %v", err))
			}
		case op < 69: // restart
			sig.WriteString("L")
			k.reload()
			h.log("reload (drop cached policy objects)")
			r.Count("reloads", 1)
		case encrypting && (!signing || op < 88):
			sig.WriteString("e")
			_ = k.with(false, func(p *Policy) error { h.opEncrypt(p, step); return nil })
		default:
			sig.WriteString("s")
			_ = k.with(false, func(p *Policy) error { h.opSign(p, step); return nil })
		}
		h.checkNow()
	}
	r.Nontrivial(spec.name() + fmt.Sprint(noCache, faults) + sig.String())
	r.Count("histories", 1)
	if faults {
		r.Count("histories_with_fault_storage", 1)
	}
	if id[len(id)-2:] == ":0" {
		st := h.steps
		if len(st) > 12 {
			st = st[:12]
		}
		r.Sample(map[string]any{"history": id, "first_steps": st, "ledger_entries": len(h.ledger)})
	}
}

// ---------------------------------------------------------- sign / verify

func c17HashSize(h HashType) int {
	if h == HashTypeNone {
		return 32
	}
	return CryptoHashMap[h].Size()
}

func c17EffSalt(bits int, h HashType, salt int, signing bool) int {
	hs := CryptoHashMap[h].Size()
	switch salt {
	case rsa.PSSSaltLengthEqualsHash:
		return hs
	case rsa.PSSSaltLengthAuto:
		if signing {
			return (bits-1+7)/8 - 2 - hs
		}
		return -2 // verifier detects
	}
	return salt
}

func TestVerif_C17_SignVerify(t *testing.T) {
	seed := kit.Seed(17)
	shard := c17Shard()
	r := kit.NewResult(t, "c17-policy-signverify", seed, "case = (signing key type, key version, hash, signature algorithm, salt length, marshaling, message) on keysutil.Policy; per case: sign, the raw signature must verify with the standard library against the public key remembered for the labelled version, Policy verify must say valid for the same parameters and not valid for each changed parameter (message bit, version label, hash of equal digest size, pss<->pkcs1v15, salt length unless the verifier uses 'auto', marshaling when it changes the decoded bytes, derivation context) and for ~70 mutants of the signature string unless they decode to the same (version, bytes); non-trivial when the tuple is distinct")
	defer r.Write(t)
	ctx := context.Background()
	specs := []c17Spec{{Type: KeyType_ECDSA_P256}, {Type: KeyType_ECDSA_P384}, {Type: KeyType_ECDSA_P521}, {Type: KeyType_ED25519}, {Type: KeyType_ED25519, Derived: true, KDF: Kdf_hkdf_sha256}, {Type: KeyType_RSA2048}}
	if kit.Tier() == "thorough" {
		switch shard {
		case 0, 2:
			specs = append(specs, c17Spec{Type: KeyType_RSA3072})
		case 1, 3:
			specs = append(specs, c17Spec{Type: KeyType_RSA4096})
		}
	}
	for si, s := range specs {
		id := fmt.Sprintf("sv:%d:%s", shard, s.name())
		if !kit.WantCase(id) {
			continue
		}
		rng := kit.NewRand(seed, 1727000+uint64(si)+1000*uint64(shard))
		c17SignVerifySpec(ctx, r, rng, id, s)
	}
	r.Require("sign_verify_ok", 150)
	r.Require("sig_ref_verified", 150)
	r.Require("changed_param_not_valid", 600)
	r.Require("sig_mutant_not_valid", 5000)
	r.Require("verifier_auto_salt_valid", 10)
}

type c17SigCase struct {
	o   SigningOptions
	msg []byte
}

func c17SignVerifySpec(ctx context.Context, r *kit.Result, rng *kit.Rand, id string, s c17Spec) {
	k, err := c17NewRing(ctx, "s", s, false)
	if err != nil {
		r.Inconc("%s: cannot create key: %v", id, err)
		return
	}
	nver := 3
	if s.isRSA() {
		nver = 2
	}
	mats := map[int]*c17Material{}
	if err := k.with(true, func(p *Policy) error {
		for v := 1; v <= nver; v++ {
			if v > 1 {
				if err := p.Rotate(ctx, k.st, crand.Reader); err != nil {
					return err
				}
			}
			m, err := c17Capture(p, v)
			if err != nil {
				return err
			}
			mats[v] = m
		}
		return nil
	}); err != nil {
		r.Inconc("%s: %v", id, err)
		return
	}
	var kctx, kctx2 []byte
	if s.Derived {
		kctx, kctx2 = rng.Bytes(1+rng.Intn(30)), rng.Bytes(1+rng.Intn(30))
	}
	bits := c17RSABits(s.Type)
	var cases []c17SigCase
	switch {
	case s.isRSA():
		hashes := []HashType{HashTypeSHA1, HashTypeSHA2224, HashTypeSHA2256, HashTypeSHA2384, HashTypeSHA2512, HashTypeSHA3224, HashTypeSHA3256, HashTypeSHA3384, HashTypeSHA3512}
		for _, h := range hashes {
			msg := rng.Bytes(c17HashSize(h))
			for _, salt := range []int{rsa.PSSSaltLengthAuto, rsa.PSSSaltLengthEqualsHash, 1 + rng.Intn(40), (bits-1+7)/8 - 2 - CryptoHashMap[h].Size()} {
				cases = append(cases, c17SigCase{SigningOptions{HashAlgorithm: h, Marshaling: MarshalingTypeASN1, SigAlgorithm: "pss", SaltLength: salt}, msg})
			}
			cases = append(cases, c17SigCase{SigningOptions{HashAlgorithm: h, Marshaling: MarshalingTypeASN1, SigAlgorithm: "pkcs1v15"}, msg})
			cases = append(cases, c17SigCase{SigningOptions{HashAlgorithm: h, Marshaling: MarshalingTypeJWS, SigAlgorithm: ""}, msg})
		}
		cases = append(cases, c17SigCase{SigningOptions{HashAlgorithm: HashTypeNone, Marshaling: MarshalingTypeASN1, SigAlgorithm: "pkcs1v15"}, rng.Bytes(32)})
	case s.Type == KeyType_ED25519:
		for _, n := range []int{0, 1, 32, 64, 1000} {
			for _, m := range []MarshalingType{MarshalingTypeASN1, MarshalingTypeJWS} {
				cases = append(cases, c17SigCase{SigningOptions{HashAlgorithm: HashTypeSHA2256, Marshaling: m}, rng.Bytes(n)})
			}
		}
	default:
		for _, h := range []HashType{HashTypeSHA1, HashTypeSHA2224, HashTypeSHA2256, HashTypeSHA2384, HashTypeSHA2512, HashTypeSHA3256} {
			for _, m := range []MarshalingType{MarshalingTypeASN1, MarshalingTypeJWS} {
				cases = append(cases, c17SigCase{SigningOptions{HashAlgorithm: h, Marshaling: m}, rng.Bytes(c17HashSize(h))})
			}
		}
	}
	sameSizeHash := map[HashType]HashType{HashTypeSHA2224: HashTypeSHA3224, HashTypeSHA3224: HashTypeSHA2224, HashTypeSHA2256: HashTypeSHA3256, HashTypeSHA3256: HashTypeSHA2256, HashTypeSHA2384: HashTypeSHA3384, HashTypeSHA3384: HashTypeSHA2384, HashTypeSHA2512: HashTypeSHA3512, HashTypeSHA3512: HashTypeSHA2512, HashTypeSHA1: HashTypeSHA2256}
	sampled := false
	_ = k.with(false, func(p *Policy) error {
		donors := map[int]string{}
		for _, reqVer := range append([]int{0}, c17seq(1, nver)...) {
			ver := reqVer
			if ver == 0 {
				ver = nver
			}
			for ci, c := range cases {
				caseKey := fmt.Sprintf("%s|v%d|h%d|%s|salt%d|m%d|len%d", s.name(), reqVer, c.o.HashAlgorithm, c.o.SigAlgorithm, c.o.SaltLength, c.o.Marshaling, len(c.msg))
				r.Eval(1)
				r.Nontrivial(caseKey)
				o := c.o
				res, err := p.SignWithOptions(reqVer, kctx, c.msg, &o)
				if err != nil || res == nil {
					r.Violate("C17-sign-refused", id, fmt.Sprintf("%s: sign refused: %v", caseKey, err), nil)
					continue
				}
				sig := res.Signature
				enc := base64.StdEncoding
				if o.Marshaling == MarshalingTypeJWS {
					enc = base64.RawURLEncoding
				}
				lv, raw, ok := c17Parse(sig, enc)
				if !ok || lv != ver {
					r.Violate("C17-version-label", id, fmt.Sprintf("%s: signature label %.14q, expected v%d", caseKey, sig, ver), nil)
					continue
				}
				if _, have := donors[ver]; !have && ci == 0 {
					donors[ver] = sig
				}
				if why := c17RefVerify(s, mats[ver], kctx, c.msg, raw, o, res.PublicKey); why != "" {
					r.Violate("C17-sig-reference", id, fmt.Sprintf("%s: signature does not verify with the standard library against version %d's public key: %s", caseKey, ver, why), nil)
					continue
				}
				r.Count("sig_ref_verified", 1)
				for ov, om := range mats {
					if ov != ver && c17RefVerify(s, om, kctx, c.msg, raw, o, nil) == "" {
						r.Violate("C17-version-key-binding", id, fmt.Sprintf("%s: signature labelled v%d verifies under version %d's public key", caseKey, ver, ov), nil)
					}
				}
				verify := func(vctx, msg []byte, sg string, vo SigningOptions) (bool, error) {
					ok, err := p.VerifySignatureWithOptions(vctx, msg, sg, &vo)
					return err == nil && ok, err
				}
				if ok, err := verify(kctx, c.msg, sig, o); !ok {
					r.Violate("C17-verify-refused", id, fmt.Sprintf("%s: verify with the signing parameters said not valid (err=%v)", caseKey, err), nil)
					continue
				}
				r.Count("sign_verify_ok", 1)
				mustNot := func(what string, vctx, msg []byte, sg string, vo SigningOptions) {
					if ok, _ := verify(vctx, msg, sg, vo); ok {
						r.Violate("C17-signature-binding", id, fmt.Sprintf("%s: verify said valid although %s", caseKey, what), map[string]any{"signature": c17trunc(sg)})
					} else {
						r.Count("changed_param_not_valid", 1)
					}
				}
				// message
				// (ECDSA uses only the leftmost order-size bits of a pre-hashed
				// input, FIPS 186-4 6.4, so only those are changed for EC keys)
				if len(c.msg) > 0 {
					m2 := c17clone(c.msg)
					span := len(m2)
					if mats[ver].ECPub != nil && span > 20 {
						span = 20
					}
					m2[rng.Intn(span)] ^= 1 << uint(rng.Intn(8))
					mustNot("one message bit was flipped", kctx, m2, sig, o)
				}
				if mats[ver].ECPub == nil {
					mustNot("the message got one more byte", kctx, append(c17clone(c.msg), 0), sig, o)
				}
				// version label
				for ov := 0; ov <= nver+1; ov++ {
					if ov != ver {
						mustNot(fmt.Sprintf("the label was changed to v%d", ov), kctx, c.msg, fmt.Sprintf("vault:v%d:%s", ov, enc.EncodeToString(raw)), o)
					}
				}
				// context
				if s.Derived {
					mustNot("another derivation context was given", kctx2, c.msg, sig, o)
				}
				// marshaling
				{
					vo := o
					vo.Marshaling = MarshalingTypeASN1 + MarshalingTypeJWS - o.Marshaling
					venc := base64.StdEncoding
					if vo.Marshaling == MarshalingTypeJWS {
						venc = base64.RawURLEncoding
					}
					_, vraw, vok := c17Parse(sig, venc)
					structural := mats[ver].ECPub != nil
					if structural || !vok || !bytes.Equal(vraw, raw) {
						mustNot("the other marshaling was given", kctx, c.msg, sig, vo)
					} else if ok, _ := verify(kctx, c.msg, sig, vo); ok {
						r.Count("marshaling_same_bytes_valid", 1)
					}
				}
				if s.isRSA() {
					alg := o.SigAlgorithm
					if alg == "" {
						alg = "pss"
					}
					vo := o
					vo.SigAlgorithm = map[string]string{"pss": "pkcs1v15", "pkcs1v15": "pss"}[alg]
					vo.SaltLength = rsa.PSSSaltLengthAuto
					if o.HashAlgorithm != HashTypeNone {
						mustNot("the other RSA signature algorithm was given", kctx, c.msg, sig, vo)
					}
					if oh, ok := sameSizeHash[o.HashAlgorithm]; ok {
						vo = o
						vo.HashAlgorithm = oh
						if alg == "pss" {
							vo.SaltLength = rsa.PSSSaltLengthAuto
						}
						msg := c.msg
						if c17HashSize(oh) != len(msg) {
							msg = append(c17clone(msg), make([]byte, 64)...)[:c17HashSize(oh)]
						}
						mustNot("another hash algorithm was given", kctx, msg, sig, vo)
					}
					if alg == "pss" {
						eff := c17EffSalt(bits, o.HashAlgorithm, o.SaltLength, true)
						hs := CryptoHashMap[o.HashAlgorithm].Size()
						max := (bits-1+7)/8 - 2 - hs
						for _, vs := range []int{rsa.PSSSaltLengthAuto, rsa.PSSSaltLengthEqualsHash, eff, eff + 1, eff - 1, 1} {
							if vs > max || vs < rsa.PSSSaltLengthEqualsHash {
								continue
							}
							vo := o
							vo.SaltLength = vs
							veff := c17EffSalt(bits, o.HashAlgorithm, vs, false)
							if veff == -2 || veff == eff {
								if ok, err := verify(kctx, c.msg, sig, vo); !ok {
									r.Violate("C17-verify-refused", id, fmt.Sprintf("%s: verify with salt length %d (effective signing salt %d) said not valid: %v", caseKey, vs, eff, err), nil)
								} else if veff == -2 {
									r.Count("verifier_auto_salt_valid", 1)
								} else {
									r.Count("verifier_equal_salt_valid", 1)
								}
							} else {
								mustNot(fmt.Sprintf("verifier salt length %d differs from signing salt length %d", vs, eff), kctx, c.msg, sig, vo)
							}
						}
					}
				}
				// mutants of the signature string
				if ci%3 == 0 || !s.isRSA() {
					var others []string
					for v, d := range donors {
						if v != ver {
							others = append(others, d)
						}
					}
					sort.Strings(others)
					for _, m := range c17Mutants(rng, sig, others, enc) {
						ok, _ := verify(kctx, c.msg, m.S, o)
						same := c17SameInput(sig, m.S, enc, false)
						switch {
						case !ok && same:
							r.Count("sig_mutant_alias_not_valid", 1)
						case !ok:
							r.Count("sig_mutant_not_valid", 1)
						case same:
							r.Count("sig_mutant_alias_valid", 1)
						default:
							r.Violate("C17-signature-binding", id, fmt.Sprintf("%s: mutant %s of the signature string still verifies", caseKey, m.Name), map[string]any{"signature": c17trunc(sig), "mutant": c17trunc(m.S)})
						}
					}
				}
				if !sampled {
					sampled = true
					r.Sample(map[string]any{"case": caseKey, "signature": c17trunc(sig), "stdlib_verify": "ok", "policy_verify": "valid; changed message/label/params/mutants not valid"})
				}
			}
		}
		// versions outside the ring
		for _, bad := range []int{-1, nver + 1} {
			o := cases[0].o
			if res, err := p.SignWithOptions(bad, kctx, cases[0].msg, &o); err == nil {
				r.Violate("C17-version-label", id, fmt.Sprintf("%s: sign with key version %d (latest %d) succeeded: %.14q", s.name(), bad, nver, res.Signature), nil)
			}
		}
		return nil
	})
	_ = crypto.SHA256
}
