//go:build verif

package transit

import (
	"bytes"
	"context"
	"crypto/hmac"
	"encoding/base64"
	"fmt"
	"sort"
	"strings"
	"testing"

	"github.com/openbao/openbao/sdk/v2/helper/keysutil"
	kit "github.com/openbao/openbao/sdk/v2/helper/verifkit"
	"github.com/openbao/openbao/sdk/v2/logical"
)

// c17Model is the reference state of one key ring.
type c17Model struct {
	Latest, MinDec, MinEnc, MinAvail int
	Keys                             map[int]*c17Material
	SoftDeleted, DeletionAllowed     bool
}

func (m *c17Model) clone() *c17Model {
	c := *m
	c.Keys = map[int]*c17Material{}
	for v, k := range m.Keys {
		c.Keys[v] = k
	}
	return &c
}

type c17Ring struct {
	name   string
	exists bool
	m      *c17Model
	// limbo > 0: a trim to that version failed half-way because of a storage
	// fault and has not been retried yet; versions below it may or may not
	// have left storage already.
	limbo int
	// trimFault: the storage operation whose injected failure made an earlier,
	// since retried, trim fail ("" if none).
	trimFault string
}

// c17Entry is something a key version produced earlier in the history.
type c17Entry struct {
	Kind    string // ct | sig | hmac
	S       string
	Ver     int
	KeyID   int
	PT      []byte
	Ctx     []byte
	AAD     []byte
	Sig     c17SigParams
	Step    int
	refused map[string]bool
}

type c17Hist struct {
	a             *c17API
	r             *kit.Result
	rng           *kit.Rand
	id            string
	spec          c17Spec
	rings         []*c17Ring
	restoreNoName bool // the next restore onto the backup's own name passes no name
	ledger        []*c17Entry
	kctx          []byte
	steps         []string
	bad           bool

	backups     []c17Backup
	forceLatest bool // scenarios: producers always use the latest version

	onFaultFail  func(what string) // hooks for the next faulted() call
	onFaultRetry func()
	trimRing     *c17Ring
	retryClass   string
}

// trimHooks: between a fault-failed trim and its retry the versions being
// trimmed are in limbo for the storage oracle.
func (h *c17Hist) trimHooks(g *c17Ring, v int) {
	h.onFaultFail = func(what string) { g.limbo, g.trimFault = v, what }
	h.onFaultRetry = func() { g.limbo = 0 }
	h.trimRing = g
}

func (h *c17Hist) log(format string, a ...any) {
	h.steps = append(h.steps, fmt.Sprintf("%d: ", len(h.steps))+fmt.Sprintf(format, a...))
}

func (h *c17Hist) violate(g *c17Ring, class, what string) {
	h.bad = true
	st := h.steps
	if len(st) > 70 {
		st = st[len(st)-70:]
	}
	ms := ""
	if g != nil && g.m != nil {
		ms = fmt.Sprintf(" [%s key %q, model exists=%v latest=%d min_dec=%d min_enc=%d min_avail=%d soft_deleted=%v]", h.spec.name(), g.name, g.exists, g.m.Latest, g.m.MinDec, g.m.MinEnc, g.m.MinAvail, g.m.SoftDeleted)
	}
	h.r.Violate(class, h.id, what+ms, map[string]any{"history": st, "no_cache": h.a.noCache})
}

func (h *c17Hist) ctxData(d map[string]any) map[string]any {
	if h.spec.Derived {
		d["context"] = c17b64(h.kctx)
	}
	return d
}

func (h *c17Hist) usable(g *c17Ring, e *c17Entry) (bool, string) {
	switch {
	case !g.exists:
		return false, "no_key"
	case g.m.SoftDeleted:
		return false, "soft_deleted"
	case e.Ver > g.m.Latest:
		return false, "too_new"
	case e.Ver < g.m.MinDec:
		return false, "below_min_dec"
	case g.m.Keys[e.Ver] == nil || g.m.Keys[e.Ver].ID != e.KeyID:
		return false, "other_key"
	}
	return true, ""
}

func c17Class(why string) string {
	switch why {
	case "other_key":
		return "C17-version-key-binding"
	case "soft_deleted", "no_key":
		return "C17-deleted-key-used"
	}
	return "C17-version-window"
}

func (h *c17Hist) checkEntry(g *c17Ring, e *c17Entry) {
	want, why := h.usable(g, e)
	h.r.Count("ledger_checks", 1)
	mark := g.name
	switch e.Kind {
	case "ct":
		d := map[string]any{"ciphertext": e.S}
		if len(e.Ctx) > 0 {
			d["context"] = c17b64(e.Ctx)
		}
		if len(e.AAD) > 0 {
			d["associated_data"] = c17b64(e.AAD)
		}
		resp := h.a.write("decrypt/"+g.name, d)
		var got []byte
		ok := !resp.Refused
		if ok {
			b, err := base64.StdEncoding.DecodeString(c17Str(resp.Data["plaintext"]))
			if err != nil || resp.Data["plaintext"] == nil {
				b = []byte("\x00undecodable")
			}
			got = b
		}
		switch {
		case ok && !bytes.Equal(got, e.PT):
			h.violate(g, "C17-wrong-plaintext", fmt.Sprintf("ciphertext of step %d (v%d) decrypted to a different plaintext", e.Step, e.Ver))
		case ok && !want:
			h.violate(g, c17Class(why), fmt.Sprintf("ciphertext of step %d labelled v%d was decrypted although it must be refused (%s)", e.Step, e.Ver, why))
		case !ok && want:
			h.violate(g, "C17-decrypt-refused", fmt.Sprintf("ciphertext of step %d labelled v%d must still decrypt but was refused: %s", e.Step, e.Ver, resp.Err))
		case ok:
			h.r.Count("hist_decrypt_ok", 1)
			if e.Ver < g.m.Latest {
				h.r.Count("hist_decrypt_ok_old_version", 1)
			}
			if e.refused[mark] {
				h.r.Count("hist_ok_again_after_refusal", 1)
				delete(e.refused, mark)
			}
		default:
			h.r.Count("hist_refused_"+why, 1)
			if why == "below_min_dec" {
				e.refused[mark] = true
			}
		}
	case "sig", "hmac":
		d := map[string]any{"input": c17b64(e.PT)}
		if len(e.Ctx) > 0 {
			d["context"] = c17b64(e.Ctx)
		}
		if e.Kind == "sig" {
			d["signature"] = e.S
			for k, v := range e.Sig.data() {
				d[k] = v
			}
		} else {
			d["hmac"] = e.S
			d["hash_algorithm"] = e.Sig.Hash
		}
		resp := h.a.write("verify/"+g.name, d)
		valid := !resp.Refused && resp.Data["valid"] == true
		switch {
		case valid && !want:
			h.violate(g, c17Class(why), fmt.Sprintf("%s of step %d labelled v%d verified although it must be refused (%s)", e.Kind, e.Step, e.Ver, why))
		case !valid && want:
			h.violate(g, "C17-verify-refused", fmt.Sprintf("%s of step %d labelled v%d must still verify but did not: %v %s", e.Kind, e.Step, e.Ver, resp.Data["valid"], resp.Err))
		case valid:
			h.r.Count("hist_"+e.Kind+"_verify_ok", 1)
			if e.refused[mark] {
				h.r.Count("hist_ok_again_after_refusal", 1)
				delete(e.refused, mark)
			}
			// a changed message never verifies
			msg := c17clone(e.PT)
			msg[0] ^= 1
			d["input"] = c17b64(msg)
			if r2 := h.a.write("verify/"+g.name, d); !r2.Refused && r2.Data["valid"] == true {
				h.violate(g, "C17-signature-binding", fmt.Sprintf("%s of step %d verified for a different message", e.Kind, e.Step))
			}
		default:
			h.r.Count("hist_"+e.Kind+"_refused_"+why, 1)
			if why == "below_min_dec" {
				e.refused[mark] = true
			}
		}
	}
}

func (h *c17Hist) checkLedger(g *c17Ring) {
	n := len(h.ledger)
	if n == 0 {
		return
	}
	idx := map[int]bool{}
	last := map[string]int{}
	for i, e := range h.ledger {
		last[fmt.Sprintf("%s:%d:%d", e.Kind, e.Ver, e.KeyID)] = i
	}
	keys := make([]string, 0, len(last))
	for k := range last {
		keys = append(keys, k)
	}
	sort.Strings(keys)
	if len(keys) > 10 {
		h.rng.Shuffle(len(keys), func(i, j int) { keys[i], keys[j] = keys[j], keys[i] })
		keys = keys[:10]
	}
	for _, k := range keys {
		idx[last[k]] = true
	}
	for q := 0; q < 4; q++ {
		idx[h.rng.Intn(n)] = true
	}
	order := make([]int, 0, len(idx))
	for i := range idx {
		order = append(order, i)
	}
	sort.Ints(order)
	for _, i := range order {
		if h.bad {
			return
		}
		h.checkEntry(g, h.ledger[i])
	}
}

// checkReadback compares keys/<name> with the model.
func (h *c17Hist) checkReadback(g *c17Ring) {
	resp := h.a.do(logical.ReadOperation, "keys/"+g.name, nil)
	if !g.exists {
		if !resp.Refused && resp.Data != nil && resp.Data["latest_version"] != nil {
			h.violate(g, "C17-deleted-key-used", "a deleted key can still be read")
		}
		return
	}
	if resp.Refused || resp.Data == nil {
		h.violate(g, "C17-policy-bookkeeping", "key cannot be read: "+resp.Err)
		return
	}
	got := fmt.Sprintf("latest=%d min_dec=%d min_enc=%d min_avail=%d soft_deleted=%v deletion_allowed=%v", c17Int(resp.Data["latest_version"]), c17Int(resp.Data["min_decryption_version"]), c17Int(resp.Data["min_encryption_version"]), c17Int(resp.Data["min_available_version"]), resp.Data["soft_deleted"], resp.Data["deletion_allowed"])
	want := fmt.Sprintf("latest=%d min_dec=%d min_enc=%d min_avail=%d soft_deleted=%v deletion_allowed=%v", g.m.Latest, g.m.MinDec, g.m.MinEnc, g.m.MinAvail, g.m.SoftDeleted, g.m.DeletionAllowed)
	if got != want {
		h.violate(g, "C17-policy-bookkeeping", "key read-back says "+got+", model says "+want)
	}
	h.r.Count("readbacks", 1)
}

// checkStorage: entries stored under this key's name hold the private
// material of every version in [min_available, latest] and none of trimmed
// versions; a deleted key leaves nothing.
func (h *c17Hist) checkStorage(g *c17Ring) {
	var mine [][]byte
	for k, v := range h.a.dump() {
		if strings.HasSuffix(k, "/"+g.name) {
			mine = append(mine, v)
		}
	}
	has := func(needle string) bool {
		for _, v := range mine {
			if bytes.Contains(v, []byte(needle)) {
				return true
			}
		}
		return false
	}
	if !g.exists {
		if len(mine) != 0 {
			h.violate(g, "C17-delete-residue", fmt.Sprintf("%d storage entries of a deleted key remain", len(mine)))
		} else {
			h.r.Count("deleted_key_left_nothing", 1)
		}
		return
	}
	lo := g.m.MinAvail
	if lo < 1 {
		lo = 1
	}
	for v, km := range g.m.Keys {
		in := has(km.Needle)
		switch {
		case v >= lo && v < g.limbo:
			h.r.Count("storage_limbo_after_failed_trim", 1)
		case v >= lo && v <= g.m.Latest:
			if !in {
				h.violate(g, "C17-archive-missing-version", fmt.Sprintf("storage does not contain the key material of version %d, which lies between the minimum available version and the latest", v))
			} else {
				h.r.Count("archive_has_version", 1)
			}
		case v < lo:
			if in {
				h.violate(g, "C17-trim-residue", fmt.Sprintf("key material of trimmed version %d is still in storage", v))
			} else {
				h.r.Count("trimmed_version_gone", 1)
			}
		}
	}
}

func (h *c17Hist) pickVersion(g *c17Ring) int {
	if h.forceLatest {
		return 0
	}
	switch h.rng.Intn(10) {
	case 0:
		return -1
	case 1:
		return g.m.Latest + 1
	case 2, 3, 4:
		return 0
	}
	return 1 + h.rng.Intn(g.m.Latest)
}

// expectProduce: may version k be used to encrypt/sign/hmac? 1 yes, 0 no, -1 either.
func (h *c17Hist) expectProduce(g *c17Ring, k int) int {
	switch {
	case g.m.SoftDeleted:
		return 0
	case k == 0:
		return 1
	case k < 0 || k > g.m.Latest:
		return 0
	case g.m.MinEnc > 0 && k < g.m.MinEnc:
		return 0
	case k < g.m.MinDec:
		return -1
	}
	return 1
}

// judgeProduce handles the common part of encrypt/sign/hmac outcomes.
// Returns the labelled version and true when an entry should be recorded.
func (h *c17Hist) judgeProduce(g *c17Ring, what string, k int, refused bool, errStr, out string, enc *base64.Encoding, reportedVer any) (int, []byte, bool) {
	exp := h.expectProduce(g, k)
	eff := k
	if eff == 0 {
		eff = g.m.Latest
	}
	if refused {
		switch {
		case exp == 1:
			h.violate(g, "C17-"+what+"-refused", fmt.Sprintf("%s with key_version %d was refused: %s", what, k, errStr))
		case g.m.SoftDeleted:
			h.r.Count("hist_soft_deleted_refused", 1)
		case exp == 0 && k > 0 && k <= g.m.Latest:
			h.r.Count("hist_"+what+"_refused_below_min_enc", 1)
		}
		return 0, nil, false
	}
	lv, raw, ok := c17Parse(out, enc)
	if exp == 0 {
		switch {
		case g.m.SoftDeleted:
			h.violate(g, "C17-deleted-key-used", fmt.Sprintf("%s on a soft-deleted key succeeded", what))
		case k > 0 && k <= g.m.Latest:
			h.violate(g, "C17-min-encryption-version", fmt.Sprintf("%s with key_version %d below min_encryption_version %d succeeded (%.14q)", what, k, g.m.MinEnc, out))
		default:
			h.violate(g, "C17-version-label", fmt.Sprintf("%s with key_version %d outside 1..%d succeeded (%.14q)", what, k, g.m.Latest, out))
		}
		return 0, nil, false
	}
	if !ok || lv != eff || g.m.Keys[lv] == nil {
		h.violate(g, "C17-version-label", fmt.Sprintf("%s with key_version %d produced %.14q, expected label v%d", what, k, out, eff))
		return 0, nil, false
	}
	if reportedVer != nil && c17Int(reportedVer) != eff {
		h.violate(g, "C17-version-label", fmt.Sprintf("%s with key_version %d reported key_version %v, expected %d", what, k, reportedVer, eff))
		return 0, nil, false
	}
	if g.m.MinEnc > 0 && lv < g.m.MinEnc {
		h.violate(g, "C17-min-encryption-version", fmt.Sprintf("%s output labelled v%d below min_encryption_version %d", what, lv, g.m.MinEnc))
		return 0, nil, false
	}
	h.r.Count("hist_"+what+"s", 1)
	if k != 0 && k < g.m.Latest {
		h.r.Count("hist_"+what+"_explicit_old_version", 1)
	}
	return lv, raw, true
}

func (h *c17Hist) randPlain() []byte {
	return h.rng.Bytes([]int{0, 1, 15, 16, 17, 64, 190}[h.rng.Intn(7)])
}

func (h *c17Hist) randAAD() []byte {
	if h.spec.isSym() && h.rng.Chance(1, 3) {
		return h.rng.Bytes(1 + h.rng.Intn(20))
	}
	return nil
}

// recordCT re-checks a fresh ciphertext against the reference construction and stores it.
func (h *c17Hist) recordCT(g *c17Ring, step, lv int, body []byte, ct string, pt, aad []byte) {
	km := g.m.Keys[lv]
	if h.spec.Convergent {
		if ref, ok := c17RefConvergent(h.spec, km.Sym, h.kctx, aad, pt); ok {
			if !bytes.Equal(ref, body) {
				h.violate(g, "C17-convergent-reference", fmt.Sprintf("convergent ciphertext v%d differs from nonce=HMAC-SHA256(hkdf[n:n+32], plaintext) || AEAD(hkdf[:n]) on that version's key", lv))
				return
			}
			h.r.Count("hist_convergent_exact_match", 1)
		}
		// determinism against everything remembered
		for _, e := range h.ledger {
			if e.Kind == "ct" && e.KeyID == km.ID && e.Ver == lv && bytes.Equal(e.PT, pt) && bytes.Equal(e.AAD, aad) && e.S != ct {
				h.violate(g, "C17-convergent-nondeterministic", fmt.Sprintf("the input of step %d encrypted again under the same key version gave another ciphertext", e.Step))
				return
			}
		}
	} else if h.spec.isSym() {
		if ref, err := c17RefOpen(h.spec, km.Sym, h.kctx, aad, body); err != nil || !bytes.Equal(ref, pt) {
			h.violate(g, "C17-ref-reopen", fmt.Sprintf("ciphertext labelled v%d does not open to the plaintext with version %d's key under the reference construction (%v)", lv, lv, err))
			return
		}
		h.r.Count("hist_ref_reopen_ok", 1)
	}
	h.ledger = append(h.ledger, &c17Entry{Kind: "ct", S: ct, Ver: lv, KeyID: km.ID, PT: pt, Ctx: h.kctx, AAD: aad, Step: step, refused: map[string]bool{}})
}

func (h *c17Hist) opEncrypt(g *c17Ring, step int) {
	k := h.pickVersion(g)
	pt, aad := h.randPlain(), h.randAAD()
	d := h.ctxData(map[string]any{"plaintext": c17b64(pt), "key_version": k})
	if len(aad) > 0 {
		d["associated_data"] = c17b64(aad)
	}
	resp := h.a.write("encrypt/"+g.name, d)
	ct := c17Str(resp.Data["ciphertext"])
	if resp.Refused {
		ct = ""
	}
	h.log("encrypt %s key_version=%d size=%d aad=%d -> %.14q refused=%v %s", g.name, k, len(pt), len(aad), ct, resp.Refused, resp.Err)
	lv, body, ok := h.judgeProduce(g, "encrypt", k, resp.Refused, resp.Err, ct, base64.StdEncoding, resp.Data["key_version"])
	if ok {
		h.recordCT(g, step, lv, body, ct, pt, aad)
	}
}

func (h *c17Hist) opEncryptBatch(g *c17Ring, step int) {
	type item struct {
		k      int
		pt     []byte
		aad    []byte
		badB64 bool
	}
	var items []item
	var in []any
	for i, n := 0, 2+h.rng.Intn(4); i < n; i++ {
		it := item{k: h.pickVersion(g), pt: h.randPlain(), aad: h.randAAD(), badB64: h.rng.Chance(1, 8)}
		items = append(items, it)
		m := h.ctxData(map[string]any{"plaintext": c17b64(it.pt), "key_version": it.k})
		if it.badB64 {
			m["plaintext"] = "!!not-base64!!"
		}
		if len(it.aad) > 0 {
			m["associated_data"] = c17b64(it.aad)
		}
		in = append(in, m)
	}
	resp := h.a.write("encrypt/"+g.name, map[string]any{"batch_input": in})
	res := c17Batch(resp)
	h.log("encrypt-batch %s %d items -> %d results refused=%v %s", g.name, len(items), len(res), resp.Refused, resp.Err)
	if len(res) != len(items) {
		if g.m.SoftDeleted || resp.Refused {
			// whole request refused: acceptable only if no item had to succeed
			for _, it := range items {
				if !it.badB64 && h.expectProduce(g, it.k) == 1 {
					h.violate(g, "C17-encrypt-refused", "batch encrypt refused as a whole although it contains valid items: "+resp.Err)
					return
				}
			}
			return
		}
		h.violate(g, "C17-batch-shape", fmt.Sprintf("batch of %d items returned %d results", len(items), len(res)))
		return
	}
	h.r.Count("hist_batches", 1)
	for i, it := range items {
		errStr := c17Str(res[i]["error"])
		ct := c17Str(res[i]["ciphertext"])
		if it.badB64 {
			if errStr == "" {
				h.violate(g, "C17-wrong-plaintext", fmt.Sprintf("batch item %d with undecodable plaintext produced %.14q", i, ct))
				return
			}
			continue
		}
		h.log("  item %d key_version=%d -> %.14q err=%q", i, it.k, ct, errStr)
		var rv any
		if errStr == "" {
			rv = res[i]["key_version"]
		}
		lv, body, ok := h.judgeProduce(g, "encrypt", it.k, errStr != "", errStr, ct, base64.StdEncoding, rv)
		if h.bad {
			return
		}
		if ok {
			h.recordCT(g, step, lv, body, ct, it.pt, it.aad)
			h.r.Count("hist_batch_items_ok", 1)
		}
	}
}

// opDecryptBatch: several remembered ciphertexts (any state) plus tampered ones in one request; results are positional.
func (h *c17Hist) opDecryptBatch(g *c17Ring) {
	var cts []*c17Entry
	for _, e := range h.ledger {
		if e.Kind == "ct" {
			cts = append(cts, e)
		}
	}
	if len(cts) == 0 {
		return
	}
	type item struct {
		e      *c17Entry
		tamper string
	}
	var items []item
	var in []any
	for i, n := 0, 2+h.rng.Intn(4); i < n; i++ {
		it := item{e: cts[h.rng.Intn(len(cts))]}
		m := h.ctxData(map[string]any{"ciphertext": it.e.S})
		aad := it.e.AAD
		switch h.rng.Intn(6) {
		case 0:
			if h.spec.isSym() {
				it.tamper = "aad"
				aad = append(c17clone(aad), 7)
			}
		case 1:
			_, body, _ := c17Parse(it.e.S, base64.StdEncoding)
			if len(body) > 0 {
				it.tamper = "bitflip"
				b := c17clone(body)
				b[h.rng.Intn(len(b))] ^= 1 << uint(h.rng.Intn(8))
				m["ciphertext"] = fmt.Sprintf("vault:v%d:%s", it.e.Ver, c17b64(b))
			}
		}
		if len(aad) > 0 {
			m["associated_data"] = c17b64(aad)
		}
		items = append(items, it)
		in = append(in, m)
	}
	resp := h.a.write("decrypt/"+g.name, map[string]any{"batch_input": in})
	res := c17Batch(resp)
	h.log("decrypt-batch %s %d items -> %d results refused=%v %s", g.name, len(items), len(res), resp.Refused, resp.Err)
	if len(res) != len(items) {
		for _, it := range items {
			if want, _ := h.usable(g, it.e); want && it.tamper == "" {
				h.violate(g, "C17-decrypt-refused", "batch decrypt refused as a whole although it contains decryptable items: "+resp.Err)
				return
			}
		}
		return
	}
	for i, it := range items {
		errStr := c17Str(res[i]["error"])
		want, why := h.usable(g, it.e)
		if errStr != "" {
			if want && it.tamper == "" {
				h.violate(g, "C17-decrypt-refused", fmt.Sprintf("batch item %d (step %d, v%d) must decrypt but: %s", i, it.e.Step, it.e.Ver, errStr))
				return
			}
			h.r.Count("hist_batch_decrypt_refused", 1)
			continue
		}
		got, err := base64.StdEncoding.DecodeString(c17Str(res[i]["plaintext"]))
		switch {
		case err != nil || !bytes.Equal(got, it.e.PT):
			h.violate(g, "C17-wrong-plaintext", fmt.Sprintf("batch item %d (step %d, v%d, tamper=%q) returned a different plaintext (results shifted or forged)", i, it.e.Step, it.e.Ver, it.tamper))
			return
		case it.tamper != "":
			h.violate(g, map[string]string{"aad": "C17-aad-binding", "bitflip": "C17-ciphertext-binding"}[it.tamper], fmt.Sprintf("batch item %d with tampered %s decrypted", i, it.tamper))
			return
		case !want:
			h.violate(g, c17Class(why), fmt.Sprintf("batch item %d (step %d, v%d) decrypted although it must be refused (%s)", i, it.e.Step, it.e.Ver, why))
			return
		}
		h.r.Count("hist_batch_decrypt_ok", 1)
	}
}

func (h *c17Hist) opRewrap(g *c17Ring, step int) {
	var cts []*c17Entry
	for _, e := range h.ledger {
		if e.Kind == "ct" {
			cts = append(cts, e)
		}
	}
	if len(cts) == 0 {
		return
	}
	e := cts[h.rng.Intn(len(cts))]
	k := h.pickVersion(g)
	resp := h.a.write("rewrap/"+g.name, h.ctxData(map[string]any{"ciphertext": e.S, "key_version": k}))
	ct := c17Str(resp.Data["ciphertext"])
	if resp.Refused {
		ct = ""
	}
	h.log("rewrap %s ct(step %d v%d aad=%d) key_version=%d -> %.14q refused=%v %s", g.name, e.Step, e.Ver, len(e.AAD), k, ct, resp.Refused, resp.Err)
	want, why := h.usable(g, e)
	if len(e.AAD) > 0 {
		// rewrap has no associated_data parameter: the source cannot be authenticated
		if !resp.Refused {
			h.violate(g, "C17-aad-binding", "rewrap of a ciphertext bound to associated data succeeded without that data")
		} else {
			h.r.Count("hist_rewrap_aad_refused", 1)
		}
		return
	}
	if !want {
		if !resp.Refused {
			h.violate(g, c17Class(why), fmt.Sprintf("rewrap accepted a ciphertext that must be refused (%s)", why))
		} else {
			h.r.Count("hist_rewrap_source_refused", 1)
		}
		return
	}
	lv, body, ok := h.judgeProduce(g, "rewrap", k, resp.Refused, resp.Err, ct, base64.StdEncoding, resp.Data["key_version"])
	if ok {
		h.recordCT(g, step, lv, body, ct, e.PT, nil)
	}
}

func (h *c17Hist) randSigParams() (c17SigParams, []byte) {
	o := c17SigParams{Hash: "sha2-256", Marsh: "asn1", Salt: "auto"}
	input := h.rng.Bytes(1 + h.rng.Intn(80))
	switch {
	case h.spec.isRSA():
		o.Hash = kit.Pick(h.rng, []string{"sha1", "sha2-256", "sha2-384", "sha2-512", "sha3-256"})
		o.Alg = kit.Pick(h.rng, []string{"", "pss", "pkcs1v15"})
		o.Salt = kit.Pick(h.rng, []string{"auto", "hash", "20"})
	case h.spec.isEC():
		o.Hash = kit.Pick(h.rng, []string{"sha2-256", "sha2-384", "sha2-512", "sha3-384"})
		o.Marsh = kit.Pick(h.rng, []string{"asn1", "jws"})
	default:
		o.Marsh = kit.Pick(h.rng, []string{"asn1", "jws"})
	}
	if h.spec.Type != "ed25519" && h.rng.Chance(1, 4) {
		o.Prehashed = true
		hf := c17Hash(o.Hash)()
		hf.Write(input)
		input = hf.Sum(nil)
	}
	return o, input
}

func (h *c17Hist) opSign(g *c17Ring, step int) {
	k := h.pickVersion(g)
	o, input := h.randSigParams()
	d := h.ctxData(map[string]any{"input": c17b64(input), "key_version": k})
	for kk, v := range o.data() {
		d[kk] = v
	}
	resp := h.a.write("sign/"+g.name, d)
	sig := c17Str(resp.Data["signature"])
	if resp.Refused {
		sig = ""
	}
	h.log("sign %s key_version=%d %+v -> %.14q refused=%v %s", g.name, k, o, sig, resp.Refused, resp.Err)
	lv, raw, ok := h.judgeProduce(g, "sign", k, resp.Refused, resp.Err, sig, o.enc(), resp.Data["key_version"])
	if !ok {
		return
	}
	km := g.m.Keys[lv]
	if why := c17RefVerify(h.spec, km, h.kctx, input, raw, o); why != "" {
		h.violate(g, "C17-sig-reference", fmt.Sprintf("signature labelled v%d does not verify with version %d's public key using the standard library directly: %s", lv, lv, why))
		return
	}
	h.r.Count("hist_sig_ref_verified", 1)
	h.ledger = append(h.ledger, &c17Entry{Kind: "sig", S: sig, Ver: lv, KeyID: km.ID, PT: input, Ctx: h.kctx, Sig: o, Step: step, refused: map[string]bool{}})
}

func (h *c17Hist) opHMAC(g *c17Ring, step int) {
	k := h.pickVersion(g)
	alg := kit.Pick(h.rng, []string{"sha2-224", "sha2-256", "sha2-384", "sha2-512", "sha3-256", "sha3-512"})
	input := h.rng.Bytes(1 + h.rng.Intn(80))
	resp := h.a.write("hmac/"+g.name, map[string]any{"input": c17b64(input), "key_version": k, "algorithm": alg})
	out := c17Str(resp.Data["hmac"])
	if resp.Refused {
		out = ""
	}
	h.log("hmac %s key_version=%d %s -> %.14q refused=%v %s", g.name, k, alg, out, resp.Refused, resp.Err)
	lv, raw, ok := h.judgeProduce(g, "hmac", k, resp.Refused, resp.Err, out, base64.StdEncoding, nil)
	if !ok {
		return
	}
	km := g.m.Keys[lv]
	mac := hmac.New(c17Hash(alg), km.HMAC)
	mac.Write(input)
	if !bytes.Equal(mac.Sum(nil), raw) {
		h.violate(g, "C17-hmac-reference", fmt.Sprintf("HMAC labelled v%d is not HMAC-%s of the input under version %d's HMAC key", lv, alg, lv))
		return
	}
	h.r.Count("hist_hmac_ref_ok", 1)
	h.ledger = append(h.ledger, &c17Entry{Kind: "hmac", S: out, Ver: lv, KeyID: km.ID, PT: input, Sig: c17SigParams{Hash: alg}, Step: step, refused: map[string]bool{}})
}

func (h *c17Hist) create(g *c17Ring) bool {
	d := map[string]any{"type": h.spec.Type, "derived": h.spec.Derived, "convergent_encryption": h.spec.Convergent, "exportable": true, "allow_plaintext_backup": true}
	if h.spec.Type == "hmac" {
		d["key_size"] = 32
	}
	resp := h.a.write("keys/"+g.name, d)
	h.log("create %s %s refused=%v %s", g.name, h.spec.name(), resp.Refused, resp.Err)
	if resp.Refused {
		h.r.Inconc("%s: cannot create key %s: %s", h.id, h.spec.name(), resp.Err)
		h.bad = true
		return false
	}
	km, err := h.a.capture(g.name, h.spec, 1)
	if err != nil {
		h.r.Inconc("%s: %v", h.id, err)
		h.bad = true
		return false
	}
	g.exists = true
	g.trimFault, g.limbo = "", 0
	g.m = &c17Model{Latest: 1, MinDec: 1, Keys: map[int]*c17Material{1: km}}
	return true
}

// ---------------------------------------------------------------- faults

// byFault: the request failed while an injected storage fault had fired.
func (h *c17Hist) byFault(resp c17Resp) bool {
	return resp.Refused && h.a.fs != nil && h.a.fs.armed && h.a.fs.fired
}

func (h *c17Hist) checkAll(skip *c17Ring) {
	for _, ring := range h.rings {
		if h.bad {
			return
		}
		if ring.m == nil || ring == skip {
			continue
		}
		h.checkReadback(ring)
		if !h.bad {
			h.checkLedger(ring)
		}
		if !h.bad {
			h.checkStorage(ring)
		}
	}
}

// faulted runs one mutating request with the k-th storage operation failing
// once (k < 0: no fault). do returns true when the request failed because of
// the fault; the model is then unchanged, which the usual read-back / ledger /
// storage replay verifies (except for skip, a ring whose state cannot be
// known after a half-done restore), and the client retries the request.
func (h *c17Hist) faulted(kind string, k int, skip *c17Ring, do func() bool) (fired bool) {
	defer func() { h.onFaultFail, h.onFaultRetry, h.trimRing = nil, nil, nil }()
	if h.a.fs == nil || k < 0 {
		do()
		return false
	}
	h.a.fs.arm(k)
	failed := do()
	fired, what := h.a.fs.disarm()
	if !fired {
		return false
	}
	h.r.Count("fault_fired:"+kind+":"+what, 1)
	if !failed {
		h.r.Count("fault_tolerated:"+kind, 1)
		return true
	}
	h.r.Count("fault_failed_request:"+kind, 1)
	h.log("  storage fault on %s (op #%d) made the %s fail; model unchanged; the client retries", what, k, kind)
	if h.onFaultFail != nil {
		h.onFaultFail(what)
	}
	if !h.bad {
		h.checkAll(skip)
	}
	if h.onFaultRetry != nil {
		h.onFaultRetry()
	}
	h.onFaultFail, h.onFaultRetry = nil, nil
	if h.bad {
		return true
	}
	h.a.fs.arm(-1)
	if kind == "trim" && what == "put_policy" && h.a.noCache {
		// known signature (see afterRetriedTrim): the second trim slices the
		// already trimmed archive again, which can also panic or fail outright
		h.retryClass, h.a.panicClass = "C17-trim-retry-after-policy-write-fault", "C17-trim-retry-after-policy-write-fault"
	}
	do()
	h.retryClass, h.a.panicClass = "", ""
	h.r.Count("fault_retried:"+kind, 1)
	if kind == "trim" && !h.bad && h.trimRing != nil {
		h.afterRetriedTrim(h.trimRing, what)
	}
	return true
}

// afterRetriedTrim: see the policy-level harness. Entry [v - min_available]
// of the stored archive must be version v's key right after a trim that was
// retried following an injected fault.
func (h *c17Hist) afterRetriedTrim(g *c17Ring, what string) {
	if !g.exists {
		return
	}
	why := ""
	p, err := keysutil.LoadPolicy(h.a.ctx, h.a.st, "policy/"+g.name)
	if err != nil || p == nil {
		why = fmt.Sprintf("stored policy cannot be loaded: %v", err)
	} else if arch, err := p.LoadArchive(h.a.ctx, h.a.st); err != nil {
		why = err.Error()
	} else {
		lo := g.m.MinAvail
		if lo < 1 {
			lo = 1
		}
		for v := lo; v <= g.m.Latest && why == ""; v++ {
			i := v - p.MinAvailableVersion
			switch {
			case i < 0 || i >= len(arch.Keys):
				why = fmt.Sprintf("the archive has %d entries, version %d (index %d with min_available_version %d) is outside it", len(arch.Keys), v, i, p.MinAvailableVersion)
			case c17NeedleOf(arch.Keys[i], h.spec) != g.m.Keys[v].Needle:
				why = fmt.Sprintf("archive entry %d (= version %d with min_available_version %d) does not hold version %d's key", i, v, p.MinAvailableVersion, v)
			}
		}
	}
	if why == "" {
		h.r.Count("archive_index_ok_after_retried_trim", 1)
		return
	}
	switch {
	case what == "put_archive" && !h.a.noCache:
		h.violate(g, "C17-trim-retry-after-archive-write-fault", "cached policy: a trim failed because the archive write failed; Persist does not roll the in-memory ArchiveMinVersion back, so the retried trim succeeded without trimming/re-basing the stored archive: "+why)
	case what == "put_policy" && h.a.noCache:
		h.violate(g, "C17-trim-retry-after-policy-write-fault", "cache-less: a trim failed on the policy write after the trimmed archive had been written; the retried trim (policy reloaded from storage) trimmed the archive a second time: "+why)
	default:
		h.violate(g, "C17-archive-index", fmt.Sprintf("after a trim that failed on %s and was retried: %s", what, why))
	}
}

func (h *c17Hist) pickFault() int {
	if h.a.fs != nil && h.rng.Chance(2, 5) {
		return h.rng.Intn(7)
	}
	return -1
}

func (h *c17Hist) doRotate(g *c17Ring) bool {
	resp := h.a.write("keys/"+g.name+"/rotate", map[string]any{})
	h.log("rotate %s refused=%v %s", g.name, resp.Refused, resp.Err)
	if h.byFault(resp) {
		return true
	}
	if resp.Refused {
		if !g.m.SoftDeleted {
			h.violate(g, "C17-rotate-failed", "rotate refused: "+resp.Err)
		}
		return false
	}
	km, err := h.a.capture(g.name, h.spec, g.m.Latest+1)
	if err != nil {
		h.violate(g, "C17-policy-bookkeeping", fmt.Sprintf("after rotate: %v", err))
		return false
	}
	g.m.Latest++
	g.m.Keys[g.m.Latest] = km
	h.r.Count("rotations", 1)
	return false
}

// genConfig draws a keys/<name>/config request.
func (h *c17Hist) genConfig(g *c17Ring) map[string]any {
	m := g.m
	d := map[string]any{}
	switch h.rng.Intn(10) {
	case 0, 1, 2: // raise (or keep) min_decryption_version within what min_encryption_version allows
		hi := m.Latest
		if m.MinEnc > 0 && m.MinEnc < hi {
			hi = m.MinEnc
		}
		if hi < m.MinDec {
			hi = m.MinDec
		}
		d["min_decryption_version"] = m.MinDec + h.rng.Intn(hi-m.MinDec+1)
	case 3: // lower it
		lo := m.MinAvail
		if lo < 1 {
			lo = 1
		}
		d["min_decryption_version"] = lo + h.rng.Intn(m.MinDec-lo+1)
	case 4, 5: // a legal min_encryption_version
		d["min_encryption_version"] = m.MinDec + h.rng.Intn(m.Latest-m.MinDec+1)
	case 6: // both, legal
		nd := m.MinDec + h.rng.Intn(m.Latest-m.MinDec+1)
		d["min_decryption_version"] = nd
		d["min_encryption_version"] = nd + h.rng.Intn(m.Latest-nd+1)
	default: // anything, often illegal
		if h.rng.Chance(3, 5) {
			d["min_decryption_version"] = -1 + h.rng.Intn(m.Latest+3)
		}
		if h.rng.Chance(1, 2) || len(d) == 0 {
			d["min_encryption_version"] = -1 + h.rng.Intn(m.Latest+3)
		}
	}
	if h.rng.Chance(1, 5) {
		d["deletion_allowed"] = !m.DeletionAllowed
	}
	return d
}

// doConfig sends d and judges the outcome against the documented rules.
func (h *c17Hist) doConfig(g *c17Ring, d map[string]any) bool {
	m := g.m
	newD, newE, newDel := m.MinDec, m.MinEnc, m.DeletionAllowed
	must := false
	if raw, ok := d["min_decryption_version"]; ok {
		v := raw.(int)
		dd := v
		if dd == 0 {
			dd = 1
		}
		if v < 0 || dd > m.Latest {
			must = true
		} else {
			newD = dd
		}
	}
	if raw, ok := d["min_encryption_version"]; ok {
		v := raw.(int)
		if v < 0 || v > m.Latest {
			must = true
		} else {
			newE = v
		}
	}
	if raw, ok := d["deletion_allowed"]; ok {
		newDel = raw.(bool)
	}
	if newE > 0 && newE < newD {
		must = true
	}
	either := m.SoftDeleted
	if m.MinAvail > 0 {
		if newD < m.MinAvail || (newE > 0 && newE < m.MinAvail) {
			must = true
		}
		if newE == 0 {
			either = true // documentation is silent on clearing min_encryption_version after a trim
		}
	}
	resp := h.a.write("keys/"+g.name+"/config", d)
	h.log("config %s %v -> refused=%v %s", g.name, d, resp.Refused, resp.Err)
	switch {
	case h.byFault(resp):
		return true
	case resp.Refused && must:
		h.r.Count("config_invalid_refused", 1)
	case resp.Refused && either:
		h.r.Count("config_refused_unspecified", 1)
	case resp.Refused:
		h.violate(g, "C17-config-refused", fmt.Sprintf("valid configuration %v was refused: %s", d, resp.Err))
	case must:
		h.violate(g, "C17-invalid-config-accepted", fmt.Sprintf("configuration %v violates the documented version-window rules but was accepted", d))
	default:
		if newD > m.MinDec {
			h.r.Count("min_dec_raised", 1)
		} else if newD < m.MinDec {
			h.r.Count("min_dec_lowered", 1)
		}
		m.MinDec, m.MinEnc, m.DeletionAllowed = newD, newE, newDel
		h.r.Count("config_accepted", 1)
	}
	return false
}

func (h *c17Hist) genTrim(g *c17Ring) int {
	m := g.m
	hi := m.MinDec
	if m.MinEnc < hi {
		hi = m.MinEnc
	}
	if h.rng.Chance(2, 3) && hi >= 1 {
		lo := m.MinAvail
		if lo < 1 {
			lo = 1
		}
		if lo > hi {
			lo = hi
		}
		return lo + h.rng.Intn(hi-lo+1)
	}
	return -1 + h.rng.Intn(m.Latest+3)
}

func (h *c17Hist) doTrim(g *c17Ring, v int) bool {
	m := g.m
	must := v <= 0 || v < m.MinAvail || m.MinEnc == 0 || v > m.MinEnc || v > m.MinDec
	resp := h.a.write("keys/"+g.name+"/trim", map[string]any{"min_available_version": v})
	h.log("trim %s min_available_version=%d -> refused=%v %s", g.name, v, resp.Refused, resp.Err)
	switch {
	case h.byFault(resp):
		return true
	case resp.Refused && must:
		h.r.Count("trim_invalid_refused", 1)
	case resp.Refused && m.SoftDeleted:
	case resp.Refused && h.retryClass != "":
		h.violate(g, h.retryClass, fmt.Sprintf("cache-less: a trim failed on the policy write after the trimmed archive had been written; the retried trim to %d slices the already trimmed archive again and fails: %s", v, resp.Err))
	case resp.Refused:
		h.violate(g, "C17-config-refused", fmt.Sprintf("valid trim to %d was refused: %s", v, resp.Err))
	case must:
		h.violate(g, "C17-invalid-config-accepted", fmt.Sprintf("trim to %d violates the documented rules (<= min(min_dec,min_enc), both set, not decreasing) but was accepted", v))
	default:
		if v > 1 && v > m.MinAvail {
			h.r.Count("trims_effective", 1)
		}
		m.MinAvail = v
	}
	return false
}

type c17Backup struct {
	blob string
	m    *c17Model
	name string // the key name recorded in the backup
}

func (h *c17Hist) doBackup(g *c17Ring) bool {
	resp := h.a.do(logical.ReadOperation, "backup/"+g.name, nil)
	blob := c17Str(resp.Data["backup"])
	h.log("backup %s refused=%v %s", g.name, resp.Refused, resp.Err)
	switch {
	case h.byFault(resp):
		return true
	case resp.Refused && g.m.SoftDeleted:
	case resp.Refused || blob == "":
		h.violate(g, "C17-backup-failed", "backup of an exportable key with allow_plaintext_backup failed: "+resp.Err)
	case g.m.SoftDeleted:
		h.violate(g, "C17-deleted-key-used", "a soft-deleted key was backed up")
	default:
		h.backups = append(h.backups, c17Backup{blob, g.m.clone(), g.name})
		h.r.Count("backups", 1)
	}
	return false
}

func (h *c17Hist) doRestore(target *c17Ring, b c17Backup, force bool) bool {
	path := "restore/" + target.name
	if h.restoreNoName && target.name == b.name {
		path = "restore" // the name is taken from the backup
	}
	resp := h.a.write(path, map[string]any{"backup": b.blob, "force": force})
	h.log("%s -> %s force=%v backup(latest=%d min_dec=%d min_avail=%d) refused=%v %s", target.name, force, b.m.Latest, b.m.MinDec, b.m.MinAvail, resp.Refused, resp.Err)
	switch {
	case h.byFault(resp):
		return true
	case !force && target.exists:
		if !resp.Refused {
			h.violate(target, "C17-unforced-restore-replaced-existing-key", fmt.Sprintf("%s without force replaced the existing key %s", path, target.name))
		} else {
			h.r.Count("restore_noforce_refused", 1)
			h.r.Count(fmt.Sprintf("restore_noforce_refused:name_given=%v", path != "restore"), 1)
		}
	case resp.Refused:
		h.violate(target, "C17-restore-failed", "restore failed: "+resp.Err)
	default:
		target.exists = true
		target.m = b.m.clone()
		target.trimFault, target.limbo = "", 0
		h.r.Count("restores", 1)
	}
	return false
}

var c17APISpecs = []c17Spec{
	{Type: "aes256-gcm96"},
	{Type: "aes256-gcm96", Derived: true},
	{Type: "aes256-gcm96", Derived: true, Convergent: true},
	{Type: "aes128-gcm96"},
	{Type: "aes128-gcm96", Derived: true, Convergent: true},
	{Type: "chacha20-poly1305"},
	{Type: "chacha20-poly1305", Derived: true},
	{Type: "xchacha20-poly1305", Derived: true},
	{Type: "xchacha20-poly1305", Derived: true, Convergent: true},
	{Type: "ed25519"},
	{Type: "ed25519", Derived: true},
	{Type: "ecdsa-p256"},
	{Type: "ecdsa-p384"},
	{Type: "ecdsa-p521"},
	{Type: "hmac"},
	{Type: "rsa-2048"},
}

func TestVerif_C17_History(t *testing.T) {
	seed := kit.Seed(17)
	shard := c17Shard()
	r := kit.NewResult(t, "c17-api-history", seed, "case = one seeded history of 40 requests against the transit backend (HandleRequest, in-memory storage, cached and cache-less, backend restarts) over up to three key rings of one type: create, rotate, keys/config with valid and invalid min_decryption/min_encryption/deletion_allowed, trim, backup, restore (forced over the same name, non-forced, to a sibling name), soft-delete and its restore, delete and re-create, encrypt/decrypt single and batch (with tampered items), rewrap, sign, hmac; in two thirds of the histories the storage is a non-transactional wrapper that makes one PRNG-chosen storage operation (get/put/delete #0..6) of a rotate/config/trim/backup/restore request fail once, after which the client retries; plus fixed scenarios in which EVERY storage-operation index of rotate / raise min_dec / lower min_dec / trim / restore is failed in turn and the key is then rotated, used, and min_decryption_version raised to latest and lowered again. After every request the key read-back must equal the reference model (unchanged after a request that failed), remembered ciphertexts/signatures/HMACs (newest per key version + sample) are replayed against every ring and must be accepted with the original content iff the ring exists, is not soft-deleted, min_dec <= version <= latest and that version holds the generating key, producers must refuse versions below min_encryption_version, outputs are re-checked with the Go primitives on the stored key material, storage must hold key material for [min_available, latest] and none for trimmed versions or deleted keys; a history is non-trivial when its request sequence is distinct")
	defer r.Write(t)
	ctx := context.Background()
	// fixed scenarios: every storage-op index of each maintenance request
	scenSpecs := []c17Spec{{Type: "aes256-gcm96"}, {Type: "chacha20-poly1305", Derived: true}, {Type: "aes128-gcm96", Derived: true, Convergent: true}, {Type: "ed25519"}, {Type: "ecdsa-p256"}}
	if kit.Tier() == "thorough" {
		scenSpecs = append(scenSpecs, c17APISpecs[1], c17APISpecs[3], c17APISpecs[8], c17APISpecs[10], c17APISpecs[14], c17APISpecs[15])
	}
	for si, spec := range scenSpecs {
		for _, noCache := range []bool{false, true} {
			for _, kind := range c17ScenarioKinds {
				for k := 0; k < 40; k++ {
					id := fmt.Sprintf("scen:%d:%s:%v:%s:%d", shard, spec.name(), noCache, kind, k)
					if !kit.WantCase(id) {
						continue
					}
					rng := kit.NewRand(seed, 1767000+uint64(si)*100+uint64(k)+100000*uint64(shard))
					if !c17RunAPIScenario(ctx, r, rng, id, spec, noCache, kind, k) {
						break // op index k does not exist: all indices of this request were enumerated
					}
				}
				r.Count("scenario_requests_fully_enumerated", 1)
			}
		}
	}
	n := kit.N(192, 2400)
	for i := 0; i < n; i++ {
		id := fmt.Sprintf("api:%d:%d", shard, i)
		if !kit.WantCase(id) {
			continue
		}
		rng := kit.NewRand(seed, 1737000+uint64(i)+100000*uint64(shard))
		spec := c17APISpecs[i%len(c17APISpecs)]
		if spec.isRSA() && i >= kit.N(2, 4)*len(c17APISpecs) {
			spec = c17APISpecs[rng.Intn(len(c17APISpecs)-1)]
		}
		c17RunAPIHistory(ctx, r, rng, id, spec, (i/len(c17APISpecs))%2 == 1, i%3 != 0)
	}
	r.Require("hist_decrypt_ok_old_version", 300)
	r.Require("hist_refused_below_min_dec", 100)
	r.Require("hist_refused_too_new", 10)
	r.Require("hist_refused_other_key", 100)
	r.Require("hist_refused_soft_deleted", 20)
	r.Require("hist_ok_again_after_refusal", 20)
	r.Require("hist_encrypt_refused_below_min_enc", 10)
	r.Require("hist_sig_verify_ok", 100)
	r.Require("hist_hmac_verify_ok", 100)
	r.Require("hist_sig_ref_verified", 30)
	r.Require("hist_hmac_ref_ok", 30)
	r.Require("hist_batch_decrypt_ok", 20)
	r.Require("hist_rewraps", 20)
	r.Require("trimmed_version_gone", 10)
	r.Require("archive_has_version", 1000)
	r.Require("restores", 20)
	r.Require("config_accepted", 100)
	r.Require("config_invalid_refused", 50)
	r.Require("deleted_key_left_nothing", 3)
	r.Require("fault_failed_request:rotate", 20)
	r.Require("fault_failed_request:config", 20)
	r.Require("fault_failed_request:trim", 10)
	r.Require("fault_failed_request:restore", 10)
	r.Require("fault_fired:rotate:put_policy", 5)
	r.Require("fault_fired:rotate:put_archive", 5)
	r.Require("fault_retried:rotate", 20)
	r.Require("scenario_requests_fully_enumerated", 30)
}

func c17NewHist(ctx context.Context, r *kit.Result, rng *kit.Rand, id string, spec c17Spec, noCache, faults bool) *c17Hist {
	a, err := c17NewAPI(ctx, r, id, noCache)
	if err != nil {
		r.Inconc("%s: backend: %v", id, err)
		return nil
	}
	if faults {
		a.withFaults()
	}
	h := &c17Hist{a: a, r: r, rng: rng, id: id, spec: spec}
	if spec.Derived {
		h.kctx = rng.Bytes(1 + rng.Intn(32))
	}
	return h
}

var c17ScenarioKinds = []string{"rotate", "raise-min-dec", "lower-min-dec", "trim", "restore", "backup"}

// c17RunAPIScenario: a fixed history in which storage operation #k of one
// maintenance request fails once. Returns false when the request has no k-th
// storage operation (enumeration complete).
func c17RunAPIScenario(ctx context.Context, r *kit.Result, rng *kit.Rand, id string, spec c17Spec, noCache bool, kind string, k int) bool {
	h := c17NewHist(ctx, r, rng, id, spec, noCache, true)
	if h == nil {
		return false
	}
	r.Eval(1)
	r.Nontrivial(id)
	g := &c17Ring{name: "k"}
	h.rings = []*c17Ring{g}
	if !h.create(g) {
		return false
	}
	h.forceLatest = true
	step := 0
	produce := func() {
		step++
		if h.bad {
			return
		}
		switch {
		case spec.encrypts():
			h.opEncrypt(g, step)
		case spec.signs():
			h.opSign(g, step)
		default:
			h.opHMAC(g, step)
		}
		h.opHMAC(g, step)
		if !h.bad {
			h.checkAll(nil)
		}
	}
	plain := func(f func() bool) {
		if !h.bad {
			f()
		}
		if !h.bad {
			h.checkAll(nil)
		}
	}
	produce()
	plain(func() bool { return h.doRotate(g) })
	produce()
	plain(func() bool { return h.doBackup(g) })
	fired := false
	target := func(kind string, skip *c17Ring, f func() bool) {
		if h.bad {
			return
		}
		fired = h.faulted(kind, k, skip, f)
		if !h.bad {
			h.checkAll(nil)
		}
	}
	switch kind {
	case "rotate":
		target("rotate", nil, func() bool { return h.doRotate(g) })
	case "raise-min-dec":
		plain(func() bool { return h.doRotate(g) })
		produce()
		target("config", nil, func() bool { return h.doConfig(g, map[string]any{"min_decryption_version": 3}) })
	case "lower-min-dec":
		plain(func() bool { return h.doRotate(g) })
		produce()
		plain(func() bool { return h.doConfig(g, map[string]any{"min_decryption_version": 3}) })
		target("config", nil, func() bool { return h.doConfig(g, map[string]any{"min_decryption_version": 1}) })
	case "trim":
		plain(func() bool { return h.doRotate(g) })
		produce()
		plain(func() bool {
			return h.doConfig(g, map[string]any{"min_decryption_version": 2, "min_encryption_version": 3})
		})
		h.trimHooks(g, 2)
		target("trim", nil, func() bool { return h.doTrim(g, 2) })
	case "restore":
		plain(func() bool { return h.doRotate(g) })
		produce()
		if len(h.backups) > 0 {
			b := h.backups[0]
			target("restore", g, func() bool { return h.doRestore(g, b, true) })
		}
	case "backup":
		plain(func() bool { return h.doRotate(g) })
		target("backup", nil, func() bool { return h.doBackup(g) })
	}
	// afterwards the key ring is used like any other
	produce()
	plain(func() bool { return h.doRotate(g) })
	produce()
	plain(func() bool { return h.doRotate(g) })
	produce()
	lo := g.m.MinAvail
	if lo < 1 {
		lo = 1
	}
	plain(func() bool {
		return h.doConfig(g, map[string]any{"min_decryption_version": g.m.Latest, "min_encryption_version": g.m.Latest})
	})
	produce()
	plain(func() bool { return h.doConfig(g, map[string]any{"min_decryption_version": lo}) })
	produce()
	if len(h.backups) > 0 {
		b := h.backups[len(h.backups)-1]
		plain(func() bool { return h.doRestore(g, b, true) })
		plain(func() bool { return h.doRotate(g) })
		produce()
	}
	r.Count("scenarios", 1)
	if fired {
		r.Count("scenarios_with_fault", 1)
	}
	return fired
}

func c17RunAPIHistory(ctx context.Context, r *kit.Result, rng *kit.Rand, id string, spec c17Spec, noCache, faults bool) {
	h := c17NewHist(ctx, r, rng, id, spec, noCache, faults)
	if h == nil {
		return
	}
	a := h.a
	r.Eval(1)
	main := &c17Ring{name: "k"}
	other := &c17Ring{name: "o"}
	sib := &c17Ring{name: "r"}
	h.rings = []*c17Ring{main, other, sib}
	if !h.create(main) || !h.create(other) {
		return
	}
	var sigb strings.Builder
	nops := 40
	for step := 1; step <= nops && !h.bad; step++ {
		g := main
		if rng.Chance(1, 6) {
			g = other
		} else if sib.exists && rng.Chance(1, 4) {
			g = sib
		}
		if !g.exists {
			if g == sib {
				continue
			}
			sigb.WriteString("C")
			if !h.create(g) {
				return
			}
		}
		op := rng.Intn(100)
		if g.m.SoftDeleted && rng.Chance(1, 2) {
			op = 58 // restore from soft delete soon
		}
		switch {
		case op < 14:
			sigb.WriteString("R")
			h.faulted("rotate", h.pickFault(), nil, func() bool { return h.doRotate(g) })
		case op < 34:
			sigb.WriteString("c")
			d := h.genConfig(g)
			h.faulted("config", h.pickFault(), nil, func() bool { return h.doConfig(g, d) })
		case op < 42:
			sigb.WriteString("T")
			v := h.genTrim(g)
			h.trimHooks(g, v)
			h.faulted("trim", h.pickFault(), nil, func() bool { return h.doTrim(g, v) })
		case op < 47:
			sigb.WriteString("B")
			h.faulted("backup", h.pickFault(), nil, func() bool { return h.doBackup(g) })
		case op < 54:
			if len(h.backups) == 0 {
				continue
			}
			b := h.backups[rng.Intn(len(h.backups))]
			target := g
			if rng.Chance(1, 3) {
				target = sib
			}
			// matrix: {name in the path, taken from the backup} x {force, no force} x
			// {target absent, cached, in storage only after a backend restart or an
			// invalidation (or caching disabled)} x {name of the backup, other name}
			h.restoreNoName = rng.Chance(1, 2)
			if h.restoreNoName {
				for _, rg := range h.rings {
					if rg.name == b.name {
						target = rg
					}
				}
			}
			force := rng.Chance(3, 5)
			switch rng.Intn(4) {
			case 0:
				if err := a.restart(); err != nil {
					r.Inconc("%s: restart: %v", id, err)
					return
				}
				h.log("backend restart before the restore")
				r.Count("restore_after_restart", 1)
			case 1:
				a.b.invalidate(ctx, "policy/"+target.name)
				h.log("invalidate policy/%s before the restore", target.name)
				r.Count("restore_after_invalidate", 1)
			}
			sigb.WriteString("S" + target.name)
			h.faulted("restore", h.pickFault(), target, func() bool { return h.doRestore(target, b, force) })
		case op < 57:
			sigb.WriteString("d")
			resp := a.do(logical.DeleteOperation, "keys/"+g.name+"/soft-delete", nil)
			h.log("soft-delete %s refused=%v %s", g.name, resp.Refused, resp.Err)
			if resp.Refused {
				h.violate(g, "C17-config-refused", "soft-delete refused: "+resp.Err)
			} else {
				g.m.SoftDeleted = true
				r.Count("soft_deletes", 1)
			}
		case op < 60:
			sigb.WriteString("u")
			resp := a.write("keys/"+g.name+"/soft-delete-restore", map[string]any{})
			h.log("soft-delete-restore %s refused=%v %s", g.name, resp.Refused, resp.Err)
			if resp.Refused {
				h.violate(g, "C17-config-refused", "soft-delete-restore refused: "+resp.Err)
			} else {
				g.m.SoftDeleted = false
			}
		case op < 63:
			sigb.WriteString("X")
			if !g.m.DeletionAllowed && !g.m.SoftDeleted && rng.Chance(1, 2) {
				if resp := a.write("keys/"+g.name+"/config", map[string]any{"deletion_allowed": true}); !resp.Refused {
					g.m.DeletionAllowed = true
					h.log("config %s deletion_allowed=true", g.name)
				}
			}
			resp := a.do(logical.DeleteOperation, "keys/"+g.name, nil)
			h.log("delete %s (deletion_allowed=%v) refused=%v %s", g.name, g.m.DeletionAllowed, resp.Refused, resp.Err)
			switch {
			case !g.m.DeletionAllowed && !resp.Refused:
				h.violate(g, "C17-delete-not-allowed", "key deleted although deletion_allowed is false")
			case !g.m.DeletionAllowed:
				r.Count("delete_refused", 1)
			case resp.Refused:
				h.violate(g, "C17-config-refused", "delete of a key with deletion_allowed=true refused: "+resp.Err)
			default:
				g.exists = false
				r.Count("deletes", 1)
			}
		case op < 67:
			sigb.WriteString("L")
			if err := a.restart(); err != nil {
				r.Inconc("%s: restart: %v", id, err)
				return
			}
			h.log("backend restart")
			r.Count("restarts", 1)
		default:
			var kinds []string
			if spec.encrypts() {
				kinds = append(kinds, "e", "e", "e", "eb", "db", "w", "w")
			}
			if spec.signs() {
				kinds = append(kinds, "s", "s", "s")
			}
			kinds = append(kinds, "h")
			if !spec.encrypts() && !spec.signs() {
				kinds = append(kinds, "h", "h")
			}
			kd := kit.Pick(rng, kinds)
			sigb.WriteString(kd)
			switch kd {
			case "e":
				h.opEncrypt(g, step)
			case "eb":
				h.opEncryptBatch(g, step)
			case "db":
				h.opDecryptBatch(g)
			case "w":
				h.opRewrap(g, step)
			case "s":
				h.opSign(g, step)
			case "h":
				h.opHMAC(g, step)
			}
		}
		h.checkAll(nil)
	}
	r.Nontrivial(spec.name() + fmt.Sprint(noCache, faults) + sigb.String())
	r.Count("histories", 1)
	if faults {
		r.Count("histories_with_fault_storage", 1)
	}
	if strings.HasSuffix(id, ":0") || strings.HasSuffix(id, ":9") {
		st := h.steps
		if len(st) > 14 {
			st = st[:14]
		}
		r.Sample(map[string]any{"history": id, "spec": spec.name(), "first_steps": st, "ledger_entries": len(h.ledger)})
	}
}
