//go:build verif

package transit

// C17 (API level, concurrent requests): the same monitor as the policy-level
// one (sdk/helper/keysutil, c17_conc_test.go) driven through the transit
// backend's request handlers: keys/<k>/config, keys/<k>/rotate, keys/<k>/trim,
// DELETE keys/<k>, encrypt, decrypt, sign, verify, hmac, keys/<k> read, backup.
// Several clients run short programs against ONE key through
// backend.HandleRequest after a fresh start / invalidate() / eviction (and with
// the key cached). The logical.Storage handed to the requests is wrapped: every
// storage operation of a client goroutine (and the start of every client) is a
// scheduling point at which the goroutine is parked until a controller
// releases it; a released goroutine that waits for a sync mutex (goroutine
// dump) is "blocked on a lock" and another client is released. The wrapper is
// not transactional, so the handlers work without storage transactions; the
// free-running variant additionally runs on the transactional in-memory
// storage itself.
//
// Oracle: sequential reference {latest, min_decryption_version,
// min_encryption_version, min_available_version, deletion_allowed, deleted}:
// every ACKNOWLEDGED rotate / config / trim / delete is visible to every
// request that started after the acknowledgement, the per-key history is
// linearizable (porcupine), and at quiescence the policy the backend serves
// equals what storage holds.

import (
	"bytes"
	"context"
	"crypto/ed25519"
	"crypto/hmac"
	"crypto/sha256"
	"encoding/base64"
	"encoding/hex"
	"fmt"
	"os"
	"runtime"
	"sort"
	"strconv"
	"strings"
	"sync"
	"sync/atomic"
	"testing"
	"time"

	"github.com/anishathalye/porcupine"

	"github.com/openbao/openbao/sdk/v2/helper/keysutil"
	kit "github.com/openbao/openbao/sdk/v2/helper/verifkit"
	"github.com/openbao/openbao/sdk/v2/logical"
)

// ------------------------------------------------------------ scheduler

type c17Parked struct {
	op, key string
	release chan struct{}
}

// c17Sched parks tagged goroutines at scheduling points. When it is off the
// points only record the order in which they were passed (free-running mode).
type c17Sched struct {
	mu     sync.Mutex
	on     bool
	tags   map[uint64]string
	gids   map[string]uint64
	parked map[string]*c17Parked
	done   map[string]bool
	order  []string // "tag:op:key" in the order the points were passed
	yield  func() bool
	wake   chan struct{}

	stackBuf  []byte
	snapshots int
	blockedEv int
}

func c17NewSched() *c17Sched {
	return &c17Sched{tags: map[uint64]string{}, gids: map[string]uint64{}, parked: map[string]*c17Parked{}, done: map[string]bool{}, wake: make(chan struct{}, 1), stackBuf: make([]byte, 64<<10)}
}

func (s *c17Sched) poke() {
	select {
	case s.wake <- struct{}{}:
	default:
	}
}

// register binds the calling goroutine to tag.
func (s *c17Sched) register(tag string) uint64 {
	gid := kit.GoID()
	s.mu.Lock()
	s.tags[gid] = tag
	s.gids[tag] = gid
	s.mu.Unlock()
	return gid
}

func (s *c17Sched) finish(tag string, gid uint64) {
	s.mu.Lock()
	s.done[tag] = true
	delete(s.tags, gid)
	s.mu.Unlock()
	s.poke()
}

// point is a scheduling point of the calling goroutine; it returns the
// goroutine's tag ("" for goroutines that are not clients).
func (s *c17Sched) point(op, key string) string {
	gid := kit.GoID()
	s.mu.Lock()
	tag := s.tags[gid]
	if tag == "" {
		s.mu.Unlock()
		return ""
	}
	if !s.on || s.done[tag] {
		s.order = append(s.order, tag+":"+op+":"+key)
		y := s.yield != nil && s.yield()
		s.mu.Unlock()
		if y {
			runtime.Gosched()
		}
		return tag
	}
	po := &c17Parked{op: op, key: key, release: make(chan struct{})}
	s.parked[tag] = po
	s.mu.Unlock()
	s.poke()
	<-po.release
	return tag
}

// goStates returns the wait state of every goroutine ("running", "chan
// receive", "sync.Mutex.Lock", ...), taken from one atomic goroutine dump.
func (s *c17Sched) goStates() map[uint64]string {
	var n int
	for {
		n = runtime.Stack(s.stackBuf, true)
		if n < len(s.stackBuf) {
			break
		}
		s.stackBuf = make([]byte, 2*len(s.stackBuf))
	}
	s.snapshots++
	out := map[uint64]string{}
	b := s.stackBuf[:n]
	pfx := []byte("goroutine ")
	for len(b) > 0 {
		line := b
		if i := bytes.IndexByte(b, '\n'); i >= 0 {
			line, b = b[:i], b[i+1:]
		} else {
			b = nil
		}
		if !bytes.HasPrefix(line, pfx) {
			continue
		}
		rest := line[len(pfx):]
		j := 0
		for j < len(rest) && rest[j] >= '0' && rest[j] <= '9' {
			j++
		}
		if j == 0 {
			continue
		}
		id, err := strconv.ParseUint(string(rest[:j]), 10, 64)
		if err != nil {
			continue
		}
		lb := bytes.IndexByte(rest, '[')
		rb := bytes.LastIndexByte(rest, ']')
		if lb < 0 || rb < lb {
			continue
		}
		st := string(rest[lb+1 : rb])
		if k := strings.IndexByte(st, ','); k >= 0 {
			st = st[:k]
		}
		out[id] = st
	}
	return out
}

// stackOf returns the frames of one goroutine from the last dump (diagnostics).
func (s *c17Sched) stackOf(gid uint64) string {
	b := s.stackBuf
	hdr := []byte(fmt.Sprintf("goroutine %d ", gid))
	i := bytes.Index(b, hdr)
	if i < 0 {
		return ""
	}
	b = b[i:]
	if j := bytes.Index(b, []byte("\n\n")); j >= 0 {
		b = b[:j]
	}
	var fns []string
	for _, ln := range strings.Split(string(b), "\n")[1:] {
		if !strings.HasPrefix(ln, "\t") && ln != "" {
			if k := strings.LastIndexByte(ln, '('); k > 0 {
				ln = ln[:k]
			}
			fns = append(fns, ln[strings.LastIndexByte(ln, '/')+1:])
		}
		if len(fns) >= 14 {
			break
		}
	}
	return strings.Join(fns, " < ")
}

func c17LockWait(state string) bool {
	switch state {
	// not "semacquire": that is also the state of a goroutine which wants to
	// start a garbage collection while the world is stopped for the dump
	case "sync.Mutex.Lock", "sync.RWMutex.Lock", "sync.RWMutex.RLock":
		return true
	}
	return false
}

type c17SchedOut struct {
	kit.Schedule
	Deadlock bool
	States   map[string]string
}

const c17Grace = 150 * time.Microsecond

// settle waits until every live client is parked at a scheduling point or
// waits for a mutex. It returns the parked tags (sorted), whether all clients
// are done, and whether the watchdog expired.
func (s *c17Sched) settle(n int, deadline time.Time, states *map[string]string) (enabled []string, alldone, timedOut bool) {
	known := map[string]bool{} // judged lock-blocked by the last dump
	waited := false
	polls := 0
	timer := time.NewTimer(time.Hour)
	defer timer.Stop()
	for {
		s.mu.Lock()
		var unsettled []string
		enabled = enabled[:0]
		for tag := range s.gids {
			switch {
			case s.done[tag]:
			case s.parked[tag] != nil:
				enabled = append(enabled, tag)
			default:
				unsettled = append(unsettled, tag)
			}
		}
		ndone := len(s.done)
		gids := make(map[string]uint64, len(unsettled))
		for _, t := range unsettled {
			gids[t] = s.gids[t]
		}
		s.mu.Unlock()
		sort.Strings(enabled)
		if ndone == n {
			return nil, true, false
		}
		if len(unsettled) == 0 {
			return enabled, false, false
		}
		allKnown := true
		for _, t := range unsettled {
			if !known[t] {
				allKnown = false
			}
		}
		if allKnown || waited {
			st := s.goStates()
			all := true
			for _, t := range unsettled {
				if c17LockWait(st[gids[t]]) {
					if !known[t] {
						s.blockedEv++
					}
					known[t] = true
				} else {
					delete(known, t)
					all = false
				}
			}
			if all {
				// every live client is parked (in the set read BEFORE the dump) or waits
				// for a mutex in the dump: nothing can move until the controller acts.
				if states != nil {
					m := map[string]string{}
					for _, t := range unsettled {
						m[t] = st[gids[t]]
					}
					*states = m
				}
				return enabled, false, false
			}
			waited = false
		}
		polls++
		if polls > 20000 && time.Now().After(deadline) {
			// the watchdog needs both: the time is up AND this loop really polled
			// that often (a stalled process or a jumping clock alone never expires it)
			if states != nil {
				st := s.goStates()
				m := map[string]string{}
				for _, t := range unsettled {
					m[t] = "not settled: " + st[gids[t]] + " " + s.stackOf(gids[t])
				}
				*states = m
			}
			return enabled, false, true
		}
		if !timer.Stop() {
			select {
			case <-timer.C:
			default:
			}
		}
		timer.Reset(c17Grace)
		select {
		case <-s.wake:
		case <-timer.C:
			waited = true
		}
	}
}

// run executes the requests under the gate, releasing one parked client at a
// time as chosen by pol.
func (s *c17Sched) run(reqs []kit.Req, pol kit.Policy, hard time.Duration) c17SchedOut {
	s.mu.Lock()
	s.on = true
	s.mu.Unlock()
	var wg sync.WaitGroup
	ready := make(chan struct{}, len(reqs))
	for _, r := range reqs {
		wg.Add(1)
		go func(r kit.Req) {
			defer wg.Done()
			gid := s.register(r.Tag)
			ready <- struct{}{}
			defer s.finish(r.Tag, gid)
			s.point("start", "")
			r.Fn()
		}(r)
	}
	for range reqs {
		<-ready
	}
	var out c17SchedOut
	deadline := time.Now().Add(hard)
	last := ""
	for {
		var states map[string]string
		enabled, alldone, timedOut := s.settle(len(reqs), deadline, &states)
		if alldone {
			break
		}
		if timedOut || len(out.Steps) >= 2000 {
			out.TimedOut = true
			out.States = states
			break
		}
		if len(enabled) == 0 {
			out.Deadlock = true
			out.States = states
			break
		}
		choice, div := pol.Pick(len(out.Steps), enabled, last)
		if div {
			out.Diverged = true
		}
		s.mu.Lock()
		po := s.parked[choice]
		delete(s.parked, choice)
		s.order = append(s.order, choice+":"+po.op+":"+po.key)
		s.mu.Unlock()
		out.Steps = append(out.Steps, kit.Step{Tag: choice, Op: po.op, Key: po.key, Enabled: append([]string(nil), enabled...)})
		last = choice
		close(po.release)
	}
	s.mu.Lock()
	s.on = false
	for t, po := range s.parked {
		close(po.release)
		delete(s.parked, t)
	}
	s.mu.Unlock()
	out.Blocked = s.blockedEv
	if out.Deadlock {
		return out // the clients stay blocked for ever; they only hold this run's objects
	}
	fin := make(chan struct{})
	go func() { wg.Wait(); close(fin) }()
	select {
	case <-fin:
	case <-time.After(hard):
		out.TimedOut = true
	}
	return out
}

// free runs the requests as plain goroutines behind a start barrier. Clients
// that do not return are looked up in a goroutine dump: when every unfinished
// client waits for a mutex they are deadlocked.
func (s *c17Sched) free(reqs []kit.Req, hard time.Duration) (out c17SchedOut) {
	var wg sync.WaitGroup
	start := make(chan struct{})
	ready := make(chan struct{}, len(reqs))
	for _, r := range reqs {
		wg.Add(1)
		go func(r kit.Req) {
			defer wg.Done()
			gid := s.register(r.Tag)
			defer s.finish(r.Tag, gid)
			ready <- struct{}{}
			<-start
			r.Fn()
		}(r)
	}
	for range reqs {
		<-ready
	}
	close(start)
	fin := make(chan struct{})
	go func() { wg.Wait(); close(fin) }()
	for polls := 0; ; polls++ {
		select {
		case <-fin:
			return out
		case <-time.After(time.Second):
		}
		s.mu.Lock()
		live := map[string]uint64{}
		for tag, gid := range s.gids {
			if !s.done[tag] {
				live[tag] = gid
			}
		}
		s.mu.Unlock()
		st := s.goStates()
		all := len(live) > 0
		states := map[string]string{}
		for tag, gid := range live {
			states[tag] = st[gid] + " " + s.stackOf(gid)
			if !c17LockWait(st[gid]) {
				all = false
			}
		}
		out.States = states
		if all {
			out.Deadlock = true
			return out
		}
		if time.Duration(polls)*time.Second > hard {
			out.TimedOut = true
			return out
		}
	}
}

// ------------------------------------------------------- gated storage

type c17GStore struct {
	inner logical.Storage
	s     *c17Sched
}

func (g *c17GStore) Get(ctx context.Context, key string) (*logical.StorageEntry, error) {
	g.s.point("get", key)
	return g.inner.Get(ctx, key)
}

func (g *c17GStore) Put(ctx context.Context, e *logical.StorageEntry) error {
	g.s.point("put", e.Key)
	return g.inner.Put(ctx, e)
}

func (g *c17GStore) Delete(ctx context.Context, key string) error {
	g.s.point("delete", key)
	return g.inner.Delete(ctx, key)
}

func (g *c17GStore) List(ctx context.Context, prefix string) ([]string, error) {
	g.s.point("list", prefix)
	return g.inner.List(ctx, prefix)
}

func (g *c17GStore) ListPage(ctx context.Context, prefix, after string, limit int) ([]string, error) {
	g.s.point("listpage", prefix)
	return g.inner.ListPage(ctx, prefix, after, limit)
}

// ------------------------------------------------------ reference model

// c17KS is the sequential reference of one key name.
type c17KS struct {
	Latest, MinDec, MinEnc, MinAvail int
	DelAllowed, Deleted              bool
	// Orig: bit v is set while version v holds the key that produced the
	// ciphertext / signature / HMAC of version v made when the scenario was
	// set up (a rotate that creates version v anew, or a restore of a backup in
	// which version v is another key, clears it).
	Orig uint16
}

func (s c17KS) String() string {
	if s.Deleted {
		return "{absent}"
	}
	return fmt.Sprintf("{latest=%d min_dec=%d min_enc=%d min_avail=%d deletion_allowed=%v setup_keys=%s}", s.Latest, s.MinDec, s.MinEnc, s.MinAvail, s.DelAllowed, c17Bits(s.Orig))
}

func c17Bits(b uint16) string {
	var vs []string
	for v := 1; v < 16; v++ {
		if b&(1<<uint(v)) != 0 {
			vs = append(vs, "v"+strconv.Itoa(v))
		}
	}
	return "[" + strings.Join(vs, " ") + "]"
}

func c17AllBits(latest int) uint16 {
	var b uint16
	for v := 1; v <= latest; v++ {
		b |= 1 << uint(v)
	}
	return b
}

// c17St is a key with versions 1..latest, all made at setup.
func c17St(latest, minDec, minEnc int) c17CState {
	return c17CState{c17KS: c17KS{Latest: latest, MinDec: minDec, MinEnc: minEnc, Orig: c17AllBits(latest)}, K2: c17KS{Deleted: true}}
}

// c17CState is the sequential reference of a scenario: the key under test
// (embedded), the second key name that restores may create, the backup taken
// when the scenario was set up and the backups taken by the clients.
type c17CState struct {
	c17KS
	K2    c17KS
	B0    c17KS
	Saved [3]c17KS
	Has   [3]bool
	// backups a client took of the second key name (their recorded name is k2)
	Saved2 [3]c17KS
	Has2   [3]bool
}

func (s c17CState) String() string {
	out := "k=" + s.c17KS.String()
	if !s.K2.Deleted {
		out += " k2=" + s.K2.String()
	}
	for i, h := range s.Has {
		if h {
			out += fmt.Sprintf(" backup-of-client-%d=%v", i, s.Saved[i])
		}
	}
	return out
}

// c17CIn is one client operation. Arg: the value for config / trim, the
// requested key version for encrypt / sign / hmac (0 = latest), the version
// label of the presented setup ciphertext / signature / HMAC for decrypt /
// verify / hmacverify (a trailing 2 in the kind: through the second key name),
// for restore* 0 = the backup taken at setup, 1 = the client's own latest
// backup of the key, 2 = its own latest backup of the second name (Slot =
// client). restore / restore_noforce name the key, restore2* the second name,
// restore_bn* give no name: the target is the name recorded in the backup.
// newinstance / invalidate / evict are actions of the harness on the lock
// manager (new instance over the same storage, cache invalidation, LRU
// eviction); they change nothing in the reference.
type c17CIn struct {
	Kind string
	Arg  int
	Slot int
}

func (i c17CIn) String() string {
	switch i.Kind {
	case "rotate", "read", "read2", "allow_delete", "delete", "backup", "backup2", "recreate", "newinstance", "invalidate", "evict":
		return i.Kind
	case "restore", "restore_noforce", "restore2", "restore2_noforce", "restore_bn", "restore_bn_noforce":
		switch i.Arg {
		case 1:
			return i.Kind + "(own backup)"
		case 2:
			return i.Kind + "(own backup of k2)"
		}
		return i.Kind + "(setup backup)"
	}
	return fmt.Sprintf("%s(%d)", i.Kind, i.Arg)
}

// c17COut is what the client saw.
type c17COut struct {
	OK       bool   // accepted / produced / decrypted to the original / verified
	Refused  bool   // refused by a validity check
	NotFound bool   // the key does not exist (any more)
	Failed   bool   // answered "key not found / deleted" while a forced restore of its key was in progress: must have had no effect
	Ver      int    // rotate: the new latest version; encrypt / sign: version label of the output
	F        [4]int // read: latest, min_dec, min_enc, min_avail
	Err      string // refusal text, or an unexpected failure when none of the flags is set
}

func (o c17COut) String() string {
	switch {
	case o.Failed:
		return "failed-without-effect(" + o.Err + ")"
	case o.NotFound:
		return "not-found"
	case o.Refused:
		return "refused(" + o.Err + ")"
	case o.OK && o.Ver > 0:
		return fmt.Sprintf("ok v%d", o.Ver)
	case o.OK && o.F[0] > 0:
		return fmt.Sprintf("ok latest=%d min_dec=%d min_enc=%d min_avail=%d", o.F[0], o.F[1], o.F[2], o.F[3])
	case o.OK:
		return "ok"
	}
	return "ERROR(" + o.Err + ")"
}

// c17KStep is the sequential specification of the operations on one key
// name: is out a legal answer to in in state st, and the state afterwards.
func c17KStep(st c17KS, in c17CIn, out c17COut) (bool, c17KS) {
	if st.Deleted {
		return out.NotFound, st
	}
	if out.NotFound || (!out.OK && !out.Refused) {
		return false, st
	}
	produce := func() (bool, c17KS) {
		k := in.Arg
		switch {
		case k == 0:
			return out.OK && out.Ver == st.Latest, st
		case k < 0 || k > st.Latest:
			return out.Refused, st
		case st.MinEnc > 0 && k < st.MinEnc:
			return out.Refused, st
		case k < st.MinDec:
			// no minimum encryption version set and the version is below the
			// decryption minimum: the property is silent
			return out.Refused || out.Ver == k, st
		}
		return out.OK && out.Ver == k, st
	}
	consume := func() (bool, c17KS) {
		v := in.Arg
		want := v >= st.MinDec && v <= st.Latest && v >= 1 && st.Orig&(1<<uint(v)) != 0
		return out.OK == want, st
	}
	switch in.Kind {
	case "rotate":
		if !out.OK || out.Ver != st.Latest+1 {
			return false, st
		}
		st.Latest++
		st.Orig &^= 1 << uint(st.Latest)
		return true, st
	case "min_dec":
		v := in.Arg
		legal := v >= 1 && v <= st.Latest && (st.MinEnc == 0 || v <= st.MinEnc) && v >= st.MinAvail
		if out.OK != legal {
			return false, st
		}
		if legal {
			st.MinDec = v
		}
		return true, st
	case "min_enc":
		v := in.Arg
		legal := v >= 1 && v <= st.Latest && v >= st.MinDec && v >= st.MinAvail
		if out.OK != legal {
			return false, st
		}
		if legal {
			st.MinEnc = v
		}
		return true, st
	case "trim":
		v := in.Arg
		legal := v >= 1 && v >= st.MinAvail && st.MinEnc != 0 && v <= st.MinEnc && v <= st.MinDec
		if out.OK != legal {
			return false, st
		}
		if legal {
			st.MinAvail = v
		}
		return true, st
	case "allow_delete":
		st.DelAllowed = true
		return out.OK, st
	case "delete":
		if out.OK != st.DelAllowed {
			return false, st
		}
		if out.OK {
			st = c17KS{Deleted: true}
		}
		return true, st
	case "encrypt", "sign", "hmac":
		return produce()
	case "decrypt", "verify", "hmacverify":
		return consume()
	case "read":
		return out.OK && out.F == [4]int{st.Latest, st.MinDec, st.MinEnc, st.MinAvail}, st
	}
	return false, st
}

// c17CStep is the sequential specification of a scenario. A restore replaces
// the whole state of its target name by the state held in the backup; a
// backup records the state of the key; deleting and creating the key again
// gives a new key with one version.
func c17CStep(st c17CState, in c17CIn, out c17COut) (bool, c17CState) {
	if out.Failed {
		// a request that raced a forced restore of its key and was answered with
		// an error: legal in any state, and it changes nothing (whether it really
		// changed nothing is checked against storage and the served policy)
		return true, st
	}
	switch in.Kind {
	case "newinstance", "invalidate", "evict":
		return out.OK, st
	case "decrypt2", "verify2", "hmacverify2", "read2", "rotate2", "allow_delete2", "delete2":
		in.Kind = strings.TrimSuffix(in.Kind, "2")
		ok, ks := c17KStep(st.K2, in, out)
		st.K2 = ks
		return ok, st
	case "backup2":
		if st.K2.Deleted {
			return out.NotFound, st
		}
		if !out.OK {
			return false, st
		}
		st.Saved2[in.Slot], st.Has2[in.Slot] = st.K2, true
		return true, st
	case "backup":
		if st.Deleted {
			return out.NotFound, st
		}
		if !out.OK {
			return false, st
		}
		st.Saved[in.Slot], st.Has[in.Slot] = st.c17KS, true
		return true, st
	case "recreate":
		if !out.OK {
			return false, st
		}
		if st.Deleted {
			st.c17KS = c17KS{Latest: 1, MinDec: 1}
		}
		return true, st
	case "restore", "restore_noforce", "restore2", "restore2_noforce", "restore_bn", "restore_bn_noforce":
		src := st.B0
		switch in.Arg {
		case 1:
			if !st.Has[in.Slot] {
				return out.Refused, st
			}
			src = st.Saved[in.Slot]
		case 2:
			if !st.Has2[in.Slot] {
				return out.Refused, st
			}
			src = st.Saved2[in.Slot]
		}
		target := &st.c17KS
		if strings.HasPrefix(in.Kind, "restore2") || (strings.HasPrefix(in.Kind, "restore_bn") && in.Arg == 2) {
			target = &st.K2 // named, or no name given and the backup was taken of the second name
		}
		if strings.HasSuffix(in.Kind, "_noforce") && !target.Deleted {
			return out.Refused, st
		}
		if !out.OK {
			return false, st
		}
		*target = src
		target.Deleted = false
		return true, st
	}
	ok, ks := c17KStep(st.c17KS, in, out)
	st.c17KS = ks
	return ok, st
}

func c17CModel(init c17CState) porcupine.Model {
	return porcupine.Model{
		Init: func() interface{} { return init },
		Step: func(state, input, output interface{}) (bool, interface{}) {
			ok, ns := c17CStep(state.(c17CState), input.(c17CIn), output.(c17COut))
			return ok, ns
		},
		Equal: func(a, b interface{}) bool { return a.(c17CState) == b.(c17CState) },
		DescribeOperation: func(input, output interface{}) string {
			return fmt.Sprintf("%v -> %v", input, output)
		},
		DescribeState: func(state interface{}) string { return state.(c17CState).String() },
	}
}

// -------------------------------------------------------------- scenarios

// c17CScen is one workload: an initial key ring, how the lock manager's cache
// relates to the key when the clients start, and one program per client.
type c17CScen struct {
	Idx     int
	Signing bool      // ed25519 (sign / verify) instead of aes256-gcm96 (encrypt / decrypt)
	Init    c17CState // Init.B0: the key as it was when the setup backup was taken (restore scenarios)
	Cache   string    // fresh | invalidated | warm | lru-fresh | lru-evicted | lru-warm
	Tx      bool      // free-running only: requests get the transactional in-memory storage itself
	Clients [][]c17CIn
	Light   bool   // left out of the quick tier
	Cell    string // restore matrix: the cell this scenario covers
}

// usesK2: some client restores onto the second key name.
func (sc *c17CScen) usesK2() bool {
	for _, c := range sc.Clients {
		for _, o := range c {
			if strings.HasPrefix(o.Kind, "restore2") {
				return true
			}
		}
	}
	return false
}

func (sc *c17CScen) name() string {
	var progs []string
	for _, c := range sc.Clients {
		var ops []string
		for _, o := range c {
			ops = append(ops, o.String())
		}
		progs = append(progs, strings.Join(ops, ";"))
	}
	kt := "aes256-gcm96"
	if sc.Signing {
		kt = "ed25519"
	}
	cell := ""
	if sc.Cell != "" {
		cell = " cell=(" + sc.Cell + ")"
	}
	return fmt.Sprintf("%s cache=%s%s init=%v clients=[%s]", kt, sc.Cache, cell, sc.Init, strings.Join(progs, " || "))
}

func c17CParse(prog string) []c17CIn {
	var out []c17CIn
	for _, f := range strings.Fields(prog) {
		kind, arg := f, 0
		if i := strings.IndexByte(f, '='); i >= 0 {
			kind = f[:i]
			arg, _ = strconv.Atoi(f[i+1:])
		}
		out = append(out, c17CIn{Kind: kind, Arg: arg})
	}
	return out
}

var c17CCacheKinds = []string{"fresh", "invalidated", "lru-fresh", "lru-evicted", "warm", "lru-warm"}

// c17CScenarios builds the fixed pairings followed by seeded random ones.
// Every exclusive request is followed, in the same client, by requests whose
// answer must reflect it.
func c17CScenarios(seed int64) []*c17CScen {
	base := c17St(3, 1, 0)
	trimmed := c17St(3, 2, 2)
	type prim struct {
		prog string
		init c17CState
	}
	prims := []prim{
		{"min_dec=2 decrypt=1 read", base},
		{"min_enc=3 encrypt=1 encrypt=0", base},
		{"rotate encrypt=0 read", base},
		{"trim=2 read decrypt=1", trimmed},
		{"allow_delete delete decrypt=3", base},
		{"min_dec=3 hmacverify=2 hmac=0", base},
	}
	seconds := []string{"decrypt=1", "encrypt=0", "rotate", "min_enc=2", "read", "backup", "hmac=0 hmacverify=1", "min_dec=2 decrypt=1"}
	sprims := []string{"min_dec=2 verify=1 sign=0", "rotate sign=0 verify=3", "min_enc=3 sign=1 read"}
	sseconds := []string{"verify=1", "sign=0", "rotate", "sign=1 verify=2"}
	var out []*c17CScen
	add := func(signing bool, init c17CState, cache string, progs ...string) {
		sc := &c17CScen{Idx: len(out), Signing: signing, Init: init, Cache: cache}
		for ci, p := range progs {
			ops := c17CParse(p)
			for i := range ops {
				if strings.HasPrefix(ops[i].Kind, "backup") || strings.HasPrefix(ops[i].Kind, "restore") {
					ops[i].Slot = ci
				}
			}
			sc.Clients = append(sc.Clients, ops)
		}
		out = append(out, sc)
	}
	// 1. every pairing with the key absent from a freshly built cache
	for _, p := range prims {
		for _, s := range seconds {
			add(false, p.init, "fresh", p.prog, s)
		}
	}
	for _, p := range sprims {
		for _, s := range sseconds {
			add(true, base, "fresh", p, s)
		}
	}
	// 2. the other ways in which a key is (not) cached; the pairing rotates with the seed
	rng := kit.NewRand(seed, 1_717_401)
	for ci, ck := range c17CCacheKinds[1:] {
		for pi, p := range prims {
			s := seconds[(pi+ci+int(uint64(seed)%8))%len(seconds)]
			add(false, p.init, ck, p.prog, s)
			s2 := seconds[rng.Intn(len(seconds))]
			add(false, p.init, ck, p.prog, s2)
		}
		add(true, base, ck, sprims[ci%len(sprims)], sseconds[rng.Intn(len(sseconds))])
	}
	// 3. two exclusive requests and a reader; three clients
	for i := 0; i < 24; i++ {
		p := prims[rng.Intn(len(prims))]
		q := prims[rng.Intn(len(prims))]
		init := p.init
		if q.init != p.init {
			q = p
		}
		ck := c17CCacheKinds[rng.Intn(len(c17CCacheKinds))]
		if i%2 == 0 {
			ck = "fresh"
		}
		add(false, init, ck, p.prog, strings.Fields(q.prog)[0], seconds[rng.Intn(len(seconds))])
	}
	// 4. backup / restore (with and without force, onto the same name and onto
	// a second name) and delete + create again. The key has versions 1..3 and
	// min_decryption_version 2; the setup backup was taken when it had versions
	// 1..2 and min_decryption_version 1, so an acknowledged restore makes the
	// version-1 output usable again, refuses version 3 as too new, and a rotate
	// after it creates a version 3 that must not accept the old version-3 output.
	rst := c17St(3, 2, 0)
	rst.B0 = c17KS{Latest: 2, MinDec: 1, Orig: c17AllBits(2)}
	rprims := []string{
		"restore decrypt=1 decrypt=3 read",
		"restore rotate decrypt=3 encrypt=0",
		"backup rotate restore=1 read encrypt=0",
		"allow_delete delete restore_noforce decrypt=1 read",
		"restore2_noforce decrypt2=1 read2",
		"allow_delete delete recreate encrypt=0 decrypt=1",
		"restore_noforce read hmacverify=1",
	}
	rseconds := []string{"rotate", "min_dec=3 decrypt=2", "hmac=0 hmacverify=1", "decrypt=1 read", "backup", "restore read", "restore2_noforce decrypt2=2", "rotate encrypt=0", "recreate read", "min_enc=3 encrypt=1"}
	warm := []string{"warm", "lru-warm"}
	cold := []string{"fresh", "invalidated", "lru-fresh", "lru-evicted"}
	for pi, p := range rprims {
		for si, s2 := range rseconds {
			add(false, rst, warm[(pi+si)%2], p, s2)
			add(false, rst, cold[(pi+si+int(uint64(seed)%4))%4], p, s2)
			out[len(out)-1].Light = (pi+si+int(uint64(seed)%2))%2 == 0
		}
	}
	for i, ck := range []string{"warm", "fresh", "lru-warm", "invalidated"} {
		add(true, rst, ck, "restore verify=1 verify=3 sign=0", []string{"rotate", "sign=0 verify=1"}[i%2])
		add(true, rst, ck, "restore rotate verify=3 sign=0", []string{"sign=0 verify=2", "rotate"}[i%2])
	}
	for i := 0; i < 16; i++ {
		ck := c17CCacheKinds[rng.Intn(len(c17CCacheKinds))]
		if i%2 == 0 {
			ck = warm[i/2%2]
		}
		add(false, rst, ck, rprims[rng.Intn(len(rprims))], rseconds[rng.Intn(len(rseconds))], rseconds[rng.Intn(len(rseconds))])
	}
	return out
}

// ------------------------------------------------------------------- run

type c17CRec struct {
	Client    int
	Tag       string
	In        c17CIn
	Out       c17COut
	Call, Ret int64
	Produced  string // ciphertext / signature / HMAC returned
	Plain     []byte
	KeyHash   string
}

func (r *c17CRec) String() string {
	return fmt.Sprintf("[%d..%d] %s: %v -> %v", r.Call, r.Ret, r.Tag, r.In, r.Out)
}

type c17CRun struct {
	sc       *c17CScen
	ctx      context.Context
	raw      *logical.InmemStorage
	st       logical.Storage // what the clients' requests carry
	b        *backend
	sched    *c17Sched
	plain    []byte
	cts      map[int]string // one ciphertext / signature per initial version
	macs     map[int]string // one HMAC per initial version
	orig     map[int]string // fingerprint of the key that made cts[v] / macs[v]
	b0       string         // backup taken at setup (restore scenarios)
	own      [3]string      // latest backup taken by each client
	own2     [3]string      // latest backup each client took of the second name
	evictSeq int
	stamp    atomic.Int64

	mu   sync.Mutex
	hist []*c17CRec
}

const c17CKey = "k"

// c17CKey2 is the second name restores may create.
const c17CKey2 = "k2"

func c17KeyHash(ke keysutil.KeyEntry) string {
	h := sha256.Sum256(ke.Key)
	return hex.EncodeToString(h[:6])
}

func c17CBackend(ctx context.Context, raw *logical.InmemStorage) (*backend, error) {
	return c17CBackendOpt(ctx, raw, false)
}

func c17CBackendOpt(ctx context.Context, raw *logical.InmemStorage, noCache bool) (*backend, error) {
	sys := logical.TestSystemView()
	sys.CachingDisabledVal = noCache
	conf := &logical.BackendConfig{StorageView: raw, System: sys}
	b, err := Backend(ctx, conf)
	if err != nil {
		return nil, err
	}
	if err := b.Setup(ctx, conf); err != nil {
		return nil, err
	}
	return b, nil
}

type c17CResp struct {
	Data    map[string]any
	Refusal string // error response of the handler
	Err     error  // error without an error response
	Nil     bool   // neither response nor error
}

func (u *c17CRun) req(st logical.Storage, op logical.Operation, path string, data map[string]any) (out c17CResp) {
	defer func() {
		if pv := recover(); pv != nil {
			out = c17CResp{Err: fmt.Errorf("PANIC: %v", pv)}
		}
	}()
	resp, err := u.b.HandleRequest(u.ctx, &logical.Request{Operation: op, Path: path, Data: data, Storage: st})
	if resp != nil {
		if resp.IsError() {
			out.Refusal = resp.Error().Error()
		}
		out.Data = resp.Data
	}
	if err != nil && out.Refusal == "" {
		out.Err = err
	}
	out.Nil = resp == nil && err == nil
	return out
}

// c17CNewRun builds the key ring of the scenario through the API with a
// throw-away backend object and then the backend under test over the same
// storage.
func c17CNewRun(ctx context.Context, r *kit.Result, id string, sc *c17CScen) (*c17CRun, error) {
	u := &c17CRun{sc: sc, ctx: ctx, raw: &logical.InmemStorage{}, sched: c17NewSched(), plain: []byte("c17 concurrent plaintext"), cts: map[int]string{}, macs: map[int]string{}, orig: map[int]string{}}
	u.st = &c17GStore{inner: u.raw, s: u.sched}
	if sc.Tx {
		u.st = u.raw
	}
	var err error
	if u.b, err = c17CBackend(ctx, u.raw); err != nil {
		return nil, err
	}
	must := func(op logical.Operation, path string, data map[string]any) (map[string]any, error) {
		resp := u.req(u.raw, op, path, data)
		if resp.Err != nil || resp.Refusal != "" {
			return nil, fmt.Errorf("setup %s %s: %v %s", op, path, resp.Err, resp.Refusal)
		}
		return resp.Data, nil
	}
	kt := "aes256-gcm96"
	if sc.Signing {
		kt = "ed25519"
	}
	if _, err := must(logical.UpdateOperation, "keys/"+c17CKey, map[string]any{"type": kt, "exportable": true, "allow_plaintext_backup": true}); err != nil {
		return nil, err
	}
	for v := 1; v <= sc.Init.Latest; v++ {
		if v > 1 {
			if _, err := must(logical.UpdateOperation, "keys/"+c17CKey+"/rotate", map[string]any{}); err != nil {
				return nil, err
			}
		}
		var d map[string]any
		if sc.Signing {
			if d, err = must(logical.UpdateOperation, "sign/"+c17CKey, map[string]any{"input": c17b64(u.plain), "key_version": v}); err == nil {
				u.cts[v] = c17Str(d["signature"])
			}
		} else {
			if d, err = must(logical.UpdateOperation, "encrypt/"+c17CKey, map[string]any{"plaintext": c17b64(u.plain), "key_version": v}); err == nil {
				u.cts[v] = c17Str(d["ciphertext"])
			}
		}
		if err != nil {
			return nil, err
		}
		if d, err = must(logical.UpdateOperation, "hmac/"+c17CKey, map[string]any{"input": c17b64(u.plain), "key_version": v}); err != nil {
			return nil, err
		}
		u.macs[v] = c17Str(d["hmac"])
		if lv, _, ok := c17Parse(u.cts[v], base64.StdEncoding); !ok || lv != v {
			return nil, fmt.Errorf("setup: output for version %d is %s", v, c17trunc(u.cts[v]))
		}
		sp, err := keysutil.LoadPolicy(ctx, u.raw, "policy/"+c17CKey)
		if err != nil || sp == nil {
			return nil, fmt.Errorf("setup: stored policy: %v", err)
		}
		u.orig[v] = c17KeyHash(sp.Keys[strconv.Itoa(v)])
		if b0 := sc.Init.B0; v == b0.Latest {
			cfg := map[string]any{"min_decryption_version": b0.MinDec, "min_encryption_version": b0.MinEnc, "deletion_allowed": b0.DelAllowed}
			if _, err := must(logical.UpdateOperation, "keys/"+c17CKey+"/config", cfg); err != nil {
				return nil, err
			}
			if d, err = must(logical.ReadOperation, "backup/"+c17CKey, nil); err != nil {
				return nil, err
			}
			if u.b0 = c17Str(d["backup"]); u.b0 == "" {
				return nil, fmt.Errorf("setup: empty backup")
			}
		}
	}
	cfg := map[string]any{}
	if sc.Init.MinDec > 1 {
		cfg["min_decryption_version"] = sc.Init.MinDec
	}
	if sc.Init.MinEnc > 0 {
		cfg["min_encryption_version"] = sc.Init.MinEnc
	}
	if sc.Init.DelAllowed {
		cfg["deletion_allowed"] = true
	}
	if len(cfg) > 0 {
		if _, err := must(logical.UpdateOperation, "keys/"+c17CKey+"/config", cfg); err != nil {
			return nil, err
		}
	}
	if strings.HasPrefix(sc.Cache, "lru") {
		if _, err := must(logical.UpdateOperation, "cache-config", map[string]any{"size": 10}); err != nil {
			return nil, err
		}
	}
	// the backend under test: a new object over the same storage (cold cache)
	if u.b, err = c17CBackendOpt(ctx, u.raw, sc.Cache == "disabled"); err != nil {
		return nil, err
	}
	if want := strings.HasPrefix(sc.Cache, "lru"); (u.b.lm.GetCacheSize() > 0) != want {
		return nil, fmt.Errorf("cache kind %s: backend cache size is %d", sc.Cache, u.b.lm.GetCacheSize())
	}
	touch := func(name string) error {
		_, err := must(logical.ReadOperation, "keys/"+name, nil)
		return err
	}
	switch sc.Cache {
	case "warm", "lru-warm":
		err = touch(c17CKey)
	case "invalidated":
		if err = touch(c17CKey); err == nil {
			u.b.invalidate(ctx, "policy/"+c17CKey)
		}
	case "lru-evicted":
		err = touch(c17CKey)
		for i := 0; i < 14 && err == nil; i++ {
			name := fmt.Sprintf("other%d", i)
			// created, never used again: the entries stay in the 2Q cache's "recent"
			// list, whose overflow evicts its oldest member (the key under test)
			_, err = must(logical.UpdateOperation, "keys/"+name, map[string]any{"type": "aes256-gcm96"})
		}
	}
	if err != nil {
		return nil, err
	}
	return u, nil
}

// classify maps a handler answer that is not a success.
func c17CClassify(resp c17CResp, soft bool) (c17COut, bool) {
	gone := func(s string) bool {
		return strings.Contains(s, "not found") || strings.Contains(s, "could be found") || strings.Contains(s, "invalid key name") || strings.Contains(s, "key has been deleted")
	}
	switch {
	case resp.Err != nil:
		if gone(resp.Err.Error()) {
			return c17COut{NotFound: true}, true
		}
		if soft && !strings.HasPrefix(resp.Err.Error(), "PANIC") {
			// encrypt / decrypt / sign / verify / hmac: an error without an error
			// response still means "nothing was produced / accepted"; whether that
			// refusal is legal is for the reference to say
			return c17COut{Refused: true, Err: resp.Err.Error()}, true
		}
		return c17COut{Err: resp.Err.Error()}, true
	case resp.Refusal != "":
		if gone(resp.Refusal) {
			return c17COut{NotFound: true}, true
		}
		return c17COut{Refused: true, Err: resp.Refusal}, true
	}
	return c17COut{}, false
}

// exec performs one client operation; rec receives what it produced.
func (u *c17CRun) exec(in c17CIn, rec *c17CRec) (out c17COut) {
	v := in.Arg
	write := func(path string, data map[string]any) (c17CResp, c17COut, bool) {
		resp := u.req(u.st, logical.UpdateOperation, path, data)
		o, bad := c17CClassify(resp, strings.HasPrefix(path, "encrypt/") || strings.HasPrefix(path, "sign/") || strings.HasPrefix(path, "hmac/"))
		return resp, o, bad
	}
	plainOK := func(path string, data map[string]any) c17COut {
		if _, o, bad := write(path, data); bad {
			return o
		}
		return c17COut{OK: true}
	}
	produce := func(path, inField, outField string) c17COut {
		resp, o, bad := write(path, map[string]any{inField: c17b64(rec.Plain), "key_version": v})
		if bad {
			return o
		}
		s := c17Str(resp.Data[outField])
		lv, _, ok := c17Parse(s, base64.StdEncoding)
		if !ok {
			return c17COut{Err: "unparsable " + outField + " " + c17trunc(s)}
		}
		rec.Produced = s
		return c17COut{OK: true, Ver: lv}
	}
	switch in.Kind {
	case "rotate":
		resp, o, bad := write("keys/"+c17CKey+"/rotate", map[string]any{})
		if bad {
			return o
		}
		return c17COut{OK: true, Ver: c17Int(resp.Data["latest_version"])}
	case "min_dec":
		return plainOK("keys/"+c17CKey+"/config", map[string]any{"min_decryption_version": v})
	case "min_enc":
		return plainOK("keys/"+c17CKey+"/config", map[string]any{"min_encryption_version": v})
	case "allow_delete":
		return plainOK("keys/"+c17CKey+"/config", map[string]any{"deletion_allowed": true})
	case "trim":
		return plainOK("keys/"+c17CKey+"/trim", map[string]any{"min_available_version": v})
	case "delete":
		resp := u.req(u.st, logical.DeleteOperation, "keys/"+c17CKey, nil)
		if o, bad := c17CClassify(resp, false); bad {
			return o
		}
		return c17COut{OK: true}
	case "backup":
		resp := u.req(u.st, logical.ReadOperation, "backup/"+c17CKey, nil)
		if o, bad := c17CClassify(resp, false); bad {
			return o
		}
		if c17Str(resp.Data["backup"]) == "" {
			return c17COut{Err: "empty backup"}
		}
		u.own[in.Slot] = c17Str(resp.Data["backup"])
		return c17COut{OK: true}
	case "encrypt":
		return produce("encrypt/"+c17CKey, "plaintext", "ciphertext")
	case "sign":
		return produce("sign/"+c17CKey, "input", "signature")
	case "hmac":
		return produce("hmac/"+c17CKey, "input", "hmac")
	case "decrypt", "verify", "hmacverify":
		return u.consume(u.st, c17CKey, in.Kind, rec.Produced, rec.Plain)
	case "decrypt2", "verify2", "hmacverify2":
		return u.consume(u.st, c17CKey2, strings.TrimSuffix(in.Kind, "2"), rec.Produced, rec.Plain)
	case "allow_delete2":
		return plainOK("keys/"+c17CKey2+"/config", map[string]any{"deletion_allowed": true})
	case "delete2":
		resp := u.req(u.st, logical.DeleteOperation, "keys/"+c17CKey2, nil)
		if o, bad := c17CClassify(resp, false); bad {
			return o
		}
		return c17COut{OK: true}
	case "backup2":
		resp := u.req(u.st, logical.ReadOperation, "backup/"+c17CKey2, nil)
		if o, bad := c17CClassify(resp, false); bad {
			return o
		}
		if c17Str(resp.Data["backup"]) == "" {
			return c17COut{Err: "empty backup"}
		}
		u.own2[in.Slot] = c17Str(resp.Data["backup"])
		return c17COut{OK: true}
	case "rotate2":
		resp, o, bad := write("keys/"+c17CKey2+"/rotate", map[string]any{})
		if bad {
			return o
		}
		return c17COut{OK: true, Ver: c17Int(resp.Data["latest_version"])}
	case "newinstance":
		// a new backend object over the same storage: nothing is cached
		b, err := c17CBackendOpt(u.ctx, u.raw, u.sc.Cache == "disabled")
		if err != nil {
			return c17COut{Err: err.Error()}
		}
		u.b = b
		return c17COut{OK: true}
	case "invalidate":
		u.b.invalidate(u.ctx, "policy/"+c17CKey)
		u.b.invalidate(u.ctx, "policy/"+c17CKey2)
		return c17COut{OK: true}
	case "evict":
		for i := 0; i < 14; i++ {
			u.evictSeq++
			if resp := u.req(u.raw, logical.UpdateOperation, fmt.Sprintf("keys/filler%d", u.evictSeq), map[string]any{"type": "aes256-gcm96"}); resp.Err != nil || resp.Refusal != "" {
				return c17COut{Err: fmt.Sprintf("filler key: %v %s", resp.Err, resp.Refusal)}
			}
		}
		return c17COut{OK: true}
	case "restore", "restore_noforce", "restore2", "restore2_noforce", "restore_bn", "restore_bn_noforce":
		blob := u.b0
		switch in.Arg {
		case 1:
			blob = u.own[in.Slot]
		case 2:
			blob = u.own2[in.Slot]
		}
		if blob == "" {
			return c17COut{Refused: true, Err: "no backup to restore"}
		}
		path := "restore/" + c17CKey
		switch {
		case strings.HasPrefix(in.Kind, "restore2"):
			path = "restore/" + c17CKey2
		case strings.HasPrefix(in.Kind, "restore_bn"):
			path = "restore" // the name recorded in the backup
		}
		resp := u.req(u.st, logical.UpdateOperation, path, map[string]any{"backup": blob, "force": !strings.HasSuffix(in.Kind, "_noforce")})
		if resp.Err != nil && strings.Contains(resp.Err.Error(), "already exists") {
			return c17COut{Refused: true, Err: resp.Err.Error()}
		}
		if resp.Err != nil || resp.Refusal != "" {
			return c17COut{Err: fmt.Sprintf("restore: %v %s", resp.Err, resp.Refusal)}
		}
		return c17COut{OK: true}
	case "recreate":
		kt := "aes256-gcm96"
		if u.sc.Signing {
			kt = "ed25519"
		}
		resp := u.req(u.st, logical.UpdateOperation, "keys/"+c17CKey, map[string]any{"type": kt, "exportable": true, "allow_plaintext_backup": true})
		if resp.Err != nil && strings.Contains(resp.Err.Error(), "returned policy was nil") {
			// the lock manager found the cached policy of a key that is being deleted
			return c17COut{Refused: true, Err: resp.Err.Error()}
		}
		if resp.Err != nil || resp.Refusal != "" {
			return c17COut{Err: fmt.Sprintf("create: %v %s", resp.Err, resp.Refusal)}
		}
		return c17COut{OK: true}
	case "read", "read2":
		name := c17CKey
		if in.Kind == "read2" {
			name = c17CKey2
		}
		resp := u.req(u.st, logical.ReadOperation, "keys/"+name, nil)
		if resp.Nil {
			return c17COut{NotFound: true}
		}
		if o, bad := c17CClassify(resp, false); bad {
			return o
		}
		d := resp.Data
		return c17COut{OK: true, F: [4]int{c17Int(d["latest_version"]), c17Int(d["min_decryption_version"]), c17Int(d["min_encryption_version"]), c17Int(d["min_available_version"])}}
	}
	return c17COut{Err: "unknown operation " + in.Kind}
}

// consume presents a ciphertext / signature / HMAC.
func (u *c17CRun) consume(st logical.Storage, name, kind, s string, plain []byte) c17COut {
	switch kind {
	case "decrypt":
		resp := u.req(st, logical.UpdateOperation, "decrypt/"+name, map[string]any{"ciphertext": s})
		if o, bad := c17CClassify(resp, true); bad {
			return o
		}
		got, err := base64.StdEncoding.DecodeString(c17Str(resp.Data["plaintext"]))
		if err != nil || !bytes.Equal(got, plain) {
			return c17COut{Err: fmt.Sprintf("WRONG PLAINTEXT %q", c17Str(resp.Data["plaintext"]))}
		}
		return c17COut{OK: true}
	case "verify", "hmacverify":
		field := "signature"
		if kind == "hmacverify" {
			field = "hmac"
		}
		resp := u.req(st, logical.UpdateOperation, "verify/"+name, map[string]any{"input": c17b64(plain), field: s})
		if o, bad := c17CClassify(resp, true); bad {
			return o
		}
		if valid, _ := resp.Data["valid"].(bool); !valid {
			return c17COut{Refused: true, Err: "valid=false"}
		}
		return c17COut{OK: true}
	}
	return c17COut{Err: "unknown operation " + kind}
}

// do runs one operation of a client and appends it to the history.
func (u *c17CRun) do(client int, tag string, idx int, in c17CIn) *c17CRec {
	rec := &c17CRec{Client: client, Tag: tag, In: in}
	switch in.Kind {
	case "encrypt", "sign", "hmac":
		rec.Plain = []byte(fmt.Sprintf("plaintext of %s#%d", tag, idx))
	case "decrypt", "verify", "decrypt2", "verify2":
		rec.Produced, rec.Plain = u.cts[in.Arg], u.plain
	case "hmacverify", "hmacverify2":
		rec.Produced, rec.Plain = u.macs[in.Arg], u.plain
	}
	rec.Call = u.stamp.Add(1)
	rec.Out = u.exec(in, rec)
	rec.Ret = u.stamp.Add(1)
	u.mu.Lock()
	u.hist = append(u.hist, rec)
	u.mu.Unlock()
	return rec
}

func (u *c17CRun) reqs() []kit.Req {
	var out []kit.Req
	for ci, prog := range u.sc.Clients {
		tag := string(rune('a' + ci))
		out = append(out, kit.Req{Tag: tag, Fn: func() {
			for i, in := range prog {
				u.do(ci, tag, i, in)
			}
		}})
	}
	return out
}

// ---------------------------------------------------------------- oracle

type c17CVerdict struct {
	r       *kit.Result
	id      string
	witness map[string]any
	fired   map[string]bool
}

func (v *c17CVerdict) violate(class, what string) {
	if v.fired[class] {
		return
	}
	v.fired[class] = true
	v.r.Violate(class, v.id, what, v.witness)
}

// c17CCandidates lists the values a configuration field may have for an
// operation spanning [call, ret]: the argument of every accepted set-operation
// that returned before call and was not certainly overwritten by another one
// that also returned before call (the initial value when there is none), and
// of every accepted set-operation that overlaps [call, ret].
func c17CCandidates(kind string, init int, hist []*c17CRec, call, ret int64) (vals []int, by map[int]*c17CRec) {
	by = map[int]*c17CRec{}
	var before []*c17CRec
	for _, h := range hist {
		if h.In.Kind != kind || !h.Out.OK {
			continue
		}
		switch {
		case h.Ret < call:
			before = append(before, h)
		case h.Call < ret:
			vals = append(vals, h.In.Arg)
		}
	}
	maximal := 0
	for _, b := range before {
		over := false
		for _, b2 := range before {
			if b.Ret < b2.Call {
				over = true
			}
		}
		if !over {
			vals = append(vals, b.In.Arg)
			by[b.In.Arg] = b
			maximal++
		}
	}
	if maximal == 0 {
		vals = append(vals, init)
	}
	return vals, by
}

func c17CMin(vals []int) int {
	m := vals[0]
	for _, v := range vals {
		if v < m {
			m = v
		}
	}
	return m
}

func c17CHas(vals []int, x int) bool {
	for _, v := range vals {
		if v == x {
			return true
		}
	}
	return false
}

// c17CAcked folds the acknowledged effects of the operations that returned
// before the operation spanning [call, ret] started into lower bounds on what
// that operation may observe: rotations only add versions, deletion is final,
// and a configuration field holds one of its candidate values.
func c17CAcked(init c17CState, hist []*c17CRec, call, ret int64) (lb c17CState, by map[string]*c17CRec) {
	lb = init
	by = map[string]*c17CRec{}
	for _, h := range hist {
		if h.Ret >= call || !h.Out.OK {
			continue
		}
		switch h.In.Kind {
		case "rotate":
			lb.Latest++
			by["latest"] = h
		case "allow_delete":
			lb.DelAllowed = true
		case "delete":
			lb.Deleted = true
			by["deleted"] = h
		}
	}
	for _, f := range []struct {
		kind string
		init int
		dst  *int
	}{{"min_dec", init.MinDec, &lb.MinDec}, {"min_enc", init.MinEnc, &lb.MinEnc}, {"trim", init.MinAvail, &lb.MinAvail}} {
		vals, who := c17CCandidates(f.kind, f.init, hist, call, ret)
		*f.dst = c17CMin(vals)
		if w := who[*f.dst]; w != nil {
			by[f.kind] = w
		}
	}
	return lb, by
}

// ------------------------------------------------ scenarios with restores

var c17CMutKinds = map[string]bool{"rotate": true, "min_dec": true, "min_enc": true, "trim": true, "allow_delete": true, "delete": true, "backup": true, "recreate": true, "restore": true, "restore_noforce": true, "restore2": true, "restore2_noforce": true, "restore_bn": true, "restore_bn_noforce": true, "backup2": true, "rotate2": true, "allow_delete2": true, "delete2": true}

func c17CIsReset(kind string) bool {
	return strings.HasPrefix(kind, "restore") || kind == "recreate"
}

// hasResets: some client restores a backup or creates the key again, so the
// state of the key is not monotone and the lower-bound rule does not apply.
func (sc *c17CScen) hasResets() bool {
	for _, c := range sc.Clients {
		for _, o := range c {
			if c17CIsReset(o.Kind) {
				return true
			}
		}
	}
	return false
}

// c17CPossible lists the reference states in which an operation spanning
// [call, ret] may have taken effect: the results of applying, in any order
// consistent with real time and with their own answers, every accepted
// state-changing operation that returned before call and any real-time
// closed subset of those that overlap [call, ret]. An operation whose answer
// is legal in none of them cannot be explained (necessary condition of
// linearizability; it names the operation that saw the impossible state).
func c17CPossible(init c17CState, hist []*c17CRec, self *c17CRec, call, ret int64) []c17CState {
	var m []*c17CRec
	for _, h := range hist {
		if h != self && c17CMutKinds[h.In.Kind] && h.Out.OK && h.Call < ret {
			m = append(m, h)
		}
	}
	if len(m) > 14 {
		return nil
	}
	var must uint
	pred := make([]uint, len(m))
	for i, a := range m {
		if a.Ret < call {
			must |= 1 << uint(i)
		}
		for j, b := range m {
			if b.Ret < a.Call {
				pred[i] |= 1 << uint(j)
			}
		}
	}
	type node struct {
		mask uint
		s    c17CState
	}
	visited := map[node]bool{}
	seen := map[c17CState]bool{}
	var dfs func(mask uint, s c17CState)
	dfs = func(mask uint, s c17CState) {
		if visited[node{mask, s}] {
			return
		}
		visited[node{mask, s}] = true
		if mask&must == must {
			seen[s] = true
		}
		for i := range m {
			if mask&(1<<uint(i)) != 0 || pred[i]&^mask != 0 {
				continue
			}
			if ok, ns := c17CStep(s, m[i].In, m[i].Out); ok {
				dfs(mask|1<<uint(i), ns)
			}
		}
	}
	dfs(0, init)
	out := make([]c17CState, 0, len(seen))
	for s := range seen {
		out = append(out, s)
	}
	sort.Slice(out, func(i, j int) bool { return out[i].String() < out[j].String() })
	return out
}

// c17CImpossible names the kind of disagreement between an answer and every
// state the acknowledged operations allow.
func c17CImpossible(h *c17CRec, states []c17CState) string {
	kind, second := h.In.Kind, false
	if strings.HasSuffix(kind, "2") && !strings.HasPrefix(kind, "restore") {
		kind, second = strings.TrimSuffix(kind, "2"), true
	}
	if strings.HasPrefix(kind, "restore2") || (strings.HasPrefix(kind, "restore_bn") && h.In.Arg == 2) {
		second = true
	}
	all := func(pred func(k c17KS) bool) bool {
		for _, s := range states {
			k := s.c17KS
			if second {
				k = s.K2
			}
			if !pred(k) {
				return false
			}
		}
		return true
	}
	o, a := h.Out, h.In.Arg
	bit := uint16(1) << uint(a&15)
	switch {
	case o.NotFound && all(func(k c17KS) bool { return !k.Deleted }):
		return "C17-key-missing-although-acknowledged-to-exist"
	case !o.NotFound && !c17CIsReset(kind) && all(func(k c17KS) bool { return k.Deleted }):
		return "C17-key-usable-after-acknowledged-delete"
	}
	switch kind {
	case "decrypt", "verify", "hmacverify":
		switch {
		case o.OK && all(func(k c17KS) bool { return a < k.MinDec }):
			return "C17-" + kind + "-below-acknowledged-min-version"
		case o.OK && all(func(k c17KS) bool { return a > k.Latest || k.Orig&bit == 0 }):
			return "C17-" + kind + "-accepted-with-key-outside-acknowledged-state"
		case o.Refused && all(func(k c17KS) bool { return a >= k.MinDec && a <= k.Latest && k.Orig&bit != 0 }):
			return "C17-" + kind + "-refused-inside-acknowledged-window"
		}
	case "encrypt", "sign", "hmac":
		switch {
		case o.OK && all(func(k c17KS) bool { return k.MinEnc > 0 && o.Ver < k.MinEnc }):
			return "C17-" + kind + "-below-acknowledged-min-encryption-version"
		case o.OK && a == 0 && all(func(k c17KS) bool { return o.Ver != k.Latest }):
			return "C17-" + kind + "-not-with-acknowledged-latest-version"
		}
	case "read":
		return "C17-acknowledged-config-not-visible"
	case "rotate":
		return "C17-acknowledged-rotate-not-visible"
	case "restore_noforce", "restore2_noforce", "restore_bn_noforce":
		if o.OK {
			return "C17-unforced-restore-replaced-existing-key"
		}
	}
	return "C17-" + kind + "-answer-impossible-after-acknowledged-operations"
}

// checkResets applies the real-time rule in scenarios with restores: every
// answer must be legal in at least one state the acknowledged operations allow.
func (u *c17CRun) checkResets(v *c17CVerdict, r *kit.Result, hist []*c17CRec) {
	for _, h := range hist {
		if h.Out.Failed || (!h.Out.OK && !h.Out.Refused && !h.Out.NotFound) {
			continue // failed without effect while its key was being restored / failed request: reported by check
		}
		states := c17CPossible(u.sc.Init, hist, h, h.Call, h.Ret)
		if len(states) == 0 {
			continue // the accepted state changes alone have no order: left to the linearizability check
		}
		legal := false
		for _, s := range states {
			if ok, _ := c17CStep(s, h.In, h.Out); ok {
				legal = true
				break
			}
		}
		var lastReset *c17CRec
		for _, m := range hist {
			if m != h && m.Out.OK && m.Ret < h.Call && (c17CIsReset(m.In.Kind) || m.In.Kind == "delete") && (lastReset == nil || m.Ret > lastReset.Ret) {
				lastReset = m
			}
		}
		if !legal {
			after := ""
			if lastReset != nil {
				after = fmt.Sprintf("; last acknowledged replacement of the key before it: %v", lastReset)
			}
			var ss []string
			for _, s := range states {
				ss = append(ss, s.String())
			}
			v.violate(c17CImpossible(h, states), fmt.Sprintf("%v of client %s started at %d and was answered %v, which is legal in none of the %d state(s) the acknowledged operations allow at that point: %s%s", h.In, h.Tag, h.Call, h.Out, len(states), strings.Join(ss, " | "), after))
			continue
		}
		r.Count("answers_legal_in_a_possible_state", 1)
		if len(states) == 1 {
			r.Count("answers_checked_against_exactly_one_possible_state", 1)
		}
		if h.Out.OK && c17CIsReset(h.In.Kind) {
			r.Count("acknowledged_"+h.In.Kind, 1)
		}
		if h.Out.Refused && strings.HasSuffix(h.In.Kind, "_noforce") {
			r.Count("restore_without_force_refused", 1)
		}
		if lastReset != nil && strings.HasPrefix(lastReset.In.Kind, "restore") {
			r.Count("ops_started_after_an_acknowledged_restore", 1)
			k := strings.TrimSuffix(h.In.Kind, "2")
			if k == "decrypt" || k == "verify" || k == "hmacverify" {
				if h.Out.OK {
					r.Count("setup_output_accepted_after_acknowledged_restore", 1)
				} else {
					r.Count("setup_output_refused_after_acknowledged_restore", 1)
				}
			}
		}
		if lastReset != nil && lastReset.In.Kind == "recreate" {
			r.Count("ops_started_after_an_acknowledged_recreate", 1)
		}
	}
}

// c17COnSecond: the operation addresses the second key name.
func c17COnSecond(in c17CIn) bool {
	kind := in.Kind
	return strings.HasPrefix(kind, "restore2") || (strings.HasPrefix(kind, "restore_bn") && in.Arg == 2) || (strings.HasSuffix(kind, "2") && !strings.HasPrefix(kind, "restore"))
}

// c17CMarkFailed rewrites the answer "key not found / key has been deleted"
// of every operation whose call interval overlaps an ACKNOWLEDGED restore
// with force onto the same key name into "failed without effect": the
// property says what successful operations return; it does not require a
// request that races the replacement of its key to succeed, only that the
// failure has no effect. An operation that started after the restore was
// acknowledged keeps its answer (not-found is then illegal).
func c17CMarkFailed(hist []*c17CRec, r *kit.Result) {
	for _, h := range hist {
		if !h.Out.NotFound || strings.HasPrefix(h.In.Kind, "restore") {
			continue
		}
		for _, rs := range hist {
			if rs == h || !rs.Out.OK || (rs.In.Kind != "restore" && rs.In.Kind != "restore2" && rs.In.Kind != "restore_bn") || c17COnSecond(rs.In) != c17COnSecond(h.In) {
				continue
			}
			if h.Call < rs.Ret && h.Ret > rs.Call {
				h.Out = c17COut{Failed: true, Err: "not found / deleted while " + rs.String() + " was in progress"}
				r.Count("overlapping_ops_failed_without_effect_accepted", 1)
				r.Count("overlapping_ops_failed_without_effect_accepted:"+h.In.Kind, 1)
				break
			}
		}
	}
}

// check applies the real-time rule and the linearizability check to the
// history collected so far (clients + the harness's own probes).
func (u *c17CRun) check(v *c17CVerdict, r *kit.Result) {
	hist := append([]*c17CRec(nil), u.hist...)
	sort.Slice(hist, func(i, j int) bool { return hist[i].Call < hist[j].Call })
	c17CMarkFailed(hist, r)
	rotVer := map[int]*c17CRec{}
	resets := u.sc.hasResets()
	for _, h := range hist {
		o := h.Out
		if o.Failed {
			continue
		}
		if !o.OK && !o.Refused && !o.NotFound {
			cls := "C17-concurrent-request-failed"
			switch {
			case strings.HasPrefix(o.Err, "PANIC"):
				cls = "C17-concurrent-panic"
			case strings.HasPrefix(o.Err, "WRONG PLAINTEXT"):
				cls = "C17-concurrent-wrong-plaintext"
			}
			v.violate(cls, fmt.Sprintf("%v of client %s: %s", h.In, h.Tag, o.Err))
			continue
		}
		if resets {
			if o.OK && c17CMutKinds[h.In.Kind] && h.In.Kind != "backup" {
				r.Count("acknowledged_exclusive_ops", 1)
			}
			continue // judged by checkResets below
		}
		lb, by := c17CAcked(u.sc.Init, hist, h.Call, h.Ret)
		if h.In.Kind == "rotate" || strings.HasPrefix(h.In.Kind, "min_") || h.In.Kind == "trim" || h.In.Kind == "delete" || h.In.Kind == "allow_delete" {
			if o.OK {
				r.Count("acknowledged_exclusive_ops", 1)
			}
		}
		if lb != u.sc.Init {
			r.Count("ops_started_after_an_acknowledged_change", 1)
		}
		if lb.Deleted {
			if !o.NotFound {
				v.violate("C17-key-usable-after-acknowledged-delete", fmt.Sprintf("%v of client %s started at %d, after the delete %v had been acknowledged, and was answered %v", h.In, h.Tag, h.Call, by["deleted"], o))
			} else {
				r.Count("not_found_after_acknowledged_delete", 1)
			}
			continue
		}
		switch h.In.Kind {
		case "decrypt", "verify", "hmacverify":
			if h.In.Arg < lb.MinDec {
				if o.OK {
					v.violate("C17-"+h.In.Kind+"-below-acknowledged-min-version", fmt.Sprintf("%v of client %s started at %d and succeeded although %v had raised min_decryption_version to %d before", h.In, h.Tag, h.Call, by["min_dec"], lb.MinDec))
				} else {
					r.Count(h.In.Kind+"_refused_below_acknowledged_min_dec", 1)
				}
			}
		case "encrypt", "sign", "hmac":
			switch {
			case !o.OK:
				if h.In.Arg > 0 && h.In.Arg < lb.MinEnc {
					r.Count(h.In.Kind+"_refused_below_acknowledged_min_enc", 1)
				}
			case lb.MinEnc > 0 && o.Ver < lb.MinEnc:
				v.violate("C17-"+h.In.Kind+"-below-acknowledged-min-encryption-version", fmt.Sprintf("%v of client %s started at %d and used version %d although %v had raised min_encryption_version to %d before", h.In, h.Tag, h.Call, o.Ver, by["min_enc"], lb.MinEnc))
			case h.In.Arg == 0 && o.Ver < lb.Latest:
				v.violate("C17-"+h.In.Kind+"-not-with-acknowledged-latest-version", fmt.Sprintf("%v of client %s started at %d and used version %d although %v had made version %d the latest before", h.In, h.Tag, h.Call, o.Ver, by["latest"], lb.Latest))
			case h.In.Arg == 0 && lb.Latest > u.sc.Init.Latest:
				r.Count(h.In.Kind+"_used_acknowledged_new_version", 1)
			}
		case "read":
			f := o.F
			if !o.OK {
				break // "not found" without an acknowledged delete: judged by the linearizability check
			}
			if f[0] < lb.Latest || f[1] < lb.MinDec || f[2] < lb.MinEnc || f[3] < lb.MinAvail {
				v.violate("C17-acknowledged-config-not-visible", fmt.Sprintf("read of client %s started at %d reports latest=%d min_dec=%d min_enc=%d min_avail=%d; acknowledged before it: latest>=%d min_dec>=%d min_enc>=%d min_avail>=%d", h.Tag, h.Call, f[0], f[1], f[2], f[3], lb.Latest, lb.MinDec, lb.MinEnc, lb.MinAvail))
			} else if lb != u.sc.Init {
				r.Count("read_shows_acknowledged_change", 1)
			}
		case "rotate":
			if o.OK {
				if o.Ver <= lb.Latest {
					v.violate("C17-acknowledged-rotate-not-visible", fmt.Sprintf("rotate of client %s started at %d created version %d although version %d had been acknowledged to %v before", h.Tag, h.Call, o.Ver, lb.Latest, by["latest"]))
				}
				if other := rotVer[o.Ver]; other != nil {
					v.violate("C17-two-rotates-same-version", fmt.Sprintf("two acknowledged rotates created version %d (keys %s and %s): %v and %v", o.Ver, other.KeyHash, h.KeyHash, other, h))
				}
				rotVer[o.Ver] = h
			}
		}
	}
	if resets {
		u.checkResets(v, r, hist)
	}
	// linearizability of the whole history against the reference
	ops := make([]porcupine.Operation, 0, len(hist))
	for _, h := range hist {
		if !h.Out.Failed && !h.Out.OK && !h.Out.Refused && !h.Out.NotFound {
			return // already reported
		}
		ops = append(ops, porcupine.Operation{ClientId: h.Client, Input: h.In, Call: h.Call, Output: h.Out, Return: h.Ret})
	}
	switch porcupine.CheckOperationsTimeout(c17CModel(u.sc.Init), ops, 20*time.Second) {
	case porcupine.Ok:
		r.Count("linearizable_histories", 1)
	case porcupine.Unknown:
		r.Inconc("%s: linearizability check timed out", v.id)
	case porcupine.Illegal:
		v.violate("C17-concurrent-history-not-linearizable", "no sequential order of the operations on the key, consistent with their real-time order, explains the answers under the reference {latest, min_decryption_version, min_encryption_version, min_available_version, deletion, which versions hold the setup keys; a restore replaces the whole state by the backup's}")
	}
}

// quiesce runs the harness's own probes after every client returned and
// compares the served policy with storage.
func (u *c17CRun) quiesce(v *c17CVerdict, r *kit.Result) {
	end := u.stamp.Load() + 1
	clientHist := append([]*c17CRec(nil), u.hist...)
	resets := u.sc.hasResets()
	final, _ := c17CAcked(u.sc.Init, clientHist, end, end) // lower-bound rule: scenarios without restores only
	// Known signature: a forced restore of the key was acknowledged while a
	// state-changing request that had started before that acknowledgement was
	// still in flight. Every disagreement found at quiescence in such a run is
	// reported once, under its own class.
	holder := c17CRestoreHolder(clientHist)
	var apart []string
	bad := func(class, what string) {
		if holder != "" {
			apart = append(apart, "["+strings.TrimPrefix(class, "C17-")+"] "+what)
			return
		}
		v.violate(class, what)
	}
	defer func() {
		if len(apart) > 0 {
			v.violate(c17CHolderClass, holder+": "+strings.Join(apart, " ;; "))
		}
	}()
	// probes: they start after everything was acknowledged
	zc := len(u.sc.Clients)
	u.do(zc, "z", 0, c17CIn{Kind: "read"})
	consume, produce := "decrypt", "encrypt"
	if u.sc.Signing {
		consume, produce = "verify", "sign"
	}
	for ver := 1; ver <= u.sc.Init.Latest; ver++ {
		u.do(zc, "z", ver, c17CIn{Kind: consume, Arg: ver})
		u.do(zc, "z", ver, c17CIn{Kind: "hmacverify", Arg: ver})
	}
	u.do(zc, "z", 10, c17CIn{Kind: produce, Arg: 0})
	u.do(zc, "z", 11, c17CIn{Kind: produce, Arg: 1})
	u.do(zc, "z", 12, c17CIn{Kind: "hmac", Arg: 0})
	names := []string{c17CKey}
	if u.sc.usesK2() {
		names = append(names, c17CKey2)
		u.do(zc, "z", 20, c17CIn{Kind: "read2"})
		for ver := 1; ver <= u.sc.Init.Latest; ver++ {
			u.do(zc, "z", 20+ver, c17CIn{Kind: consume + "2", Arg: ver})
			u.do(zc, "z", 20+ver, c17CIn{Kind: "hmacverify2", Arg: ver})
		}
	}
	// what storage holds
	type storedKey struct {
		p       *keysutil.Policy
		keys    map[int]keysutil.KeyEntry // every version storage still has (policy entry, else archive)
		arch    int                       // entries in the stored archive
		archKey map[int]keysutil.KeyEntry
	}
	stored := map[string]storedKey{}
	for _, name := range names {
		p, err := keysutil.LoadPolicy(u.ctx, u.raw, "policy/"+name)
		if err != nil {
			v.violate("C17-policy-unloadable", fmt.Sprintf("stored policy %s cannot be loaded at quiescence: %v", name, err))
			return
		}
		sk := storedKey{p: p, keys: map[int]keysutil.KeyEntry{}, archKey: map[int]keysutil.KeyEntry{}}
		if p != nil {
			arch, err := p.LoadArchive(u.ctx, u.raw)
			if err != nil {
				v.violate("C17-archive-disagrees-with-policy-at-quiescence", fmt.Sprintf("archive of %s unloadable: %v", name, err))
				return
			}
			sk.arch = len(arch.Keys)
			for i, ke := range arch.Keys {
				if ver := i + p.MinAvailableVersion; ver >= 1 {
					sk.keys[ver], sk.archKey[ver] = ke, ke
				}
			}
			for vs, ke := range p.Keys {
				if ver, err := strconv.Atoi(vs); err == nil {
					sk.keys[ver] = ke
				}
			}
		}
		stored[name] = sk
	}
	// the reference state of what storage holds
	refOf := func(sk storedKey) c17KS {
		if sk.p == nil {
			return c17KS{Deleted: true}
		}
		ks := c17KS{Latest: sk.p.LatestVersion, MinDec: sk.p.MinDecryptionVersion, MinEnc: sk.p.MinEncryptionVersion, MinAvail: sk.p.MinAvailableVersion, DelAllowed: sk.p.DeletionAllowed}
		for ver := 1; ver <= sk.p.LatestVersion && ver <= u.sc.Init.Latest; ver++ {
			if ke, ok := sk.keys[ver]; ok && c17KeyHash(ke) == u.orig[ver] {
				ks.Orig |= 1 << uint(ver)
			}
		}
		return ks
	}
	// everything the clients produced must be consumable exactly when its
	// version is in the window storage holds and the key storage holds for
	// that version is the one that made it (opened here with the standard
	// library directly); an output acknowledged after the last restore /
	// delete / create must have been made with the stored key
	sk := stored[c17CKey]
	if sk.p != nil {
		var lastReset *c17CRec
		for _, h := range clientHist {
			if h.Out.OK && !c17COnSecond(h.In) && (strings.HasPrefix(h.In.Kind, "restore") || h.In.Kind == "recreate" || h.In.Kind == "delete") && (lastReset == nil || h.Ret > lastReset.Ret) {
				lastReset = h
			}
		}
		for _, h := range append([]*c17CRec(nil), u.hist...) {
			if h.Produced == "" || !h.Out.OK {
				continue
			}
			how := map[string]string{"encrypt": "decrypt", "sign": "verify", "hmac": "hmacverify"}[h.In.Kind]
			if how == "" {
				continue
			}
			out := u.consume(u.raw, c17CKey, how, h.Produced, h.Plain)
			ke, have := sk.keys[h.Out.Ver]
			inWindow := h.Out.Ver >= sk.p.MinDecryptionVersion && h.Out.Ver <= sk.p.LatestVersion
			opens := have && u.refOpens(h.In.Kind, h.Produced, h.Plain, ke)
			want := inWindow && opens
			switch {
			case strings.HasPrefix(out.Err, "WRONG PLAINTEXT"):
				v.violate("C17-concurrent-wrong-plaintext", fmt.Sprintf("output of %v decrypts to something else at quiescence: %s", h, out.Err))
			case resets && lastReset != nil && h.Call > lastReset.Ret && (h.Out.Ver > sk.p.LatestVersion || (inWindow && !opens)):
				bad("C17-output-acknowledged-after-restore-not-made-with-stored-key", fmt.Sprintf("%s output labelled v%d returned by %v, which started after the last replacement of the key (%v) had been acknowledged: storage holds latest=%d min_decryption_version=%d and its key of that version (present=%v) does not open the output; %s at quiescence answered %v", h.In.Kind, h.Out.Ver, h, lastReset, sk.p.LatestVersion, sk.p.MinDecryptionVersion, have, how, out))
			case out.OK != want:
				bad("C17-concurrent-output-not-consumable-at-quiescence", fmt.Sprintf("%s output labelled v%d returned by %v: with storage at latest=%d min_decryption_version=%d (stored key of that version opens it: %v), %s at quiescence answered %v", h.In.Kind, h.Out.Ver, h, sk.p.LatestVersion, sk.p.MinDecryptionVersion, opens, how, out))
			default:
				r.Count("produced_outputs_checked_at_quiescence", 1)
				if resets && lastReset != nil && h.Call > lastReset.Ret && want {
					r.Count("outputs_acknowledged_after_restore_open_with_stored_key", 1)
				}
			}
		}
	}
	// cache / storage agreement
	desc := func(p *keysutil.Policy) string {
		if p == nil {
			return "absent"
		}
		var vs []string
		for ver, ke := range p.Keys {
			vs = append(vs, ver+":"+c17KeyHash(ke))
		}
		sort.Strings(vs)
		return fmt.Sprintf("latest=%d min_dec=%d min_enc=%d min_avail=%d archive_version=%d archive_min_version=%d deletion_allowed=%v keys=%v", p.LatestVersion, p.MinDecryptionVersion, p.MinEncryptionVersion, p.MinAvailableVersion, p.ArchiveVersion, p.ArchiveMinVersion, p.DeletionAllowed, vs)
	}
	for _, name := range names {
		storedDesc := desc(stored[name].p)
		p, _, gerr := u.b.GetPolicy(u.ctx, keysutil.PolicyRequest{Storage: u.raw, Name: name}, u.b.GetRandomReader())
		if gerr != nil {
			v.violate("C17-policy-unloadable", fmt.Sprintf("GetPolicy(%s) at quiescence: %v", name, gerr))
			return
		}
		servedDesc := desc(p)
		if p != nil {
			p.Unlock()
		}
		v.witness["served_at_quiescence:"+name] = servedDesc
		v.witness["stored_at_quiescence:"+name] = storedDesc
		if servedDesc != storedDesc {
			bad("C17-cache-disagrees-with-storage-at-quiescence", fmt.Sprintf("after every request returned the backend serves for %s {%s} while storage holds {%s}", name, servedDesc, storedDesc))
		} else {
			r.Count("quiescence_cache_storage_agree", 1)
		}
	}
	storedDesc := desc(sk.p)
	// storage against the acknowledged operations
	if resets {
		states := c17CPossible(u.sc.Init, clientHist, nil, end, end)
		got, got2 := refOf(stored[c17CKey]), c17KS{Deleted: true}
		if u.sc.usesK2() {
			got2 = refOf(stored[c17CKey2])
		}
		same := func(a, b c17KS) bool {
			if a.Deleted || b.Deleted {
				return a.Deleted == b.Deleted
			}
			lo := a.MinAvail
			if lo < 1 {
				lo = 1
			}
			var mask uint16
			for ver := lo; ver <= a.Latest && ver <= u.sc.Init.Latest; ver++ {
				mask |= 1 << uint(ver)
			}
			return a.Latest == b.Latest && a.MinDec == b.MinDec && a.MinEnc == b.MinEnc && a.MinAvail == b.MinAvail && a.DelAllowed == b.DelAllowed && a.Orig&mask == b.Orig&mask
		}
		found := len(states) == 0
		var ss []string
		for _, s := range states {
			if same(s.c17KS, got) && same(s.K2, got2) {
				found = true
			}
			ss = append(ss, "k="+s.c17KS.String()+" k2="+s.K2.String())
		}
		if !found {
			bad("C17-acknowledged-update-missing-from-storage", fmt.Sprintf("storage holds k=%v k2=%v, which is none of the %d state(s) the acknowledged operations can end in: %s", got, got2, len(states), strings.Join(ss, " | ")))
		} else if len(states) > 0 {
			r.Count("quiescence_storage_is_a_possible_final_state", 1)
		}
	} else {
		switch {
		case final.Deleted:
			if sk.p != nil {
				bad("C17-acknowledged-update-missing-from-storage", "the delete was acknowledged but storage still holds the policy: "+storedDesc)
			}
			if e, _ := u.raw.Get(u.ctx, "archive/"+c17CKey); e != nil {
				bad("C17-acknowledged-update-missing-from-storage", "the delete was acknowledged but storage still holds archive/"+c17CKey)
			}
		case sk.p == nil:
			bad("C17-acknowledged-update-missing-from-storage", "the policy vanished from storage although no delete was acknowledged")
		default:
			decs, _ := c17CCandidates("min_dec", u.sc.Init.MinDec, clientHist, end, end)
			encs, _ := c17CCandidates("min_enc", u.sc.Init.MinEnc, clientHist, end, end)
			avs, _ := c17CCandidates("trim", u.sc.Init.MinAvail, clientHist, end, end)
			if sk.p.LatestVersion != final.Latest || !c17CHas(decs, sk.p.MinDecryptionVersion) || !c17CHas(encs, sk.p.MinEncryptionVersion) || !c17CHas(avs, sk.p.MinAvailableVersion) || sk.p.DeletionAllowed != final.DelAllowed {
				bad("C17-acknowledged-update-missing-from-storage", fmt.Sprintf("the acknowledged operations amount to latest=%d min_dec in %v min_enc in %v min_avail in %v deletion_allowed=%v but storage holds {%s}", final.Latest, decs, encs, avs, final.DelAllowed, storedDesc))
			} else {
				r.Count("quiescence_storage_has_every_acknowledged_update", 1)
			}
		}
	}
	// archive against policy
	for _, name := range names {
		sk := stored[name]
		if sk.p == nil {
			continue
		}
		for ver := sk.p.MinDecryptionVersion; ver <= sk.p.LatestVersion; ver++ {
			ke, ok := sk.p.Keys[strconv.Itoa(ver)]
			ak, inArch := sk.archKey[ver]
			switch {
			case !ok:
				bad("C17-archive-disagrees-with-policy-at-quiescence", fmt.Sprintf("stored policy %s {%s} lacks usable version %d", name, desc(sk.p), ver))
			case !inArch:
				bad("C17-archive-disagrees-with-policy-at-quiescence", fmt.Sprintf("stored archive of %s has %d entries; version %d of {%s} is outside it", name, sk.arch, ver, desc(sk.p)))
			case c17KeyHash(ak) != c17KeyHash(ke):
				bad("C17-archive-disagrees-with-policy-at-quiescence", fmt.Sprintf("archive entry of %s version %d holds key %s, the stored policy %s", name, ver, c17KeyHash(ak), c17KeyHash(ke)))
			default:
				r.Count("quiescence_archive_entries_agree", 1)
			}
		}
	}
}

const c17CHolderClass = "C17-restore-concurrent-with-holder-leaves-cache-and-storage-apart"

// c17COther counts the violations outside the known restore / holder
// signature (exploration is cut short only by those).
func c17COther(r *kit.Result) int {
	return r.NViolations() - int(r.Get("violations:"+c17CHolderClass))
}

// c17CRestoreHolder describes, if the history has it, the signature "an
// acknowledged restore with force onto the key overlapped a request that
// obtains the key's policy exclusively (rotate / config / trim), which had
// started before the restore was acknowledged, returned after it and was
// acknowledged too".
func c17CRestoreHolder(hist []*c17CRec) string {
	for _, rs := range hist {
		if (rs.In.Kind != "restore" && rs.In.Kind != "restore_bn") || c17COnSecond(rs.In) || !rs.Out.OK {
			continue
		}
		for _, m := range hist {
			switch m.In.Kind {
			case "rotate", "min_dec", "min_enc", "trim", "allow_delete":
				if m.Out.OK && m.Call < rs.Ret && m.Ret > rs.Ret {
					return fmt.Sprintf("forced restore %v was acknowledged while %v, started before that acknowledgement, was in flight", rs, m)
				}
			}
		}
	}
	return ""
}

// refOpens: does the output open to plain with this key entry, using the
// standard library directly (AES-256-GCM: nonce || ciphertext || tag;
// ed25519 over the message; HMAC-SHA256 with the version's HMAC key)?
func (u *c17CRun) refOpens(kind, produced string, plain []byte, ke keysutil.KeyEntry) bool {
	_, body, ok := c17Parse(produced, base64.StdEncoding)
	if !ok {
		return false
	}
	switch kind {
	case "sign":
		if len(ke.Key) != ed25519.PrivateKeySize {
			return false
		}
		return ed25519.Verify(ed25519.PrivateKey(ke.Key).Public().(ed25519.PublicKey), plain, body)
	case "hmac":
		mac := hmac.New(sha256.New, ke.HMACKey)
		mac.Write(plain)
		return hmac.Equal(mac.Sum(nil), body)
	}
	pt, err := c17RefOpen(c17Spec{Type: "aes256-gcm96"}, ke.Key, nil, nil, body)
	return err == nil && bytes.Equal(pt, plain)
}

// c17COrderHash identifies an interleaving by the order in which the
// clients' storage operations were made.
func c17COrderHash(order []string) string {
	h := sha256.New()
	for _, o := range order {
		h.Write([]byte(o))
		h.Write([]byte{'|'})
	}
	return hex.EncodeToString(h.Sum(nil)[:8])
}

// c17COne builds the scenario from scratch, runs the clients (under the gate
// with pol, or free-running when pol is nil) and judges the execution.
// c17COne runs one case; a run whose watchdog expired is repeated once from
// scratch (a watchdog is never a verdict) and is inconclusive when it expires
// again.
func c17COne(ctx context.Context, r *kit.Result, sc *c17CScen, id string, mkpol func() kit.Policy, yield func() bool) (c17SchedOut, bool) {
	var pol kit.Policy
	if mkpol != nil {
		pol = mkpol()
	}
	out, cont := c17COneTry(ctx, r, sc, id, pol, yield)
	if out.TimedOut {
		r.Count("watchdog_retries", 1)
		r.Note("%s: watchdog expired once (schedule %s; clients %v); run repeated", id, out.Schedule.String(), out.States)
		if mkpol != nil {
			pol = mkpol()
		}
		out, cont = c17COneTry(ctx, r, sc, id, pol, yield)
		if out.TimedOut {
			r.Inconc("%s: watchdog expired twice (schedule %s; clients %v)", id, out.Schedule.String(), out.States)
			return out, false
		}
	}
	return out, cont
}

func c17COneTry(ctx context.Context, r *kit.Result, sc *c17CScen, id string, pol kit.Policy, yield func() bool) (c17SchedOut, bool) {
	u, err := c17CNewRun(ctx, r, id, sc)
	if err != nil {
		r.Inconc("%s: %v", id, err)
		return c17SchedOut{}, false
	}
	r.Eval(1)
	var out c17SchedOut
	if pol != nil {
		out = u.sched.run(u.reqs(), pol, 30*time.Second)
	} else {
		u.sched.yield = yield
		out = u.sched.free(u.reqs(), 60*time.Second)
	}
	u.sched.mu.Lock()
	order := append([]string(nil), u.sched.order...)
	u.sched.mu.Unlock()
	mode := "gated"
	if pol == nil {
		mode = "free"
	}
	witness := map[string]any{"scenario": sc.name(), "mode": mode, "access_order": order}
	if pol != nil {
		witness["schedule"] = out.Schedule.String()
	}
	v := &c17CVerdict{r: r, id: id, witness: witness, fired: map[string]bool{}}
	histDump := func() {
		var hs []string
		u.mu.Lock()
		for _, h := range u.hist {
			hs = append(hs, h.String())
		}
		u.mu.Unlock()
		witness["history"] = hs
	}
	if out.Deadlock {
		histDump()
		witness["goroutine_states"] = out.States
		v.violate("C17-concurrent-requests-deadlock", fmt.Sprintf("every unfinished client waits for a mutex and none is parked at a scheduling point: %v", out.States))
		return out, true
	}
	if out.TimedOut {
		return out, false
	}
	r.Count("schedules_explored:"+mode, 1)
	r.Count("runs:"+sc.Cache, 1)
	r.Count("scheduling_points_passed", len(order))
	r.Count("lock_blocked_clients_seen", out.Blocked)
	r.Count("goroutine_dumps", u.sched.snapshots)
	if r.Nontrivial(fmt.Sprintf("%d/%s", sc.Idx, c17COrderHash(order))) {
		r.Count("distinct_interleavings", 1)
	}
	if pol != nil && out.Schedule.Overlap() {
		r.Count("schedules_with_overlapping_clients", 1)
	}
	loaders := map[string]bool{}
	for _, o := range order {
		if strings.HasSuffix(o, ":get:policy/"+c17CKey) {
			loaders[o[:strings.IndexByte(o, ':')]] = true
		}
	}
	if len(loaders) > 0 {
		r.Count("runs_with_policy_loaded_from_storage", 1)
		r.Count("runs_with_policy_loaded_from_storage:"+sc.Cache, 1)
	}
	if len(loaders) > 1 {
		r.Count("runs_policy_loaded_from_storage_by_two_clients", 1)
	}
	u.quiesce(v, r)
	histDump()
	u.check(v, r)
	histDump() // answers rewritten to "failed without effect" show as such
	if len(v.fired) == 0 {
		r.Sample(map[string]any{"case": id, "scenario": sc.name(), "mode": mode, "history": witness["history"], "access_order": order})
	}
	return out, true
}

func c17CTags(sc *c17CScen) []string {
	var t []string
	for i := range sc.Clients {
		t = append(t, string(rune('a'+i)))
	}
	return t
}

// ---------------------------------------------------- restore matrix

// c17CMatrix enumerates, as single-client (sequential) scenarios, every cell
// of {name given / taken from the backup} x {force / no force} x {target
// absent / cached / in storage only after a new instance, an invalidation, an
// LRU eviction, with caching disabled} x {target has the name recorded in the
// backup / another name}, each preceded by seeded rotate / config / trim /
// encrypt operations and followed by reads, decryptions of every setup output,
// encryptions and rotations. Reference: a restore without force onto an
// existing key is refused and changes nothing; otherwise the target's whole
// state becomes the backup's.
func c17CMatrix(seed int64) []*c17CScen {
	rst := c17St(3, 2, 0)
	rst.B0 = c17KS{Latest: 2, MinDec: 1, Orig: c17AllBits(2)}
	rng := kit.NewRand(seed, 1_717_700)
	pres := []string{"", "rotate", "min_dec=3", "encrypt=0", "rotate encrypt=0", "min_enc=3 encrypt=0", "min_enc=2 trim=2", "rotate min_dec=4"}
	var out []*c17CScen
	for si, signing := range []bool{false, true} {
		for _, nameMode := range []string{"given", "from-backup"} {
			for _, force := range []bool{true, false} {
				for ti, tstate := range []string{"absent", "cached", "new-instance", "invalidated", "evicted", "caching-disabled"} {
					for _, other := range []bool{false, true} {
						if signing && (ti+len(out))%2 == 0 {
							continue // the signing key runs half of the cells
						}
						cache := []string{"fresh", "lru-fresh"}[(ti+len(out))%2]
						switch tstate {
						case "evicted":
							cache = "lru-fresh"
						case "caching-disabled":
							cache = "disabled"
						}
						sfx, two := "", ""
						if !force {
							sfx = "_noforce"
						}
						var prog []string
						if p := pres[rng.Intn(len(pres))]; p != "" {
							if signing {
								p = strings.ReplaceAll(p, "encrypt", "sign")
							}
							prog = append(prog, p)
						}
						arg := 0
						if other {
							two = "2"
							if nameMode == "from-backup" || tstate != "absent" {
								// the second name must exist: created from the setup backup, then moved on
								prog = append(prog, "restore2 rotate2")
							}
							if nameMode == "from-backup" {
								prog = append(prog, "backup2 rotate2")
								arg = 2
							}
						} else if rng.Chance(1, 2) {
							prog = append(prog, "backup rotate")
							arg = 1
						}
						switch tstate {
						case "absent":
							if !other || nameMode == "from-backup" {
								prog = append(prog, "allow_delete"+two+" delete"+two)
							}
						case "cached":
							prog = append(prog, "read"+two)
						case "new-instance":
							prog = append(prog, "read"+two+" newinstance")
						case "invalidated":
							prog = append(prog, "read"+two+" invalidate")
						case "evicted":
							prog = append(prog, "read"+two+" evict")
						}
						op := "restore" + two + sfx
						if nameMode == "from-backup" {
							op = "restore_bn" + sfx
						}
						prog = append(prog, fmt.Sprintf("%s=%d", op, arg))
						consume := "decrypt"
						produce := "encrypt"
						if signing {
							consume, produce = "verify", "sign"
						}
						if other {
							prog = append(prog, fmt.Sprintf("read2 %s2=1 %s2=2 %s2=3 rotate2 %s2=3 read2 read %s=3", consume, consume, consume, consume, consume))
						} else {
							prog = append(prog, fmt.Sprintf("read %s=1 %s=2 %s=3 %s=0 rotate %s=3 %s=0 read", consume, consume, consume, produce, consume, produce))
						}
						sc := &c17CScen{Idx: len(out), Signing: signing, Init: rst, Cache: cache}
						ops := c17CParse(strings.Join(prog, " "))
						sc.Clients = [][]c17CIn{ops}
						sc.Cell = fmt.Sprintf("name %s, force=%v, target %s, %s", nameMode, force, tstate, map[bool]string{false: "name recorded in the backup", true: "other name than the key under test"}[other])
						out = append(out, sc)
						_ = si
					}
				}
			}
		}
	}
	return out
}

const c17CMatrixRule = "case = one cell of {restore name given / taken from the backup} x {force, no force} x {target absent, cached, in storage only: new instance over the same storage, invalidated, LRU-evicted, caching disabled} x {target named as recorded in the backup / another name}, run sequentially on a key with three versions (setup backup taken at version 2, or a backup taken in the run), preceded by seeded rotate / config / trim / encrypt operations and followed by reads, decryption (verification) of every setup output through the restored name, encryption, rotation; reference: an unforced restore onto an existing key is refused and changes nothing, any other restore makes the target's whole state (latest, minimum versions, key of every version) the backup's; at the end storage must hold exactly the reference state, the served policy must equal the stored one and every returned output must open with the stored key of its version; non-trivial = distinct (cell, key type, operation sequence)"

func c17CRunMatrix(t *testing.T, resultName, casePrefix string) {
	seed := kit.Seed(17)
	shard, nshards := kit.Shard()
	r := kit.NewResult(t, resultName, seed, c17CMatrixRule)
	defer r.Write(t)
	ctx := context.Background()
	reps := kit.N(4, 24)
	for rep := 0; rep < reps; rep++ {
		for _, sc := range c17CMatrix(seed + int64(rep)*1000) {
			if (sc.Idx+rep)%nshards != shard {
				continue
			}
			id := fmt.Sprintf("%s:%d:%d:%d", casePrefix, shard, rep, sc.Idx)
			if !kit.WantCase(id) {
				continue
			}
			before := r.NViolations()
			c17COne(ctx, r, sc, id, nil, nil)
			r.Count("cells_run", 1)
			if r.NViolations() == before {
				r.Count("cell held: "+sc.Cell, 1)
			}
		}
	}
	r.Require("cells_run", 100)
	r.Require("restore_without_force_refused", 30)
	r.Require("acknowledged_restore_bn", 10)
	r.Require("acknowledged_restore_bn_noforce", 4)
	r.Require("acknowledged_restore2_noforce", 4)
	r.Require("acknowledged_restore_noforce", 4)
	r.Require("ops_started_after_an_acknowledged_restore", 500)
	r.Require("quiescence_storage_is_a_possible_final_state", 100)
	r.Require("quiescence_cache_storage_agree", 100)
}

// ---------------------------------------------------------------- tests

func TestVerif_C17_RestoreMatrix(t *testing.T) { c17CRunMatrix(t, "c17-api-restore-matrix", "tbm") }

const c17CRule = "case = one execution of 2-3 clients sending short request sequences (keys/k/config raising min_decryption_version / min_encryption_version / allowing deletion, keys/k/rotate, keys/k/trim, DELETE keys/k, encrypt, decrypt of an old-version ciphertext, sign, verify, hmac, hmac verification, keys/k read, backup/k, restore[/k] with and without force of the backup taken at setup or of the client's own backup onto the same name and onto a second name, delete followed by creating the key again) for ONE key to the transit backend (backend.HandleRequest) whose storage operations and request starts are scheduling points; cache situations: backend freshly started, invalidate(policy/k), evicted from the LRU, cached (unlimited cache and LRU); non-trivial = distinct (scenario, order of storage operations). Oracle: sequential reference {latest, min_dec, min_enc, min_avail, deletion, which versions hold the keys that made the setup outputs; a restore replaces the whole state of its target by the backup's}: every acknowledged change is visible to every operation started after the acknowledgement (scenarios with restores: every answer must be legal in one of the states the acknowledged state changes allow; an output acknowledged after the last restore must open with the key storage holds at quiescence), the history is linearizable (porcupine), and at quiescence the served policy equals the stored one and storage holds every acknowledged update"

func TestVerif_C17_ConcurrentGated(t *testing.T) {
	seed := kit.Seed(17)
	shard, nshards := kit.Shard()
	r := kit.NewResult(t, "c17-api-concurrent-gated", seed, c17CRule+"; interleavings: depth-first over all schedules with at most 2 (thorough: 3) preemptions (capped per scenario), then seeded PCT and uniformly random schedules")
	defer r.Write(t)
	ctx := context.Background()
	scens := c17CScenarios(seed)
	// replay of one case: "tbc:<shard>:<scenario>:x:<choices>" or "tbc:<shard>:<scenario>:r:<n>"
	if oc := kit.OnlyCase(); oc != "" {
		f := strings.Split(oc, ":")
		if len(f) != 5 || f[0] != "tbc" {
			return
		}
		si, _ := strconv.Atoi(f[2])
		if si < 0 || si >= len(scens) {
			return
		}
		sc := scens[si]
		if f[3] == "x" {
			var script []string
			for _, c := range f[4] {
				script = append(script, string(c))
			}
			c17COne(ctx, r, sc, oc, func() kit.Policy { return kit.Script{Choices: script} }, nil)
		} else {
			q, _ := strconv.Atoi(f[4])
			c17COne(ctx, r, sc, oc, func() kit.Policy { return c17CRandPol(seed, sc, q) }, nil)
		}
		return
	}
	for _, sc := range scens {
		if sc.Idx%nshards != shard {
			continue
		}
		if sc.Light && kit.Tier() == "quick" {
			continue
		}
		maxRuns := kit.N(30, 1500)
		if len(sc.Clients) > 2 || sc.Cache != "fresh" {
			maxRuns = kit.N(15, 1500)
		}
		nrand := kit.N(10, 150)
		if sc.hasResets() {
			maxRuns, nrand = kit.N(12, 1500), kit.N(8, 150)
		}
		ex := &kit.Explorer{MaxPreempt: kit.N(2, 3), MaxRuns: maxRuns}
		stop := false
		ex.Explore(func(pol kit.Policy) (kit.Schedule, bool) {
			id := fmt.Sprintf("tbc:%d:%d:x:%s", shard, sc.Idx, strings.Join(pol.(kit.Script).Choices, ""))
			out, cont := c17COne(ctx, r, sc, id, func() kit.Policy { return pol }, nil)
			if !cont {
				stop = true
			}
			if out.Diverged {
				r.Count("schedules_diverged_from_script", 1)
			}
			return out.Schedule, cont && c17COther(r) < 40
		})
		r.Count("scenarios", 1)
		if stop {
			continue
		}
		for q := 0; q < nrand; q++ {
			id := fmt.Sprintf("tbc:%d:%d:r:%d", shard, sc.Idx, q)
			c17COne(ctx, r, sc, id, func() kit.Policy { return c17CRandPol(seed, sc, q) }, nil)
		}
	}
	r.Require("schedules_explored:gated", 2000)
	r.Require("distinct_interleavings", 1500)
	r.Require("runs_with_policy_loaded_from_storage", 1000)
	r.Require("runs_with_policy_loaded_from_storage:invalidated", 60)
	r.Require("runs_with_policy_loaded_from_storage:lru-evicted", 60)
	r.Require("acknowledged_exclusive_ops", 3000)
	r.Require("ops_started_after_an_acknowledged_change", 3000)
	r.Require("decrypt_refused_below_acknowledged_min_dec", 300)
	r.Require("encrypt_refused_below_acknowledged_min_enc", 100)
	r.Require("encrypt_used_acknowledged_new_version", 100)
	r.Require("not_found_after_acknowledged_delete", 100)
	r.Require("lock_blocked_clients_seen", 1000)
	r.Require("acknowledged_restore", 300)
	r.Require("acknowledged_restore_noforce", 60)
	r.Require("acknowledged_restore2_noforce", 100)
	r.Require("restore_without_force_refused", 60)
	r.Require("acknowledged_recreate", 100)
	r.Require("ops_started_after_an_acknowledged_restore", 3000)
	r.Require("setup_output_accepted_after_acknowledged_restore", 1000)
	r.Require("setup_output_refused_after_acknowledged_restore", 500)
	r.Require("outputs_acknowledged_after_restore_open_with_stored_key", 500)
	r.Require("quiescence_storage_is_a_possible_final_state", 500)
	r.Require("linearizable_histories", 2000)
	r.Require("quiescence_cache_storage_agree", 2000)
}

func c17CRandPol(seed int64, sc *c17CScen, q int) kit.Policy {
	rng := kit.NewRand(seed, 1_717_510_000+uint64(sc.Idx)*1000+uint64(q))
	if q%2 == 0 {
		return kit.NewPCT(rng, c17CTags(sc), 3, 12*len(sc.Clients))
	}
	return kit.RandomPolicy{Rng: rng}
}

// TestVerif_C17_ConcurrentFree runs the same scenarios as plain goroutines
// (no gate; seeded yields at the scheduling points), many times, so that the
// thorough tier can run them under the race detector. Which interleavings
// occur is up to the Go scheduler; the oracle is the same.
func TestVerif_C17_ConcurrentFree(t *testing.T) {
	seed := kit.Seed(17)
	shard, nshards := kit.Shard()
	r := kit.NewResult(t, "c17-api-concurrent-free", seed, c17CRule+"; free-running goroutines behind a start barrier with seeded runtime.Gosched() calls at the storage operations; every second run on the transactional in-memory storage itself (handlers then work in storage transactions) (the interleaving is whatever the Go scheduler produces)")
	defer r.Write(t)
	ctx := context.Background()
	scens := c17CScenarios(seed)
	iters := kit.N(30, 400)
	if os.Getenv("VERIF_RACE") != "" {
		iters = 40
	}
	for _, sc := range scens {
		if sc.Idx%nshards != shard {
			continue
		}
		if sc.Light && kit.Tier() == "quick" {
			continue
		}
		n := iters
		if sc.hasResets() && kit.Tier() == "quick" {
			n = iters / 2
		}
		for q := 0; q < n; q++ {
			id := fmt.Sprintf("tbf:%d:%d:%d", shard, sc.Idx, q)
			if !kit.WantCase(id) {
				continue
			}
			rng := kit.NewRand(seed, 1_717_610_000+uint64(sc.Idx)*100000+uint64(q))
			den := 1 + rng.Intn(4)
			scq := *sc
			scq.Tx = q%2 == 1
			c17COne(ctx, r, &scq, id, nil, func() bool { return rng.Intn(den) == 0 })
			if c17COther(r) >= 40 {
				return
			}
		}
	}
	r.Require("schedules_explored:free", 1000)
	r.Require("linearizable_histories", 1000)
	r.Require("quiescence_cache_storage_agree", 1000)
	r.Require("acknowledged_exclusive_ops", 1000)
}
