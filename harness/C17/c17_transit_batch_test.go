//go:build verif

package transit

// C17 (API level, batch requests): every endpoint that takes batch_input
// (encrypt, decrypt, rewrap, sign, verify, hmac, hmac verification) must treat
// each item exactly as the single-item request would: an item fails iff the
// single request with the same parameters fails, deterministic outputs are
// equal, randomised outputs are interchangeable (every batch output is
// accepted by the SINGLE-item endpoint, every single-item output by the BATCH
// endpoint at every position of the batch), results are positional (the
// caller's reference comes back at the same index) and an invalid item in the
// middle does not affect its neighbours.

import (
	"bytes"
	"context"
	"encoding/base64"
	"fmt"
	"strconv"
	"testing"

	kit "github.com/openbao/openbao/sdk/v2/helper/verifkit"
)

const c17BatchClass = "C17-batch-item-not-equivalent-to-single-request"

type c17Batcher struct {
	*c17Bind
	bad bool
}

func (b *c17Batcher) violate(class, what string, witness any) {
	b.bad = true
	b.r.Violate(class, b.id, b.spec.name()+": "+what, witness)
}

// c17BItem is one batch item: the fields of the item itself (input /
// plaintext / ciphertext / context / key_version / associated_data ...).
type c17BItem struct {
	Fields map[string]any
	Note   string
}

func c17BCopy(m map[string]any) map[string]any {
	out := map[string]any{}
	for k, v := range m {
		out[k] = v
	}
	return out
}

// single sends item i as a single-item request with the common parameters.
func (b *c17Batcher) single(path string, common map[string]any, it c17BItem) c17Resp {
	d := c17BCopy(common)
	for k, v := range it.Fields {
		d[k] = v
	}
	return b.a.write(path, d)
}

// batch sends the items as one batch_input request; ok=false when the request
// was refused as a whole or the result list has another length.
func (b *c17Batcher) batch(path string, common map[string]any, items []c17BItem) (res []map[string]any, whole string, ok bool) {
	var in []any
	for i, it := range items {
		m := c17BCopy(it.Fields)
		m["reference"] = "ref-" + strconv.Itoa(i)
		in = append(in, m)
	}
	d := c17BCopy(common)
	d["batch_input"] = in
	resp := b.a.write(path, d)
	res = c17Batch(resp)
	if len(res) != len(items) {
		return nil, fmt.Sprintf("refused=%v %s (%d results for %d items)", resp.Refused, resp.Err, len(res), len(items)), false
	}
	return res, "", true
}

func c17BDescribe(items []c17BItem) []string {
	var out []string
	for i, it := range items {
		out = append(out, fmt.Sprintf("#%d %s %v", i, it.Note, c17BShort(it.Fields)))
	}
	return out
}

func c17BShort(m map[string]any) map[string]any {
	out := map[string]any{}
	for k, v := range m {
		if s, ok := v.(string); ok && len(s) > 40 {
			v = s[:36] + "..."
		}
		out[k] = v
	}
	return out
}

// equivalence runs the batch and every item singly and compares item by item.
// outField is the produced field ("ciphertext", "signature", "hmac",
// "plaintext", "valid"); exact: the outputs must be equal (deterministic
// operation or plaintext / validity). It returns the per-item single and batch
// outputs ("" = failed) for the interchangeability checks.
func (b *c17Batcher) equivalence(what, path string, common map[string]any, items []c17BItem, outField string, exact bool) (singles, batched []string, ok bool) {
	r := b.r
	wit := func() any {
		return map[string]any{"endpoint": path, "common_parameters": common, "items": c17BDescribe(items)}
	}
	val := func(m map[string]any) string {
		if outField == "valid" {
			if m["valid"] == true {
				return "true"
			}
			return "false" // the field is left out when false
		}
		return c17Str(m[outField])
	}
	singles = make([]string, len(items))
	anyOK := false
	fails := make([]string, len(items))
	for i, it := range items {
		resp := b.single(path, common, it)
		if resp.Refused {
			fails[i] = resp.Err
			if fails[i] == "" {
				fails[i] = "refused"
			}
			continue
		}
		singles[i] = val(resp.Data)
		anyOK = true
	}
	res, whole, got := b.batch(path, common, items)
	r.Count("batches:"+what, 1)
	if !got {
		if anyOK {
			b.violate(c17BatchClass, fmt.Sprintf("%s batch was not answered item by item (%s) although %d of its items succeed as single requests: an invalid item affects its neighbours", what, whole, c17BCount(singles)), wit())
			return nil, nil, false
		}
		r.Count("batches_refused_as_a_whole_with_no_valid_item", 1)
		return singles, make([]string, len(items)), true
	}
	batched = make([]string, len(items))
	for i := range items {
		errStr := c17Str(res[i]["error"])
		if ref := c17Str(res[i]["reference"]); ref != "ref-"+strconv.Itoa(i) {
			b.violate(c17BatchClass, fmt.Sprintf("%s batch result %d carries reference %q: results are not positional", what, i, ref), wit())
			return nil, nil, false
		}
		out := val(res[i])
		// produced outputs are never empty; an empty plaintext and valid=false are answers
		has := errStr == "" && (out != "" || outField == "plaintext")
		switch {
		case fails[i] != "" && has && outField != "valid":
			b.violate(c17BatchClass, fmt.Sprintf("%s: item %d (%s) fails as a single request (%s) but the batch produced %s=%.40v", what, i, items[i].Note, fails[i], outField, out), wit())
			return nil, nil, false
		case fails[i] != "" && has && out == "true":
			b.violate(c17BatchClass, fmt.Sprintf("%s: item %d (%s) fails as a single request (%s) but the batch says valid", what, i, items[i].Note, fails[i]), wit())
			return nil, nil, false
		case fails[i] != "":
			r.Count("batch_item_fails_like_single:"+what, 1)
			continue
		case !has:
			b.violate(c17BatchClass, fmt.Sprintf("%s: item %d (%s) succeeds as a single request (%s=%.40s) but fails in the batch at position %d of %d: %q", what, i, items[i].Note, outField, singles[i], i, len(items), errStr), wit())
			return nil, nil, false
		}
		batched[i] = out
		if exact && batched[i] != singles[i] {
			b.violate(c17BatchClass, fmt.Sprintf("%s: item %d (%s) at position %d of %d: the batch returned %s=%.60s, the single request %.60s", what, i, items[i].Note, i, len(items), outField, batched[i], singles[i]), wit())
			return nil, nil, false
		}
		r.Count("batch_item_equivalent:"+what, 1)
		if outField == "valid" && out == "false" {
			r.Count("batch_item_not_valid_like_single:"+what, 1)
		}
		if i > 0 {
			r.Count("batch_item_equivalent_not_first:"+what, 1)
		}
	}
	return singles, batched, true
}

func c17BCount(xs []string) int {
	n := 0
	for _, x := range xs {
		if x != "" {
			n++
		}
	}
	return n
}

// rotations presents the consuming items (each carrying an output produced
// elsewhere) to the batch endpoint in every rotation, so that every item is
// seen at every position, and compares with the single-item answers.
func (b *c17Batcher) rotations(what, path string, common map[string]any, items []c17BItem, outField string) bool {
	n := len(items)
	for k := 0; k < n; k++ {
		rot := make([]c17BItem, 0, n)
		for i := 0; i < n; i++ {
			rot = append(rot, items[(i+k)%n])
		}
		if _, _, ok := b.equivalence(what, path, common, rot, outField, true); !ok {
			return false
		}
	}
	return true
}

// ------------------------------------------------------------ sign / verify

func c17BatchSigParams(s c17Spec, rng *kit.Rand) []c17SigParams {
	var params []c17SigParams
	switch {
	case s.isRSA():
		for _, h := range []string{"sha1", "sha2-224", "sha2-256", "sha2-384", "sha2-512", "sha3-224", "sha3-256", "sha3-384", "sha3-512"} {
			for _, pre := range []bool{false, true} {
				for _, salt := range []string{"auto", "hash", strconv.Itoa(1 + rng.Intn(40))} {
					params = append(params, c17SigParams{Hash: h, Alg: "pss", Salt: salt, Marsh: "asn1", Prehashed: pre})
				}
				params = append(params, c17SigParams{Hash: h, Alg: "pkcs1v15", Marsh: "asn1", Prehashed: pre})
			}
			params = append(params, c17SigParams{Hash: h, Alg: "", Salt: "auto", Marsh: "jws"})
		}
		params = append(params, c17SigParams{Hash: "none", Alg: "pkcs1v15", Marsh: "asn1", Prehashed: true})
	case s.isEC():
		for _, h := range []string{"sha1", "sha2-224", "sha2-256", "sha2-384", "sha2-512", "sha3-256", "sha3-512"} {
			for _, pre := range []bool{false, true} {
				for _, m := range []string{"asn1", "jws"} {
					params = append(params, c17SigParams{Hash: h, Marsh: m, Prehashed: pre})
				}
			}
		}
	default:
		for _, m := range []string{"asn1", "jws"} {
			params = append(params, c17SigParams{Hash: "sha2-256", Marsh: m}, c17SigParams{Hash: "sha2-512", Marsh: m, Prehashed: true})
		}
	}
	return params
}

func (b *c17Batcher) sigInput(o c17SigParams, valid bool) []byte {
	rng := b.rng
	input := rng.Bytes(1 + rng.Intn(100))
	if o.Prehashed && b.spec.Type != "ed25519" {
		if o.Hash == "none" {
			input = rng.Bytes(32)
		} else {
			hf := c17Hash(o.Hash)()
			hf.Write(input)
			input = hf.Sum(nil)
		}
		if !valid {
			input = input[:len(input)-1-rng.Intn(3)]
		}
	}
	return input
}

func (b *c17Batcher) signBatches() {
	s, rng := b.spec, b.rng
	for _, o := range c17BatchSigParams(s, rng) {
		if b.bad {
			return
		}
		reqVer := rng.Intn(b.nver + 1)
		common := map[string]any{}
		for k, v := range o.data() {
			common[k] = v
		}
		if reqVer != 0 {
			common["key_version"] = reqVer
		}
		n := 2 + rng.Intn(5)
		var items []c17BItem
		inputs := make([][]byte, n)
		for i := 0; i < n; i++ {
			it := c17BItem{Fields: map[string]any{}, Note: "input"}
			inputs[i] = b.sigInput(o, true)
			switch {
			case i > 0 && i < n-1 && rng.Chance(1, 5):
				it.Note, it.Fields["input"] = "input that is not base64", "!!not-base64!!"
				inputs[i] = nil
			case i > 0 && o.Prehashed && s.Type != "ed25519" && rng.Chance(1, 6):
				it.Note = "digest of the wrong length"
				inputs[i] = b.sigInput(o, false)
				it.Fields["input"] = c17b64(inputs[i])
			case rng.Chance(1, 8):
				it.Note = "empty input"
				inputs[i] = []byte{}
				it.Fields["input"] = ""
			default:
				it.Fields["input"] = c17b64(inputs[i])
			}
			if s.Derived {
				// contexts differ between the items
				kctx := b.kctx
				if rng.Chance(1, 2) {
					kctx = rng.Bytes(1 + rng.Intn(30))
				}
				it.Fields["context"] = c17b64(kctx)
			}
			items = append(items, it)
		}
		b.r.Eval(1)
		b.r.Nontrivial(fmt.Sprintf("sign|%s|%+v|v%d|%d", s.name(), o, reqVer, n))
		deterministic := s.Type == "ed25519" || o.Alg == "pkcs1v15"
		singles, batched, ok := b.equivalence("sign", "sign/b", common, items, "signature", deterministic)
		if !ok {
			return
		}
		// interchangeability: batch signatures through the single verify endpoint
		// (inside equivalence of the verify batch: single answers are computed
		// there), single signatures through the batch endpoint at every position;
		// plus a damaged signature whose answer must be the single request's
		vcommon := c17BCopy(common)
		delete(vcommon, "key_version")
		for _, set := range []struct {
			name string
			sigs []string
		}{{"batch-signed", batched}, {"singly-signed", singles}} {
			var vitems []c17BItem
			for i, sg := range set.sigs {
				if sg == "" || items[i].Fields["input"] == nil {
					continue
				}
				f := c17BCopy(items[i].Fields)
				f["signature"] = sg
				vitems = append(vitems, c17BItem{Fields: f, Note: set.name + " signature of item " + strconv.Itoa(i)})
			}
			if len(vitems) == 0 {
				continue
			}
			// a signature of another item in the middle: not valid, neighbours unaffected
			if len(vitems) >= 2 {
				f := c17BCopy(vitems[0].Fields)
				f["signature"] = vitems[1].Fields["signature"]
				mid := c17BItem{Fields: f, Note: "signature of another item"}
				vitems = append(vitems[:1], append([]c17BItem{mid}, vitems[1:]...)...)
			}
			// every signature must be valid singly (the batch-made ones were never seen by the single endpoint)
			for _, vi := range vitems {
				if vi.Note == "signature of another item" {
					continue
				}
				if resp := b.single("verify/b", vcommon, vi); resp.Refused || resp.Data["valid"] != true {
					b.violate(c17BatchClass, fmt.Sprintf("sign: %s does not verify through the single-item verify endpoint (refused=%v %s valid=%v); parameters %+v", vi.Note, resp.Refused, resp.Err, resp.Data["valid"], o), map[string]any{"items": c17BDescribe(items), "common_parameters": common})
					return
				}
				b.r.Count("batch_output_accepted_by_single_endpoint:verify", 1)
			}
			if !b.rotations("verify", "verify/b", vcommon, vitems, "valid") {
				return
			}
		}
		b.r.Count("sign_parameter_sets_checked", 1)
	}
}

// --------------------------------------------------------------------- hmac

func (b *c17Batcher) hmacBatches() {
	rng := b.rng
	for _, alg := range []string{"sha2-224", "sha2-256", "sha2-384", "sha2-512", "sha3-224", "sha3-256", "sha3-384", "sha3-512"} {
		if b.bad {
			return
		}
		reqVer := rng.Intn(b.nver + 1)
		common := map[string]any{"algorithm": alg}
		if reqVer != 0 {
			common["key_version"] = reqVer
		}
		n := 2 + rng.Intn(5)
		var items []c17BItem
		for i := 0; i < n; i++ {
			it := c17BItem{Fields: map[string]any{"input": c17b64(rng.Bytes(1 + rng.Intn(80)))}, Note: "input"}
			switch {
			case i > 0 && i < n-1 && rng.Chance(1, 5):
				it.Note, it.Fields["input"] = "input that is not base64", "%%%"
			case i > 0 && rng.Chance(1, 8):
				it.Note = "no input field"
				delete(it.Fields, "input")
			case rng.Chance(1, 8):
				it.Note, it.Fields["input"] = "empty input", ""
			}
			items = append(items, it)
		}
		b.r.Eval(1)
		b.r.Nontrivial(fmt.Sprintf("hmac|%s|%s|v%d|%d", b.spec.name(), alg, reqVer, n))
		singles, batched, ok := b.equivalence("hmac", "hmac/b", common, items, "hmac", true)
		if !ok {
			return
		}
		vcommon := map[string]any{"hash_algorithm": alg} // verify/ names the parameter differently
		for _, set := range []struct {
			name string
			macs []string
		}{{"batch-made", batched}, {"singly-made", singles}} {
			var vitems []c17BItem
			for i, mc := range set.macs {
				if mc == "" || items[i].Fields["input"] == nil {
					continue
				}
				vitems = append(vitems, c17BItem{Fields: map[string]any{"input": items[i].Fields["input"], "hmac": mc}, Note: set.name + " HMAC of item " + strconv.Itoa(i)})
			}
			if len(vitems) >= 2 {
				mid := c17BItem{Fields: map[string]any{"input": vitems[0].Fields["input"], "hmac": vitems[1].Fields["hmac"]}, Note: "HMAC of another item"}
				vitems = append(vitems[:1], append([]c17BItem{mid}, vitems[1:]...)...)
			}
			if len(vitems) == 0 {
				continue
			}
			for _, vi := range vitems {
				if vi.Note == "HMAC of another item" {
					continue
				}
				if resp := b.single("verify/b", vcommon, vi); resp.Refused || resp.Data["valid"] != true {
					b.violate(c17BatchClass, fmt.Sprintf("hmac: %s is not valid through the single-item verify endpoint (refused=%v %s)", vi.Note, resp.Refused, resp.Err), map[string]any{"items": c17BDescribe(items)})
					return
				}
				b.r.Count("batch_output_accepted_by_single_endpoint:hmacverify", 1)
			}
			if !b.rotations("hmacverify", "verify/b", vcommon, vitems, "valid") {
				return
			}
		}
	}
}

// --------------------------------------------------- encrypt / decrypt / rewrap

func (b *c17Batcher) encryptBatches() {
	s, rng := b.spec, b.rng
	rounds := kit.N(6, 30)
	if s.isRSA() {
		rounds = kit.N(3, 10)
	}
	for round := 0; round < rounds && !b.bad; round++ {
		n := 2 + rng.Intn(5)
		var items []c17BItem
		pts := make([][]byte, n)
		for i := 0; i < n; i++ {
			size := []int{0, 1, 15, 16, 17, 64, 150}[rng.Intn(7)]
			pts[i] = rng.Bytes(size)
			it := c17BItem{Fields: map[string]any{"plaintext": c17b64(pts[i])}, Note: fmt.Sprintf("plaintext of %d bytes", size)}
			switch rng.Intn(5) {
			case 0:
				it.Fields["key_version"] = 1 + rng.Intn(b.nver)
			case 1:
				if i > 0 && rng.Chance(1, 2) {
					it.Fields["key_version"] = b.nver + 1 + rng.Intn(3)
					it.Note += ", key_version beyond the latest"
				}
			}
			if s.isSym() && rng.Chance(1, 3) {
				it.Fields["associated_data"] = c17b64(rng.Bytes(1 + rng.Intn(20)))
				it.Note += ", associated data"
			}
			if s.Derived {
				kctx := b.kctx
				if rng.Chance(1, 2) {
					kctx = rng.Bytes(1 + rng.Intn(30))
				}
				it.Fields["context"] = c17b64(kctx)
			}
			if i > 0 && i < n-1 && rng.Chance(1, 5) {
				it.Fields["plaintext"] = "!!not-base64!!"
				it.Note = "plaintext that is not base64"
				pts[i] = nil
			}
			items = append(items, it)
		}
		b.r.Eval(1)
		b.r.Nontrivial(fmt.Sprintf("encrypt|%s|%d|%v", s.name(), round, c17BDescribe(items)))
		singles, batched, ok := b.equivalence("encrypt", "encrypt/b", map[string]any{}, items, "ciphertext", s.Convergent)
		if !ok {
			return
		}
		for _, set := range []struct {
			name string
			cts  []string
		}{{"batch-made", batched}, {"singly-made", singles}} {
			var ditems, ritems []c17BItem
			var want [][]byte
			for i, ct := range set.cts {
				if ct == "" {
					continue
				}
				f := map[string]any{"ciphertext": ct}
				for _, k := range []string{"context", "associated_data"} {
					if v, ok := items[i].Fields[k]; ok {
						f[k] = v
					}
				}
				ditems = append(ditems, c17BItem{Fields: f, Note: set.name + " ciphertext of item " + strconv.Itoa(i)})
				want = append(want, pts[i])
				rf := map[string]any{"ciphertext": ct}
				if v, ok := items[i].Fields["context"]; ok {
					rf["context"] = v
				}
				if rng.Chance(1, 3) {
					rf["key_version"] = 1 + rng.Intn(b.nver)
				}
				ritems = append(ritems, c17BItem{Fields: rf, Note: "rewrap of " + set.name + " ciphertext of item " + strconv.Itoa(i)})
			}
			if len(ditems) == 0 {
				continue
			}
			// every output opens to its plaintext through the single endpoint
			for j, di := range ditems {
				resp := b.single("decrypt/b", map[string]any{}, di)
				got, err := base64.StdEncoding.DecodeString(c17Str(resp.Data["plaintext"]))
				if resp.Refused || err != nil || !bytes.Equal(got, want[j]) {
					b.violate(c17BatchClass, fmt.Sprintf("encrypt: %s does not decrypt to its plaintext through the single-item decrypt endpoint (refused=%v %s)", di.Note, resp.Refused, resp.Err), map[string]any{"items": c17BDescribe(items)})
					return
				}
				b.r.Count("batch_output_accepted_by_single_endpoint:decrypt", 1)
			}
			// a damaged ciphertext in the middle
			if len(ditems) >= 2 {
				f := c17BCopy(ditems[0].Fields)
				ct := c17Str(f["ciphertext"])
				if lv, body, ok := c17Parse(ct, base64.StdEncoding); ok && len(body) > 0 {
					body[rng.Intn(len(body))] ^= 1 << uint(rng.Intn(8))
					f["ciphertext"] = fmt.Sprintf("vault:v%d:%s", lv, c17b64(body))
					ditems = append(ditems[:1], append([]c17BItem{{Fields: f, Note: "damaged ciphertext"}}, ditems[1:]...)...)
				}
			}
			if !b.rotations("decrypt", "decrypt/b", map[string]any{}, ditems, "plaintext") {
				return
			}
			// rewrap: item by item like the single request; its outputs decrypt singly
			rs, rb, ok := b.equivalence("rewrap", "rewrap/b", map[string]any{}, ritems, "ciphertext", s.Convergent)
			if !ok {
				return
			}
			for _, outs := range [][]string{rb, rs} {
				var d2 []c17BItem
				for j, ct := range outs {
					if ct == "" {
						continue
					}
					f := map[string]any{"ciphertext": ct}
					if v, ok := ritems[j].Fields["context"]; ok {
						f["context"] = v
					}
					d2 = append(d2, c17BItem{Fields: f, Note: "rewrapped " + ritems[j].Note})
				}
				if len(d2) > 0 {
					if _, _, ok := b.equivalence("decrypt", "decrypt/b", map[string]any{}, d2, "plaintext", true); !ok {
						return
					}
				}
			}
		}
	}
}

func TestVerif_C17_Batch(t *testing.T) {
	seed := kit.Seed(17)
	shard := c17Shard()
	r := kit.NewResult(t, "c17-api-batch", seed, "case = one generated batch_input request of 2-6 heterogeneous items (different inputs / plaintext sizes incl. empty, per-item key_version incl. invalid ones, per-item derivation context, per-item associated data, undecodable or missing input in the middle, digest of the wrong length, damaged ciphertext / foreign signature in the middle) to encrypt, decrypt, rewrap, sign, verify, hmac and hmac verification, for every key type and, for sign / verify, every (hash_algorithm, prehashed, signature_algorithm, salt_length, marshaling_algorithm) of the sign/verify monitor; oracle = per-item equivalence with the single-item request: an item fails iff the single request fails, deterministic outputs (convergent encryption, HMAC, ed25519 and RSA PKCS#1 v1.5 signatures, plaintexts, validity) are equal, every batch output is accepted by the single-item endpoint and every single-item output by the batch endpoint at EVERY position (all rotations of the batch), references come back at their index; non-trivial = distinct (endpoint, key type, parameters, batch shape)")
	defer r.Write(t)
	ctx := context.Background()
	for si, spec := range c17BindSpecs(shard) {
		id := fmt.Sprintf("batch:%d:%s", shard, spec.name())
		if !kit.WantCase(id) {
			continue
		}
		rng := kit.NewRand(seed, 1787000+uint64(si)+1000*uint64(shard))
		bind := c17NewBind(ctx, r, rng, id, spec, (si+shard)%2 == 1)
		if bind == nil {
			continue
		}
		b := &c17Batcher{c17Bind: bind}
		if spec.signs() {
			b.signBatches()
		}
		if !b.bad {
			b.hmacBatches()
		}
		if spec.encrypts() && !b.bad {
			b.encryptBatches()
		}
	}
	r.Require("batch_item_equivalent_not_first:sign", 300)
	r.Require("batch_item_equivalent_not_first:verify", 1000)
	r.Require("batch_item_equivalent_not_first:hmac", 100)
	r.Require("batch_item_equivalent_not_first:hmacverify", 300)
	r.Require("batch_item_equivalent_not_first:encrypt", 100)
	r.Require("batch_item_equivalent_not_first:decrypt", 300)
	r.Require("batch_item_equivalent_not_first:rewrap", 100)
	r.Require("batch_item_fails_like_single:sign", 20)
	r.Require("batch_item_fails_like_single:encrypt", 10)
	r.Require("batch_item_not_valid_like_single:verify", 50)
	r.Require("batch_item_not_valid_like_single:hmacverify", 50)
	r.Require("batch_output_accepted_by_single_endpoint:verify", 300)
	r.Require("sign_parameter_sets_checked", 100)
}
