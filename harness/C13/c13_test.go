//go:build verif

package raft

// C13 — every physical backend and wrapping layer implements one key/value
// and listing contract. One generated operation sequence is applied to every
// stack of layers and, in lockstep, to a sorted-map model (c13_model_test.go);
// every return value is compared with the model.

import (
	"bytes"
	"context"
	"errors"
	"fmt"
	"path"
	"sort"
	"strings"
	"testing"

	"github.com/hashicorp/go-hclog"
	kit "github.com/openbao/openbao/sdk/v2/helper/verifkit"
	"github.com/openbao/openbao/sdk/v2/logical"
)

const (
	c13ClassF4             = "C13-F4-raft-txn-listpage-after-outside-prefix"
	c13ClassMisseek        = "C13-raft-listpage-after-cleaned-misseek"
	c13ClassFileAlias      = "C13-file-unclean-path-aliased"
	c13ClassFileUnderscore = "C13-file-underscore-name-collision"
	c13ClassFileTemp       = "C13-file-temp-suffix-key-clobbered"
	c13ClassFileLong       = "C13-file-rejected-put-leaves-directory"
	c13ClassStall          = "C13-paged-listing-stalls-on-empty-entry"
	c13ClassOmitPending    = "C13-raft-txn-list-omits-pending-key-equal-to-prefix"
)

type c13Fail struct {
	Class string `json:"class"`
	What  string `json:"what"`
	OpID  string `json:"check"`
	Want  any    `json:"want,omitempty"`
	Got   any    `json:"got,omitempty"`
}

type c13Run struct {
	st           *c13Stack
	model        *c13Model
	txModel      *c13Model
	tx           c13Tx
	txRO         bool
	txTouched    map[string]bool // distinct keys the open transaction touched after its first write
	txWrote      map[string]bool // keys the open transaction wrote
	readOutside  map[string]bool // keys read outside a transaction so far (a read cache holds them)
	txIrregular  bool            // the open transaction accepted a write to an irregular key
	skip         bool            // inside a block that a non-transactional stack does not execute
	roReads      bool            // inside a read-only block on a non-transactional stack: reads only
	obs          map[string]int
	unclean      bool            // the stack accepted an operation on a key/prefix that is not in path.Clean form
	seen         map[string]bool // keys of operations the stack accepted
	handed       map[string]bool // keys of all operations handed to the stack
	handedDirs   map[string]bool // listing prefixes handed to the stack (without the final slash)
	rejectedPuts []string        // keys of puts the stack rejected (tolerated: irregular key)
	done         []c13Op
}

func (r *c13Run) kv() c13KV {
	if r.tx != nil {
		return r.tx
	}
	return r.st.top
}

func (r *c13Run) cur() *c13Model {
	if r.txModel != nil {
		return r.txModel
	}
	return r.model
}

func (r *c13Run) note(k string) {
	if r.handed == nil {
		r.handed = map[string]bool{}
	}
	r.handed[k] = true
	if r.tx != nil && c13Irregular(k) {
		// reads and writes alike become part of what the transaction submits
		r.txIrregular = true
	}
}

func (r *c13Run) notePrefix(p string) {
	if p == "" {
		return
	}
	d := strings.TrimSuffix(p, "/")
	if r.tx != nil && c13Irregular(d) {
		r.txIrregular = true
	}
	if r.handedDirs == nil {
		r.handedDirs = map[string]bool{}
	}
	r.handedDirs[d] = true
}

// accepted records that the stack performed an operation on k without an error.
func (r *c13Run) accepted(k string) {
	if c13Unclean(k) {
		r.unclean = true
	}
	if r.seen == nil {
		r.seen = map[string]bool{}
	}
	r.seen[k] = true
}

func (r *c13Run) acceptedPrefix(p string) {
	if p != "" {
		r.accepted(strings.TrimSuffix(p, "/"))
	}
}

// underscorePair: the stack was handed a key P/n and a directory P/_n (as a
// listing prefix or on the way to another key) — on the file backend the file
// of the first and the directory have one name.
func (r *c13Run) underscorePair() bool {
	dirs := map[string]bool{}
	addDirs := func(p string, self bool) {
		segs := strings.Split(p, "/")
		n := len(segs) - 1
		if self {
			n = len(segs)
		}
		for i := 1; i <= n; i++ {
			dirs[strings.Join(segs[:i], "/")] = true
		}
	}
	for k := range r.handed {
		addDirs(k, false)
	}
	for d := range r.handedDirs {
		addDirs(d, true)
	}
	for d := range dirs {
		i := strings.LastIndexByte(d, '/') + 1
		if strings.HasPrefix(d[i:], "_") && r.handed[d[:i]+d[i+1:]] {
			return true
		}
	}
	return false
}

// tempPair: the stack was handed a key k and the key k+".temp" (the file backend
// writes k through a temporary file of exactly that name).
func (r *c13Run) tempPair() bool {
	for k := range r.handed {
		if strings.HasSuffix(k, ".temp") && r.handed[strings.TrimSuffix(k, ".temp")] {
			return true
		}
	}
	return false
}

// leftoverDirs: known file-backend signature — the listing contains folder entries
// the model does not have, each of them lies on the path of a put that the
// backend rejected, and with those (empty) folders added the model gives
// exactly the observed result.
func (r *c13Run) leftoverDirs(m *c13Model, prefix string, got []string, same func(alt *c13Model) bool) bool {
	if r.st.base != "file" || len(r.rejectedPuts) == 0 {
		return false
	}
	have := map[string]bool{}
	for _, e := range m.children(prefix) {
		have[e] = true
	}
	alt := m.clone()
	extras := 0
	for _, e := range got {
		if have[e] {
			continue
		}
		if !strings.HasSuffix(e, "/") {
			return false
		}
		onPath := false
		for _, k := range r.rejectedPuts {
			// the file system resolves the key the way path.Clean does
			k = strings.TrimPrefix(path.Clean("/"+k), "/")
			if i := strings.LastIndexByte(k, '/'); i >= 0 && strings.HasPrefix(k[:i+1], prefix+e) {
				onPath = true
				break
			}
		}
		if !onPath {
			return false
		}
		alt.put(prefix+e+"\x00left-over", nil)
		extras++
	}
	return extras > 0 && same(alt)
}

// class narrows a generic class to a known signature where the witness matches it.
func (r *c13Run) class(generic string) string {
	if r.st.base == "file" {
		switch {
		case r.unclean:
			return c13ClassFileAlias
		case r.underscorePair():
			return c13ClassFileUnderscore
		case r.tempPair():
			return c13ClassFileTemp
		}
	}
	return generic
}

func (r *c13Run) fail(class, opid, what string, want, got any) *c13Fail {
	return &c13Fail{Class: class, What: fmt.Sprintf("[%s] %s", r.st.name, what), OpID: opid, Want: want, Got: got}
}

func (r *c13Run) unexpectedErr(opid string, o fmt.Stringer, err error) *c13Fail {
	return r.fail(r.class("C13-unexpected-error"), opid, fmt.Sprintf("%s returned an error on regular input: %v", o, c13Short(err.Error())), nil, err.Error())
}

// ---- single checks

func (r *c13Run) checkGet(opid string, kv c13KV, m *c13Model, k string) *c13Fail {
	found, val, rk, err := kv.get(k)
	r.obs["get"]++
	if err != nil {
		if c13Irregular(k) {
			r.obs["rejected"]++
			return nil
		}
		return r.unexpectedErr(opid, c13Op{Kind: "get", Key: k}, err)
	}
	r.accepted(k)
	want, ok := m.get(k)
	switch {
	case ok && !found:
		return r.fail(r.class("C13-get-lost-value"), opid, fmt.Sprintf("get(%s) found nothing, the last put stored %d bytes", c13Q(k), len(want)), len(want), nil)
	case !ok && found:
		return r.fail(r.class("C13-get-phantom-value"), opid, fmt.Sprintf("get(%s) returned %d bytes, the model has no such key (never put, or deleted)", c13Q(k), len(val)), nil, len(val))
	case ok && !bytes.Equal(want, val):
		return r.fail(r.class("C13-get-wrong-value"), opid, fmt.Sprintf("get(%s) returned %d bytes that are not the last value put (%d bytes)", c13Q(k), len(val), len(want)), want, val)
	case ok && rk != k:
		return r.fail(r.class("C13-get-wrong-key"), opid, fmt.Sprintf("get(%s) returned an entry whose key is %s", c13Q(k), c13Q(rk)), k, rk)
	}
	if ok {
		r.obs["get_hit"]++
	} else {
		r.obs["get_miss"]++
	}
	return nil
}

func (r *c13Run) checkList(opid string, got []string, err error, m *c13Model, prefix string) *c13Fail {
	r.obs["list"]++
	if err != nil {
		if c13IrregularPrefix(prefix) {
			r.obs["rejected"]++
			return nil
		}
		return r.unexpectedErr(opid, c13Op{Kind: "list", Prefix: prefix}, err)
	}
	r.acceptedPrefix(prefix)
	want := m.children(prefix)
	if !c13EqualStrings(c13Sorted(got), want) {
		if !r.unclean && r.leftoverDirs(m, prefix, got, func(alt *c13Model) bool { return c13EqualStrings(c13Sorted(got), alt.children(prefix)) }) {
			return r.fail(c13ClassFileLong, opid, fmt.Sprintf("list(%s) = %s, the immediate children are %s: the extra folders are what a rejected put (%s) left behind", c13Q(prefix), c13QL(got), c13QL(want), c13QL(r.rejectedPuts)), want, got)
		}
		if r.pendingKeyOmitted(m, prefix, func(alt *c13Model) bool { return c13EqualStrings(c13Sorted(got), alt.children(prefix)) }) {
			return r.fail(c13ClassOmitPending, opid, fmt.Sprintf("list(%s) inside a transaction = %s, the immediate children are %s: the key %s written in this transaction is listed as the entry \"\" by every non-transactional listing", c13Q(prefix), c13QL(got), c13QL(want), c13Q(prefix)), want, got)
		}
		return r.fail(r.class("C13-list-mismatch"), opid, fmt.Sprintf("list(%s) = %s, the immediate children are %s", c13Q(prefix), c13QL(got), c13QL(want)), want, got)
	}
	if !sort.StringsAreSorted(got) {
		r.obs["list_unsorted"]++
	}
	if len(want) > 0 {
		r.obs["list_nonempty"]++
	}
	c, kf := m.folderStats(prefix)
	if c {
		r.obs["list_folder_collapsed"]++
	}
	if kf {
		r.obs["list_key_and_folder"]++
	}
	return nil
}

func (r *c13Run) checkPage(opid string, got []string, err error, m *c13Model, prefix, after string, limit int, inTx bool) *c13Fail {
	r.obs["page"]++
	o := c13Op{Kind: "page", Prefix: prefix, After: after, Limit: limit}
	if err != nil {
		if c13IrregularPrefix(prefix) {
			r.obs["rejected"]++
			return nil
		}
		return r.unexpectedErr(opid, o, err)
	}
	r.acceptedPrefix(prefix)
	want := m.page(prefix, after, limit)
	full := r.st.physPrefix + prefix
	joined := path.Join(full, after)
	outside := after != "" && !strings.HasPrefix(joined, full)
	if !c13EqualStrings(got, want) {
		class := r.class("C13-listpage-mismatch")
		// known raft signatures: the page only *omits* qualifying entries (it is an
		// in-order sub-sequence of the entries after `after`), and the position the
		// code seeks to, path.Join(prefix, after), is not prefix+after
		if r.st.base == "raft" && after != "" && c13SubSeq(got, m.page(prefix, after, 0)) {
			switch {
			case outside && inTx:
				class = c13ClassF4
			case !outside && joined > full+after:
				class = c13ClassMisseek
			}
		}
		if r.pendingKeyOmitted(m, prefix, func(alt *c13Model) bool { return c13EqualStrings(got, alt.page(prefix, after, limit)) }) {
			class = c13ClassOmitPending
		}
		if !r.unclean && r.leftoverDirs(m, prefix, got, func(alt *c13Model) bool { return c13EqualStrings(got, alt.page(prefix, after, limit)) }) {
			class = c13ClassFileLong
		}
		where := ""
		if inTx {
			where = " inside a transaction"
		}
		return r.fail(class, opid, fmt.Sprintf("%s%s (physical prefix %s) = %s; the sorted full listing is %s, so the page must be %s", o, where, c13Q(full), c13QL(got), c13QL(m.children(prefix)), c13QL(want)), want, got)
	}
	all := m.children(prefix)
	nAfter := 0
	existing := false
	for _, e := range all {
		if after == "" || e > after {
			nAfter++
		}
		if e == after {
			existing = true
		}
	}
	if len(all) > 0 {
		r.obs["page_nonempty_listing"]++
	}
	if after != "" && nAfter > 0 && nAfter < len(all) {
		r.obs["page_after_cuts"]++
	}
	if limit > 0 && nAfter > limit {
		r.obs["page_limit_cuts"]++
	}
	if existing {
		r.obs["page_after_existing"]++
	} else if after != "" {
		r.obs["page_after_missing"]++
	}
	if outside {
		r.obs["page_after_leaves_prefix"]++
		if len(want) > 0 {
			r.obs["page_after_leaves_prefix_nonempty"]++
		}
	}
	if strings.Contains(after, "/") {
		r.obs["page_after_with_slash"]++
	}
	if limit <= 0 {
		r.obs["page_limit_nonpositive"]++
	}
	if inTx {
		r.obs["page_in_txn"]++
		if r.txModel != nil && m == r.txModel && r.txModel.differsUnder(r.model, prefix) {
			r.obs["page_in_txn_with_pending_writes"]++
			committed := map[string]bool{}
			for _, e := range r.model.children(prefix) {
				committed[e] = true
			}
			added := 0
			for _, e := range all {
				if !committed[e] {
					added++
				}
				delete(committed, e)
			}
			if added >= 2 {
				r.obs["page_in_txn_2plus_pending_new_entries"]++
			}
			if len(committed) > 0 {
				r.obs["page_in_txn_pending_removed_entry"]++
			}
		}
	}
	return nil
}

// pendingKeyOmitted: known raft signature — inside a raft transaction, a key that
// is equal to the listed prefix (its entry name is "") and that was first
// written in this transaction is missing, and the result is exactly what the
// model gives without that key.
func (r *c13Run) pendingKeyOmitted(m *c13Model, prefix string, same func(alt *c13Model) bool) bool {
	if r.st.base != "raft" || r.tx == nil || m != r.txModel {
		return false
	}
	if _, ok := m.m[prefix]; !ok {
		return false
	}
	if _, committed := r.model.m[prefix]; committed {
		return false
	}
	alt := m.clone()
	alt.del(prefix)
	return same(alt)
}

func c13SubSeq(sub, all []string) bool {
	i := 0
	for _, e := range all {
		if i < len(sub) && sub[i] == e {
			i++
		}
	}
	return i == len(sub)
}

// ---- guard around the scan/clear helpers: every List/ListPage a helper issues
// is itself compared with the model, the number of calls is bounded, and
// deletes are applied to the model.

var errC13NoProgress = errors.New("c13 guard: helper made too many ListPage calls without finishing")

type c13GuardState struct {
	calls, max int
	fail       *c13Fail
	tripped    bool
	limit1     bool
}

type c13Guard struct {
	r     *c13Run
	opid  string
	inner logical.ClearableView
	inTx  bool
	snap  *c13Model // what listings have to agree with (nil: the live model)
	st    *c13GuardState
}

func (g *c13Guard) modelNow() *c13Model {
	if g.snap != nil {
		return g.snap
	}
	return g.r.cur()
}

func (g *c13Guard) List(ctx context.Context, prefix string) ([]string, error) {
	res, err := g.inner.List(ctx, prefix)
	if g.st.fail == nil {
		g.st.fail = g.r.checkList(g.opid+":list", res, err, g.modelNow(), prefix)
	}
	return res, err
}

func (g *c13Guard) ListPage(ctx context.Context, prefix, after string, limit int) ([]string, error) {
	g.st.calls++
	if limit == 1 {
		g.st.limit1 = true
	}
	if g.st.calls > g.st.max {
		g.st.tripped = true
		return nil, errC13NoProgress
	}
	g.r.notePrefix(prefix)
	res, err := g.inner.ListPage(ctx, prefix, after, limit)
	g.r.obs["helper_page_calls"]++
	if g.st.fail == nil {
		g.st.fail = g.r.checkPage(g.opid+":page", res, err, g.modelNow(), prefix, after, limit, g.inTx)
	}
	return res, err
}

func (g *c13Guard) Delete(ctx context.Context, key string) error {
	err := g.inner.Delete(ctx, key)
	if err == nil {
		g.r.cur().del(key)
		g.r.obs["helper_deletes"]++
		if g.r.tx != nil && c13Irregular(key) {
			g.r.txIrregular = true
		}
	}
	return err
}

type c13GuardTxView struct {
	*c13Guard
	txv logical.Transactional
}

func (g *c13GuardTxView) begin(ro bool) (logical.Transaction, error) {
	var txn logical.Transaction
	var err error
	if ro {
		txn, err = g.txv.BeginReadOnlyTx(c13Ctx)
	} else {
		txn, err = g.txv.BeginTx(c13Ctx)
	}
	if err != nil {
		return nil, err
	}
	g.r.obs["helper_own_txn"]++
	child := &c13Guard{r: g.r, opid: g.opid, inner: txn, inTx: true, snap: g.modelNow().clone(), st: g.st}
	return &c13GuardTxn{Transaction: txn, g: child}, nil
}

func (g *c13GuardTxView) BeginReadOnlyTx(ctx context.Context) (logical.Transaction, error) {
	return g.begin(true)
}

func (g *c13GuardTxView) BeginTx(ctx context.Context) (logical.Transaction, error) {
	return g.begin(false)
}

type c13GuardTxn struct {
	logical.Transaction
	g *c13Guard
}

func (t *c13GuardTxn) List(ctx context.Context, p string) ([]string, error) { return t.g.List(ctx, p) }
func (t *c13GuardTxn) ListPage(ctx context.Context, p, a string, l int) ([]string, error) {
	return t.g.ListPage(ctx, p, a, l)
}

type c13GuardStorage struct {
	logical.Storage
	g *c13Guard
}

func (s *c13GuardStorage) List(ctx context.Context, p string) ([]string, error) {
	return s.g.List(ctx, p)
}
func (s *c13GuardStorage) ListPage(ctx context.Context, p, a string, l int) ([]string, error) {
	return s.g.ListPage(ctx, p, a, l)
}

func (r *c13Run) guard(opid string) (*c13Guard, logical.ClearableView) {
	kv := r.kv()
	g := &c13Guard{r: r, opid: opid, inner: kv.view(), inTx: r.tx != nil, st: &c13GuardState{max: 60 + 25*len(r.cur().m)}}
	if r.tx == nil {
		if txv, ok := kv.view().(logical.Transactional); ok {
			return g, &c13GuardTxView{g, txv}
		}
	}
	return g, g
}

func (r *c13Run) modelHasIrregular() bool {
	for k := range r.cur().m {
		if c13Irregular(k) {
			return true
		}
	}
	return false
}

func (r *c13Run) modelHasEmptyEntry() bool {
	for k := range r.cur().m {
		if k == "" || strings.HasSuffix(k, "/") {
			return true
		}
	}
	return false
}

// helperOutcome turns the state of a guard after a helper returned into a failure, if any.
func (r *c13Run) helperOutcome(opid string, o c13Op, g *c13Guard, err error, hadEmptyEntry, hadIrregular bool) (*c13Fail, bool) {
	if g.st.fail != nil {
		return g.st.fail, true
	}
	if g.st.tripped {
		class := r.class("C13-scan-no-progress")
		if g.st.limit1 && hadEmptyEntry {
			class = c13ClassStall
		}
		return r.fail(class, opid, fmt.Sprintf("%s issued more than %d ListPage calls without finishing (page size 1: %v, a stored key equals a listed prefix: %v)", o, g.st.max, g.st.limit1, hadEmptyEntry), nil, nil), true
	}
	if err != nil {
		if hadIrregular {
			r.obs["rejected"]++
			return nil, true
		}
		return r.unexpectedErr(opid, o, err), true
	}
	return nil, false
}

func (r *c13Run) doScan(o c13Op) *c13Fail {
	opid := fmt.Sprintf("op%d", o.ID)
	g, view := r.guard(opid)
	m := r.cur()
	want := m.keysUnder("")
	hadEmpty, hadIrr := r.modelHasEmptyEntry(), r.modelHasIrregular()
	var got []string
	var err error
	name := ""
	switch o.Var {
	case 0:
		name = "CollectKeys"
		got, err = logical.CollectKeys(c13Ctx, view)
	case 1:
		name = fmt.Sprintf("ScanViewPaginated(pagesize %d)", o.Limit)
		err = logical.ScanViewPaginated(c13Ctx, view, hclog.NewNullLogger(), o.Limit, func(page, index int, p string) (bool, error) {
			got = append(got, p)
			return true, nil
		})
	case 2:
		name = fmt.Sprintf("CollectKeysWithPrefix(%q)", o.Prefix)
		got, err = logical.CollectKeysWithPrefix(c13Ctx, view, o.Prefix)
		want = m.keysUnder(o.Prefix)
	case 3:
		name = "CountKeys"
		var n int
		n, err = logical.CountKeys(c13Ctx, view)
		if err == nil && n != len(want) && g.st.fail == nil && !g.st.tripped {
			return r.fail(r.class("C13-scan-mismatch"), opid, fmt.Sprintf("CountKeys = %d, the view holds %d keys %s", n, len(want), c13QL(want)), len(want), n)
		}
		got = want
	}
	r.obs["scan"]++
	if f, stop := r.helperOutcome(opid, o, g, err, hadEmpty, hadIrr); stop {
		return f
	}
	if !c13EqualStrings(c13Sorted(got), want) {
		return r.fail(r.class("C13-scan-mismatch"), opid, fmt.Sprintf("%s visited %s, the keys under the view are %s", name, c13QL(c13Sorted(got)), c13QL(want)), want, got)
	}
	if len(want) >= 3 {
		r.obs["scan_3plus_keys"]++
	}
	return nil
}

func (r *c13Run) doHLP(o c13Op) *c13Fail {
	opid := fmt.Sprintf("op%d", o.ID)
	g, _ := r.guard(opid)
	m := r.cur()
	want := m.children(o.Prefix)
	hadEmpty := len(want) > 0 && want[0] == ""
	var items, batched []string
	err := logical.HandleListPage(c13Ctx, &c13GuardStorage{Storage: r.kv().storage(), g: g}, o.Prefix, o.Limit,
		func(page, index int, e string) (bool, error) { items = append(items, e); return true, nil },
		func(page int, es []string) (bool, error) { batched = append(batched, es...); return true, nil })
	r.obs["hlp"]++
	if f, stop := r.helperOutcome(opid, o, g, err, hadEmpty, c13IrregularPrefix(o.Prefix)); stop {
		return f
	}
	if !c13EqualStrings(items, want) || !c13EqualStrings(batched, want) {
		return r.fail(r.class("C13-handlelistpage-mismatch"), opid, fmt.Sprintf("%s delivered items %s / batches %s, the sorted listing is %s", o, c13QL(items), c13QL(batched), c13QL(want)), want, items)
	}
	if o.Limit > 0 && len(want) > o.Limit {
		r.obs["hlp_multi_page"]++
	}
	return nil
}

func (r *c13Run) doClear(o c13Op) *c13Fail {
	opid := fmt.Sprintf("op%d", o.ID)
	g, view := r.guard(opid)
	hadEmpty, hadIrr := r.modelHasEmptyEntry(), r.modelHasIrregular()
	before := len(r.cur().m)
	var err error
	if o.Var == 0 {
		err = logical.ClearView(c13Ctx, view)
	} else {
		err = logical.ClearViewWithoutPagination(c13Ctx, view, hclog.NewNullLogger())
	}
	r.obs["clear"]++
	if f, stop := r.helperOutcome(opid, o, g, err, hadEmpty, hadIrr); stop {
		return f
	}
	if left := r.cur().keysUnder(""); len(left) > 0 {
		return r.fail(r.class("C13-clear-incomplete"), opid, fmt.Sprintf("%s returned without deleting %s", o, c13QL(left)), []string{}, left)
	}
	if before >= 3 {
		r.obs["clear_3plus_keys"]++
	}
	return nil
}

// ---- executing one op

// blockEnd: how the transaction block opened at ops[i] ends.
func c13BlockEnd(ops []c13Op, i int) string {
	for j := i + 1; j < len(ops); j++ {
		if ops[j].Kind == "commit" || ops[j].Kind == "rollback" {
			return ops[j].Kind
		}
		if ops[j].Kind == "begin" {
			break
		}
	}
	return "rollback"
}

func (r *c13Run) exec(ops []c13Op, i int) *c13Fail {
	o := ops[i]
	opid := fmt.Sprintf("op%d", o.ID)
	inBlock := r.tx != nil || r.skip || r.roReads
	switch o.Kind {
	case "begin":
		if inBlock {
			return nil
		}
		if !r.st.top.canTx() {
			// a stack without transactions executes committed blocks directly, skips
			// rolled-back ones and performs only the reads of read-only ones
			switch {
			case o.RO:
				r.roReads = true
			case c13BlockEnd(ops, i) == "rollback":
				r.skip = true
			}
			return nil
		}
		tx, err := r.st.top.begin(o.RO)
		if err != nil {
			return r.unexpectedErr(opid, o, err)
		}
		r.tx, r.txRO, r.txModel, r.txIrregular = tx, o.RO, r.model.clone(), false
		r.txTouched, r.txWrote = map[string]bool{}, map[string]bool{}
		r.obs["txn_begin"]++
		return nil
	case "commit", "rollback":
		r.skip, r.roReads = false, false
		if r.tx == nil {
			return nil
		}
		var err error
		if o.Kind == "commit" {
			err = r.tx.commit()
		} else {
			err = r.tx.rollback()
		}
		if err != nil && o.Kind == "commit" && r.txIrregular {
			// the transaction as a whole was rejected because of an irregular key
			// written in it: allowed, provided nothing of it took effect
			r.obs["rejected"]++
			r.obs["txn_commit_rejected_irregular_key"]++
			r.tx, r.txModel, r.txRO = nil, nil, false
			return nil
		}
		if err != nil {
			r.tx, r.txModel = nil, nil
			return r.fail(r.class("C13-txn-end-error"), opid, fmt.Sprintf("%s of a transaction nobody competes with failed: %v", o.Kind, c13Short(err.Error())), nil, err.Error())
		}
		if o.Kind == "commit" && !r.txRO {
			if r.txModel.differsUnder(r.model, "") {
				r.obs["txn_commit_with_writes"]++
			}
			// what a transaction-private read cache has to cope with: keys written
			// early, then many other distinct keys touched before the commit
			if len(r.txWrote) > 0 {
				if len(r.txTouched) >= 5 {
					r.obs["txn_commit_5plus_keys_touched_after_first_write"]++
				}
				if len(r.txTouched) >= 2049 {
					r.obs["txn_commit_2049plus_keys_touched_after_first_write"]++
				}
				for k := range r.txWrote {
					if r.readOutside[k] {
						r.obs["txn_commit_wrote_key_read_before"]++
						break
					}
				}
			}
			r.model = r.txModel
		} else if r.txModel.differsUnder(r.model, "") {
			r.obs["txn_rollback_with_writes"]++
		}
		r.obs["txn_"+o.Kind]++
		r.tx, r.txModel, r.txRO = nil, nil, false
		return nil
	}
	if r.skip {
		return nil
	}
	if r.roReads && (o.Kind == "put" || o.Kind == "del" || o.Kind == "clear") {
		return nil
	}
	kv, m := r.kv(), r.cur()
	if o.Kind == "put" || o.Kind == "del" || o.Kind == "get" {
		if r.tx != nil {
			if len(r.txWrote) > 0 && !r.txWrote[o.Key] {
				r.txTouched[o.Key] = true
			}
			if o.Kind != "get" && !r.txRO {
				r.txWrote[o.Key] = true
			}
		} else if o.Kind == "get" {
			if r.readOutside == nil {
				r.readOutside = map[string]bool{}
			}
			r.readOutside[o.Key] = true
		}
	}
	switch o.Kind {
	case "put", "del":
		if o.Kind == "put" && r.st.base == "raft" && r.st.physPrefix+o.Key == "" {
			// RaftBackend.Put with an empty physical key makes FSM.ApplyBatch panic
			// ("failed to store data": bolt refuses the key) on a goroutine of the
			// raft library, which would kill this process; recorded, not executed.
			r.obs["skipped_raft_empty_key_put"]++
			return nil
		}
		r.note(o.Key)
		var err error
		if o.Kind == "put" {
			err = kv.put(o.Key, o.Val)
		} else {
			err = kv.del(o.Key)
		}
		r.obs[o.Kind]++
		if err != nil {
			if c13Irregular(o.Key) || r.txRO {
				r.obs["rejected"]++
				if o.Kind == "put" {
					r.rejectedPuts = append(r.rejectedPuts, o.Key)
				}
				if r.txRO {
					r.obs["rotxn_write_rejected"]++
				}
				// a rejection must have no effect: look at the key right away
				return r.checkGet(opid+":after-rejection", kv, m, o.Key)
			}
			return r.unexpectedErr(opid, o, err)
		}
		r.accepted(o.Key)
		if r.txRO {
			return r.fail(r.class("C13-rotxn-write-accepted"), opid, fmt.Sprintf("%s was accepted inside a read-only transaction", o), "error", nil)
		}
		if o.Kind == "put" {
			if _, had := m.get(o.Key); had {
				r.obs["put_overwrite"]++
			}
			m.put(o.Key, o.Val)
			if len(o.Val) == 0 {
				r.obs["put_empty_value"]++
			}
		} else {
			if _, had := m.get(o.Key); had {
				r.obs["del_existing"]++
			}
			m.del(o.Key)
		}
		return nil
	case "get":
		r.note(o.Key)
		return r.checkGet(opid, kv, m, o.Key)
	case "list":
		r.notePrefix(o.Prefix)
		got, err := kv.list(o.Prefix)
		return r.checkList(opid, got, err, m, o.Prefix)
	case "page":
		r.notePrefix(o.Prefix)
		got, err := kv.page(o.Prefix, o.After, o.Limit)
		return r.checkPage(opid, got, err, m, o.Prefix, o.After, o.Limit, r.tx != nil)
	case "cachectl":
		// must be unobservable: drop one key / everything from the read cache
		if c := r.st.cache; c != nil {
			if o.Var == 0 {
				c.Invalidate(c13Ctx, r.st.physPrefix+o.Key)
			} else {
				c.Purge(c13Ctx)
			}
			r.obs["cache_invalidate_or_purge"]++
		}
		return nil
	case "scan":
		return r.doScan(o)
	case "hlp":
		r.notePrefix(o.Prefix)
		return r.doHLP(o)
	case "clear":
		return r.doClear(o)
	}
	return nil
}

// sweep: after the sequence, read everything back (keys, listings, a scan) and
// compare the physical content of the base with outside keys + view content.
func (r *c13Run) sweep(seq *c13Seq) *c13Fail {
	if r.tx != nil {
		_ = r.tx.rollback()
		r.tx, r.txModel, r.txRO = nil, nil, false
	}
	r.skip, r.roReads = false, false
	kv, m := r.kv(), r.model
	for _, k := range seq.Keys {
		r.note(k)
		if f := r.checkGet(fmt.Sprintf("sweep:get:%q", k), kv, m, k); f != nil {
			return f
		}
	}
	for _, d := range seq.Dirs {
		r.notePrefix(d)
		got, err := kv.list(d)
		if f := r.checkList(fmt.Sprintf("sweep:list:%q", d), got, err, m, d); f != nil {
			return f
		}
		ch := m.children(d)
		after := ""
		if len(ch) > 0 {
			after = ch[len(ch)/2]
		}
		got, err = kv.page(d, after, 2)
		if f := r.checkPage(fmt.Sprintf("sweep:page:%q", d), got, err, m, d, after, 2, false); f != nil {
			return f
		}
	}
	// physical content
	phys, err := r.st.dump()
	if err != nil {
		if r.modelHasIrregular() || r.unclean {
			r.obs["rejected"]++
			return nil
		}
		return r.fail(r.class("C13-physical-dump-error"), "sweep:dump", fmt.Sprintf("reading the base back failed: %v", c13Short(err.Error())), nil, err.Error())
	}
	for k, v := range r.st.outside {
		if pv, ok := phys[k]; !ok || !bytes.Equal(pv, v) {
			return r.fail(r.class("C13-view-affected-outside-key"), "sweep:dump", fmt.Sprintf("key %s outside the view prefix %s was changed or removed by operations on the view (still present: %v)", c13Q(k), c13Q(r.st.physPrefix), ok), v, pv)
		}
	}
	var missing, extra []string
	for k, v := range m.m {
		pv, ok := phys[r.st.physPrefix+k]
		if !ok {
			missing = append(missing, r.st.physPrefix+k)
		} else if !r.st.encrypted && !bytes.Equal(pv, v) {
			missing = append(missing, r.st.physPrefix+k+" (stored value differs)")
		}
	}
	class := "C13-physical-content-mismatch"
	for k := range phys {
		if _, ok := r.st.outside[k]; ok {
			continue
		}
		if strings.HasPrefix(k, r.st.physPrefix) {
			if _, ok := m.m[k[len(r.st.physPrefix):]]; ok {
				continue
			}
		} else {
			class = "C13-view-wrote-outside-prefix"
		}
		extra = append(extra, k)
	}
	sort.Strings(missing)
	sort.Strings(extra)
	if len(missing)+len(extra) > 0 {
		return r.fail(r.class(class), "sweep:dump", fmt.Sprintf("content of the base differs from (keys outside the view) + prefix %s + model: missing %s, unexpected %s", c13Q(r.st.physPrefix), c13QL(missing), c13QL(extra)), nil, nil)
	}
	r.obs["dump_checked"]++
	if r.st.hasView {
		r.obs["dump_checked_view_with_outside_keys"]++
	}
	return nil
}

// c13RunOne applies ops to a fresh instance of the stack.
// Failures of these classes are failures of a read path with a precise known
// signature; the stack's state still agrees with the model, so the run goes on
// (one witness per class and run) instead of ending at the first of them.
var c13SoftClasses = map[string]bool{c13ClassFileLong: true, c13ClassF4: true, c13ClassMisseek: true, c13ClassOmitPending: true, c13ClassStall: true}

func c13RunOne(env *c13BaseEnv, layer string, seq *c13Seq, ops []c13Op, withSweep bool) (*c13Run, []*c13Fail) {
	r := &c13Run{model: c13NewModel(), obs: map[string]int{}}
	raw, dump, err := env.fresh()
	if err == nil {
		r.st, err = c13Build(env.name, layer, raw, dump)
	}
	if err != nil {
		r.st = &c13Stack{name: env.name + "/" + layer, base: env.name}
		return r, []*c13Fail{r.fail("C13-setup-failed", "setup", fmt.Sprintf("building the stack on an empty base failed: %v", c13Short(err.Error())), nil, err.Error())}
	}
	defer func() {
		if r.tx != nil {
			_ = r.tx.rollback()
			r.tx = nil
		}
	}()
	var fails []*c13Fail
	add := func(f *c13Fail) (stop bool) {
		if f == nil {
			return false
		}
		if !c13SoftClasses[f.Class] {
			fails = append(fails, f)
			return true
		}
		for _, o := range fails {
			if o.Class == f.Class {
				return false
			}
		}
		fails = append(fails, f)
		return false
	}
	for i := range ops {
		if add(r.guarded(fmt.Sprintf("op%d", ops[i].ID), ops[i].String(), func() *c13Fail { return r.exec(ops, i) })) {
			return r, fails
		}
	}
	if withSweep {
		add(r.guarded("sweep:panic", "read-back sweep", func() *c13Fail { return r.sweep(seq) }))
	}
	return r, fails
}

// guarded turns a panic of the code under test (on this goroutine) into a failure.
func (r *c13Run) guarded(opid, what string, fn func() *c13Fail) (f *c13Fail) {
	defer func() {
		if p := recover(); p != nil {
			f = r.fail(r.class("C13-panic"), opid, fmt.Sprintf("%s panicked: %v", what, p), nil, fmt.Sprint(p))
		}
	}()
	return fn()
}

// c13Shrink removes operations one at a time while the same check keeps failing
// in the same way; the result is only used to make the witness short.
func c13Shrink(env *c13BaseEnv, layer string, seq *c13Seq, ops []c13Op, f *c13Fail) ([]c13Op, *c13Fail) {
	cur, curFail := ops, f
	sweep := strings.HasPrefix(f.OpID, "sweep:")
	own := strings.SplitN(f.OpID, ":", 2)[0]
	budget := 150
	for i := len(cur) - 1; i >= 0 && budget > 0; i-- {
		if own == fmt.Sprintf("op%d", cur[i].ID) {
			continue
		}
		cand := append(append([]c13Op{}, cur[:i]...), cur[i+1:]...)
		budget--
		_, nfs := c13RunOne(env, layer, seq, cand, sweep)
		for _, nf := range nfs {
			if nf.Class == f.Class && nf.OpID == f.OpID {
				cur, curFail = cand, nf
				break
			}
		}
	}
	// drop everything after the failing operation
	for i := range cur {
		if own == fmt.Sprintf("op%d", cur[i].ID) {
			cur = cur[:i+1]
			break
		}
	}
	return cur, curFail
}

// ---------------------------------------------------------------- driver

const c13Rule = "a case = one generated operation sequence (put/delete/get/list/listpage, transaction blocks, ScanView/CollectKeys/CountKeys/HandleListPage/ClearView helpers; then a read-back sweep and a comparison of the base's physical content with outside keys + view content) applied to one stack of layers in lockstep with the sorted-map model; it is non-trivial when it contained a listpage whose 'after' cut a non-empty listing in two and a listing in which >= 2 keys collapsed into one folder entry; on the transactional bases additionally the bulk-transaction shape on the read-cache layerings (pre-populate N keys, read all through the cache, one transaction that writes/deletes a few keys and then touches many other distinct keys, commit, read all back; N above the 4-entry private cache of a 256-entry read cache, and a few cases above the 2048 entries of the default size), non-trivial when >= 5 other keys were touched after the first write; distinct = distinct (sequence, stack)"

func c13Family(t *testing.T, name string, env *c13BaseEnv, layersFor func(seq *c13Seq) []string, nseq, nops int, mins map[string]int64) {
	seed := kit.Seed(13)
	r := kit.NewResult(t, name, seed, c13Rule)
	defer r.Write(t)
	shard, shards := kit.Shard()
	shrunk := map[string]int{}
	samples := 0
	runSeq := func(seq *c13Seq, layers []string) {
		for _, layer := range layers {
			caseID := fmt.Sprintf("%s/%s/%s", seq.id(), env.name, layer)
			if !kit.WantCase(caseID) {
				continue
			}
			run, fails := c13RunOne(env, layer, seq, seq.Ops, true)
			r.Eval(1)
			r.Count("runs:"+layer, 1)
			for k, v := range run.obs {
				r.Count(k, v)
			}
			if seq.Hostile {
				r.Count("runs_hostile_profile", 1)
			} else {
				r.Count("runs_regular_profile", 1)
			}
			if seq.Tag != "" {
				r.Count("runs_bulk_transaction_shape:"+seq.Tag, 1)
			}
			if run.obs["page_after_cuts"] > 0 && run.obs["list_folder_collapsed"] > 0 || seq.Tag != "" && run.obs["txn_commit_5plus_keys_touched_after_first_write"] > 0 {
				r.Nontrivial(caseID)
			}
			if len(fails) == 0 {
				if samples < 3 && run.obs["page_after_cuts"] > 0 && run.obs["txn_commit_with_writes"] > 0 {
					samples++
					ops := seq.opStrings(seq.Ops)
					if len(ops) > 14 {
						ops = append(ops[:14], fmt.Sprintf("... %d more", len(seq.Ops)-14))
					}
					r.Sample(map[string]any{"case": caseID, "ops": ops, "observed": run.obs, "final_keys": c13Trunc(run.model.keysUnder(""))})
				}
				continue
			}
			for _, f := range fails {
				ops := seq.Ops
				if kit.OnlyCase() == "" && shrunk[f.Class] < 3 && f.OpID != "setup" && len(seq.Ops) <= 400 {
					shrunk[f.Class]++
					ops, f = c13Shrink(env, layer, seq, seq.Ops, f)
				}
				opss := seq.opStrings(ops)
				if len(opss) > 120 {
					opss = append(append(append([]string{}, opss[:30]...), fmt.Sprintf("... %d operations ...", len(opss)-90)), opss[len(opss)-60:]...)
				}
				r.Violate(f.Class, caseID, f.What, map[string]any{
					"stack": run.st.name, "profile_hostile": seq.Hostile, "failing_check": f.OpID,
					"ops_shrunk": opss, "ops_total": len(seq.Ops), "want": f.Want, "got": f.Got,
				})
			}
		}
	}
	for i := 0; i < nseq; i++ {
		if i%shards == shard {
			seq := c13Gen(seed, i, nops)
			runSeq(seq, layersFor(seq))
		}
	}
	// bulk-transaction shape on the read-cache layerings of the transactional bases
	if env.name == "inmem-txn" || env.name == "raft" {
		for i := 0; i < kit.N(60, 1600); i++ {
			if i%shards == shard {
				runSeq(c13GenBulk(seed, i, false), []string{"cache256", "fullsmall", "cache3", "cache", "full"})
			}
		}
		for i := 0; i < kit.N(1, 8); i++ {
			if i%shards == shard || kit.OnlyCase() != "" {
				runSeq(c13GenBulk(seed, i, true), []string{"cache", "full"})
			}
		}
	}
	for k, v := range mins {
		min := v / int64(shards)
		if min < 1 {
			min = 1
		}
		r.Require(k, min)
	}
}

func c13AllLayers(*c13Seq) []string { return c13Layers }

var c13CommonMins = map[string]int64{
	"page_after_cuts": 200, "page_limit_cuts": 100, "page_after_existing": 100, "page_after_missing": 200,
	"page_after_leaves_prefix_nonempty": 20, "page_after_with_slash": 50, "page_limit_nonpositive": 100,
	"list_folder_collapsed": 100, "list_key_and_folder": 30, "get_hit": 200, "get_miss": 100,
	"del_existing": 50, "put_overwrite": 50, "rejected": 20, "scan_3plus_keys": 20, "hlp_multi_page": 5,
	"clear_3plus_keys": 3, "dump_checked_view_with_outside_keys": 50, "helper_page_calls": 200,
}

func c13WithTxnMins() map[string]int64 {
	m := map[string]int64{}
	for k, v := range c13CommonMins {
		m[k] = v
	}
	m["txn_commit_with_writes"] = 30
	m["txn_rollback_with_writes"] = 10
	m["page_in_txn_with_pending_writes"] = 30
	m["page_in_txn_2plus_pending_new_entries"] = 10
	m["page_in_txn_pending_removed_entry"] = 10
	m["rotxn_write_rejected"] = 3
	m["helper_own_txn"] = 10
	m["txn_commit_5plus_keys_touched_after_first_write"] = 150
	m["txn_commit_wrote_key_read_before"] = 150
	m["txn_commit_2049plus_keys_touched_after_first_write"] = 1
	return m
}

func TestVerif_C13_Inmem(t *testing.T) {
	c13Family(t, "c13-inmem", c13InmemBase(false), c13AllLayers, kit.N(400, 12000), kit.N(48, 60), c13CommonMins)
}

func TestVerif_C13_InmemTxn(t *testing.T) {
	c13Family(t, "c13-inmem-txn", c13InmemBase(true), c13AllLayers, kit.N(400, 12000), kit.N(48, 60), c13WithTxnMins())
}

func TestVerif_C13_File(t *testing.T) {
	c13Family(t, "c13-file", c13FileBase(t), c13AllLayers, kit.N(400, 12000), kit.N(48, 60), c13CommonMins)
}

func TestVerif_C13_Raft(t *testing.T) {
	c13Family(t, "c13-raft", c13RaftBase(t), c13AllLayers, kit.N(400, 12000), kit.N(48, 60), c13WithTxnMins())
}
