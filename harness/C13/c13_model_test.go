//go:build verif

package raft

// C13 — reference model (a sorted map, written from the property text and the
// interface documentation in sdk/physical/physical.go and sdk/logical/storage.go)
// and the generator of operation sequences shared by every stack.

import (
	"bytes"
	"fmt"
	"path"
	"sort"
	"strings"
	"unicode"
	"unicode/utf8"

	kit "github.com/openbao/openbao/sdk/v2/helper/verifkit"
)

// ---------------------------------------------------------------- model

type c13Model struct{ m map[string][]byte }

func c13NewModel() *c13Model { return &c13Model{m: map[string][]byte{}} }

func (m *c13Model) clone() *c13Model {
	n := c13NewModel()
	for k, v := range m.m {
		n.m[k] = v
	}
	return n
}

func (m *c13Model) put(k string, v []byte) { m.m[k] = append([]byte{}, v...) }
func (m *c13Model) del(k string)           { delete(m.m, k) }
func (m *c13Model) get(k string) ([]byte, bool) {
	v, ok := m.m[k]
	return v, ok
}

// children: the set of immediate children of prefix, sub-prefixes marked by a
// trailing slash, sorted. A key equal to the prefix has the child "" (this is
// the documented meaning of a key with a trailing slash, see the comment in
// scanViewPaginated).
func (m *c13Model) children(prefix string) []string {
	set := map[string]struct{}{}
	for k := range m.m {
		if !strings.HasPrefix(k, prefix) {
			continue
		}
		rest := k[len(prefix):]
		if i := strings.IndexByte(rest, '/'); i >= 0 {
			rest = rest[:i+1]
		}
		set[rest] = struct{}{}
	}
	out := make([]string, 0, len(set))
	for e := range set {
		out = append(out, e)
	}
	sort.Strings(out)
	return out
}

// page: the slice of the sorted full listing that lies strictly after `after`
// (after == "" means from the start), cut to limit entries when limit > 0.
func (m *c13Model) page(prefix, after string, limit int) []string {
	full := m.children(prefix)
	out := full[:0:0]
	for _, e := range full {
		if after != "" && e <= after {
			continue
		}
		out = append(out, e)
	}
	if limit > 0 && len(out) > limit {
		out = out[:limit]
	}
	return out
}

func (m *c13Model) keysUnder(prefix string) []string {
	var out []string
	for k := range m.m {
		if strings.HasPrefix(k, prefix) {
			out = append(out, k)
		}
	}
	sort.Strings(out)
	return out
}

func (m *c13Model) differsUnder(o *c13Model, prefix string) bool {
	a, b := m.keysUnder(prefix), o.keysUnder(prefix)
	if len(a) != len(b) {
		return true
	}
	for i := range a {
		if a[i] != b[i] || !bytes.Equal(m.m[a[i]], o.m[b[i]]) {
			return true
		}
	}
	return false
}

// folderStats: does the listing of prefix collapse >= 2 keys into one folder
// entry, and does it contain both "x" and "x/".
func (m *c13Model) folderStats(prefix string) (collapsed, keyAndFolder bool) {
	cnt := map[string]int{}
	files := map[string]bool{}
	for k := range m.m {
		if !strings.HasPrefix(k, prefix) {
			continue
		}
		rest := k[len(prefix):]
		if i := strings.IndexByte(rest, '/'); i >= 0 {
			cnt[rest[:i+1]]++
		} else {
			files[rest] = true
		}
	}
	for f, c := range cnt {
		if c >= 2 {
			collapsed = true
		}
		if files[strings.TrimSuffix(f, "/")] {
			keyAndFolder = true
		}
	}
	return
}

// ------------------------------------------------- hostile-input predicate
//
// The property allows a layer to *reject* certain inputs (encoding layer:
// non-UTF-8 / non-printable; views: relative paths; file backend: "..", OS
// name limits) provided the rejection has no effect. The harness does not
// encode which layer rejects what: an error is tolerated on any stack iff the
// key/prefix is irregular by this stack-independent predicate, and it must
// then have had no effect (the model is not updated and everything read later
// has to agree with it). On regular keys no error is tolerated anywhere.

const c13LongSeg = 240

func c13Irregular(k string) bool {
	if k == "" {
		return true
	}
	if !utf8.ValidString(k) || strings.Contains(k, "..") {
		return true
	}
	if strings.IndexFunc(k, func(c rune) bool { return !unicode.IsPrint(c) }) >= 0 {
		return true
	}
	for _, s := range strings.Split(k, "/") {
		if s == "" || s == "." || len(s) > c13LongSeg {
			return true
		}
	}
	return false
}

// a list prefix is "" or ends in "/"; it is irregular when the directory name
// without the final slash is.
func c13IrregularPrefix(p string) bool {
	if p == "" {
		return false
	}
	return c13Irregular(strings.TrimSuffix(p, "/"))
}

// unclean: the key is not its own rooted path.Clean form, i.e. it has an empty,
// "." or ".." segment or a leading/trailing slash (a file system aliases these).
func c13Unclean(k string) bool { return k == "" || path.Clean("/"+k) != "/"+k }

// ---------------------------------------------------------------- ops

type c13Op struct {
	ID     int    `json:"id"`
	Kind   string `json:"op"` // put del get list page begin commit rollback scan hlp clear
	Key    string `json:"key,omitempty"`
	Val    []byte `json:"val,omitempty"`
	Prefix string `json:"prefix,omitempty"`
	After  string `json:"after,omitempty"`
	Limit  int    `json:"limit,omitempty"`
	RO     bool   `json:"ro,omitempty"`
	Var    int    `json:"variant,omitempty"`
}

// c13Q quotes s, abbreviating long runs of one byte ("qqqq…" -> "q{255}").
func c13Q(s string) string {
	var b strings.Builder
	for i := 0; i < len(s); {
		j := i
		for j < len(s) && s[j] == s[i] {
			j++
		}
		if j-i > 12 && s[i] < 0x80 {
			fmt.Fprintf(&b, "%c{x%d}", s[i], j-i)
		} else {
			b.WriteString(s[i:j])
		}
		i = j
	}
	return fmt.Sprintf("%q", b.String())
}

func c13QL(a []string) string {
	var b strings.Builder
	b.WriteByte('[')
	for i, e := range a {
		if i > 0 {
			b.WriteByte(' ')
		}
		if i >= 40 {
			fmt.Fprintf(&b, "... (%d entries)", len(a))
			break
		}
		b.WriteString(c13Q(e))
	}
	b.WriteByte(']')
	return b.String()
}

func (o c13Op) String() string {
	switch o.Kind {
	case "put":
		return fmt.Sprintf("put(%s, %d bytes)", c13Q(o.Key), len(o.Val))
	case "del", "get":
		return fmt.Sprintf("%s(%s)", o.Kind, c13Q(o.Key))
	case "list":
		return fmt.Sprintf("list(%s)", c13Q(o.Prefix))
	case "page":
		return fmt.Sprintf("listpage(%s, after=%s, limit=%d)", c13Q(o.Prefix), c13Q(o.After), o.Limit)
	case "begin":
		if o.RO {
			return "begin-readonly-tx"
		}
		return "begin-tx"
	case "scan":
		return fmt.Sprintf("scan(variant=%d, pagesize=%d, prefix=%s)", o.Var, o.Limit, c13Q(o.Prefix))
	case "hlp":
		return fmt.Sprintf("handlelistpage(%s, limit=%d)", c13Q(o.Prefix), o.Limit)
	case "clear":
		return fmt.Sprintf("clearview(variant=%d)", o.Var)
	case "cachectl":
		if o.Var == 0 {
			return fmt.Sprintf("cache-invalidate(%s)", c13Q(o.Key))
		}
		return "cache-purge"
	}
	return o.Kind
}

type c13Seq struct {
	Tag     string // "" (generated mix), "blk" / "hug" (bulk-transaction shape)
	Index   int
	Hostile bool
	Ops     []c13Op
	Keys    []string
	Dirs    []string
}

func (s *c13Seq) id() string {
	if s.Tag != "" {
		return fmt.Sprintf("%s%d", s.Tag, s.Index)
	}
	p := "reg"
	if s.Hostile {
		p = "hos"
	}
	return fmt.Sprintf("%s%d", p, s.Index)
}

func (s *c13Seq) opStrings(ops []c13Op) []string {
	out := make([]string, len(ops))
	for i, o := range ops {
		out[i] = o.String()
	}
	return out
}

// ---------------------------------------------------------------- generator

var c13RegularSegs = []string{
	"a", "ab", "b", "-", "a-", "a.", "a0", ".a", "0", "A", "_a", "_", "é", "日本", "~", "a b", "t", "t.temp", "á", "\U0001F511",
	strings.Repeat("L", 200),
}

var c13HostileSegs = []string{
	".", "..", "", "a..b", "\xff", "a\x00b", "a\nb", "​",
	strings.Repeat("m", 241), strings.Repeat("n", 249), strings.Repeat("o", 250), strings.Repeat("p", 254),
	strings.Repeat("q", 255), strings.Repeat("r", 256),
}

// around bolt's maximum key size (32768); picked rarely, they are expensive
var c13GiantSegs = []string{strings.Repeat("K", 32700), strings.Repeat("J", 32768)}

var c13Afters = []string{"", ".", "..", "../x", "a/", "a/b", "a/../b", "\xff", "/", "~", "./a", "a/.", "-", "0", "a", "b", "ab/../../b", "a//", "\x00"}

var c13Limits = []int{-1, 0, 1, 2, 3, 1000, -7, 1, 2}

// c13Gen builds sequence number index for seed; it depends on nothing else.
func c13Gen(seed int64, index int, nops int) *c13Seq {
	rng := kit.NewRand(seed, 13_000_000+uint64(index))
	s := &c13Seq{Index: index, Hostile: index%5 >= 3}

	// a small per-sequence alphabet so that prefixes are shared heavily
	nseg := 2 + rng.Intn(3)
	var segs []string
	for i := 0; i < nseg; i++ {
		segs = append(segs, kit.Pick(rng, c13RegularSegs))
	}
	if s.Hostile {
		for i := 0; i < 1+rng.Intn(2); i++ {
			if rng.Chance(1, 15) {
				segs = append(segs, kit.Pick(rng, c13GiantSegs))
			} else {
				segs = append(segs, kit.Pick(rng, c13HostileSegs))
			}
		}
	}
	seg := func() string { return kit.Pick(rng, segs) }
	genKey := func() string {
		d := 1 + rng.Intn(4)
		parts := make([]string, d)
		for i := range parts {
			parts[i] = seg()
		}
		return strings.Join(parts, "/")
	}
	keyset := map[string]bool{}
	add := func(k string) {
		if !s.Hostile && c13Irregular(k) {
			return
		}
		if len(k) > 1500 && (!s.Hostile || len(k) > 33000) {
			return
		}
		if !keyset[k] {
			keyset[k] = true
			s.Keys = append(s.Keys, k)
		}
	}
	for i, n := 0, 3+rng.Intn(4); i < n; i++ {
		add(genKey())
	}
	for i, n := 0, 3+rng.Intn(5); i < n && len(s.Keys) > 0; i++ {
		k := kit.Pick(rng, s.Keys)
		dir := ""
		if j := strings.LastIndexByte(k, '/'); j >= 0 {
			dir = k[:j+1]
		}
		switch rng.Intn(4) {
		case 0: // a key below an existing key (the key becomes a prefix too)
			add(k + "/" + seg())
		case 1: // the directory of an existing key as a key
			if dir != "" {
				add(strings.TrimSuffix(dir, "/"))
			} else {
				add(k + "/" + seg() + "/" + seg())
			}
		case 2: // sibling
			add(dir + seg())
		case 3: // sibling whose name extends / is extended by the key's last segment
			add(k + kit.Pick(rng, []string{"0", "-", ".", "a", "~"}))
		}
	}
	if s.Hostile {
		for i, n := 0, 1+rng.Intn(3); i < n && len(s.Keys) > 0; i++ {
			k := kit.Pick(rng, s.Keys)
			switch rng.Intn(8) {
			case 0:
				add(k + "/")
			case 1:
				add("/" + k)
			case 2:
				add(strings.Replace(k, "/", "//", 1))
			case 3:
				add(k + "/.")
			case 4:
				add(k + "/../" + seg())
			case 5:
				add("")
			case 6:
				add("./" + k)
			case 7:
				add(kit.Pick(rng, []string{".", "..", "/", "../" + k}))
			}
		}
	}
	if len(s.Keys) == 0 {
		add("a")
		add("a/b")
	}

	// listing prefixes: "" and every directory on the way to a key, keys used as
	// directories, a directory nobody uses
	dirset := map[string]bool{"": true}
	s.Dirs = []string{""}
	addDir := func(d string) {
		if !s.Hostile && c13IrregularPrefix(d) {
			return
		}
		if !dirset[d] {
			dirset[d] = true
			s.Dirs = append(s.Dirs, d)
		}
	}
	for _, k := range s.Keys {
		for i := 0; i < len(k); i++ {
			if k[i] == '/' {
				addDir(k[:i+1])
			}
		}
		if k != "" && !strings.HasSuffix(k, "/") && rng.Chance(1, 2) {
			addDir(k + "/")
		}
	}
	addDir("zz/")
	if s.Hostile {
		addDir(kit.Pick(rng, []string{"./", "../", "a/../", "//", "/", "a//", ".a/../"}))
	}

	entriesOf := func(d string) []string {
		set := map[string]bool{}
		for _, k := range s.Keys {
			if strings.HasPrefix(k, d) {
				rest := k[len(d):]
				if i := strings.IndexByte(rest, '/'); i >= 0 {
					set[rest[:i+1]] = true
					set[rest[:i]] = true
				} else {
					set[rest] = true
					set[rest+"/"] = true
				}
			}
		}
		out := make([]string, 0, len(set))
		for e := range set {
			out = append(out, e)
		}
		sort.Strings(out)
		return out
	}
	pickDir := func() string {
		if rng.Chance(1, 4) {
			return ""
		}
		return kit.Pick(rng, s.Dirs)
	}
	pickAfter := func(d string) string {
		es := entriesOf(d)
		switch r := rng.Intn(10); {
		case r < 4 && len(es) > 0:
			return kit.Pick(rng, es)
		case r < 6 && len(es) > 0: // near-miss of an existing entry
			e := kit.Pick(rng, es)
			switch rng.Intn(4) {
			case 0:
				return e + "0"
			case 1:
				if len(e) > 1 {
					return e[:len(e)-1]
				}
				return e + "-"
			case 2:
				return e + "/"
			default:
				return e + "\x00"
			}
		default:
			return kit.Pick(rng, c13Afters)
		}
	}
	val := func() []byte {
		switch rng.Intn(6) {
		case 0:
			return []byte{}
		case 1:
			return rng.Bytes(1)
		case 2:
			return rng.Bytes(100 + rng.Intn(400))
		default:
			return rng.Bytes(4 + rng.Intn(28))
		}
	}
	id := 0
	emit := func(o c13Op) {
		id++
		o.ID = id
		s.Ops = append(s.Ops, o)
	}
	plain := func(inTx bool) {
		switch r := rng.Intn(100); {
		case r < 34:
			emit(c13Op{Kind: "put", Key: kit.Pick(rng, s.Keys), Val: val()})
		case r < 46:
			emit(c13Op{Kind: "del", Key: kit.Pick(rng, s.Keys)})
		case r < 58:
			emit(c13Op{Kind: "get", Key: kit.Pick(rng, s.Keys)})
		case r < 60:
			if inTx {
				emit(c13Op{Kind: "get", Key: kit.Pick(rng, s.Keys)})
			} else {
				emit(c13Op{Kind: "cachectl", Key: kit.Pick(rng, s.Keys), Var: rng.Intn(3) / 2})
			}
		case r < 69:
			emit(c13Op{Kind: "list", Prefix: pickDir()})
		case r < 92:
			d := pickDir()
			emit(c13Op{Kind: "page", Prefix: d, After: pickAfter(d), Limit: kit.Pick(rng, c13Limits)})
		case r < 96:
			v := rng.Intn(4)
			o := c13Op{Kind: "scan", Var: v, Limit: kit.Pick(rng, []int{1, 2, 3, 7, 2500})}
			if v == 2 {
				o.Prefix = kit.Pick(rng, s.Keys)
				if len(o.Prefix) > 1 && rng.Chance(1, 2) {
					o.Prefix = o.Prefix[:1+rng.Intn(len(o.Prefix)-1)]
				}
			}
			emit(o)
		case r < 99:
			emit(c13Op{Kind: "hlp", Prefix: pickDir(), Limit: kit.Pick(rng, []int{-1, 0, 1, 2, 3, 1000})})
		default:
			if !inTx {
				emit(c13Op{Kind: "clear", Var: rng.Intn(2)})
			} else {
				emit(c13Op{Kind: "get", Key: kit.Pick(rng, s.Keys)})
			}
		}
	}
	// a few initial puts so that listings are not empty
	for i, n := 0, 2+rng.Intn(4); i < n; i++ {
		emit(c13Op{Kind: "put", Key: kit.Pick(rng, s.Keys), Val: val()})
	}
	for len(s.Ops) < nops {
		if rng.Chance(1, 7) {
			ro := rng.Chance(1, 5)
			emit(c13Op{Kind: "begin", RO: ro})
			for i, n := 0, 2+rng.Intn(9); i < n; i++ {
				plain(true)
			}
			if rng.Chance(3, 4) {
				emit(c13Op{Kind: "commit"})
			} else {
				emit(c13Op{Kind: "rollback"})
			}
			continue
		}
		plain(false)
	}
	return s
}

// c13GenBulk builds the "bulk transaction" shape: pre-populate n keys, read all
// of them (and a few absent ones) so that a read cache holds them, then ONE
// read-write transaction that first overwrites / deletes / creates a few keys
// and afterwards touches many other distinct keys, commit, read everything
// back. n is a few dozen (above the 4-entry private cache a transaction gets
// from a 256-entry read cache), or, with huge, above the 2048 entries a
// transaction gets from a read cache of default size.
func c13GenBulk(seed int64, index int, huge bool) *c13Seq {
	stream, tag := uint64(13_500_000), "blk"
	if huge {
		stream, tag = 13_900_000, "hug"
	}
	rng := kit.NewRand(seed, stream+uint64(index))
	s := &c13Seq{Tag: tag, Index: index}
	n := 12 + rng.Intn(30)
	if huge {
		n = 2150 + rng.Intn(150)
	}
	dirs := []string{""}
	for i, f := 0, rng.Intn(5); i < f; i++ {
		d := kit.Pick(rng, []string{"a", "b-", "é", "_a", "0", "t.temp", "A"}) + "/"
		if rng.Chance(1, 3) {
			d += kit.Pick(rng, []string{"ab", "-", "~"}) + "/"
		}
		dirs = append(dirs, d)
	}
	var present, absent []string
	for i := 0; i < n; i++ {
		present = append(present, fmt.Sprintf("%sk%04d", dirs[i%len(dirs)], i))
	}
	for i := 0; i < 4; i++ {
		absent = append(absent, fmt.Sprintf("%snew%d", kit.Pick(rng, dirs), i))
	}
	s.Keys = append(append([]string{}, present...), absent...)
	dset := map[string]bool{}
	for _, d := range dirs {
		for i := 0; i < len(d); i++ {
			if d[i] == '/' && !dset[d[:i+1]] {
				dset[d[:i+1]] = true
				s.Dirs = append(s.Dirs, d[:i+1])
			}
		}
	}
	s.Dirs = append([]string{""}, s.Dirs...)
	id := 0
	emit := func(o c13Op) {
		id++
		o.ID = id
		s.Ops = append(s.Ops, o)
	}
	val := func() []byte { return rng.Bytes(1 + rng.Intn(24)) }
	readAll := func() {
		for _, i := range rng.Perm(len(s.Keys)) {
			emit(c13Op{Kind: "get", Key: s.Keys[i]})
		}
	}
	for _, k := range present {
		emit(c13Op{Kind: "put", Key: k, Val: val()})
	}
	readAll()
	rounds := 1
	if !huge {
		rounds += rng.Intn(2)
	}
	for round := 0; round < rounds; round++ {
		emit(c13Op{Kind: "begin"})
		early := map[string]bool{}
		for i, e := 0, 1+rng.Intn(4); i < e; i++ {
			switch rng.Intn(4) {
			case 0:
				k := kit.Pick(rng, absent)
				early[k] = true
				emit(c13Op{Kind: "put", Key: k, Val: val()})
			case 1:
				k := kit.Pick(rng, present)
				early[k] = true
				emit(c13Op{Kind: "del", Key: k})
			default:
				k := kit.Pick(rng, present)
				early[k] = true
				emit(c13Op{Kind: "put", Key: k, Val: val()})
			}
		}
		touches := 8 + rng.Intn(24)
		if touches > n-6 {
			touches = n - 6
		}
		if huge {
			touches = 2100 + rng.Intn(40)
		}
		for _, i := range rng.Perm(len(present)) {
			if touches == 0 {
				break
			}
			k := present[i]
			if early[k] {
				continue
			}
			touches--
			switch r := rng.Intn(12); {
			case r < 8 || huge && r < 11:
				emit(c13Op{Kind: "get", Key: k})
			case r < 10:
				emit(c13Op{Kind: "put", Key: k, Val: val()})
			case r < 11:
				emit(c13Op{Kind: "del", Key: k})
			default:
				emit(c13Op{Kind: "put", Key: k, Val: val()})
			}
		}
		if !huge && rng.Chance(1, 3) {
			d := kit.Pick(rng, s.Dirs)
			emit(c13Op{Kind: "page", Prefix: d, After: kit.Pick(rng, []string{"", "k0003", "a/"}), Limit: kit.Pick(rng, []int{0, 5, -1})})
		}
		if huge || rng.Chance(7, 8) {
			emit(c13Op{Kind: "commit"})
		} else {
			emit(c13Op{Kind: "rollback"})
		}
		readAll()
		emit(c13Op{Kind: "list", Prefix: kit.Pick(rng, s.Dirs)})
	}
	return s
}

func c13EqualStrings(a, b []string) bool {
	if len(a) != len(b) {
		return false
	}
	for i := range a {
		if a[i] != b[i] {
			return false
		}
	}
	return true
}

func c13Sorted(a []string) []string {
	b := append([]string{}, a...)
	sort.Strings(b)
	return b
}

func c13Trunc(a []string) []string {
	if len(a) <= 40 {
		return a
	}
	return append(append([]string{}, a[:40]...), fmt.Sprintf("... (%d entries)", len(a)))
}

func c13Short(s string) string {
	if len(s) > 300 {
		return s[:300] + "..."
	}
	return s
}
