//go:build verif

package raft

// C13 — the stacks of layers every sequence is applied to, behind one small
// adapter interface (physical.Backend and logical.Storage differ only in the
// entry type).

import (
	"context"
	"fmt"
	"os"
	"strings"
	"testing"

	"github.com/hashicorp/go-hclog"
	metrics "github.com/hashicorp/go-metrics/compat"
	"github.com/hashicorp/go-uuid"
	"github.com/openbao/openbao/sdk/v2/logical"
	"github.com/openbao/openbao/sdk/v2/physical"
	"github.com/openbao/openbao/sdk/v2/physical/file"
	"github.com/openbao/openbao/sdk/v2/physical/inmem"
	"github.com/openbao/openbao/v2/internal/vault/barrier"
	bolt "go.etcd.io/bbolt"
)

var c13Ctx = context.Background()

type c13KV interface {
	put(k string, v []byte) error
	get(k string) (found bool, val []byte, retKey string, err error)
	del(k string) error
	list(p string) ([]string, error)
	page(p, after string, limit int) ([]string, error)
	view() logical.ClearableView
	storage() logical.Storage
}

type c13Top interface {
	c13KV
	canTx() bool
	begin(ro bool) (c13Tx, error)
}

type c13Tx interface {
	c13KV
	commit() error
	rollback() error
}

// ---- physical.Backend adapter

type c13Phys struct{ b physical.Backend }

func (p c13Phys) put(k string, v []byte) error {
	return p.b.Put(c13Ctx, &physical.Entry{Key: k, Value: append([]byte{}, v...)})
}

func (p c13Phys) get(k string) (bool, []byte, string, error) {
	e, err := p.b.Get(c13Ctx, k)
	if err != nil || e == nil {
		return false, nil, "", err
	}
	return true, e.Value, e.Key, nil
}
func (p c13Phys) del(k string) error                         { return p.b.Delete(c13Ctx, k) }
func (p c13Phys) list(pr string) ([]string, error)           { return p.b.List(c13Ctx, pr) }
func (p c13Phys) page(pr, a string, l int) ([]string, error) { return p.b.ListPage(c13Ctx, pr, a, l) }
func (p c13Phys) view() logical.ClearableView                { return p.b }
func (p c13Phys) storage() logical.Storage                   { return logical.NewLogicalStorage(p.b) }
func (p c13Phys) canTx() bool {
	_, ok := p.b.(physical.TransactionalBackend)
	return ok
}

func (p c13Phys) begin(ro bool) (c13Tx, error) {
	tb := p.b.(physical.TransactionalBackend)
	var tx physical.Transaction
	var err error
	if ro {
		tx, err = tb.BeginReadOnlyTx(c13Ctx)
	} else {
		tx, err = tb.BeginTx(c13Ctx)
	}
	if err != nil {
		return nil, err
	}
	return c13PhysTx{c13Phys{tx}, tx}, nil
}

type c13PhysTx struct {
	c13Phys
	tx physical.Transaction
}

func (t c13PhysTx) commit() error   { return t.tx.Commit(c13Ctx) }
func (t c13PhysTx) rollback() error { return t.tx.Rollback(c13Ctx) }

// ---- logical.Storage adapter

type c13Log struct{ s logical.Storage }

func (p c13Log) put(k string, v []byte) error {
	return p.s.Put(c13Ctx, &logical.StorageEntry{Key: k, Value: append([]byte{}, v...)})
}

func (p c13Log) get(k string) (bool, []byte, string, error) {
	e, err := p.s.Get(c13Ctx, k)
	if err != nil || e == nil {
		return false, nil, "", err
	}
	return true, e.Value, e.Key, nil
}
func (p c13Log) del(k string) error                         { return p.s.Delete(c13Ctx, k) }
func (p c13Log) list(pr string) ([]string, error)           { return p.s.List(c13Ctx, pr) }
func (p c13Log) page(pr, a string, l int) ([]string, error) { return p.s.ListPage(c13Ctx, pr, a, l) }
func (p c13Log) view() logical.ClearableView                { return p.s }
func (p c13Log) storage() logical.Storage                   { return p.s }
func (p c13Log) canTx() bool {
	_, ok := p.s.(logical.TransactionalStorage)
	return ok
}

func (p c13Log) begin(ro bool) (c13Tx, error) {
	tb := p.s.(logical.TransactionalStorage)
	var tx logical.Transaction
	var err error
	if ro {
		tx, err = tb.BeginReadOnlyTx(c13Ctx)
	} else {
		tx, err = tb.BeginTx(c13Ctx)
	}
	if err != nil {
		return nil, err
	}
	return c13LogTx{c13Log{tx}, tx}, nil
}

type c13LogTx struct {
	c13Log
	tx logical.Transaction
}

func (t c13LogTx) commit() error   { return t.tx.Commit(c13Ctx) }
func (t c13LogTx) rollback() error { return t.tx.Rollback(c13Ctx) }

// ---------------------------------------------------------------- stacks

type c13Stack struct {
	name       string
	base       string // inmem | inmem-txn | file | raft
	layer      string
	top        c13Top
	raw        physical.Backend
	physPrefix string // what the views of this stack prepend to a key
	encrypted  bool
	hasView    bool
	cache      physical.ToggleablePurgemonster // the read cache of this stack, if it has one
	outside    map[string][]byte               // physical content right after set-up
	dump       func() (map[string][]byte, error)
}

// cache sizes: "cache" default (a transaction gets a private cache of 131072/64 =
// 2048 entries), "cache3" 3 (the shared cache evicts; 3/64 = 0 gives a
// transaction the default 131072), "cache256" 256 (a transaction gets 4 entries)
var c13Layers = []string{"bare", "cache", "cache3", "cache256", "encoding", "pview", "logical", "sview", "subview", "bview", "full", "fullsub"}

// c13OutsideKeys: keys placed next to a view prefix, directly on the base.
func c13OutsideKeys(prefix string) []string {
	p0 := strings.TrimSuffix(prefix, "/")
	out := []string{p0, p0 + "0", p0 + "-", p0 + "-/k", p0 + ".", p0 + "x/k", "q/k", "zzz"}
	if i := strings.LastIndexByte(p0, '/'); i >= 0 {
		out = append(out, p0[:i], p0[:i+1]+"k", p0[:i+1]+"~/k")
	}
	return out
}

// c13Build places the named layering over raw (which must be empty).
func c13Build(base, layer string, raw physical.Backend, dump func() (map[string][]byte, error)) (*c13Stack, error) {
	st := &c13Stack{name: base + "/" + layer, base: base, layer: layer, raw: raw, dump: dump}
	logger := hclog.NewNullLogger()
	sink := &metrics.BlackholeSink{}
	putOutside := func(prefix string) error {
		for i, k := range c13OutsideKeys(prefix) {
			if err := raw.Put(c13Ctx, &physical.Entry{Key: k, Value: []byte(fmt.Sprintf("outside-%d", i))}); err != nil {
				return fmt.Errorf("outside key %q: %w", k, err)
			}
		}
		return nil
	}
	newBarrier := func(under physical.Backend) (barrier.SecurityBarrier, error) {
		b := barrier.NewAESGCMBarrier(under, nil)
		key, err := b.GenerateKey()
		if err != nil {
			return nil, err
		}
		if err := b.Initialize(c13Ctx, key, nil); err != nil {
			return nil, err
		}
		if err := b.Unseal(c13Ctx, key); err != nil {
			return nil, err
		}
		return b, nil
	}
	switch layer {
	case "bare":
		st.top = c13Phys{raw}
	case "cache", "cache3", "cache256":
		size := 0
		if layer == "cache3" {
			size = 3
		}
		if layer == "cache256" {
			size = 256
		}
		c := physical.NewCache(raw, size, logger, sink)
		c.SetEnabled(true)
		st.top, st.cache = c13Phys{c}, c
	case "encoding":
		st.top = c13Phys{physical.NewStorageEncoding(raw)}
	case "pview":
		st.physPrefix, st.hasView = "pv/x/", true
		if err := putOutside(st.physPrefix); err != nil {
			return nil, err
		}
		st.top = c13Phys{physical.NewView(raw, st.physPrefix)}
	case "logical":
		st.top = c13Log{logical.NewLogicalStorage(raw)}
	case "sview":
		st.physPrefix, st.hasView = "sv/y/", true
		if err := putOutside(st.physPrefix); err != nil {
			return nil, err
		}
		st.top = c13Log{logical.NewStorageView(logical.NewLogicalStorage(raw), st.physPrefix)}
	case "subview":
		st.physPrefix, st.hasView = "sv/y/é-1/", true
		if err := putOutside(st.physPrefix); err != nil {
			return nil, err
		}
		if err := putOutside("sv/y/"); err != nil {
			return nil, err
		}
		st.top = c13Log{logical.NewStorageView(logical.NewLogicalStorage(raw), "sv/y/").SubView("é-1/")}
	case "bview":
		st.physPrefix, st.hasView, st.encrypted = "bv/", true, true
		if err := putOutside(st.physPrefix); err != nil {
			return nil, err
		}
		b, err := newBarrier(raw)
		if err != nil {
			return nil, err
		}
		st.top = c13Log{barrier.NewView(b, st.physPrefix)}
	case "full", "fullsub", "fullsmall":
		// the order used by the core: barrier over encoding over cache over the backend
		st.physPrefix, st.hasView, st.encrypted = "logical/3f9c/", true, true
		if err := putOutside(st.physPrefix); err != nil {
			return nil, err
		}
		size := 0
		if layer == "fullsmall" {
			size = 256
		}
		c := physical.NewCache(raw, size, logger, sink)
		c.SetEnabled(true)
		st.cache = c
		b, err := newBarrier(physical.NewStorageEncoding(c))
		if err != nil {
			return nil, err
		}
		v := barrier.NewView(b, st.physPrefix)
		if layer == "fullsub" {
			if err := putOutside("logical/3f9c/sub/"); err != nil {
				return nil, err
			}
			v = v.SubView("sub/")
			st.physPrefix += "sub/"
		}
		st.top = c13Log{v}
	default:
		return nil, fmt.Errorf("unknown layer %q", layer)
	}
	out, err := dump()
	if err != nil {
		return nil, fmt.Errorf("dump after set-up: %w", err)
	}
	st.outside = out
	return st, nil
}

// c13WalkDump reads a whole backend through List/Get (used where the harness
// has no independent access to the stored bytes).
func c13WalkDump(b physical.Backend) func() (map[string][]byte, error) {
	return func() (map[string][]byte, error) {
		out := map[string][]byte{}
		var walk func(prefix string, depth int) error
		walk = func(prefix string, depth int) error {
			if depth > 40 {
				return fmt.Errorf("walk too deep at %q", prefix)
			}
			es, err := b.List(c13Ctx, prefix)
			if err != nil {
				return err
			}
			for _, e := range es {
				if strings.HasSuffix(e, "/") {
					if err := walk(prefix+e, depth+1); err != nil {
						return err
					}
					continue
				}
				ent, err := b.Get(c13Ctx, prefix+e)
				if err != nil {
					return err
				}
				if ent == nil {
					return fmt.Errorf("listed key %q is not gettable", prefix+e)
				}
				out[prefix+e] = ent.Value
			}
			return nil
		}
		return out, walk("", 0)
	}
}

// ---- bases

type c13BaseEnv struct {
	name  string
	fresh func() (physical.Backend, func() (map[string][]byte, error), error)
}

func c13InmemBase(txn bool) *c13BaseEnv {
	name := "inmem"
	conf := map[string]string{"disable_transactions": "true"}
	if txn {
		name, conf = "inmem-txn", nil
	}
	return &c13BaseEnv{name: name, fresh: func() (physical.Backend, func() (map[string][]byte, error), error) {
		b, err := inmem.NewInmem(conf, hclog.NewNullLogger())
		if err != nil {
			return nil, nil, err
		}
		return b, c13WalkDump(b), nil
	}}
}

func c13TempRoot(t testing.TB, tag string) string {
	parent := ""
	if fi, err := os.Stat("/dev/shm"); err == nil && fi.IsDir() {
		parent = "/dev/shm"
	}
	d, err := os.MkdirTemp(parent, "verif-c13-"+tag+"-")
	if err != nil {
		t.Fatalf("tempdir: %v", err)
	}
	t.Cleanup(func() { os.RemoveAll(d) })
	return d
}

func c13FileBase(t testing.TB) *c13BaseEnv {
	root := c13TempRoot(t, "file")
	n := 0
	return &c13BaseEnv{name: "file", fresh: func() (physical.Backend, func() (map[string][]byte, error), error) {
		// the data directory sits two levels below the private root so that keys
		// escaping upwards stay inside it; the previous run's tree is removed
		if n > 0 {
			os.RemoveAll(fmt.Sprintf("%s/r%d", root, n))
		}
		n++
		dir := fmt.Sprintf("%s/r%d/guard/data", root, n)
		if err := os.MkdirAll(dir, 0o700); err != nil {
			return nil, nil, err
		}
		b, err := file.NewFileBackend(map[string]string{"path": dir}, hclog.NewNullLogger())
		if err != nil {
			return nil, nil, err
		}
		return b, c13WalkDump(b), nil
	}}
}

// c13RaftBase: one bootstrapped single-node RaftBackend per process; fresh()
// empties it (keys are read straight from the FSM's bolt bucket, deletes go
// through raft).
func c13RaftBase(t testing.TB) *c13BaseEnv {
	dir := c13TempRoot(t, "raft")
	id, err := uuid.GenerateUUID()
	if err != nil {
		t.Fatal(err)
	}
	braw, err := NewRaftBackend(map[string]string{"path": dir, "trailing_logs": "100", "node_id": id, "doNotStoreLatestState": ""}, hclog.NewNullLogger())
	if err != nil {
		t.Fatal(err)
	}
	b := braw.(*RaftBackend)
	if err := b.Bootstrap([]Peer{{ID: b.NodeID(), Address: b.NodeID()}}); err != nil {
		t.Fatal(err)
	}
	if err := b.SetupCluster(c13Ctx, SetupOpts{}); err != nil {
		t.Fatal(err)
	}
	for b.raft.AppliedIndex() < 2 {
	}
	b.DisableAutopilot()
	t.Cleanup(func() {
		_ = b.TeardownCluster(nil)
	})
	dump := func() (map[string][]byte, error) {
		out := map[string][]byte{}
		err := b.fsm.getDB().View(func(tx *bolt.Tx) error {
			return tx.Bucket(dataBucketName).ForEach(func(k, v []byte) error {
				out[string(k)] = append([]byte{}, v...)
				return nil
			})
		})
		return out, err
	}
	return &c13BaseEnv{name: "raft", fresh: func() (physical.Backend, func() (map[string][]byte, error), error) {
		cur, err := dump()
		if err != nil {
			return nil, nil, err
		}
		for k := range cur {
			if err := b.Delete(c13Ctx, k); err != nil {
				return nil, nil, fmt.Errorf("wipe %q: %w", k, err)
			}
		}
		return b, dump, nil
	}}
}
