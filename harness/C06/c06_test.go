//go:build verif

package vault

// C06: no dynamic secret or token is handed out without a durable lease.
//
// Oracle (written from the property text, not from expiration.go): a
// conservation law per request. Every secret the recording backend issued is,
// once the request has returned, in exactly one of two states:
//
//	rolled back : revoked at the backend, no lease record, no token-index entry
//	leased      : not revoked, exactly one lease record, its token-index entry
//	              (unless the requester is an orphan batch token), tracked by the
//	              expiration manager
//
// and a secret the client holds must be in the second state. Every token entry
// the request left in storage either has a durable lease record or is not
// usable; a service token the client holds must have its lease record. The
// durable state is read from storage (lease view, token-index view, token
// views of every namespace), the backend state from verifrec's event log, the
// client's view from the response (wrapped responses are unwrapped the way a
// client would).

import (
	"context"
	"encoding/json"
	"errors"
	"fmt"
	"os"
	"sort"
	"strings"
	"sync"
	"sync/atomic"
	"testing"
	"time"

	"github.com/openbao/openbao/sdk/v2/helper/consts"
	kit "github.com/openbao/openbao/sdk/v2/helper/verifkit"
	"github.com/openbao/openbao/sdk/v2/logical"
	"github.com/openbao/openbao/sdk/v2/physical"
	"github.com/openbao/openbao/sdk/v2/physical/inmem"
	"github.com/openbao/openbao/v2/internal/helper/namespace"
)

const c06Policy = `
path "*" { capabilities = ["create","read","update","delete","list","sudo"] }
`

const c06Tag = "c06"

// ------------------------------------------------------------------ durable state

type c06LeaseRec struct {
	Key         string         `json:"-"`
	NS          string         `json:"-"`
	LeaseID     string         `json:"lease_id"`
	ClientToken string         `json:"client_token"`
	Path        string         `json:"path"`
	Data        map[string]any `json:"data"`
	Secret      *struct {
		InternalData map[string]any `json:"internal_data"`
	} `json:"secret"`
	Auth *struct {
		Accessor string `json:"accessor"`
	} `json:"auth"`
	ExpireTime time.Time `json:"expire_time"`
}

func (l *c06LeaseRec) secretID() string {
	if l.Secret != nil {
		if s, ok := l.Secret.InternalData["secret_id"].(string); ok && s != "" {
			return s
		}
	}
	if s, ok := l.Data["secret_id"].(string); ok {
		return s
	}
	return ""
}

type c06State struct {
	Leases map[string]*c06LeaseRec        // full storage key -> record
	Index  map[string]string              // full storage key -> lease id it points to
	Tokens map[string]*logical.TokenEntry // full storage key -> entry
	Aux    map[string]bool                // accessor / parent index keys
}

func c06Walk(ctx context.Context, s logical.Storage, prefix string, fn func(key string) error) error {
	names, err := s.List(ctx, prefix)
	if err != nil {
		return err
	}
	for _, n := range names {
		if strings.HasSuffix(n, "/") {
			if err := c06Walk(ctx, s, prefix+n, fn); err != nil {
				return err
			}
			continue
		}
		if err := fn(prefix + n); err != nil {
			return err
		}
	}
	return nil
}

func c06Namespaces(v *vCore) []*namespace.Namespace {
	out := []*namespace.Namespace{namespace.RootNamespace}
	ctx := namespace.RootContext(context.Background())
	for _, p := range []string{"ns1/", "ns1/ns2/"} {
		if ns, err := v.Core.namespaceStore.GetNamespaceByPath(ctx, p); err == nil && ns != nil && ns.ID != namespace.RootNamespaceID && ns.Path == p {
			out = append(out, ns)
		}
	}
	return out
}

// c06Scan reads the lease records, the token-index entries and the token
// store entries of every namespace from storage. Prefixes come from the
// running core's views.
func c06Scan(v *vCore) (*c06State, error) {
	st := &c06State{Leases: map[string]*c06LeaseRec{}, Index: map[string]string{}, Tokens: map[string]*logical.TokenEntry{}, Aux: map[string]bool{}}
	ctx := context.Background()
	for _, ns := range c06Namespaces(v) {
		lv := v.Core.expiration.leaseView(ns)
		if err := c06Walk(ctx, lv, "", func(k string) error {
			e, err := lv.Get(ctx, k)
			if err != nil || e == nil {
				return err
			}
			rec := &c06LeaseRec{}
			if err := json.Unmarshal(e.Value, rec); err != nil {
				return fmt.Errorf("lease record %s does not decode: %w", k, err)
			}
			rec.Key, rec.NS = lv.Prefix()+k, ns.Path
			st.Leases[rec.Key] = rec
			return nil
		}); err != nil {
			return nil, err
		}
		iv := v.Core.expiration.tokenIndexView(ns)
		if err := c06Walk(ctx, iv, "", func(k string) error {
			e, err := iv.Get(ctx, k)
			if err != nil || e == nil {
				return err
			}
			st.Index[iv.Prefix()+k] = string(e.Value)
			return nil
		}); err != nil {
			return nil, err
		}
		tv := v.Core.tokenStore.idView(ns)
		if err := c06Walk(ctx, tv, "", func(k string) error {
			e, err := tv.Get(ctx, k)
			if err != nil || e == nil {
				return err
			}
			te := &logical.TokenEntry{}
			if err := json.Unmarshal(e.Value, te); err != nil {
				return fmt.Errorf("token entry %s does not decode: %w", k, err)
			}
			st.Tokens[tv.Prefix()+k] = te
			return nil
		}); err != nil {
			return nil, err
		}
		for _, av := range []logical.Storage{v.Core.tokenStore.accessorView(ns), v.Core.tokenStore.parentView(ns)} {
			pfx := av.(interface{ Prefix() string }).Prefix()
			if err := c06Walk(ctx, av, "", func(k string) error {
				st.Aux[pfx+k] = true
				return nil
			}); err != nil {
				return nil, err
			}
		}
	}
	return st, nil
}

func (s *c06State) leasesForSecret(id string) []*c06LeaseRec {
	var out []*c06LeaseRec
	for _, l := range s.Leases {
		if l.Auth == nil && l.secretID() == id {
			out = append(out, l)
		}
	}
	return out
}

func (s *c06State) leaseByID(id string) *c06LeaseRec {
	for _, l := range s.Leases {
		if l.LeaseID == id {
			return l
		}
	}
	return nil
}

func (s *c06State) leaseForToken(internalID string) *c06LeaseRec {
	for _, l := range s.Leases {
		if l.Auth != nil && l.ClientToken == internalID {
			return l
		}
	}
	return nil
}

func (s *c06State) indexFor(leaseID string) []string {
	var out []string
	for k, val := range s.Index {
		if val == leaseID {
			out = append(out, k)
		}
	}
	sort.Strings(out)
	return out
}

func (s *c06State) tokenByAccessor(acc string) *logical.TokenEntry {
	if acc == "" {
		return nil
	}
	for _, te := range s.Tokens {
		if te.Accessor == acc {
			return te
		}
	}
	return nil
}

// newKeys lists the storage keys present in s and absent in base, by class.
func (s *c06State) newKeys(base *c06State) (leases, index, tokens, aux []string) {
	for k := range s.Leases {
		if _, ok := base.Leases[k]; !ok {
			leases = append(leases, k)
		}
	}
	for k := range s.Index {
		if _, ok := base.Index[k]; !ok {
			index = append(index, k)
		}
	}
	for k := range s.Tokens {
		if _, ok := base.Tokens[k]; !ok {
			tokens = append(tokens, k)
		}
	}
	for k := range s.Aux {
		if !base.Aux[k] {
			aux = append(aux, k)
		}
	}
	sort.Strings(leases)
	sort.Strings(index)
	sort.Strings(tokens)
	sort.Strings(aux)
	return
}

// c06Settle returns a storage scan taken while nothing was moving: no backend
// event arrived during the scan, no stored lease is queued for immediate
// revocation (expiry not in the future: such a lease is being revoked by the
// expiration workers) and - for a bounded time only - no token entry is marked
// revocation-pending. Not settling within the bound is inconclusive, never a
// verdict.
var c06Stuck = map[*vCore]map[string]bool{}

var c06SettleSoft, c06SettleHard int

func c06Settle(v *vCore) (*c06State, int, string) {
	// Every reason to wait has its own bound. A reason that outlives its bound is remembered per
	// core (c06Stuck) and never waited for again, so one state that does not settle costs one
	// bounded wait, not one per later case.
	const (
		boundMoving  = 200 // backend events arriving during the scan
		boundQueued  = 200 // a stored lease whose expiry is not in the future (being revoked by the workers)
		boundInFlite = 40  // an index entry without record whose lease id is still tracked (revocation between its two deletes)
		boundPending = 30  // a token entry marked revocation-pending
	)
	if c06Stuck[v] == nil {
		c06Stuck[v] = map[string]bool{}
	}
	stuck := c06Stuck[v]
	waited := map[string]int{}
	gaveUpQueued := ""
	for i := 0; i < 1000; i++ {
		n1 := v.Rec.Len()
		s, err := c06Scan(v)
		if err != nil {
			return nil, 0, "storage scan failed: " + err.Error()
		}
		active := map[string]int{} // reason -> bound
		if v.Rec.Len() != n1 && !stuck["moving"] {
			active["moving"] = boundMoving
		}
		now := time.Now()
		have := map[string]bool{}
		for k, l := range s.Leases {
			have[l.LeaseID] = true
			if !l.ExpireTime.IsZero() && !l.ExpireTime.After(now) && !stuck["queued:"+k] {
				active["queued:"+k] = boundQueued
			}
		}
		for k, lid := range s.Index {
			if !have[lid] && c06Tracked(v, lid) && !stuck["inflight:"+k] {
				active["inflight:"+k] = boundInFlite
			}
		}
		for k, te := range s.Tokens {
			if te.NumUses < 0 && !stuck["pending:"+k] && !stuck[k] {
				active["pending:"+k] = boundPending
			}
		}
		if len(active) == 0 {
			if gaveUpQueued != "" {
				return nil, 0, "a lease stayed queued for revocation beyond the wait bound: " + gaveUpQueued
			}
			return s, n1, ""
		}
		hard := false
		for reason, bound := range active {
			waited[reason]++
			if !strings.HasPrefix(reason, "pending:") {
				hard = true
			}
			if waited[reason] > bound {
				stuck[reason] = true
				if strings.HasPrefix(reason, "queued:") {
					gaveUpQueued = c06KeyClass(strings.TrimPrefix(reason, "queued:"))
				}
			}
		}
		if hard {
			c06SettleHard++
		} else {
			c06SettleSoft++
		}
		time.Sleep(25 * time.Millisecond)
	}
	return nil, 0, "storage did not settle within the wait bound"
}

func c06Tracked(v *vCore, leaseID string) bool {
	m := v.Core.expiration
	if _, ok := m.pending.Load(leaseID); ok {
		return true
	}
	if _, ok := m.nonexpiring.Load(leaseID); ok {
		return true
	}
	if _, ok := m.irrevocable.Load(leaseID); ok {
		return true
	}
	return false
}

func c06KeyClass(k string) string {
	parts := strings.Split(k, "/")
	var out []string
	for _, p := range parts {
		if len(p) > 20 || strings.Count(p, "-") >= 4 {
			p = "*"
		}
		out = append(out, p)
	}
	if len(out) > 6 {
		out = out[:6]
	}
	return strings.Join(out, "/")
}

func c06NonexpiringRoot(te *logical.TokenEntry) bool {
	return te.TTL == 0 && len(te.Policies) == 1 && te.Policies[0] == "root"
}

// ------------------------------------------------------------------ variants

type c06Variant struct {
	Name    string
	Kind    string // secret | login | create
	NS      string // namespace the request is addressed to
	TokNS   string // namespace of the requesting token ("same" = NS)
	Caller  string // service | limited | lastuse | batch-child | batch-orphan | root | none
	Wrap    bool
	Update  bool   // secret: update instead of read (passes ttl / max_ttl)
	DotDot  bool   // request path contains ".." (lease registration of the token is refused)
	TokType string // login/create: service | batch
	Alias   bool   // login: carries an alias (entity is created)
	Create  string // create: child | orphan | root-nonexpiring | batch | role | ghost-policy | periodic | uses
	Refused bool   // the fault-free request is expected to end in an error
	Cancel  bool   // with CtxDead: the request's context is really cancelled at the fault (every later operation bound to it fails too)
	CtxDead bool   // secret: mount whose revocation is a context-bound call; the request's context ends at the fault
	Quick   bool   // part of the quick tier
	// LightQuick: in the quick tier only the fault-free runs are made (the variant differs from a fully
	// enumerated one in configuration, not in its write sequence); thorough enumerates it like the others
	LightQuick bool
}

// c06Roles are the token roles of every namespace: each changes what handleCreateCommon puts into the token
// entry (and therefore where the token's lease is filed or how it is registered).
var c06Roles = map[string]map[string]any{
	"suffix":  {"path_suffix": "sfx"},
	"period":  {"token_period": "30m"},
	"orphan":  {"orphan": true},
	"norenew": {"renewable": false},
	"batch":   {"token_type": "batch", "orphan": true, "renewable": false},
	"all":     {"path_suffix": "a-b_c", "orphan": true, "token_period": "20m", "token_type": "service", "renewable": true},
}

var c06RoleNames = []string{"suffix", "period", "orphan", "norenew", "batch", "all"}

func c06Variants() []c06Variant {
	var out []c06Variant
	add := func(v c06Variant) {
		if v.TokNS == "" {
			v.TokNS = v.NS
		}
		if v.TokNS == "root" {
			v.TokNS = ""
		}
		out = append(out, v)
	}
	// leased secrets
	for _, caller := range []string{"service", "batch-child", "batch-orphan", "limited", "lastuse"} {
		for _, ns := range []string{"", "ns1/", "cross", "ns1/ns2/", "cross12", "cross02"} {
			for _, wrap := range []bool{false, true} {
				for _, upd := range []bool{false, true} {
					v := c06Variant{Kind: "secret", Caller: caller, NS: ns, Wrap: wrap, Update: upd}
					if strings.HasPrefix(ns, "cross") {
						// the token lives in an ancestor namespace of the mount that leases the secret
						if caller != "service" && caller != "batch-child" {
							continue
						}
						switch ns {
						case "cross":
							v.NS, v.TokNS = "ns1/", "root"
						case "cross12":
							v.NS, v.TokNS = "ns1/ns2/", "ns1/"
						case "cross02":
							v.NS, v.TokNS = "ns1/ns2/", "root"
						}
					}
					if (ns == "ns1/ns2/" || ns == "cross12" || ns == "cross02") && (upd || (caller != "service" && caller != "batch-child")) {
						continue
					}
					v.Refused = caller == "lastuse"
					v.Name = fmt.Sprintf("secret/%s/ns=%s/wrap=%v/upd=%v", caller, ns, wrap, upd)
					// quick subset: every caller / namespace / wrap combination as a read, plus updates by a service token
					switch caller {
					case "service":
						v.Quick = (!upd || !wrap) && ns != "ns1/ns2/" && (ns != "cross02" || !wrap) && (ns != "cross12" || wrap)
					case "batch-child":
						v.Quick = !upd && (ns == "" || (ns == "ns1/" && wrap) || (ns == "cross" && !wrap))
					case "batch-orphan":
						v.Quick = !upd && ns == ""
					case "limited":
						v.Quick = !upd && ns == "" && !wrap
					case "lastuse":
						v.Quick = !upd && ((ns == "" && !wrap) || (ns == "ns1/" && wrap))
					}
					add(v)
				}
			}
		}
	}
	// the storage fault is the request's own context ending (client gone / deadline), on a mount whose
	// revocation is a context-bound call
	for _, caller := range []string{"service", "batch-child"} {
		for _, ns := range []string{"", "ns1/"} {
			for _, wrap := range []bool{false, true} {
				add(c06Variant{Name: fmt.Sprintf("secret/%s/ctxdead/ns=%s/wrap=%v", caller, ns, wrap), Kind: "secret", Caller: caller, NS: ns, Wrap: wrap, CtxDead: true,
					Quick: (caller == "service" && (ns == "") != wrap) || (caller == "batch-child" && ns == "" && !wrap)})
			}
		}
	}
	for _, wrap := range []bool{false, true} {
		add(c06Variant{Name: fmt.Sprintf("secret/service/ctxcancel/ns=/wrap=%v", wrap), Kind: "secret", Caller: "service", Wrap: wrap, CtxDead: true, Cancel: true, Quick: true})
	}
	add(c06Variant{Name: "secret/service/dotdot/wrap", Kind: "secret", Caller: "service", Wrap: true, DotDot: true, Refused: true, Quick: true})
	// logins through the recording auth backend
	for _, tt := range []string{"service", "batch"} {
		for _, ns := range []string{"", "ns1/"} {
			for _, wrap := range []bool{false, true} {
				for _, alias := range []bool{false, true} {
					v := c06Variant{Kind: "login", Caller: "none", TokType: tt, NS: ns, Wrap: wrap, Alias: alias}
					v.Name = fmt.Sprintf("login/%s/ns=%s/wrap=%v/alias=%v", tt, ns, wrap, alias)
					v.Quick = tt == "service" || ns == "" || (!wrap && !alias)
					add(v)
				}
			}
		}
	}
	for _, wrap := range []bool{false, true} {
		add(c06Variant{Name: fmt.Sprintf("login/service/ns=ns1/ns2//wrap=%v/alias=true", wrap), Kind: "login", Caller: "none", TokType: "service", NS: "ns1/ns2/", Wrap: wrap, Alias: true})
		add(c06Variant{Name: fmt.Sprintf("create/child/ns=ns1/ns2//wrap=%v", wrap), Kind: "create", Create: "child", Caller: "service", TokType: "service", NS: "ns1/ns2/", Wrap: wrap})
	}
	add(c06Variant{Name: "login/service/dotdot", Kind: "login", Caller: "none", TokType: "service", DotDot: true, Refused: true, Quick: true})
	add(c06Variant{Name: "login/service/dotdot/ns1/alias", Kind: "login", Caller: "none", TokType: "service", NS: "ns1/", Alias: true, DotDot: true, Refused: true, Quick: true})
	// child tokens
	for _, cr := range []string{"child", "orphan", "root-nonexpiring", "root-expiring", "batch", "role", "ghost-policy", "periodic", "uses"} {
		for _, ns := range []string{"", "ns1/"} {
			for _, wrap := range []bool{false, true} {
				v := c06Variant{Kind: "create", Create: cr, NS: ns, Wrap: wrap, Caller: "service", TokType: "service"}
				if cr == "batch" {
					v.TokType = "batch"
				}
				if cr == "root-nonexpiring" || cr == "root-expiring" || cr == "ghost-policy" {
					if ns != "" {
						continue
					}
					v.Caller = "root"
				}
				v.Name = fmt.Sprintf("create/%s/ns=%s/wrap=%v", cr, ns, wrap)
				v.Quick = ns == "" || cr == "child" || (cr == "role" && !wrap) || (cr == "batch" && !wrap) || (cr == "orphan" && wrap)
				add(v)
			}
		}
	}
	// tokens created through token roles whose attributes alter the token entry
	for _, role := range c06RoleNames {
		for _, ns := range []string{"", "ns1/"} {
			for _, wrap := range []bool{false, true} {
				v := c06Variant{Kind: "create", Create: "role:" + role, NS: ns, Wrap: wrap, Caller: "service", TokType: "service"}
				if role == "batch" {
					v.TokType = "batch"
				}
				v.Name = fmt.Sprintf("create/role-%s/ns=%s/wrap=%v", role, ns, wrap)
				v.Quick = role == "suffix" || (ns == "" && !wrap) || (role == "all" && ns == "ns1/" && wrap)
				v.LightQuick = !(role == "suffix" && ns == "" && !wrap)
				add(v)
			}
		}
	}
	return out
}

// ------------------------------------------------------------------ boot / fixtures

// c06CtxMount is the recording backend behind a thin wrapper that treats revoke / renew as a
// context-bound remote call (like a database engine's DROP ROLE through ExecContext): the call
// fails when its context is done, or belongs to a request whose context the harness declared
// ended. The harness identifies a request's context by the in-flight request id value, which
// the core copies into the context it derives for the request.
type c06CtxMount struct {
	mu     sync.Mutex
	v      *vCore
	dead   map[string]bool
	reqCtx context.Context // context of the last request that reached the mount
	// afterIssue runs on the request's goroutine when the mount's handler has issued a secret and before
	// the response goes back to the core (a slow credential generation; see the lifetime-edge monitor)
	afterIssue func(req *logical.Request)
}

var c06CtxMounts = map[*vCore]*c06CtxMount{}

func (h *c06CtxMount) end(reqID string) {
	h.mu.Lock()
	h.dead[reqID] = true
	h.mu.Unlock()
}

type c06CtxBackend struct {
	logical.Backend
	h *c06CtxMount
}

func (b *c06CtxBackend) HandleRequest(ctx context.Context, req *logical.Request) (*logical.Response, error) {
	if req.Operation == logical.RevokeOperation || req.Operation == logical.RenewOperation {
		if err := ctx.Err(); err != nil {
			return nil, err
		}
		if id, ok := ctx.Value(logical.CtxKeyInFlightRequestID{}).(string); ok {
			b.h.mu.Lock()
			dead := b.h.dead[id]
			b.h.mu.Unlock()
			if dead {
				return nil, context.Canceled
			}
		}
	}
	if strings.HasPrefix(req.Path, "lease/") && (req.Operation == logical.ReadOperation || req.Operation == logical.UpdateOperation) {
		b.h.mu.Lock()
		b.h.reqCtx = ctx
		hook := b.h.afterIssue
		b.h.mu.Unlock()
		resp, err := b.Backend.HandleRequest(ctx, req)
		if hook != nil && err == nil && resp != nil && resp.Secret != nil {
			hook(req)
		}
		return resp, err
	}
	return b.Backend.HandleRequest(ctx, req)
}

func (h *c06CtxMount) factory(ctx context.Context, conf *logical.BackendConfig) (logical.Backend, error) {
	inner, err := h.v.Rec.Factory(logical.TypeLogical)(ctx, conf)
	if err != nil {
		return nil, err
	}
	return &c06CtxBackend{Backend: inner, h: h}, nil
}

func c06Boot(t *testing.T, transactional, cache bool) *vCore {
	h := &c06CtxMount{dead: map[string]bool{}}
	// the store: probe -> error-class injector -> in-memory backend
	conf := map[string]string{}
	if !transactional {
		conf["disable_transactions"] = "true"
	}
	in, ierr := inmem.NewInmem(conf, nil)
	if ierr != nil {
		t.Fatalf("verif: inmem: %v", ierr)
	}
	inj := &c06Inj{}
	phys, _ := kit.NewProbe(inj.wrap(in))
	v := vBoot(t, vOpts{Transactional: transactional, Cache: cache, Phys: phys, Logical: map[string]logical.Factory{"c06ctx": h.factory}})
	h.v = v
	c06Injs[v] = inj
	c06CtxMounts[v] = h
	for _, ns := range []string{"", "ns1/", "ns1/ns2/"} {
		switch ns {
		case "ns1/":
			v.MustDo(vReq{Op: logical.UpdateOperation, Path: "sys/namespaces/ns1", Token: v.Root})
		case "ns1/ns2/":
			v.MustDo(vReq{Op: logical.UpdateOperation, Path: "sys/namespaces/ns2", Token: v.Root, NS: "ns1/"})
		}
		v.Policy("c06", c06Policy, ns)
		v.Mount("c06rec", "verifrec", ns, nil)
		v.Mount("c06ctx", "c06ctx", ns, nil)
		v.EnableAuth("c06auth", "verifrec", ns)
		v.MustDo(vReq{Op: logical.UpdateOperation, Path: "auth/token/roles/c06role", Token: v.Root, NS: ns, Data: map[string]any{"allowed_policies": "c06,default", "renewable": true}})
		for _, role := range c06RoleNames {
			data := map[string]any{"allowed_policies": "c06,default"}
			for k, x := range c06Roles[role] {
				data[k] = x
			}
			v.MustDo(vReq{Op: logical.UpdateOperation, Path: "auth/token/roles/c06r-" + role, Token: v.Root, NS: ns, Data: data})
		}
	}
	return v
}

// c06Populate creates a standing population of tokens and leases so that the
// "before" sets of every case are not empty.
func c06Populate(t *testing.T, v *vCore, rng *kit.Rand) {
	for i := 0; i < 2+rng.Intn(3); i++ {
		ns := kit.Pick(rng, []string{"", "", "ns1/", "ns1/ns2/"})
		tok, resp, err := v.CreateToken(v.Root, map[string]any{"policies": []string{"c06"}, "ttl": "2h"}, false, ns)
		if tok == nil {
			t.Fatalf("verif: population token: %s", vErrStr(resp, err))
		}
		for j := 0; j < 1+rng.Intn(2); j++ {
			v.MustDo(vReq{Op: logical.ReadOperation, Path: fmt.Sprintf("c06rec/lease/pop%d-%d", i, j), Token: tok.ID, NS: ns})
		}
	}
	v.MustDo(vReq{Op: logical.UpdateOperation, Path: "auth/c06auth/login/pop", Data: map[string]any{"policies": []string{"c06"}, "ttl": "2h"}})
	v.Rec.Reset()
}

type c06Made struct {
	ID string
	NS string
}

type c06Case struct {
	v  *vCore
	vr c06Variant
	tx bool

	name   string // random path element
	canary string
	ttl    string
	sttl   string

	caller string    // token presented with the request
	owner  string    // token whose revocation must reach a secret leased by this request ("" = none)
	made   []c06Made // tokens created for the case (revoked at the end)

	s0      *c06State
	recMark int
	reqID   string // in-flight request id carried by the request's context
	cancel  context.CancelFunc
	ops     []kit.Event
	bad     int

	faultCls *c06ErrClass // error class of the injected fault (nil = the kit's generic error)
	faulted  kit.Event    // the storage operation that failed
	noWindow bool         // skip the restart with held lease restoration (done by the generic-error run of the same operation)
}

// secretLeaseWritten returns the position in c.ops of the last successful write of the secret's lease bookkeeping
// (lease record or token-index entry) that precedes the faulted operation, -1 if none.
func (c *c06Case) secretLeaseWritten() int {
	at := -1
	for i, e := range c.ops {
		if e.Seq == c.faulted.Seq && e.Err != "" {
			break
		}
		if e.Op == "put" && e.Err == "" && (&c06Case{faulted: e}).leaseWriteFault() {
			at = i
		}
	}
	return at
}

// readFaultAfterLeaseWrite: the injected fault hit a read (get / list) that the request made after it had written
// the secret's lease bookkeeping.
func (c *c06Case) readFaultAfterLeaseWrite() bool {
	switch c.faulted.Op {
	case "get", "list", "listpage":
		return c.secretLeaseWritten() >= 0
	}
	return false
}

// postRegTokenCheckFault: that read is the re-read of the requesting token's own entry (the key the request read
// first when it was authenticated).
func (c *c06Case) postRegTokenCheckFault() bool {
	if c.faulted.Op != "get" || !strings.Contains(c.faulted.Key, "sys/token/id/") || !c.readFaultAfterLeaseWrite() {
		return false
	}
	for _, e := range c.ops {
		if e.Op == "get" && strings.Contains(e.Key, "sys/token/id/") {
			return e.Key == c.faulted.Key && e.Seq != c.faulted.Seq
		}
	}
	return false
}

// leaseWriteFault reports whether the injected fault hit a write of the secret's lease bookkeeping: the put
// of the lease record or of its token-index entry, or the commit of a transaction that wrote one of them.
func (c *c06Case) leaseWriteFault() bool {
	f := c.faulted
	secretLeaseKey := func(k string) bool {
		if i := strings.Index(k, c06LeaseTree); i >= 0 {
			// a token's lease (the wrapping token's is filed under the request path too) ends in the salted token id
			return !c06SaltedTail(k[i+len(c06LeaseTree):])
		}
		return strings.Contains(k, "sys/expire/token/") // token-index entries exist for leases of secrets only
	}
	switch f.Op {
	case "put", "delete":
		return secretLeaseKey(f.Key)
	case "commit":
		for _, e := range c.ops {
			if e.Txn == f.Txn && (e.Op == "put" || e.Op == "delete") && secretLeaseKey(e.Key) {
				return true
			}
		}
	}
	return false
}

func c06NewCase(v *vCore, vr c06Variant, tx bool, rng *kit.Rand) *c06Case {
	c := &c06Case{v: v, vr: vr, tx: tx}
	c.name = "n" + rng.Canary()[4:12]
	c.reqID = "c06-" + rng.Canary()[4:16]
	if vr.DotDot {
		c.name = "a.." + c.name
	}
	c.canary = rng.Canary()
	c.ttl = kit.Pick(rng, []string{"20m", "30m", "45m", "1h"})
	c.sttl = kit.Pick(rng, []string{"10m", "15m", "40m"})
	return c
}

func (c *c06Case) mkService(ns string, extra map[string]any) (*vToken, error) {
	data := map[string]any{"policies": []string{"c06"}, "ttl": "1h"}
	for k, x := range extra {
		data[k] = x
	}
	tok, resp, err := c.v.CreateToken(c.v.Root, data, false, ns)
	if tok == nil {
		return nil, fmt.Errorf("creating the requesting token: %s", vErrStr(resp, err))
	}
	c.made = append(c.made, c06Made{tok.ID, ns})
	return tok, nil
}

// setup creates the token the request will be made with and takes the
// "before" snapshot.
func (c *c06Case) setup() error {
	v, vr := c.v, c.vr
	switch vr.Caller {
	case "none":
	case "root":
		c.caller = v.Root
	case "service", "limited", "lastuse":
		var extra map[string]any
		if vr.Caller == "limited" {
			extra = map[string]any{"num_uses": 3}
		}
		if vr.Caller == "lastuse" {
			extra = map[string]any{"num_uses": 1}
		}
		tok, err := c.mkService(vr.TokNS, extra)
		if err != nil {
			return err
		}
		c.caller, c.owner = tok.ID, tok.ID
	case "batch-child":
		p, err := c.mkService(vr.TokNS, nil)
		if err != nil {
			return err
		}
		resp, err := v.Do(vReq{Op: logical.UpdateOperation, Path: "auth/token/create", Token: p.ID, NS: vr.TokNS, Data: map[string]any{"type": "batch", "policies": []string{"c06"}, "ttl": "50m"}})
		if !vOK(resp, err) || resp == nil || resp.Auth == nil {
			return fmt.Errorf("creating the batch child token: %s", vErrStr(resp, err))
		}
		c.caller, c.owner = resp.Auth.ClientToken, p.ID
	case "batch-orphan":
		resp, err := v.Do(vReq{Op: logical.UpdateOperation, Path: "auth/c06auth/login/setup", NS: vr.TokNS, Data: map[string]any{"policies": []string{"c06"}, "ttl": "50m", "token_type": "batch"}})
		if !vOK(resp, err) || resp == nil || resp.Auth == nil {
			return fmt.Errorf("batch login: %s", vErrStr(resp, err))
		}
		c.caller = resp.Auth.ClientToken
	default:
		return fmt.Errorf("unknown caller %q", vr.Caller)
	}
	s0, err := c06Scan(v)
	if err != nil {
		return err
	}
	c.s0 = s0
	c.recMark = v.Rec.Len()
	return nil
}

// request issues the request under test.
func (c *c06Case) request(tag string) (*logical.Response, error) {
	vr := c.vr
	rq := vReq{Tag: tag, NS: vr.NS, Token: c.caller}
	if vr.Wrap {
		rq.WrapTTL = 5 * time.Minute
	}
	switch vr.Kind {
	case "secret":
		rq.Path = "c06rec/lease/" + c.name
		if vr.CtxDead {
			rq.Path = "c06ctx/lease/" + c.name
		}
		rq.Op = logical.ReadOperation
		if vr.Update {
			rq.Op = logical.UpdateOperation
			rq.Data = map[string]any{"ttl": c.sttl, "max_ttl": "50m", "canary": c.canary}
		}
	case "login":
		rq.Token = ""
		rq.Op = logical.UpdateOperation
		rq.Path = "auth/c06auth/login/" + c.name
		rq.Data = map[string]any{"policies": []string{"c06"}, "ttl": c.ttl, "token_type": vr.TokType, "canary": c.canary}
		if vr.Alias {
			rq.Data["alias"] = "al-" + c.name
		}
	case "create":
		rq.Op = logical.UpdateOperation
		rq.Path = "auth/token/create"
		rq.Data = map[string]any{"policies": []string{"c06"}, "ttl": c.ttl}
		if strings.HasPrefix(vr.Create, "role:") {
			rq.Path = "auth/token/create/c06r-" + strings.TrimPrefix(vr.Create, "role:")
		}
		switch vr.Create {
		case "child":
		case "orphan":
			rq.Path = "auth/token/create-orphan"
		case "root-nonexpiring":
			rq.Data = map[string]any{"policies": []string{"root"}}
		case "batch":
			rq.Data["type"] = "batch"
		case "role":
			rq.Path = "auth/token/create/c06role"
		case "ghost-policy":
			rq.Data["policies"] = []string{"c06", "ghost-" + c.name}
		case "root-expiring":
			rq.Data = map[string]any{"policies": []string{"root"}, "ttl": c.ttl}
		case "periodic":
			rq.Data = map[string]any{"policies": []string{"c06"}, "period": c.ttl}
		case "uses":
			rq.Data["num_uses"] = 4
			rq.Data["explicit_max_ttl"] = "90m"
		}
	}
	if c.vr.Cancel {
		ctx, cancel := context.WithCancel(context.Background())
		c.cancel = cancel
		defer cancel()
		return c06DoCtx(ctx, c.v, rq, c.reqID)
	}
	return c06Do(c.v, rq, c.reqID)
}

// c06Do is vCore.Do with an in-flight request id in the request's context (the http layer does
// the same); the core copies it into the context it derives for the request.
func c06Do(v *vCore, r vReq, reqID string) (*logical.Response, error) {
	return c06DoCtx(context.Background(), v, r, reqID)
}

func c06DoCtx(base context.Context, v *vCore, r vReq, reqID string) (*logical.Response, error) {
	ctx := namespace.RootContext(base)
	if r.NS != "" {
		ctx = namespace.ContextWithNamespaceHeader(base, r.NS)
	}
	if reqID != "" {
		ctx = context.WithValue(ctx, logical.CtxKeyInFlightRequestID{}, reqID)
	}
	req := &logical.Request{Operation: r.Op, Path: r.Path, ClientToken: r.Token, Data: r.Data, Connection: &logical.Connection{RemoteAddr: "127.0.0.1"}}
	if r.WrapTTL > 0 {
		req.WrapInfo = &logical.RequestWrapInfo{TTL: r.WrapTTL}
	}
	if r.Tag != "" && v.Probe != nil {
		v.Probe.Tag(r.Tag)
		defer v.Probe.Untag()
	}
	return v.Core.HandleRequest(ctx, req)
}

// ------------------------------------------------------------------ what the client holds

type c06Payload struct {
	How       string // error | empty | secret | token | wrapped
	SecretID  string
	LeaseID   string
	Token     string
	Accessor  string
	Batch     bool
	WrapToken string
	WrapAcc   string
}

func c06Delivered(resp *logical.Response, err error) c06Payload {
	if !vOK(resp, err) {
		return c06Payload{How: "error"}
	}
	if resp == nil {
		return c06Payload{How: "empty"}
	}
	if resp.WrapInfo != nil && resp.WrapInfo.Token != "" {
		return c06Payload{How: "wrapped", WrapToken: resp.WrapInfo.Token, WrapAcc: resp.WrapInfo.Accessor}
	}
	if resp.Auth != nil && resp.Auth.ClientToken != "" {
		return c06Payload{How: "token", Token: resp.Auth.ClientToken, Accessor: resp.Auth.Accessor, Batch: IsBatchToken(resp.Auth.ClientToken)}
	}
	if s, ok := resp.Data["secret_id"].(string); ok && s != "" {
		p := c06Payload{How: "secret", SecretID: s}
		if resp.Secret != nil {
			p.LeaseID = resp.Secret.LeaseID
		}
		return p
	}
	return c06Payload{How: "empty"}
}

// c06Unwrap does what the holder of a wrapping token does.
func c06Unwrap(v *vCore, tok, ns string) (*logical.HTTPResponse, error) {
	resp, err := v.Do(vReq{Op: logical.UpdateOperation, Path: "sys/wrapping/unwrap", Token: tok, NS: ns})
	if !vOK(resp, err) || resp == nil {
		return nil, fmt.Errorf("%s", vErrStr(resp, err))
	}
	var raw []byte
	switch b := resp.Data[logical.HTTPRawBody].(type) {
	case []byte:
		raw = b
	case string:
		raw = []byte(b)
	default:
		return nil, fmt.Errorf("unwrap returned no body (%v)", resp.Data)
	}
	hr := &logical.HTTPResponse{}
	if err := json.Unmarshal(raw, hr); err != nil {
		return nil, fmt.Errorf("unwrap body does not decode: %w", err)
	}
	return hr, nil
}

func c06FromUnwrapped(hr *logical.HTTPResponse) c06Payload {
	if hr.Auth != nil && hr.Auth.ClientToken != "" {
		return c06Payload{How: "token", Token: hr.Auth.ClientToken, Accessor: hr.Auth.Accessor, Batch: IsBatchToken(hr.Auth.ClientToken)}
	}
	if s, ok := hr.Data["secret_id"].(string); ok && s != "" {
		return c06Payload{How: "secret", SecretID: s, LeaseID: hr.LeaseID}
	}
	return c06Payload{How: "empty"}
}

func c06RecIDs(evs []vRecEvent, kind string) []string {
	var out []string
	for _, e := range evs {
		if e.Kind == kind && e.ID != "" {
			out = append(out, e.ID)
		}
	}
	return out
}

func c06Has(xs []string, x string) bool {
	for _, y := range xs {
		if y == x {
			return true
		}
	}
	return false
}

// ------------------------------------------------------------------ the oracle (live core)

type c06Verdict struct {
	Delivered   string // what the client ended up holding: error | empty | secret | token
	HadEffect   bool   // a secret was issued or a token entry was written by the request
	RolledBack  bool   // every issued secret revoked, no token entry left
	OrphanLease bool   // client got an error but something it never received remains, with a lease
	Residue     int    // unusable storage residue (not a verdict)
}

// c06Judge evaluates one finished request against the conservation oracle,
// then revokes what the case created (checking on the way that revoking the
// owning token reaches the secret's lease).
func c06Judge(r *kit.Result, c *c06Case, caseID string, resp *logical.Response, err error, fault string) c06Verdict {
	v, vr := c.v, c.vr
	var vd c06Verdict
	// Decided from storage at the moment the response is in the client's hands, before any wait:
	// what the client holds must have its lease record in the store (tracking it in memory only
	// is not a durable lease).
	type c06Early struct{ class, what string }
	var early []c06Early
	if p0 := c06Delivered(resp, err); p0.How == "secret" || (p0.How == "token" && !p0.Batch) {
		if sn, e0 := c06Scan(v); e0 == nil {
			switch p0.How {
			case "secret":
				if l := sn.leaseByID(p0.LeaseID); l == nil || l.Auth != nil || l.secretID() != p0.SecretID {
					early = append(early, c06Early{"C06-delivered-secret-lease-not-durable", fmt.Sprintf("the client received secret %s with lease id %q and the store holds no lease record for it when the response is returned (tracked in memory: %v)", p0.SecretID, p0.LeaseID, c06Tracked(v, p0.LeaseID))})
				}
			case "token":
				if te := sn.tokenByAccessor(p0.Accessor); te == nil || sn.leaseForToken(te.ID) == nil {
					early = append(early, c06Early{"C06-delivered-token-lease-not-durable", "the client received a service token and the store holds no lease record for it when the response is returned"})
				} else if what := c06LeaseAtItsID(v, sn, te); what != "" {
					early = append(early, c06Early{c06ClassLeaseID, "the client received a service token; " + what})
				} else {
					r.Count("delivered_token_lease_found_at_its_lease_id", 1)
				}
			}
			r.Count("delivery_durability_checked_before_wait", 1)
		}
	}
	// Revocations that the request queued (final-use token) finish asynchronously; judge a
	// snapshot in which nothing is moving. Not settling is inconclusive for this case only.
	s1, nev, why := c06Settle(v)
	if s1 == nil {
		for _, e := range early {
			c.bad++
			r.Violate(e.class, caseID, fmt.Sprintf("[%s] %s, fault: %s, response: %s: %s", caseID, vr.Name, fault, vErrStr(resp, err), e.what), map[string]any{"variant": vr.Name, "transactional": c.tx, "fault": fault, "request_ops": c06OpsStr(c.ops)})
		}
		r.Inconc("%s: %s", caseID, why)
		return vd
	}
	evs := v.Rec.Since(c.recMark)
	if nev-c.recMark < len(evs) {
		evs = evs[:nev-c.recMark] // exactly the events that precede the snapshot
	}
	issued := c06RecIDs(evs, "issued")
	revoked := c06RecIDs(evs, "revoked")

	nl, ni, nt, na := s1.newKeys(c.s0)
	wit := map[string]any{
		"variant": vr.Name, "transactional": c.tx, "fault": fault, "response": vErrStr(resp, err),
		"backend_issued": issued, "backend_revoked": revoked,
		"new_lease_records": nl, "new_index_entries": ni, "new_token_entries": nt, "new_token_aux": na,
		"request_ops": c06OpsStr(c.ops),
	}
	viol := func(class, what string) {
		c.bad++
		r.Violate(class, caseID, fmt.Sprintf("[%s] %s, fault: %s, response: %s: %s", caseID, vr.Name, fault, vErrStr(resp, err), what), wit)
	}

	for _, e := range early {
		viol(e.class, e.what)
	}

	// ---- candidates for the restart with lease restoration held open (c06Window): token entries the
	// request left in the store without a lease record, and lease ids the request tried to record whose
	// record is not in the store. The store is copied now, while nothing is moving and before any of the
	// usability probes below touches the entries; the restart runs on the copy once the case is judged.
	var winToks []c06WinTok
	var winSecs []c06WinSec
	var winSnap map[string][]byte
	for _, k := range nt {
		te := s1.Tokens[k]
		switch {
		case s1.leaseForToken(te.ID) != nil || c06NonexpiringRoot(te):
		case te.NumUses < 0:
			r.Count("window_skipped_revocation_pending_entry", 1)
		default:
			winToks = append(winToks, c06WinTok{ID: te.ID, Accessor: te.Accessor, NSID: te.NamespaceID, Policies: te.Policies, Flow: c06Flow(vr, te)})
		}
	}
	for _, id := range c06LeaseIDsInOps(c.ops) {
		if s1.leaseByID(id) == nil {
			winSecs = append(winSecs, c06WinSec{LeaseID: id, NS: vr.NS})
		}
	}
	if len(winToks)+len(winSecs) > 0 && !c.noWindow {
		winSnap = v.Probe.Snapshot()
	}

	// ---- what does the client hold?
	pay := c06Delivered(resp, err)
	held := pay
	var wrapTok *logical.TokenEntry
	if pay.How == "wrapped" {
		r.Count("wrapped_responses", 1)
		// the wrapping token is a service token the client received
		wrapTok = s1.tokenByAccessor(pay.WrapAcc)
		switch {
		case wrapTok == nil:
			viol("C06-delivered-token-without-durable-lease", "the client received a wrapping token but no token entry with its accessor is stored")
		case s1.leaseForToken(wrapTok.ID) == nil:
			viol("C06-delivered-token-without-durable-lease", "the client received a wrapping token but no lease record exists for it")
		case !c06Tracked(v, s1.leaseForToken(wrapTok.ID).LeaseID):
			viol("C06-lease-not-tracked", "the wrapping token's lease record is stored but the expiration manager does not track it")
		}
		hr, uerr := c06Unwrap(v, pay.WrapToken, vr.NS)
		if uerr != nil {
			viol("C06-delivered-wrapping-token-dead", "the client received a wrapping token but unwrapping it fails: "+uerr.Error())
			held = c06Payload{How: "empty"}
		} else {
			held = c06FromUnwrapped(hr)
			r.Count("wrapped_unwrapped_checks", 1)
		}
	}
	vd.Delivered = held.How
	wit["client_holds"] = held.How

	// ---- secrets: conservation
	indexExpected := vr.Caller != "batch-orphan"
	for _, s := range issued {
		ls := s1.leasesForSecret(s)
		var idx []string
		for _, l := range ls {
			idx = append(idx, s1.indexFor(l.LeaseID)...)
		}
		rev := c06Has(revoked, s)
		r.Count("secrets_judged", 1)
		// narrow signature: a write of the lease bookkeeping was refused with a read-only / standby class error,
		// the client got an error, and the secret is still live at its backend
		roClass := c.faultCls != nil && c.faultCls.Forward && c.leaseWriteFault() && (held.How == "error" || held.How == "empty") && !rev
		// narrow signature: no write failed; the read that failed is the re-read of the requesting token after the
		// lease and its index entry were written; the client got an error and the secret is still live and leased
		postReg := c.postRegTokenCheckFault() && (held.How == "error" || held.How == "empty") && !rev && len(ls) > 0
		switch {
		case postReg:
			viol(c06ClassPostReg, fmt.Sprintf("the lease of secret %s and its index entry were written, the re-read of the requesting token (get %s) failed, the client got an error, and the secret is not revoked at the backend; lease records left: %d, token-index entries left: %v", s, c06KeyClass(c.faulted.Key), len(ls), idx))
		case roClass:
			viol(c06ClassRO, fmt.Sprintf("the write was refused with %q, the client got an error, and secret %s is not revoked at the backend; lease records left: %d, token-index entries left: %v", c.faultCls.Err.Error(), s, len(ls), idx))
		case rev && len(ls) == 0:
			// rolled back; a dangling index entry cannot be attributed by value any more, the
			// global check below catches it
			r.Count("secret_rolled_back", 1)
		case rev && len(ls) > 0:
			class := "C06-partial-lease-after-rollback"
			if vr.Cancel && fault != "none" {
				// narrow signature: the request's context was really cancelled at the fault; Register's deferred
				// rollback revokes at the backend with a live context but deletes the lease record / index entry
				// with the request's (dead) one
				class = c06ClassX2
			}
			viol(class, fmt.Sprintf("secret %s was revoked at the backend but its lease record remains (%s), index entries %v", s, c06KeyClass(ls[0].Key), idx))
		case !rev && len(ls) == 0:
			viol("C06-secret-without-lease", fmt.Sprintf("secret %s was issued by the backend, is not revoked there, and no lease record exists for it", s))
		case !rev && len(ls) > 1:
			viol("C06-duplicate-lease", fmt.Sprintf("secret %s has %d lease records", s, len(ls)))
		default:
			l := ls[0]
			if indexExpected && len(idx) != 1 {
				viol("C06-lease-without-token-index", fmt.Sprintf("secret %s has lease record %s but %d token-index entries (expected 1)", s, l.LeaseID, len(idx)))
			}
			if !indexExpected && len(idx) != 0 {
				r.Note("%s: orphan batch token request produced a token-index entry %v", caseID, idx)
			}
			if !c06Tracked(v, l.LeaseID) {
				viol("C06-lease-not-tracked", fmt.Sprintf("lease record %s of secret %s is stored but not tracked by the expiration manager", l.LeaseID, s))
			}
			r.Count("secret_leased", 1)
		}
	}
	if held.How == "secret" {
		r.Count("secrets_delivered", 1)
		ls := s1.leasesForSecret(held.SecretID)
		switch {
		case !c06Has(issued, held.SecretID):
			viol("C06-harness-unknown-secret", "the client holds secret "+held.SecretID+" which the backend did not issue in this request")
		case c06Has(revoked, held.SecretID):
			viol("C06-delivered-secret-revoked", "the client holds secret "+held.SecretID+" which was revoked at the backend")
		case len(ls) == 0:
			// already reported as C06-secret-without-lease; make the stronger statement too
			viol("C06-delivered-secret-without-durable-lease", "the client holds secret "+held.SecretID+" and no lease record exists for it")
		case ls[0].LeaseID != held.LeaseID:
			viol("C06-delivered-lease-id-mismatch", fmt.Sprintf("the client holds secret %s with lease id %q but the stored lease record is %q", held.SecretID, held.LeaseID, ls[0].LeaseID))
		default:
			r.Count("delivered_secret_lease_checked", 1)
		}
	}
	// every token-index entry points to a stored lease record
	for _, k := range ni {
		if s1.leaseByID(s1.Index[k]) == nil {
			viol("C06-index-without-lease", fmt.Sprintf("token-index entry %s points to lease %q for which no record exists", c06KeyClass(k), s1.Index[k]))
		}
	}

	// ---- tokens
	deliveredAcc := map[string]bool{}
	if held.How == "token" {
		deliveredAcc[held.Accessor] = true
		r.Count("tokens_delivered", 1)
		if held.Batch {
			r.Count("batch_tokens_delivered", 1)
			if !v.TokenUsable(held.Token, vr.NS) {
				r.Count("delivered_token_unusable", 1)
				r.Note("%s: delivered batch token is not usable", caseID)
			}
		} else {
			te := s1.tokenByAccessor(held.Accessor)
			switch {
			case te == nil:
				viol("C06-delivered-token-without-durable-lease", "the client holds a service token but no token entry with its accessor is stored")
			case s1.leaseForToken(te.ID) == nil:
				viol("C06-delivered-token-without-durable-lease", "the client holds a service token and no lease record exists for it")
			case !c06Tracked(v, s1.leaseForToken(te.ID).LeaseID):
				viol("C06-lease-not-tracked", "the delivered token's lease record is stored but the expiration manager does not track it")
			default:
				r.Count("delivered_token_lease_checked", 1)
			}
			atID := true
			if te != nil && s1.leaseForToken(te.ID) != nil && pay.How == "wrapped" {
				// (an unwrapped delivery was checked when the response was returned)
				if what := c06LeaseAtItsID(v, s1, te); what != "" {
					atID = false
					viol(c06ClassLeaseID, "the client holds a service token (unwrapped from the response); "+what)
				} else {
					r.Count("delivered_token_lease_found_at_its_lease_id", 1)
				}
			}
			if !v.TokenUsable(held.Token, vr.NS) {
				r.Count("delivered_token_unusable", 1)
				if atID && c.bad == 0 {
					viol("C06-delivered-token-not-usable", "the client holds a service token with a durable lease and its first use (auth/token/lookup-self) is refused")
				} else {
					r.Note("%s: delivered service token is not usable (fault: %s)", caseID, fault)
				}
			}
		}
	}
	if wrapTok != nil {
		deliveredAcc[wrapTok.Accessor] = true
	}
	tokenWrites := 0
	for _, e := range c.ops {
		if e.Op == "put" && e.Err == "" && strings.Contains(e.Key, "sys/token/id/") {
			tokenWrites++
		}
	}
	leftTokens := 0
	for _, k := range nt {
		te := s1.Tokens[k]
		if deliveredAcc[te.Accessor] {
			continue
		}
		leftTokens++
		if l := s1.leaseForToken(te.ID); l != nil {
			// never delivered, but it has its durable lease and will expire
			r.Count("undelivered_token_with_lease", 1)
			vd.OrphanLease = true
			if !c06Tracked(v, l.LeaseID) {
				viol("C06-lease-not-tracked", "lease record of an undelivered token is stored but not tracked")
			}
			continue
		}
		// no lease: it must not be usable, neither by id nor through its accessor
		usable := v.TokenUsable(te.ID, vr.NS)
		if !usable && te.Accessor != "" {
			if rr, e2 := v.Do(vReq{Op: logical.UpdateOperation, Path: "auth/token/renew-accessor", Token: v.Root, NS: vr.NS, Data: map[string]any{"accessor": te.Accessor}}); vOK(rr, e2) {
				usable = true
			}
		}
		if usable {
			viol("C06-usable-token-without-lease", fmt.Sprintf("the request left token entry %s (policies %v, ttl %s) without a lease record and the token is usable", c06KeyClass(k), te.Policies, te.TTL))
		} else {
			vd.Residue++
			r.Count("residue_token_entry_unusable", 1)
			if r.Get("residue_token_entry_unusable") <= 8 {
				r.Note("%s: %s left a token entry without lease in storage; it is refused on use, so this is residue, not a verdict (fault: %s)", caseID, vr.Name, fault)
			}
		}
	}
	for _, s := range issued {
		if !c06Has(revoked, s) && held.SecretID != s {
			vd.OrphanLease = true
		}
	}
	vd.HadEffect = len(issued) > 0 || tokenWrites > 0
	vd.RolledBack = vd.HadEffect && (held.How == "error" || held.How == "empty") && leftTokens == 0
	for _, s := range issued {
		if !c06Has(revoked, s) {
			vd.RolledBack = false
		}
	}
	if tokenWrites > 0 && leftTokens == 0 && (held.How == "error" || held.How == "empty") && pay.How != "wrapped" {
		r.Count("token_cleanup_observed", 1)
	}

	// ---- revoking the owning token must reach the secret's lease (the index entry is *its* index)
	if c.bad == 0 && c.owner != "" && vr.Caller != "lastuse" { // (a final-use token is being revoked by its own request)
		var live []string
		for _, s := range issued {
			if !c06Has(revoked, s) {
				live = append(live, s)
			}
		}
		if len(live) > 0 {
			ownerNS := vr.TokNS
			rr, e2 := v.Do(vReq{Op: logical.UpdateOperation, Path: "auth/token/revoke", Token: v.Root, NS: ownerNS, Data: map[string]any{"token": c.owner}})
			if !vOK(rr, e2) {
				r.Note("%s: revoking the owning token failed: %s", caseID, vErrStr(rr, e2))
			} else if s2, e3 := c06Scan(v); e3 == nil {
				for _, s := range live {
					for _, l := range s2.leasesForSecret(s) {
						if l.ExpireTime.After(time.Now()) {
							class := "C06-token-revocation-misses-lease"
							if l.NS != ownerNS && len(s2.indexFor(l.LeaseID)) == 1 {
								// narrow signature: lease record and its index entry both exist, but the lease lives in a
								// different namespace than the token that owns the index entry
								class = c06ClassX1
							}
							viol(class, fmt.Sprintf("the token that requested secret %s was revoked but lease %s is neither gone nor queued (expire_time %s)", s, l.LeaseID, l.ExpireTime.Format(time.RFC3339)))
						}
					}
					r.Count("index_effective_checks", 1)
				}
			}
		}
	}

	// ---- clean up: everything the case created goes away, through the public API
	c.cleanup(r, caseID, s1, held, issued)

	// ---- the same store after a restart, inside and outside the lease-restoration window
	if winSnap != nil && !c.noWindow {
		r.Count("window_cases", 1)
		c06Window(r, v, caseID, c06StoreFrom(winSnap, c.tx), vr.NS, winToks, winSecs, "C06-usable-token-without-lease-after-restart", func(class, what string, extra map[string]any) {
			w2 := map[string]any{}
			for k, x := range wit {
				w2[k] = x
			}
			for k, x := range extra {
				w2[k] = x
			}
			c.bad++
			r.Violate(class, caseID, fmt.Sprintf("[%s] %s, fault: %s, response: %s; restart on the store the request left: %s", caseID, vr.Name, fault, vErrStr(resp, err), what), w2)
		})
	}
	return vd
}

func c06OpsStr(ops []kit.Event) []string {
	var out []string
	for i, e := range ops {
		s := fmt.Sprintf("%d %s %s", i+1, e.Op, c06KeyClass(e.Key))
		if e.Err != "" {
			s += " !FAULT"
		}
		out = append(out, s)
	}
	return out
}

func (c *c06Case) cleanup(r *kit.Result, caseID string, s1 *c06State, held c06Payload, issued []string) {
	v := c.v
	// leases of secrets first (synchronously: the backend must see the revocation)
	cur, err := c06Scan(v)
	if err != nil {
		return
	}
	for _, s := range issued {
		for _, l := range cur.leasesForSecret(s) {
			rr, e2 := v.Do(vReq{Op: logical.UpdateOperation, Path: "sys/leases/revoke", Token: v.Root, NS: l.NS, Data: map[string]any{"lease_id": l.LeaseID, "sync": true}})
			if !vOK(rr, e2) {
				r.Note("%s: cleanup revoke of %s failed: %s", caseID, l.LeaseID, vErrStr(rr, e2))
				continue
			}
			if c.bad == 0 && !c06Has(c06RecIDs(v.Rec.Since(c.recMark), "revoked"), s) {
				c.bad++
				r.Violate("C06-lease-revocation-misses-backend", caseID, fmt.Sprintf("[%s] %s: lease %s was revoked synchronously but the backend never saw a revocation of secret %s", caseID, c.vr.Name, l.LeaseID, s), nil)
			}
			r.Count("lease_revocations_reaching_backend", 1)
		}
		// conservation closes: with its lease gone the secret must have been revoked at the backend
		if c.bad == 0 && !c06Has(c06RecIDs(v.Rec.Since(c.recMark), "revoked"), s) {
			if after, e3 := c06Scan(v); e3 == nil && len(after.leasesForSecret(s)) == 0 {
				c.bad++
				r.Violate("C06-secret-never-revoked", caseID, fmt.Sprintf("[%s] %s: secret %s has no lease record any more and was never revoked at the backend", caseID, c.vr.Name, s), nil)
			}
		}
	}
	revoke := func(id, ns string) {
		if id == "" || id == v.Root || IsBatchToken(id) {
			return
		}
		v.Do(vReq{Op: logical.UpdateOperation, Path: "auth/token/revoke", Token: v.Root, NS: ns, Data: map[string]any{"token": id}})
	}
	if held.How == "token" {
		revoke(held.Token, c.vr.NS)
	}
	_, _, nt, _ := cur.newKeys(c.s0)
	for _, k := range nt {
		revoke(cur.Tokens[k].ID, c.vr.NS)
	}
	for _, m := range c.made {
		revoke(m.ID, m.NS)
	}
	// whatever is left compared with the "before" snapshot is residue (reported, not judged)
	if end, err := c06Scan(v); err == nil {
		nl, ni, nt, na := end.newKeys(c.s0)
		// tokens created by setup() are part of s0, so everything here stems from the request
		if n := len(nl) + len(ni) + len(nt) + len(na); n > 0 {
			r.Count("residue_keys_after_cleanup", n)
			for _, k := range append(append(append(nl, ni...), nt...), na...) {
				r.Count("residue:"+c06KeyClass(k), 1)
			}
		}
	}
}

// ------------------------------------------------------------------ storage error classes
//
// The kit's injected fault is one generic error value. A real store fails in classes the core treats
// differently: a read-only / standby store refuses writes with errors that logical.ShouldForward
// recognises ("cannot write to readonly storage", "please forward to the active node", raft's "node
// is not the leader", "Vault is in standby mode"), a store bound to the request's context returns
// context.Canceled / DeadlineExceeded, a transactional store fails the commit with
// physical.ErrTransactionCommitFailure. c06Inj sits between the probe and the in-memory store and
// makes the n-th storage operation of the calling goroutine (the request under test) fail once
// with a chosen error; the probe above it logs the operation with that error.

type c06ErrClass struct {
	Name    string
	Err     error
	Forward bool // logical.ShouldForward(Err)
}

var c06FwdClasses = []c06ErrClass{
	{Name: "readonly", Err: logical.ErrReadOnly, Forward: true},
	{Name: "please-forward", Err: logical.ErrPerfStandbyPleaseForward, Forward: true},
	{Name: "not-leader", Err: errors.New("node is not the leader"), Forward: true},
	{Name: "standby", Err: consts.ErrStandby, Forward: true},
}

var c06CtxClasses = []c06ErrClass{
	{Name: "ctx-canceled", Err: context.Canceled},
	{Name: "ctx-deadline", Err: context.DeadlineExceeded},
}

var c06CommitClass = c06ErrClass{Name: "commit-failure", Err: physical.ErrTransactionCommitFailure}

var c06Injs = map[*vCore]*c06Inj{}

type c06Inj struct {
	on    atomic.Bool
	mu    sync.Mutex
	goid  uint64
	n     int
	want  string // operation kind expected at position n ("" = any)
	err   error
	seen  int
	fired bool
	drift bool
}

func (j *c06Inj) arm(n int, want string, err error) {
	j.mu.Lock()
	j.goid, j.n, j.want, j.err, j.seen, j.fired, j.drift = kit.GoID(), n, want, err, 0, false, false
	j.mu.Unlock()
	j.on.Store(true)
}

func (j *c06Inj) disarm() (fired, drift bool) {
	j.on.Store(false)
	j.mu.Lock()
	defer j.mu.Unlock()
	return j.fired, j.drift
}

func (j *c06Inj) check(op string) error {
	if !j.on.Load() {
		return nil
	}
	id := kit.GoID()
	j.mu.Lock()
	defer j.mu.Unlock()
	if id != j.goid || j.fired || j.drift {
		return nil
	}
	j.seen++
	if j.seen != j.n {
		return nil
	}
	if j.want != "" && j.want != op {
		j.drift = true // the request's operation sequence differs from the counting run: no fault
		return nil
	}
	j.fired = true
	return j.err
}

type c06InjBackend struct {
	inner physical.Backend
	j     *c06Inj
}

func (b *c06InjBackend) Put(ctx context.Context, e *physical.Entry) error {
	if err := b.j.check("put"); err != nil {
		return err
	}
	return b.inner.Put(ctx, e)
}

func (b *c06InjBackend) Get(ctx context.Context, k string) (*physical.Entry, error) {
	if err := b.j.check("get"); err != nil {
		return nil, err
	}
	return b.inner.Get(ctx, k)
}

func (b *c06InjBackend) Delete(ctx context.Context, k string) error {
	if err := b.j.check("delete"); err != nil {
		return err
	}
	return b.inner.Delete(ctx, k)
}

func (b *c06InjBackend) List(ctx context.Context, p string) ([]string, error) {
	if err := b.j.check("list"); err != nil {
		return nil, err
	}
	return b.inner.List(ctx, p)
}

func (b *c06InjBackend) ListPage(ctx context.Context, p, a string, l int) ([]string, error) {
	if err := b.j.check("listpage"); err != nil {
		return nil, err
	}
	return b.inner.ListPage(ctx, p, a, l)
}

type c06InjTxBackend struct {
	*c06InjBackend
	txb physical.Transactional
}

func (b *c06InjTxBackend) BeginTx(ctx context.Context) (physical.Transaction, error) {
	if err := b.j.check("begin"); err != nil {
		return nil, err
	}
	tx, err := b.txb.BeginTx(ctx)
	if err != nil {
		return nil, err
	}
	return &c06InjTx{c06InjBackend: &c06InjBackend{inner: tx, j: b.j}, tx: tx}, nil
}

func (b *c06InjTxBackend) BeginReadOnlyTx(ctx context.Context) (physical.Transaction, error) {
	if err := b.j.check("beginro"); err != nil {
		return nil, err
	}
	tx, err := b.txb.BeginReadOnlyTx(ctx)
	if err != nil {
		return nil, err
	}
	return &c06InjTx{c06InjBackend: &c06InjBackend{inner: tx, j: b.j}, tx: tx}, nil
}

type c06InjTx struct {
	*c06InjBackend
	tx physical.Transaction
}

func (t *c06InjTx) Commit(ctx context.Context) error {
	if err := t.j.check("commit"); err != nil {
		_ = t.tx.Rollback(ctx) // a failed commit aborts the transaction
		return err
	}
	return t.tx.Commit(ctx)
}

func (t *c06InjTx) Rollback(ctx context.Context) error { return t.tx.Rollback(ctx) }

func (j *c06Inj) wrap(inner physical.Backend) physical.Backend {
	b := &c06InjBackend{inner: inner, j: j}
	if txb, ok := inner.(physical.Transactional); ok {
		return &c06InjTxBackend{c06InjBackend: b, txb: txb}
	}
	return b
}

// ------------------------------------------------------------------ the lease-restoration window
//
// After an unseal / restart the core serves requests while the expiration manager is still
// loading the lease records ("restore mode"). The property has no exemption for that window: a
// token entry whose lease record is not in the store (crash between the token write and the
// lease write; lease Put of RegisterAuth failed and the clean-up left the entry) must be refused
// there as well, and a lease id whose record is not in the store must not be renewable.
//
// The window is held open deterministically: the restarted core runs on a store whose listing of
// the lease tree (sys/expire/id/ of any namespace - the first thing lease restoration does) parks
// every goroutine but the harness' own until the harness releases it. "In the window" is decided
// by the expiration manager's own flag, read before and after every presentation.

const c06ClassWin = "C06-leaseless-token-usable-during-lease-restore"

const c06LeaseTree = "sys/expire/id/"

type c06Hold struct {
	mu      sync.Mutex
	armed   bool
	exempt  uint64 // goroutine of the harness: its own scans are not held
	release chan struct{}
	parked  chan struct{}
	once    sync.Once
}

func c06NewHold() *c06Hold {
	return &c06Hold{armed: true, exempt: kit.GoID(), release: make(chan struct{}), parked: make(chan struct{})}
}

func (h *c06Hold) wait(prefix string) {
	if !strings.Contains(prefix, c06LeaseTree) {
		return
	}
	h.mu.Lock()
	armed := h.armed
	h.mu.Unlock()
	if !armed || kit.GoID() == h.exempt {
		return
	}
	h.once.Do(func() { close(h.parked) })
	<-h.release
}

func (h *c06Hold) Release() {
	h.mu.Lock()
	if h.armed {
		h.armed = false
		close(h.release)
	}
	h.mu.Unlock()
}

type c06HoldBackend struct {
	physical.Backend
	h *c06Hold
}

func (b *c06HoldBackend) List(ctx context.Context, prefix string) ([]string, error) {
	b.h.wait(prefix)
	return b.Backend.List(ctx, prefix)
}

func (b *c06HoldBackend) ListPage(ctx context.Context, prefix, after string, limit int) ([]string, error) {
	b.h.wait(prefix)
	return b.Backend.ListPage(ctx, prefix, after, limit)
}

type c06HoldTxBackend struct {
	*c06HoldBackend
	txb physical.Transactional
}

type c06HoldTx struct {
	physical.Transaction
	h *c06Hold
}

func (t *c06HoldTx) List(ctx context.Context, prefix string) ([]string, error) {
	t.h.wait(prefix)
	return t.Transaction.List(ctx, prefix)
}

func (t *c06HoldTx) ListPage(ctx context.Context, prefix, after string, limit int) ([]string, error) {
	t.h.wait(prefix)
	return t.Transaction.ListPage(ctx, prefix, after, limit)
}

func (b *c06HoldTxBackend) BeginTx(ctx context.Context) (physical.Transaction, error) {
	tx, err := b.txb.BeginTx(ctx)
	if err != nil {
		return nil, err
	}
	return &c06HoldTx{Transaction: tx, h: b.h}, nil
}

func (b *c06HoldTxBackend) BeginReadOnlyTx(ctx context.Context) (physical.Transaction, error) {
	tx, err := b.txb.BeginReadOnlyTx(ctx)
	if err != nil {
		return nil, err
	}
	return &c06HoldTx{Transaction: tx, h: b.h}, nil
}

func (h *c06Hold) wrap(inner physical.Backend) physical.Backend {
	hb := &c06HoldBackend{Backend: inner, h: h}
	if txb, ok := inner.(physical.Transactional); ok {
		return &c06HoldTxBackend{c06HoldBackend: hb, txb: txb}
	}
	return hb
}

// c06StoreFrom builds a fresh in-memory store holding exactly the given keys and values.
func c06StoreFrom(snap map[string][]byte, tx bool) physical.Backend {
	conf := map[string]string{}
	if !tx {
		conf["disable_transactions"] = "true"
	}
	in, err := inmem.NewInmem(conf, nil)
	if err != nil {
		panic(err)
	}
	ctx := context.Background()
	for k, val := range snap {
		if err := in.Put(ctx, &physical.Entry{Key: k, Value: append([]byte(nil), val...)}); err != nil {
			panic(err)
		}
	}
	return in
}

// c06WinTok is a token entry of the store under test whose id the harness knows (read from the
// stored record).
type c06WinTok struct {
	ID       string
	Accessor string
	NSID     string
	Policies []string
	Flow     string // login | create | wrapped
	Control  bool   // delivered to the client and its lease record is durable: the counter-example that the window is not simply refusing everything
}

// c06WinSec is a lease id of a secret handed out (or about to be) by the request under test.
type c06WinSec struct {
	LeaseID string
	NS      string
	Control bool // the lease record is durable
}

type c06WinPending struct {
	class, what string
	extra       map[string]any
}

type c06Present struct {
	What       string `json:"presented"`
	Accepted   bool   `json:"accepted"`
	Response   string `json:"response"`
	HandlerRan bool   `json:"handler_ran,omitempty"`
	ModeBefore bool   `json:"restore_mode_before"`
	ModeAfter  bool   `json:"restore_mode_after"`
}

func c06IsWrappingPolicies(p []string) bool {
	return len(p) == 1 && p[0] == "response-wrapping"
}

// c06PresentToken uses the token the ways a holder could: authenticating a request to the token
// store, to a secrets mount, renewing it, minting a child, (wrapping token) looking up / unwrapping
// the response, through the accessor, and the token store's Lookup (what request authentication
// calls; last, and in every other case also first). The order of the request-level presentations
// rotates with salt, since on a correct tree the first refusal also removes the entry.
func c06PresentToken(v2 *vCore, t c06WinTok, ns string, salt uint64, n int) []c06Present {
	mode := func() bool { return v2.Core.expiration.inRestoreMode() }
	var out []c06Present
	do := func(what string, rq vReq, okNeedsData bool) {
		p := c06Present{What: what, ModeBefore: mode()}
		mark := v2.Rec.Len()
		resp, err := v2.Do(rq)
		p.ModeAfter = mode()
		p.Response = vErrStr(resp, err)
		p.Accepted = vOK(resp, err)
		if okNeedsData && (resp == nil || (resp.Data == nil && resp.Auth == nil)) {
			p.Accepted = false
		}
		for _, e := range v2.Rec.Since(mark) {
			if e.Kind == "handler" || e.Kind == "existence" {
				p.HandlerRan, p.Accepted = true, true
			}
		}
		out = append(out, p)
	}
	lookup := func() { out = append(out, c06LookupPresent(v2, t)) }
	var reqs []func()
	if c06IsWrappingPolicies(t.Policies) {
		reqs = []func(){
			func() {
				do("sys/wrapping/lookup", vReq{Op: logical.UpdateOperation, Path: "sys/wrapping/lookup", NS: ns, Data: map[string]any{"token": t.ID}}, true)
			},
			func() {
				do("sys/wrapping/unwrap", vReq{Op: logical.UpdateOperation, Path: "sys/wrapping/unwrap", Token: t.ID, NS: ns}, true)
			},
			func() {
				do("cubbyhole read", vReq{Op: logical.ReadOperation, Path: "cubbyhole/response", Token: t.ID, NS: ns}, false)
			},
		}
	} else {
		reqs = []func(){
			func() {
				do("auth/token/lookup-self", vReq{Op: logical.ReadOperation, Path: "auth/token/lookup-self", Token: t.ID, NS: ns}, true)
			},
			func() {
				do("read on a secrets mount", vReq{Op: logical.ReadOperation, Path: fmt.Sprintf("c06rec/data/win%d", n), Token: t.ID, NS: ns}, false)
			},
			func() {
				do("auth/token/renew-self", vReq{Op: logical.UpdateOperation, Path: "auth/token/renew-self", Token: t.ID, NS: ns}, true)
			},
			func() {
				do("auth/token/create (child)", vReq{Op: logical.UpdateOperation, Path: "auth/token/create", Token: t.ID, NS: ns, Data: map[string]any{"policies": []string{"default"}, "ttl": "5m"}}, true)
			},
		}
	}
	if salt%2 == 0 {
		// every other case asks the token store first: a request can authenticate, fail for another reason
		// (nothing to unwrap yet) and still use the token up
		lookup()
	}
	for i := range reqs {
		reqs[(int((salt/2)%uint64(len(reqs)))+i)%len(reqs)]()
	}
	if t.Accessor != "" && !c06IsWrappingPolicies(t.Policies) {
		do("auth/token/renew-accessor", vReq{Op: logical.UpdateOperation, Path: "auth/token/renew-accessor", Token: v2.Root, NS: ns, Data: map[string]any{"accessor": t.Accessor}}, true)
	}
	lookup()
	return out
}

// c06LookupPresent is the token store's own answer to "does this id authenticate" (what request
// authentication calls).
func c06LookupPresent(v2 *vCore, t c06WinTok) c06Present {
	mode := func() bool { return v2.Core.expiration.inRestoreMode() }
	p := c06Present{What: "TokenStore.Lookup", ModeBefore: mode()}
	ctx := namespace.RootContext(context.Background())
	for _, nn := range c06Namespaces(v2) {
		if nn.ID == t.NSID {
			ctx = namespace.ContextWithNamespace(context.Background(), nn)
		}
	}
	te, err := v2.Core.tokenStore.Lookup(ctx, t.ID)
	p.ModeAfter = mode()
	p.Accepted = err == nil && te != nil
	switch {
	case err != nil:
		p.Response = "err:" + err.Error()
	case te == nil:
		p.Response = "no such token"
	default:
		p.Response = "entry returned"
	}
	return p
}

func c06NSPath(v *vCore, nsID, def string) string {
	for _, nn := range c06Namespaces(v) {
		if nn.ID == nsID {
			return nn.Path
		}
	}
	return def
}

// c06Window boots a core (same seal) on store with lease restoration held open, presents the
// tokens / lease ids while the expiration manager reports restore mode, releases the restoration,
// waits (bounded) for it to finish and presents them again. afterClass is the class of a token
// that is usable outside the window (too); c06ClassWin is assigned only to a token that is accepted
// while the restore-mode flag is on and refused once restoration has finished.
func c06Window(r *kit.Result, v *vCore, caseID string, store physical.Backend, defNS string, toks []c06WinTok, secs []c06WinSec, afterClass string, viol func(class, what string, extra map[string]any)) {
	h := c06NewHold()
	phys, _ := kit.NewProbe(h.wrap(store))
	v2, err := v.RestartOn(phys)
	defer func() {
		h.Release()
		if v2 != nil {
			v2.Close()
			delete(c06Stuck, v2)
		}
	}()
	if err != nil {
		r.Count("window_restart_failed", 1)
		r.Note("%s: restart with held lease restoration failed: %v", caseID, err)
		return
	}
	r.Count("window_restarts", 1)
	parked := false
	select {
	case <-h.parked:
		parked = true
	case <-time.After(10 * time.Second):
	}
	mode := func() bool { return v2.Core.expiration.inRestoreMode() }
	inWin := parked && mode()
	if inWin {
		r.Count("window_restarts_in_restore_mode", 1)
	} else {
		// not a verdict and not inconclusive: the case is judged outside the window only
		r.Count("window_restore_mode_not_observed", 1)
	}
	salt := c06Hash(caseID)
	pendingWin := map[string]c06WinPending{}
	flush := func() {
		for id, p := range pendingWin {
			viol(p.class, p.what, p.extra)
			delete(pendingWin, id)
		}
	}
	defer flush()
	if inWin {
		sW, serr := c06Scan(v2)
		if serr != nil {
			r.Count("window_scan_failed", 1)
			inWin = false
		}
		for i, t := range toks {
			if !inWin {
				break
			}
			ns := c06NSPath(v2, t.NSID, defNS)
			te := sW.tokenByAccessor(t.Accessor)
			if te == nil || te.ID != t.ID {
				r.Count("window_token_entry_not_in_store", 1)
				continue
			}
			hasLease := sW.leaseForToken(t.ID) != nil
			if hasLease != t.Control {
				r.Count("window_token_lease_state_changed", 1)
				continue
			}
			ps := c06PresentToken(v2, t, ns, salt+uint64(i), i)
			allIn := true
			var acc []string
			handler := false
			for _, p := range ps {
				if !p.ModeBefore || !p.ModeAfter {
					allIn = false
				}
				if p.Accepted {
					acc = append(acc, p.What)
				}
				handler = handler || p.HandlerRan
			}
			if !allIn {
				r.Count("window_closed_during_presentation", 1)
			}
			if t.Control {
				// a properly leased, delivered token: expected to work while leases are being restored
				if len(acc) > 0 {
					r.Count("window_control_leased_token_accepted", 1)
				} else {
					r.Count("window_control_leased_token_refused", 1)
					if r.Get("window_control_leased_token_refused") <= 4 {
						r.Note("%s: a delivered token with a durable lease is refused while leases are being restored (%s)", caseID, ps[0].Response)
					}
				}
				continue
			}
			if allIn {
				r.Count("window_leaseless_tokens_presented", 1)
				r.Count("window_leaseless_tokens_presented:"+t.Flow, 1)
				r.Count("window_presentations", len(ps))
			}
			if len(acc) == 0 {
				if allIn {
					r.Count("window_leaseless_token_refused", 1)
					if r.Get("window_samples") < 3 {
						r.Count("window_samples", 1)
						r.Sample(map[string]any{"case": caseID, "lease_restoration": "held open, restore mode on", "token_flow": t.Flow, "token_policies": t.Policies, "presentations": ps})
					}
				}
				continue
			}
			class, where := c06ClassWin, "while the expiration manager is restoring leases after the restart"
			if !allIn {
				class, where = afterClass, "after the restart"
			}
			what := fmt.Sprintf("token entry (flow %s, policies %v) has no lease record in the store and is accepted %s: %s", t.Flow, t.Policies, where, strings.Join(acc, ", "))
			if handler {
				what += "; a backend handler ran for it"
			}
			r.Count("window_leaseless_token_accepted:"+t.Flow, 1)
			// classified once it is known whether the token is refused when restoration has finished
			pendingWin[t.ID] = c06WinPending{class: class, what: what, extra: map[string]any{"presentations": ps, "token_flow": t.Flow}}
		}
		for _, s := range secs {
			if !inWin {
				break
			}
			durable := sW.leaseByID(s.LeaseID) != nil
			if durable != s.Control {
				r.Count("window_secret_lease_state_changed", 1)
				continue
			}
			m0 := mode()
			rr, e1 := v2.Do(vReq{Op: logical.UpdateOperation, Path: "sys/leases/lookup", Token: v2.Root, NS: s.NS, Data: map[string]any{"lease_id": s.LeaseID}})
			rn, e2 := v2.Do(vReq{Op: logical.UpdateOperation, Path: "sys/leases/renew", Token: v2.Root, NS: s.NS, Data: map[string]any{"lease_id": s.LeaseID}})
			m1 := mode()
			ok := (vOK(rr, e1) && rr != nil) || (vOK(rn, e2) && rn != nil)
			switch {
			case s.Control && ok:
				r.Count("window_control_durable_lease_renewable", 1)
			case s.Control:
				r.Count("window_control_durable_lease_refused", 1)
			case !m0 || !m1:
				r.Count("window_closed_during_presentation", 1)
			case ok:
				viol("C06-leaseless-secret-renewable-during-lease-restore", fmt.Sprintf("lease id %s has no record in the store and sys/leases/lookup / renew accept it while leases are being restored (lookup: %s, renew: %s)", s.LeaseID, vErrStr(rr, e1), vErrStr(rn, e2)), nil)
			default:
				r.Count("window_leaseless_secret_renew_refused", 1)
			}
		}
	}
	h.Release()
	if !c06WaitRestored(v2) {
		r.Inconc("%s: lease restoration (released) did not finish within the wait bound", caseID)
		return
	}
	// outside the window, as today: nothing without a lease record is usable
	for _, t := range toks {
		if t.Control {
			continue
		}
		ns := c06NSPath(v2, t.NSID, defNS)
		usable := v2.TokenUsable(t.ID, ns)
		if !usable && c06IsWrappingPolicies(t.Policies) {
			rr, e2 := v2.Do(vReq{Op: logical.UpdateOperation, Path: "sys/wrapping/lookup", NS: ns, Data: map[string]any{"token": t.ID}})
			usable = vOK(rr, e2) && rr != nil && rr.Data != nil
		}
		if !usable && t.Accessor != "" {
			rr, e2 := v2.Do(vReq{Op: logical.UpdateOperation, Path: "auth/token/renew-accessor", Token: v2.Root, NS: ns, Data: map[string]any{"accessor": t.Accessor}})
			usable = vOK(rr, e2) && rr != nil
		}
		if usable {
			// usable outside the window as well: the general class, not the window's
			what, extra := fmt.Sprintf("token entry (flow %s, policies %v) has no lease record in the store and is usable after the restart, lease restoration finished", t.Flow, t.Policies), map[string]any(nil)
			if p, ok := pendingWin[t.ID]; ok {
				what, extra = what+" (and inside the restoration window: "+p.what+")", p.extra
				delete(pendingWin, t.ID)
			}
			viol(afterClass, what, extra)
		} else {
			r.Count("window_released_leaseless_token_refused", 1)
		}
	}
	for _, s := range secs {
		if s.Control {
			continue
		}
		rn, e2 := v2.Do(vReq{Op: logical.UpdateOperation, Path: "sys/leases/renew", Token: v2.Root, NS: s.NS, Data: map[string]any{"lease_id": s.LeaseID}})
		if vOK(rn, e2) && rn != nil {
			viol("C06-leaseless-secret-renewable-after-restart", fmt.Sprintf("lease id %s has no record in the store and is renewable after the restart (%s)", s.LeaseID, vErrStr(rn, e2)), nil)
		} else {
			r.Count("window_released_leaseless_secret_refused", 1)
		}
	}
}

// c06LeaseIDsInOps returns the lease ids of secrets (not of tokens) whose record the request tried
// to write, read off the storage keys of its operations.
func c06LeaseIDsInOps(ops []kit.Event) []string {
	seen := map[string]bool{}
	var out []string
	for _, e := range ops {
		if e.Op != "put" {
			continue
		}
		i := strings.Index(e.Key, c06LeaseTree)
		if i < 0 {
			continue
		}
		id := e.Key[i+len(c06LeaseTree):]
		if !strings.HasPrefix(id, "c06rec/lease/") && !strings.HasPrefix(id, "c06ctx/lease/") {
			continue
		}
		if c06SaltedTail(id) {
			// the lease of a wrapping token is filed under the path of the wrapped request too; its last
			// element is the salted token id ("h" + 64 hex digits), a secret's is a random suffix
			continue
		}
		if !seen[id] {
			seen[id] = true
			out = append(out, id)
		}
	}
	return out
}

func c06SaltedTail(leaseID string) bool {
	tail := leaseID[strings.LastIndex(leaseID, "/")+1:]
	if i := strings.Index(tail, "."); i >= 0 {
		tail = tail[:i] // namespace suffix
	}
	if len(tail) != 65 || tail[0] != 'h' {
		return false
	}
	for _, ch := range tail[1:] {
		if !(ch >= '0' && ch <= '9') && !(ch >= 'a' && ch <= 'f') {
			return false
		}
	}
	return true
}

func c06Flow(vr c06Variant, te *logical.TokenEntry) string {
	if c06IsWrappingPolicies(te.Policies) {
		return "wrapped"
	}
	return vr.Kind
}

// ------------------------------------------------------------------ fault enumeration

func c06Hash(x string) uint64 {
	h := uint64(14695981039346656037)
	for i := 0; i < len(x); i++ {
		h ^= uint64(x[i])
		h *= 1099511628211
	}
	return h
}

const c06ClassX2 = "C06-X2-rollback-storage-cleanup-bound-to-cancelled-request-context"

const c06ClassLeaseID = "C06-token-returned-without-lease-at-its-lease-id"

const c06ClassPostReg = "C06-secret-kept-after-read-fault-in-post-registration-token-check"

// c06LeaseAtItsID asks the product itself for the lease of a stored token entry: the expiration manager derives
// the token's lease id (entry path + salted id, namespace suffix) and reads that record. "" = found.
func c06LeaseAtItsID(v *vCore, sn *c06State, te *logical.TokenEntry) string {
	ctx := namespace.RootContext(context.Background())
	for _, nn := range c06Namespaces(v) {
		if nn.ID == te.NamespaceID {
			ctx = namespace.ContextWithNamespace(context.Background(), nn)
		}
	}
	le, err := v.Core.expiration.FetchLeaseTimesByToken(ctx, te)
	if err == nil && le != nil {
		return ""
	}
	where := "no lease record names the token at all"
	if l := sn.leaseForToken(te.ID); l != nil {
		where = fmt.Sprintf("the only lease record naming the token is filed as %s", l.LeaseID)
	}
	return fmt.Sprintf("the expiration manager finds no lease at the lease id it derives for that token (entry path %q; FetchLeaseTimesByToken: lease=%v err=%v); %s", te.Path, le != nil, err, where)
}

const c06ClassRO = "C06-secret-not-revoked-after-read-only-class-lease-write-failure"

const c06ClassEdgeBatch = "C06-secret-issued-to-expiring-batch-token-neither-leased-nor-revoked"

const c06ClassX1 = "C06-X1-cross-namespace-lease-survives-token-revocation"

// c06Unclassified counts violations other than the narrowly classified cross-namespace finding
// (used only to stop a run that is drowning in alarms).
func c06Unclassified(r *kit.Result) int {
	return r.NViolations() - int(r.Get("violations:"+c06ClassX1))
}

func c06Pick(vars []c06Variant) []c06Variant {
	shard, shards := kit.Shard()
	var out []c06Variant
	for _, vr := range vars {
		if vr.Cancel && os.Getenv("VERIF_C06_CTXCANCEL") == "" {
			// Really cancelling the request's context makes every later operation bound to it fail: more
			// than the single-fault model of this property (plan.json). Off by default, see c06ClassX2.
			continue
		}
		if kit.Tier() == "quick" && !vr.Quick {
			continue
		}
		if int(c06Hash(vr.Name)%uint64(shards)) != shard {
			continue
		}
		out = append(out, vr)
	}
	return out
}

func TestVerif_C06_Faults(t *testing.T) {
	seed := kit.Seed(6)
	shard, _ := kit.Shard()
	r := kit.NewResult(t, "c06-faults", seed, "for each request variant (leased read/update on the recording backend by service / use-limited / final-use / batch tokens, login through the recording auth backend, auth/token/create; service and batch tokens; wrapped and unwrapped; root and child namespace, cross-namespace; paths whose token lease registration is refused) x store kind: the request runs twice fault-free (warm-up, then counting its n storage operations), then once per storage operation index i=1..n with that operation failing once; after each run the conservation oracle compares the client's response, the backend's issued/revoked log and the stored lease / token-index / token records with the snapshot taken before the request, then revokes the owning token and checks that the revocation reaches the lease. From the request's first effect on, the same operations also fail with the error classes of a real store: each write with a read-only / standby class error (readonly, please-forward, not-leader, standby, rotating), each operation (quick: every other) with context.Canceled / DeadlineExceeded, each transaction commit with the commit failure; same oracle. A case is non-trivial when the fault fired after the request had already issued a secret or written a token entry; distinct by (variant, store kind, failed operation class)")
	r.Exhaustive = true
	defer r.Write(t)
	vars := c06Pick(c06Variants())
	rounds := kit.N(1, 4)
	for round := 0; round < rounds; round++ {
		for _, tx := range []bool{false, true} {
			cache := round%2 == 1 // thorough: every other round with the physical cache on
			rng := kit.NewRand(seed, uint64(round*1000+shard*10)*2+map[bool]uint64{true: 1, false: 0}[tx])
			var v *vCore
			for vi, vr := range vars {
				if vi%8 == 0 {
					// a fresh core now and then keeps the store (and the scans) small
					if v != nil {
						v.Close()
						delete(c06Stuck, v)
						delete(c06Injs, v)
					}
					v = c06Boot(t, tx, cache)
					c06Populate(t, v, rng)
				}
				c06FaultVariant(t, v, r, rng, vr, tx, round)
				if c06Unclassified(r) > 40 {
					return
				}
			}
			if v != nil {
				v.Close()
				delete(c06Stuck, v)
				delete(c06Injs, v)
			}
		}
	}
	if kit.Tier() == "quick" {
		// quick has one full round, physical cache off (every read reaches the store). The reduced round: physical cache
		// ON, leased-secret variants, each on one store kind, the generic error at every operation from the request's
		// first effect on - whatever the cache still lets through to the store fails once.
		c06Reduced = true
		for ti, tx := range []bool{false, true} {
			rng := kit.NewRand(seed, uint64(1000+shard*10)*2+uint64(ti))
			var v *vCore
			n := 0
			for vi, vr := range vars {
				if vr.Kind != "secret" || vr.LightQuick || vr.CtxDead || (vi+ti)%2 != 0 {
					continue
				}
				if n%12 == 0 {
					if v != nil {
						v.Close()
						delete(c06Stuck, v)
						delete(c06Injs, v)
					}
					v = c06Boot(t, tx, true)
					c06Populate(t, v, rng)
				}
				n++
				c06FaultVariant(t, v, r, rng, vr, tx, 1)
			}
			if v != nil {
				v.Close()
				delete(c06Stuck, v)
				delete(c06Injs, v)
			}
		}
		c06Reduced = false
		r.Require("faults_fired:cache_on", 40)
	}
	r.Count("settle_waits_soft_25ms", c06SettleSoft)
	r.Count("settle_waits_hard_25ms", c06SettleHard)
	r.Require("read_faults_after_secret_lease_write", 20)
	r.Require("post_registration_token_check_read_faults", 15)
	r.Require("delivered_token_lease_found_at_its_lease_id", 40)
	r.Require("faults_fired", 300)
	r.Require("fault_after_effect", 60)
	r.Require("secret_rolled_back", 10)
	r.Require("token_cleanup_observed", 10)
	r.Require("delivered_secret_lease_checked", 20)
	r.Require("delivered_token_lease_checked", 20)
	r.Require("index_effective_checks", 20)
	r.Require("wrapped_unwrapped_checks", 10)
	r.Require("lease_revocations_reaching_backend", 20)
	// restart on the store a faulted request left, lease restoration held open (c06Window)
	r.Require("window_restarts_in_restore_mode", 80)
	r.Require("window_leaseless_tokens_presented", 60)
	r.Require("window_leaseless_tokens_presented:login", 8)
	r.Require("window_leaseless_tokens_presented:create", 20)
	r.Require("window_leaseless_tokens_presented:wrapped", 30)
	r.Require("window_leaseless_secret_renew_refused", 30)
	// the error classes of a real store (c06Inj)
	r.Require("class_faults_fired", 300)
	for _, cl := range c06FwdClasses {
		r.Require("class_faults_fired:"+cl.Name, 30)
	}
	r.Require("class_faults_fired:ctx-canceled", 40)
	r.Require("class_faults_fired:ctx-deadline", 40)
	r.Require("readonly_class_lease_write_failures", 25)
	r.Require("class_fault_rolled_back", 40)
}

// c06Reduced: the reduced round of the quick tier (see TestVerif_C06_Faults).
var c06Reduced bool

func c06FaultVariant(t *testing.T, v *vCore, r *kit.Result, rng *kit.Rand, vr c06Variant, tx bool, round int) {
	base := fmt.Sprintf("fault:%v:%d:%s", tx, round, vr.Name)
	if oc := kit.OnlyCase(); oc != "" && !strings.HasPrefix(oc, base+":") {
		return // replaying a case of another variant
	}
	rng = kit.NewRand(kit.Seed(6), c06Hash(base)) // per-variant stream: a replay draws the same parameters
	var runCls *c06ErrClass                       // error class of the next run (nil = the kit's generic injected error)
	runWant := ""
	run := func(caseID string, failAt int) (fired bool, faulted kit.Event, vd c06Verdict, ok bool) {
		rng := kit.NewRand(kit.Seed(6), c06Hash(caseID)) // per-case stream: a replay draws the same parameters
		c := c06NewCase(v, vr, tx, rng)
		cls := runCls
		c.faultCls, c.noWindow = cls, cls != nil || c06Reduced
		if err := c.setup(); err != nil {
			r.Inconc("%s: fixture failed: %v", caseID, err)
			return false, faulted, vd, false
		}
		cancelLost := false
		if failAt > 0 && cls != nil {
			c06Injs[v].arm(failAt, runWant, cls.Err)
		}
		if failAt > 0 && cls == nil {
			cnt := 0
			v.Probe.FailNth(func(e kit.Event) bool {
				if e.Tag != c06Tag {
					return false
				}
				cnt++
				if cnt == failAt {
					faulted = e
					if vr.CtxDead {
						// this storage operation fails because the request's context ended
						c06CtxMounts[v].end(c.reqID)
						if vr.Cancel && c.cancel != nil {
							c.cancel()
							h := c06CtxMounts[v]
							h.mu.Lock()
							rc := h.reqCtx
							h.mu.Unlock()
							if rc != nil && rc.Value(logical.CtxKeyInFlightRequestID{}) == c.reqID {
								select { // the core propagates the cancellation asynchronously: wait until it arrived
								case <-rc.Done():
								case <-time.After(10 * time.Second):
									cancelLost = true
								}
							}
						}
					}
				}
				return true
			}, failAt)
		}
		v.Probe.StartLog(false)
		resp, err := c.request(c06Tag)
		fired = v.Probe.ClearFaults() > 0
		if cls != nil {
			var drift bool
			fired, drift = c06Injs[v].disarm()
			if drift {
				r.Count("class_fault_sequence_drift", 1)
			}
		}
		if cancelLost {
			r.Inconc("%s: the cancellation of the request context did not reach the request within the wait bound", caseID)
		}
		for _, e := range v.Probe.StopLog() {
			if e.Tag == c06Tag {
				c.ops = append(c.ops, e)
				if cls != nil && fired && e.Err != "" && faulted.Op == "" {
					faulted = e
				}
			}
		}
		fault := "none"
		if fired {
			fault = fmt.Sprintf("storage op %d of the request (%s %s) failed once", failAt, faulted.Op, c06KeyClass(faulted.Key))
			if cls != nil {
				fault += fmt.Sprintf(" with %q (error class %s)", cls.Err.Error(), cls.Name)
			}
			c.faulted = faulted
			if c.readFaultAfterLeaseWrite() {
				r.Count("read_faults_after_secret_lease_write", 1)
				if v.Opts.Cache {
					r.Count("read_faults_after_secret_lease_write:cache_on", 1)
				}
			}
			if c.postRegTokenCheckFault() {
				r.Count("post_registration_token_check_read_faults", 1)
			}
		}
		vd = c06Judge(r, c, caseID, resp, err, fault)
		if failAt == 0 {
			want := "success"
			if vr.Refused {
				want = "refusal"
			}
			got := "success"
			if vd.Delivered == "error" {
				got = "refusal"
			}
			if got != want {
				r.Inconc("%s: fault-free request ended in %s (%s), the variant expects %s", caseID, got, vErrStr(resp, err), want)
				return fired, faulted, vd, false
			}
			if vr.Refused && vd.HadEffect {
				r.Count("refusals_after_effect", 1)
			}
		}
		if r.Get("samples_taken") < 6 && (failAt == 0 || (fired && vd.HadEffect)) && rng.Chance(1, 3) {
			r.Count("samples_taken", 1)
			r.Sample(map[string]any{"case": caseID, "fault": fault, "response": vErrStr(resp, err), "client_holds": vd.Delivered,
				"rolled_back": vd.RolledBack, "undelivered_but_leased": vd.OrphanLease, "ops": c06OpsStr(c.ops)})
		}
		return fired, faulted, vd, true
	}
	// warm-up (fills policy / mount caches), then the counting run
	if _, _, _, ok := run(base+":w", 0); !ok {
		return
	}
	n := 0
	issuedAt := -1      // operations of the request that preceded the first issued secret / login (-1: none seen)
	var seq []kit.Event // the request's operations a fault can be injected at, in order
	{
		c := c06NewCase(v, vr, tx, rng)
		c.noWindow = c06Reduced
		if err := c.setup(); err != nil {
			r.Inconc("%s: fixture failed: %v", base, err)
			return
		}
		// position (in the request's own operation sequence) at which a backend first issued a secret / built a login
		v.Rec.mu.Lock()
		v.Rec.OnHandler = func(ev vRecEvent) {
			if (ev.Kind == "issued" || ev.Kind == "login") && issuedAt < 0 {
				issuedAt = 0
				for _, e := range v.Probe.Log() {
					if e.Tag == c06Tag && e.Op != "rollback" {
						issuedAt++
					}
				}
			}
		}
		v.Rec.mu.Unlock()
		v.Probe.StartLog(false)
		resp, err := c.request(c06Tag)
		v.Rec.mu.Lock()
		v.Rec.OnHandler = nil
		v.Rec.mu.Unlock()
		for _, e := range v.Probe.StopLog() {
			if e.Tag == c06Tag {
				c.ops = append(c.ops, e)
				if e.Op != "rollback" {
					seq = append(seq, e)
				}
			}
		}
		n = len(c.ops)
		c06Judge(r, c, base+":0", resp, err, "none")
		r.Count("faultfree_runs", 1)
		r.Count("request_ops_total", n)
	}
	if vr.LightQuick && kit.Tier() == "quick" && kit.OnlyCase() == "" {
		r.Count("light_variants_faultfree_only", 1)
		return
	}
	// the request's first effect: a secret issued / a login built / the first write (position in seq, 0-based)
	effectStart := len(seq)
	for i, e := range seq {
		if e.Op == "put" || e.Op == "delete" || e.Op == "commit" {
			effectStart = i
			break
		}
	}
	if issuedAt >= 0 && issuedAt < effectStart {
		effectStart = issuedAt
	}
	for i := 1; i <= n+3; i++ {
		if c06Reduced && i <= effectStart {
			continue
		}
		caseID := fmt.Sprintf("%s:%d", base, i)
		if !kit.WantCase(caseID) {
			continue
		}
		fired, faulted, vd, _ := run(caseID, i)
		r.Eval(1)
		if fired && v.Opts.Cache {
			r.Count("faults_fired:cache_on", 1)
		}
		if !fired {
			r.Count("fault_not_reached", 1)
			if i > n {
				break
			}
			continue
		}
		r.Count("faults_fired", 1)
		switch {
		case !vd.HadEffect:
			r.Count("fault_before_effect", 1)
		default:
			r.Count("fault_after_effect", 1)
			r.Nontrivial(fmt.Sprintf("%s|%v|%s|%s", vr.Name, tx, faulted.Op, c06KeyClass(faulted.Key)))
			switch {
			case vd.Delivered == "secret" || vd.Delivered == "token":
				r.Count("fault_swallowed_delivery", 1)
			case vd.RolledBack:
				r.Count("fault_rolled_back", 1)
			case vd.OrphanLease:
				r.Count("fault_left_undelivered_but_leased", 1)
			}
		}
	}

	if c06Reduced {
		return
	}
	// ---- the same operations failing with the error classes a real store produces (c06Inj). From the first
	// effect of the request on (a secret issued / a login built / the first write): every write with one of the
	// read-only / standby class errors (rotating), every commit with the commit failure, every operation with
	// a context error (alternating). The oracle is the same conservation law.
	h := int(c06Hash(base) % 16)
	for i := effectStart; i < len(seq); i++ {
		e := seq[i]
		var classes []c06ErrClass
		if e.Op == "put" || e.Op == "delete" || e.Op == "commit" {
			classes = append(classes, c06FwdClasses[(i+h)%len(c06FwdClasses)])
		}
		if e.Op == "commit" {
			classes = append(classes, c06CommitClass)
		}
		if kit.Tier() != "quick" || (i+h)%2 == 0 || kit.OnlyCase() != "" {
			// (quick: every other operation)
			classes = append(classes, c06CtxClasses[((i+h)/2)%len(c06CtxClasses)])
		}
		for ci := range classes {
			cls := classes[ci]
			caseID := fmt.Sprintf("%s:%d:%s", base, i+1, cls.Name)
			if !kit.WantCase(caseID) {
				continue
			}
			runCls, runWant = &cls, e.Op
			fired, faulted, vd, _ := run(caseID, i+1)
			runCls, runWant = nil, ""
			r.Eval(1)
			if !fired {
				r.Count("class_fault_not_reached", 1)
				continue
			}
			r.Count("class_faults_fired", 1)
			r.Count("class_faults_fired:"+cls.Name, 1)
			if vd.HadEffect {
				r.Count("class_fault_after_effect", 1)
				r.Nontrivial(fmt.Sprintf("%s|%v|%s|%s|%s", vr.Name, tx, faulted.Op, c06KeyClass(faulted.Key), cls.Name))
				if vd.RolledBack {
					r.Count("class_fault_rolled_back", 1)
					r.Count("class_fault_rolled_back:"+cls.Name, 1)
				}
			}
			if cls.Forward && vr.Kind == "secret" && (&c06Case{faulted: faulted}).leaseWriteFault() && faulted.Op != "commit" {
				r.Count("readonly_class_lease_write_failures", 1)
			}
		}
	}
}

// ------------------------------------------------------------------ crash after every write prefix

func c06WaitRestored(v *vCore) bool {
	for i := 0; i < 800; i++ {
		if !v.Core.expiration.inRestoreMode() {
			return true
		}
		time.Sleep(25 * time.Millisecond)
	}
	return false
}

func c06JournalKeys(j []kit.Mutation) []string {
	var out []string
	for _, m := range j {
		for _, w := range m.Writes {
			op := "put "
			if w.Delete {
				op = "del "
			}
			out = append(out, op+c06KeyClass(w.Key))
		}
	}
	return out
}

func TestVerif_C06_Crash(t *testing.T) {
	seed := kit.Seed(6)
	shard, _ := kit.Shard()
	r := kit.NewResult(t, "c06-crash", seed, "for each request variant x store kind the request runs to completion on a journaling store; for every prefix k of the durable writes made during the request a new core (same seal) is booted on the store as a crash after k writes leaves it, lease restoration is awaited, and the stored state is judged: a token-index entry never exists without its lease record, every stored lease is tracked after restore, every durable lease of an issued secret can be revoked and the revocation reaches the backend, no token entry without a lease record is usable (non-expiring root tokens are reported, see notes), and at the full journal everything the client received is durable (lease, index, usable token). Every (variant, store, k) is a distinct case")
	r.Exhaustive = true
	defer r.Write(t)
	vars := c06Pick(c06Variants())
	for ti, tx := range []bool{false, true} {
		v := c06Boot(t, tx, false)
		rng := kit.NewRand(seed, uint64(500000+shard*10)*2+map[bool]uint64{true: 1, false: 0}[tx])
		c06Populate(t, v, rng)
		for vi, vr := range vars {
			if kit.Tier() == "quick" && (vi+ti)%2 != 0 && kit.OnlyCase() == "" {
				continue // quick: each variant on one of the two store kinds
			}
			if vr.CtxDead {
				continue // same write sequence as the plain variants
			}
			if vr.LightQuick && kit.Tier() == "quick" && kit.OnlyCase() == "" {
				continue
			}
			if vr.Caller == "lastuse" {
				// the registration part equals the "service" variants; the rest of its write sequence is the
				// asynchronous revocation of the token and its leases, which belongs to C04 / C19
				continue
			}
			c06CrashVariant(t, v, r, rng, vr, tx)
			if c06Unclassified(r) > 40 {
				return
			}
		}
		v.Close()
	}
	r.Require("prefixes_checked", 60)
	r.Require("crash_lease_before_index", 3)
	r.Require("crash_token_entry_before_lease", 3)
	r.Require("crash_durable_lease_revocations", 10)
	r.Require("crash_full_journal_delivery_checks", 10)
	r.Require("crash_tracked_lease_checks", 200)
	// the same write prefixes restarted with lease restoration held open (c06Window)
	r.Require("window_restarts_in_restore_mode", 30)
	r.Require("window_leaseless_tokens_presented", 20)
	r.Require("window_leaseless_tokens_presented:login", 2)
	r.Require("window_leaseless_tokens_presented:create", 3)
	r.Require("window_leaseless_tokens_presented:wrapped", 10)
	r.Require("window_control_leased_token_accepted", 5)
	r.Require("window_leaseless_secret_renew_refused", 4)
}

func c06CrashVariant(t *testing.T, v *vCore, r *kit.Result, rng *kit.Rand, vr c06Variant, tx bool) {
	base := fmt.Sprintf("crash:%v:%s", tx, vr.Name)
	if oc := kit.OnlyCase(); oc != "" && !strings.HasPrefix(oc, base+":") {
		return // replaying a case of another variant
	}
	rng = kit.NewRand(kit.Seed(6), c06Hash(base)) // per-variant stream: a replay draws the same parameters
	c := c06NewCase(v, vr, tx, rng)
	if err := c.setup(); err != nil {
		r.Inconc("%s: fixture failed: %v", base, err)
		return
	}
	v.WaitQuiet(10*time.Millisecond, time.Second)
	v.Probe.StartJournal()
	resp, err := c.request(c06Tag)
	v.WaitQuiet(20*time.Millisecond, 2*time.Second)
	j := v.Probe.StopJournal()
	evs := v.Rec.Since(c.recMark)
	issued := c06RecIDs(evs, "issued")
	// what did the client receive (learned on the original core; the journal is closed)
	s1, serr := c06Scan(v)
	if serr != nil {
		r.Inconc("%s: scan failed: %v", base, serr)
		return
	}
	pay := c06Delivered(resp, err)
	held := pay
	wrapAcc := ""
	if pay.How == "wrapped" {
		wrapAcc = pay.WrapAcc
		if hr, uerr := c06Unwrap(v, pay.WrapToken, vr.NS); uerr == nil {
			held = c06FromUnwrapped(hr)
		} else {
			r.Inconc("%s: unwrap on the original core failed: %v", base, uerr)
			return
		}
	}
	if (held.How == "error") != vr.Refused && vr.Caller != "lastuse" {
		r.Inconc("%s: fault-free request ended unexpectedly: %s", base, vErrStr(resp, err))
		return
	}
	var heldInternal string
	if held.How == "token" && !held.Batch {
		if te := s1.tokenByAccessor(held.Accessor); te != nil {
			heldInternal = te.ID
		}
	}
	jk := c06JournalKeys(j)
	for k := 0; k <= len(j); k++ {
		caseID := fmt.Sprintf("%s:%d", base, k)
		if !kit.WantCase(caseID) {
			continue
		}
		r.Eval(1)
		r.Nontrivial(caseID)
		wit := map[string]any{"variant": vr.Name, "transactional": tx, "prefix": k, "journal": jk, "response": vErrStr(resp, err), "backend_issued": issued}
		viol := func(class, what string) {
			r.Violate(class, caseID, fmt.Sprintf("[%s] %s, crash after %d of %d writes: %s", caseID, vr.Name, k, len(j), what), wit)
		}
		phys, _ := kit.NewProbe(v.Probe.Materialise(k, tx))
		v2, berr := v.RestartOn(phys)
		if berr != nil {
			viol("C06-crash-restart-failed", "the core does not come up on this write prefix: "+berr.Error())
			if v2 != nil {
				v2.Close()
			}
			continue
		}
		r.Count("restarts", 1)
		if !c06WaitRestored(v2) {
			r.Inconc("%s: lease restoration did not finish within the wait bound", caseID)
			v2.Close()
			continue
		}
		sk, _, why := c06Settle(v2)
		if sk == nil {
			r.Inconc("%s: restarted core: %s", caseID, why)
			v2.Close()
			continue
		}
		r.Count("prefixes_checked", 1)
		nl, ni, nt, _ := sk.newKeys(c.s0)
		wit["new_lease_records"], wit["new_index_entries"], wit["new_token_entries"] = nl, ni, nt
		// index => lease
		for key, lid := range sk.Index {
			if sk.leaseByID(lid) == nil {
				viol("C06-crash-index-without-lease", fmt.Sprintf("token-index entry %s points to lease %q for which no record is stored", c06KeyClass(key), lid))
			}
		}
		// every stored lease is tracked after restore
		for _, l := range sk.Leases {
			r.Count("crash_tracked_lease_checks", 1)
			if !c06Tracked(v2, l.LeaseID) {
				viol("C06-crash-stored-lease-not-tracked", fmt.Sprintf("lease record %s is stored but the restarted expiration manager does not track it", l.LeaseID))
			}
		}
		// what the client received is durable at the full journal
		if k == len(j) {
			switch held.How {
			case "secret":
				ls := sk.leasesForSecret(held.SecretID)
				switch {
				case len(ls) != 1 || ls[0].LeaseID != held.LeaseID:
					viol("C06-delivered-lease-not-durable", fmt.Sprintf("the client holds secret %s / lease %s but the store after a restart has %d lease records for it", held.SecretID, held.LeaseID, len(ls)))
				case vr.Caller != "batch-orphan" && len(sk.indexFor(held.LeaseID)) != 1:
					viol("C06-delivered-index-not-durable", fmt.Sprintf("the client holds lease %s but the store after a restart has %d token-index entries for it", held.LeaseID, len(sk.indexFor(held.LeaseID))))
				default:
					r.Count("crash_full_journal_delivery_checks", 1)
				}
			case "token":
				if held.Batch {
					if !v2.TokenUsable(held.Token, vr.NS) {
						r.Note("%s: delivered batch token not usable after restart", caseID)
					}
				} else {
					switch {
					case heldInternal == "" || sk.leaseForToken(heldInternal) == nil:
						viol("C06-delivered-token-lease-not-durable", "the client holds a service token but the store after a restart has no lease record for it")
					case sk.tokenByAccessor(held.Accessor) != nil && c06LeaseAtItsID(v2, sk, sk.tokenByAccessor(held.Accessor)) != "":
						viol(c06ClassLeaseID, "the client holds a service token; after a restart on the complete journal "+c06LeaseAtItsID(v2, sk, sk.tokenByAccessor(held.Accessor)))
					case !v2.TokenUsable(held.Token, vr.NS):
						viol("C06-delivered-token-not-durable", "the client holds a service token which is refused after a restart on the complete journal")
					default:
						r.Count("crash_full_journal_delivery_checks", 1)
					}
				}
			}
		}
		// tokens left by the interrupted request
		var winToks []c06WinTok
		var winSecs []c06WinSec
		for _, key := range nt {
			te := sk.Tokens[key]
			if l := sk.leaseForToken(te.ID); l != nil {
				r.Count("crash_token_with_lease", 1)
				continue
			}
			r.Count("crash_token_entry_before_lease", 1)
			if !c06NonexpiringRoot(te) && te.NumUses >= 0 {
				winToks = append(winToks, c06WinTok{ID: te.ID, Accessor: te.Accessor, NSID: te.NamespaceID, Policies: te.Policies, Flow: c06Flow(vr, te)})
			}
			usable := v2.TokenUsable(te.ID, vr.NS)
			switch {
			case usable && c06NonexpiringRoot(te):
				// lookupInternal documents that a root token with unlimited TTL "may or may not have
				// a lease ... it's allowed"; the id was never handed out. Reported, not judged.
				r.Count("crash_nonexpiring_root_usable_without_lease", 1)
				r.Note("%s: crash between the token entry and its lease record leaves a usable non-expiring root token without lease (id never returned to a client; such tokens are documented as valid without lease)", caseID)
			case usable:
				viol("C06-crash-usable-token-without-lease", fmt.Sprintf("token entry %s (policies %v, ttl %s) has no lease record in the store and is usable after restart", c06KeyClass(key), te.Policies, te.TTL))
			default:
				r.Count("crash_leaseless_token_refused", 1)
			}
			if te.Accessor == wrapAcc {
				r.Count("crash_wrapping_token_before_lease", 1)
			}
		}
		// secrets issued by the interrupted request: any durable lease must be able to revoke them
		for _, s := range issued {
			ls := sk.leasesForSecret(s)
			if len(ls) == 0 {
				r.Count("crash_secret_issued_no_lease_written_yet", 1)
				// the lease id is known from the complete run
				for _, l := range s1.leasesForSecret(s) {
					winSecs = append(winSecs, c06WinSec{LeaseID: l.LeaseID, NS: l.NS})
				}
				continue
			}
			if len(ls) > 1 {
				viol("C06-duplicate-lease", fmt.Sprintf("secret %s has %d lease records", s, len(ls)))
			}
			l := ls[0]
			if len(sk.indexFor(l.LeaseID)) == 0 && vr.Caller != "batch-orphan" {
				r.Count("crash_lease_before_index", 1)
			}
			mark := v2.Rec.Len()
			rr, e2 := v2.Do(vReq{Op: logical.UpdateOperation, Path: "sys/leases/revoke", Token: v2.Root, NS: l.NS, Data: map[string]any{"lease_id": l.LeaseID, "sync": true}})
			switch {
			case !vOK(rr, e2):
				viol("C06-crash-durable-lease-not-revocable", fmt.Sprintf("lease %s of secret %s is stored but cannot be revoked after restart: %s", l.LeaseID, s, vErrStr(rr, e2)))
			case !c06Has(c06RecIDs(v2.Rec.Since(mark), "revoked"), s):
				viol("C06-crash-durable-lease-not-revocable", fmt.Sprintf("lease %s was revoked after restart but the backend saw no revocation of secret %s", l.LeaseID, s))
			default:
				r.Count("crash_durable_lease_revocations", 1)
			}
		}
		v2.Close()
		// the same write prefix once more, restarted with lease restoration held open: what has no lease record
		// must be refused inside the restoration window too. At the full journal what the client received (with
		// its durable lease) is presented as the control.
		if k == len(j) {
			switch {
			case held.How == "token" && !held.Batch && heldInternal != "" && sk.leaseForToken(heldInternal) != nil:
				if te := sk.tokenByAccessor(held.Accessor); te != nil {
					winToks = append(winToks, c06WinTok{ID: te.ID, Accessor: te.Accessor, NSID: te.NamespaceID, Policies: te.Policies, Flow: c06Flow(vr, te), Control: true})
				}
			case held.How == "secret":
				if l := sk.leaseByID(held.LeaseID); l != nil {
					winSecs = append(winSecs, c06WinSec{LeaseID: l.LeaseID, NS: l.NS, Control: true})
				}
			}
		}
		if len(winToks)+len(winSecs) > 0 {
			r.Count("window_cases", 1)
			phys2 := v.Probe.Materialise(k, tx)
			c06Window(r, v, caseID, phys2, vr.NS, winToks, winSecs, "C06-crash-usable-token-without-lease", func(class, what string, extra map[string]any) {
				w2 := map[string]any{}
				for key, x := range wit {
					w2[key] = x
				}
				for key, x := range extra {
					w2[key] = x
				}
				r.Violate(class, caseID, fmt.Sprintf("[%s] %s, crash after %d of %d writes: %s", caseID, vr.Name, k, len(j), what), w2)
			})
		}
	}
	if r.Get("samples_taken") < 6 {
		r.Count("samples_taken", 1)
		r.Sample(map[string]any{"variant": vr.Name, "transactional": tx, "journal": jk, "response": vErrStr(resp, err), "client_holds": held.How})
	}
	// clean the original core
	c.cleanup(r, base, s1, held, issued)
}

// ------------------------------------------------------------------ tokens at the end of their lifetime
//
// A request is authorised with a token that is valid, and the token's lifetime ends while the secrets
// engine is generating the credential (c06CtxMount.afterIssue keeps the handler from returning until the
// token store itself reports the token gone). Whatever the core then does with the credential, the
// conservation law holds: it is covered by a durable lease record (which, clamped to the token's
// lifetime, is revoked at once) or it is revoked at the backend. The verdict is taken from the state at
// the moment the request returns; a bounded wait only ever turns "neither yet" into a pass, never the
// reverse, and a credential that is neither leased nor revoked when the wait is over is the violation.

type c06EdgeSpec struct {
	Name string
	Kind string // batch-child | batch-orphan | service-short
	NS   string
	Wrap bool
	Tx   bool
}

type c06EdgeRun struct {
	spec c06EdgeSpec
	v    *vCore
}

func c06EdgeSpecs() []c06EdgeSpec {
	var out []c06EdgeSpec
	quick := map[string]bool{
		"batch-child/ns=/wrap=false/tx=false":     true,
		"batch-orphan/ns=/wrap=false/tx=true":     true,
		"batch-child/ns=ns1//wrap=true/tx=true":   true,
		"service-short/ns=/wrap=false/tx=false":   true,
		"batch-orphan/ns=ns1//wrap=true/tx=false": true,
	}
	for _, kind := range []string{"batch-child", "batch-orphan", "service-short"} {
		for _, ns := range []string{"", "ns1/"} {
			for _, wrap := range []bool{false, true} {
				for _, tx := range []bool{false, true} {
					sp := c06EdgeSpec{Kind: kind, NS: ns, Wrap: wrap, Tx: tx}
					sp.Name = fmt.Sprintf("%s/ns=%s/wrap=%v/tx=%v", kind, ns, wrap, tx)
					if kit.Tier() == "quick" && !quick[sp.Name] {
						continue
					}
					out = append(out, sp)
				}
			}
		}
	}
	return out
}

func TestVerif_C06_Edge(t *testing.T) {
	seed := kit.Seed(6)
	shard, shards := kit.Shard()
	r := kit.NewResult(t, "c06-edge", seed, "for each token kind (batch child, orphan batch, short-lived service token) x namespace x wrapped/unwrapped x store kind: a leased read is made with a token of 2s lifetime on a mount whose handler, having issued the credential, does not return before the token store reports the token gone (bounded); when the request returns, and after a bounded wait, every credential the backend issued must be covered by a durable lease record or be revoked at the backend. A case counts when the handler ran (the token was valid at authorisation) and the token's end was observed inside the handler")
	defer r.Write(t)
	var runs []*c06EdgeRun
	for _, sp := range c06EdgeSpecs() {
		caseID := "edge:" + sp.Name
		if !kit.WantCase(caseID) || int(c06Hash(sp.Name)%uint64(shards)) != shard {
			continue
		}
		runs = append(runs, &c06EdgeRun{spec: sp, v: c06Boot(t, sp.Tx, false)}) // cores are booted one after the other
	}
	// the cases spend their time waiting for a token to run out: they run side by side, one core each
	var wg sync.WaitGroup
	for _, er := range runs {
		wg.Add(1)
		go func(er *c06EdgeRun) {
			defer wg.Done()
			c06EdgeCase(r, er, kit.NewRand(seed, c06Hash("edge:"+er.spec.Name)))
		}(er)
	}
	wg.Wait()
	for _, er := range runs {
		er.v.Close()
		delete(c06Injs, er.v)
		delete(c06CtxMounts, er.v)
	}
	if kit.OnlyCase() == "" {
		r.Require("edge_cases_exercised", 3)
		r.Require("edge_cases_exercised:batch", 2)
		r.Require("edge_credential_leased_or_revoked", 3)
	}
}

func c06EdgeCase(r *kit.Result, er *c06EdgeRun, rng *kit.Rand) {
	v, sp := er.v, er.spec
	caseID := "edge:" + sp.Name
	r.Eval(1)
	name := "e" + rng.Canary()[4:12]
	const ttl = "2s"
	// ---- the token
	var tok string
	switch sp.Kind {
	case "batch-child":
		p, resp, err := v.CreateToken(v.Root, map[string]any{"policies": []string{"c06"}, "ttl": "1h"}, false, sp.NS)
		if p == nil {
			r.Inconc("%s: parent token: %s", caseID, vErrStr(resp, err))
			return
		}
		resp, err = v.Do(vReq{Op: logical.UpdateOperation, Path: "auth/token/create", Token: p.ID, NS: sp.NS, Data: map[string]any{"type": "batch", "policies": []string{"c06"}, "ttl": ttl}})
		if !vOK(resp, err) || resp == nil || resp.Auth == nil {
			r.Inconc("%s: batch child token: %s", caseID, vErrStr(resp, err))
			return
		}
		tok = resp.Auth.ClientToken
	case "batch-orphan":
		resp, err := v.Do(vReq{Op: logical.UpdateOperation, Path: "auth/c06auth/login/edge", NS: sp.NS, Data: map[string]any{"policies": []string{"c06"}, "ttl": ttl, "token_type": "batch"}})
		if !vOK(resp, err) || resp == nil || resp.Auth == nil {
			r.Inconc("%s: batch login: %s", caseID, vErrStr(resp, err))
			return
		}
		tok = resp.Auth.ClientToken
	case "service-short":
		p, resp, err := v.CreateToken(v.Root, map[string]any{"policies": []string{"c06"}, "ttl": ttl}, false, sp.NS)
		if p == nil {
			r.Inconc("%s: short-lived token: %s", caseID, vErrStr(resp, err))
			return
		}
		tok = p.ID
	}
	nsCtx := namespace.RootContext(context.Background())
	for _, nn := range c06Namespaces(v) {
		if nn.Path == sp.NS {
			nsCtx = namespace.ContextWithNamespace(context.Background(), nn)
		}
	}
	// ---- the slow handler: returns once the token store says the token is gone
	var hookMu sync.Mutex
	handlerRan, goneSeen := false, false
	var waited time.Duration
	h := c06CtxMounts[v]
	h.mu.Lock()
	h.afterIssue = func(req *logical.Request) {
		if !strings.HasSuffix(req.Path, name) {
			return
		}
		t0 := time.Now()
		gone := false
		for i := 0; i < 1500 && !gone; i++ {
			te, err := v.Core.tokenStore.Lookup(nsCtx, tok)
			if err == nil && te == nil {
				gone = true
				break
			}
			time.Sleep(10 * time.Millisecond)
		}
		time.Sleep(20 * time.Millisecond)
		hookMu.Lock()
		handlerRan, goneSeen, waited = true, gone, time.Since(t0)
		hookMu.Unlock()
	}
	h.mu.Unlock()
	mark := v.Rec.Len()
	rq := vReq{Op: logical.ReadOperation, Path: "c06ctx/lease/" + name, Token: tok, NS: sp.NS}
	if sp.Wrap {
		rq.WrapTTL = 5 * time.Minute
	}
	resp, err := c06Do(v, rq, "c06-edge-"+name)
	h.mu.Lock()
	h.afterIssue = nil
	h.mu.Unlock()
	hookMu.Lock()
	ran, gone, w := handlerRan, goneSeen, waited
	hookMu.Unlock()
	issued := c06RecIDs(v.Rec.Since(mark), "issued")
	if !ran || len(issued) == 0 {
		// the token ran out before the request was authorised (or the request was refused): nothing was issued
		r.Count("edge_handler_not_reached", 1)
		r.Note("%s: the handler did not run (%s)", caseID, vErrStr(resp, err))
		return
	}
	if !gone {
		r.Count("edge_token_end_not_observed", 1)
		return
	}
	r.Count("edge_cases_exercised", 1)
	kind := "batch"
	if sp.Kind == "service-short" {
		kind = "service"
	}
	r.Count("edge_cases_exercised:"+kind, 1)
	r.Nontrivial(sp.Name)
	// ---- what the client holds
	held := c06Delivered(resp, err)
	if held.How == "wrapped" {
		if hr, uerr := c06Unwrap(v, held.WrapToken, sp.NS); uerr == nil {
			held = c06FromUnwrapped(hr)
		} else {
			held = c06Payload{How: "error"}
			r.Note("%s: the wrapped response cannot be unwrapped: %v", caseID, uerr)
		}
	}
	r.Count("edge_client_holds:"+held.How, 1)
	// ---- conservation, at return and (only to let a revocation in flight land) after a bounded wait
	state := func() (leased, revoked []string, neither []string) {
		sn, serr := c06Scan(v)
		rev := c06RecIDs(v.Rec.Since(mark), "revoked")
		for _, s := range issued {
			switch {
			case c06Has(rev, s):
				revoked = append(revoked, s)
			case serr == nil && len(sn.leasesForSecret(s)) > 0:
				leased = append(leased, s)
			default:
				neither = append(neither, s)
			}
		}
		return
	}
	leased, revoked, neither := state()
	atReturn := map[string]any{"leased": leased, "revoked_at_backend": revoked, "neither": neither}
	for i := 0; i < 200 && len(neither) > 0; i++ {
		time.Sleep(25 * time.Millisecond)
		leased, revoked, neither = state()
	}
	wit := map[string]any{"case": sp.Name, "token_kind": sp.Kind, "token_ttl": ttl, "handler_waited_ms": w.Milliseconds(), "response": vErrStr(resp, err),
		"client_holds": held.How, "backend_issued": issued, "at_return": atReturn, "after_wait": map[string]any{"leased": leased, "revoked_at_backend": revoked, "neither": neither}}
	if len(neither) > 0 {
		class := "C06-secret-neither-leased-nor-revoked-at-token-lifetime-edge"
		if kind == "batch" && (held.How == "error" || held.How == "empty") {
			class = c06ClassEdgeBatch
		}
		r.Violate(class, caseID, fmt.Sprintf("[%s] a leased read made with a %s token (ttl %s) whose lifetime ended while the backend generated the credential: response %s, credential %v was issued by the backend and is neither covered by a lease record nor revoked at the backend (5s after the request returned)", caseID, sp.Kind, ttl, vErrStr(resp, err), neither), wit)
		return
	}
	r.Count("edge_credential_leased_or_revoked", len(issued))
	if held.How == "secret" && !c06Has(issued, held.SecretID) {
		r.Violate("C06-harness-unknown-secret", caseID, "the client holds a secret the backend did not issue in this request", wit)
	}
	// a lease clamped to the ended lifetime of a batch token is revoked at once; a bounded wait, reported only
	for i := 0; i < 400 && len(leased) > 0 && kind == "batch"; i++ {
		time.Sleep(25 * time.Millisecond)
		leased, revoked, _ = state()
	}
	switch {
	case len(leased) == 0:
		r.Count("edge_credential_revoked_at_backend", len(revoked))
	case kind == "batch":
		r.Count("edge_batch_lease_still_live_after_wait", len(leased))
		r.Note("%s: the lease of a credential issued to an ended batch token is durable but was not revoked within 10s", caseID)
	default:
		// the lease of a service token that was revoked meanwhile: durable (C06 holds); whether it outlives its token is C04's question
		r.Count("edge_service_lease_registered_after_token_ended", len(leased))
	}
	if r.Get("edge_samples") < 3 {
		r.Count("edge_samples", 1)
		r.Sample(wit)
	}
}

// ------------------------------------------------------------------ hostile names
//
// The core decides several things from the text of the request path (is this a renewal? a login? a
// create?). A token role, a login name or a secret path may be called like one of the token store's own
// endpoints. Whatever the name, the property is the same: the service token / secret the client
// receives has its durable lease (the token's at the lease id the product derives for it) and works at
// once. Fault-free requests; one core per store kind.

func c06HostileNames() []string {
	words := []string{"renew", "renew-self", "renew-accessor", "create", "create-orphan", "lookup", "lookup-self", "lookup-accessor",
		"revoke", "revoke-self", "revoke-orphan", "revoke-accessor", "roles", "tidy", "accessors"}
	out := append([]string(nil), words...)
	// the words as prefix / suffix, upper case, with dots and dashes
	out = append(out, "renewal", "xrenew", "renew-x", "x-renew", "RENEW", "Renew-Self", "renew.self", "a.renew", "renew.x", "re-new", "x.renew-accessor", "create.renew", "roles-renew")
	return out
}

func TestVerif_C06_Names(t *testing.T) {
	seed := kit.Seed(6)
	shard, shards := kit.Shard()
	r := kit.NewResult(t, "c06-names", seed, "for each name that is, contains, or resembles an endpoint of the token store (renew, renew-self, renew-accessor, create, create-orphan, lookup*, revoke*, roles, tidy, accessors; as prefix / suffix; upper case; with dots and dashes) x namespace (root, ns1/) x wrapped / unwrapped: a token role of that name is created and a token is created through it, a login is made under that name, and a leased secret is read at a path ending in that name (fault-free); the service token / secret the client receives must have its durable lease record (the token's where the expiration manager derives it) and index entry, and the token must be accepted at once. Distinct by (kind, name, namespace, wrap)")
	r.Exhaustive = true
	defer r.Write(t)
	cores := map[bool]*vCore{}
	defer func() {
		for _, v := range cores {
			v.Close()
			delete(c06Injs, v)
			delete(c06CtxMounts, v)
		}
	}()
	n := 0
	for _, name := range c06HostileNames() {
		for _, ns := range []string{"", "ns1/"} {
			for _, wrap := range []bool{false, true} {
				for _, kind := range []string{"role", "login", "secret"} {
					caseID := fmt.Sprintf("names:%s:%s:ns=%s:wrap=%v", kind, name, ns, wrap)
					h := c06Hash(caseID)
					if !kit.WantCase(caseID) || int(h%uint64(shards)) != shard {
						continue
					}
					if kit.Tier() == "quick" && kind != "role" && (ns != "" || wrap) && kit.OnlyCase() == "" {
						continue // quick: logins and secret paths in the root namespace, unwrapped
					}
					tx := (h/7)%2 == 1
					v := cores[tx]
					if v == nil {
						v = c06Boot(t, tx, false)
						cores[tx] = v
					}
					n++
					c06NameCase(r, v, caseID, kind, name, ns, wrap, tx)
					if r.NViolations() > 40 {
						return
					}
				}
			}
		}
	}
	if kit.OnlyCase() == "" {
		r.Require("names_role_tokens_lease_at_its_id", int64(kit.N(80, 15)))
		r.Require("names_login_tokens_lease_at_its_id", int64(kit.N(20, 15)))
		r.Require("names_secrets_leased", int64(kit.N(20, 15)))
		r.Require("names_tokens_accepted_at_once", int64(kit.N(100, 30)))
	}
}

func c06NameCase(r *kit.Result, v *vCore, caseID, kind, name, ns string, wrap, tx bool) {
	r.Eval(1)
	r.Nontrivial(fmt.Sprintf("%s|%s|%s|%v", kind, name, ns, wrap))
	wit := map[string]any{"kind": kind, "name": name, "namespace": ns, "wrapped": wrap, "transactional": tx}
	viol := func(class, what string) {
		r.Violate(class, caseID, fmt.Sprintf("[%s] %s named %q, namespace %q, wrapped %v: %s", caseID, kind, name, ns, wrap, what), wit)
	}
	// the requesting token
	caller, cresp, cerr := v.CreateToken(v.Root, map[string]any{"policies": []string{"c06"}, "ttl": "1h"}, false, ns)
	if caller == nil {
		r.Inconc("%s: requesting token: %s", caseID, vErrStr(cresp, cerr))
		return
	}
	defer v.Do(vReq{Op: logical.UpdateOperation, Path: "auth/token/revoke", Token: v.Root, NS: ns, Data: map[string]any{"token": caller.ID}})
	rq := vReq{NS: ns, Token: caller.ID, Op: logical.UpdateOperation}
	if wrap {
		rq.WrapTTL = 5 * time.Minute
	}
	switch kind {
	case "role":
		rr, e := v.Do(vReq{Op: logical.UpdateOperation, Path: "auth/token/roles/" + name, Token: v.Root, NS: ns, Data: map[string]any{"allowed_policies": "c06,default"}})
		if !vOK(rr, e) {
			r.Count("names_role_name_refused", 1)
			r.Note("%s: the role name is refused: %s", caseID, vErrStr(rr, e))
			return
		}
		rq.Path = "auth/token/create/" + name
		rq.Data = map[string]any{"policies": []string{"c06"}, "ttl": "30m"}
	case "login":
		rq.Token = ""
		rq.Path = "auth/c06auth/login/" + name
		rq.Data = map[string]any{"policies": []string{"c06"}, "ttl": "30m", "token_type": "service"}
	case "secret":
		rq.Op = logical.ReadOperation
		rq.Path = "c06rec/lease/" + name
		if c06Hash(caseID)%3 == 0 {
			rq.Path = "c06rec/lease/x/" + name
		}
	}
	mark := v.Rec.Len()
	resp, err := c06Do(v, rq, "")
	wit["response"] = vErrStr(resp, err)
	pay := c06Delivered(resp, err)
	held := pay
	if pay.How == "wrapped" {
		hr, uerr := c06Unwrap(v, pay.WrapToken, ns)
		if uerr != nil {
			viol("C06-delivered-wrapping-token-dead", "the client received a wrapping token but unwrapping it fails: "+uerr.Error())
			return
		}
		held = c06FromUnwrapped(hr)
	}
	wit["client_holds"] = held.How
	sn, serr := c06Scan(v)
	if serr != nil {
		r.Inconc("%s: scan failed: %v", caseID, serr)
		return
	}
	switch {
	case kind == "secret":
		if held.How != "secret" {
			r.Count("names_request_refused", 1)
			r.Note("%s: the fault-free read is refused: %s", caseID, vErrStr(resp, err))
			return
		}
		l := sn.leaseByID(held.LeaseID)
		switch {
		case l == nil || l.Auth != nil || l.secretID() != held.SecretID:
			viol("C06-delivered-secret-without-durable-lease", fmt.Sprintf("the client holds secret %s with lease id %q and no lease record exists for it", held.SecretID, held.LeaseID))
		case len(sn.indexFor(l.LeaseID)) != 1:
			viol("C06-lease-without-token-index", fmt.Sprintf("the client holds lease %s which has %d token-index entries", l.LeaseID, len(sn.indexFor(l.LeaseID))))
		case !c06Tracked(v, l.LeaseID):
			viol("C06-lease-not-tracked", "the delivered secret's lease record is stored but not tracked by the expiration manager")
		default:
			r.Count("names_secrets_leased", 1)
		}
		if l != nil {
			rr, e2 := v.Do(vReq{Op: logical.UpdateOperation, Path: "sys/leases/revoke", Token: v.Root, NS: l.NS, Data: map[string]any{"lease_id": l.LeaseID, "sync": true}})
			if !vOK(rr, e2) || !c06Has(c06RecIDs(v.Rec.Since(mark), "revoked"), held.SecretID) {
				viol("C06-lease-revocation-misses-backend", fmt.Sprintf("revoking lease %s: %s; the backend saw no revocation of %s", l.LeaseID, vErrStr(rr, e2), held.SecretID))
			}
		}
	default:
		if held.How != "token" || held.Batch {
			r.Count("names_request_refused", 1)
			r.Note("%s: the fault-free request did not return a service token: %s", caseID, vErrStr(resp, err))
			return
		}
		te := sn.tokenByAccessor(held.Accessor)
		ok := false
		switch {
		case te == nil:
			viol("C06-delivered-token-without-durable-lease", "the client holds a service token but no token entry with its accessor is stored")
		case sn.leaseForToken(te.ID) == nil:
			wit["request_path"] = rq.Path
			viol(c06ClassLeaseID, "the client holds a service token and no lease record at all names it (the expiration manager has nothing at its lease id either: "+c06LeaseAtItsID(v, sn, te)+")")
		case c06LeaseAtItsID(v, sn, te) != "":
			viol(c06ClassLeaseID, "the client holds a service token; "+c06LeaseAtItsID(v, sn, te))
		case !c06Tracked(v, sn.leaseForToken(te.ID).LeaseID):
			viol("C06-lease-not-tracked", "the delivered token's lease record is stored but not tracked by the expiration manager")
		default:
			ok = true
			r.Count("names_"+kind+"_tokens_lease_at_its_id", 1)
		}
		if v.TokenUsable(held.Token, ns) {
			r.Count("names_tokens_accepted_at_once", 1)
		} else if ok {
			viol("C06-delivered-token-not-usable", "the client holds a service token with a durable lease and its first use (auth/token/lookup-self) is refused")
		}
		v.Do(vReq{Op: logical.UpdateOperation, Path: "auth/token/revoke", Token: v.Root, NS: ns, Data: map[string]any{"token": held.Token}})
	}
	if r.Get("names_samples") < 3 && c06Hash(caseID)%9 == 0 {
		r.Count("names_samples", 1)
		r.Sample(wit)
	}
}
