//go:build verif

package vault

// C14, v1 -> v2 upgrade path (internal/builtin/logical/kv/upgrade.go).
//
// TestVerif_C14_Upgrade mounts the kv engine non-versioned, stores a generated
// set of nested keys with canary values, and switches the mount to version 2
// the way an operator does (sys/mounts/<m>/tune options version=2). The
// background conversion is observed through the probe store:
//
//   fault-free   the conversion's storage operations are counted (every operation
//                performed on the conversion goroutine, recognised by its function
//                on the call stack; fallback: operations of untagged goroutines
//                under the mount's storage prefix plus untagged transaction
//                begin/commit); afterwards every original value must be version 1
//                of its key
//   crash        for every prefix of the durable writes made since the tune
//                request started, a second core is booted on a store holding
//                exactly that prefix (process crash), and once the mount serves
//                requests every original value must be there
//   fault i      a fresh instance where operation i of the conversion fails once;
//                then a seeded client sequence (reads, writes, cas writes, wrong
//                cas writes, patches, deletes, metadata reads), a restart
//                (shutdown + boot on the same store: the conversion runs again),
//                a bounded wait until the mount serves requests, and a read-back
//                of every key and version, followed by more writes
//
// The oracle is a per-key reference written from the property: the value the
// key held before the switch is version 1; every ACKNOWLEDGED write gets the
// next consecutive number and is what later reads of that number return, also
// after the restart; refusing a request while the conversion is unfinished is
// always allowed.

import (
	"fmt"
	"runtime"
	"sort"
	"strconv"
	"strings"
	"sync/atomic"
	"testing"
	"time"

	kit "github.com/openbao/openbao/sdk/v2/helper/verifkit"
	"github.com/openbao/openbao/sdk/v2/logical"
	"github.com/openbao/openbao/v2/internal/builtin/logical/kv"
	"github.com/openbao/openbao/v2/internal/helper/namespace"
)

const (
	c14upClsAckLost   = "C14-upgrade-acknowledged-write-lost"
	c14upClsV1Lost    = "C14-upgrade-v1-data-lost"
	c14upClsChanged   = "C14-upgrade-version-content-changed"
	c14upClsWrongRead = "C14-upgrade-read-wrong-value"
	c14upClsNotConsec = "C14-upgrade-version-not-consecutive"
	c14upClsCasWrong  = "C14-upgrade-cas-mismatch-accepted"
	c14upClsNoService = "C14-upgrade-fault-free-upgrade-did-not-finish"
)

// ------------------------------------------------------------------ key sets

type c14upKeys struct {
	Paths []string                     `json:"paths"`
	Vals  map[string]map[string]string `json:"vals"`
}

// c14upGenKeys builds n distinct nested paths (a path may also be a directory
// prefix of another one) with distinct canary documents.
func c14upGenKeys(rng *kit.Rand, n int) c14upKeys {
	segs := []string{"app", "db", "team", "svc", "x", "y"}
	ks := c14upKeys{Vals: map[string]map[string]string{}}
	seen := map[string]bool{}
	for len(ks.Paths) < n {
		var p string
		if len(ks.Paths) > 0 && rng.Chance(1, 3) {
			// nest below an existing key (that key is then both a secret and a directory)
			p = kit.Pick(rng, ks.Paths) + "/" + kit.Pick(rng, segs)
		} else {
			d := 1 + rng.Intn(3)
			parts := make([]string, d)
			for i := range parts {
				parts[i] = kit.Pick(rng, segs)
			}
			p = strings.Join(parts, "/")
		}
		if rng.Chance(1, 2) {
			p += strconv.Itoa(rng.Intn(10))
		}
		if seen[p] || len(p) > 60 {
			continue
		}
		seen[p] = true
		ks.Paths = append(ks.Paths, p)
		ks.Vals[p] = map[string]string{"id": rng.Canary(), "p": p}
	}
	sort.Strings(ks.Paths)
	return ks
}

// ------------------------------------------------------------------ instance

// c14upBoot boots a core, mounts kv non-versioned at c14Mount and stores the keys.
func c14upBoot(t *testing.T, tx bool, ks c14upKeys) *c14Env {
	v := vBoot(t, vOpts{Transactional: tx, Logical: map[string]logical.Factory{"kv": kv.Factory}})
	v.Mount(c14Mount, "kv", "", map[string]any{"version": "1"})
	pref, ok := v.Core.router.MatchingStoragePrefixByAPIPath(namespace.RootContext(t.Context()), c14Mount+"/")
	if !ok || pref == "" {
		t.Fatalf("verif: no storage prefix for the kv mount")
	}
	e := &c14Env{t: t, v: v, prefix: pref, tx: tx, label: fmt.Sprintf("upgrade,tx=%v", tx)}
	for _, p := range ks.Paths {
		d := map[string]any{}
		for k, x := range ks.Vals[p] {
			d[k] = x
		}
		v.MustDo(vReq{Op: logical.UpdateOperation, Path: c14Mount + "/" + p, Token: v.Root, Data: d})
	}
	// the non-versioned mount returns what was stored
	for _, p := range ks.Paths {
		resp := v.MustDo(vReq{Op: logical.ReadOperation, Path: c14Mount + "/" + p, Token: v.Root})
		if resp == nil || c14DataCanon(resp.Data) != c14Canon(ks.Vals[p]) {
			t.Fatalf("verif: non-versioned read of %s does not return what was written", p)
		}
	}
	return e
}

// c14upTune switches the mount to version 2 (the request's own storage
// operations carry the tag "tune"; the conversion runs on an untagged goroutine).
func c14upTune(e *c14Env) (*logical.Response, error) {
	return e.v.Do(vReq{Tag: "tune", Op: logical.UpdateOperation, Path: "sys/mounts/" + c14Mount + "/tune", Token: e.v.Root,
		Data: map[string]any{"options": map[string]any{"version": "2"}}})
}

// c14upOnConversionGoroutine reports whether the calling goroutine is the
// background conversion started by versionedKVBackend.Upgrade (probe predicates
// run on the goroutine that performs the storage operation).
func c14upOnConversionGoroutine() bool {
	var pcs [192]uintptr
	n := runtime.Callers(2, pcs[:])
	frames := runtime.CallersFrames(pcs[:n])
	for {
		f, more := frames.Next()
		if strings.Contains(f.Function, "kv.(*versionedKVBackend).Upgrade.") {
			return true
		}
		if !more {
			return false
		}
	}
}

// c14upIsUpgradeOp selects the storage operations of the conversion. byGoroutine:
// every operation performed on the conversion goroutine (precise). Otherwise
// (fallback when the goroutine cannot be recognised): operations of untagged
// goroutines under the mount's storage prefix and untagged transaction
// begin/commit (every request of the harness is tagged).
func c14upIsUpgradeOp(prefix string, byGoroutine bool) func(kit.Event) bool {
	return func(ev kit.Event) bool {
		if ev.Tag != "" {
			return false
		}
		if byGoroutine {
			return c14upOnConversionGoroutine()
		}
		if ev.Key == "" {
			return ev.Op == "begin" || ev.Op == "beginro" || ev.Op == "commit"
		}
		return strings.HasPrefix(ev.Key, prefix)
	}
}

// c14upKeyClass names the kind of storage key an operation touched.
func c14upKeyClass(prefix string, ks c14upKeys, ev kit.Event) string {
	if ev.Key == "" {
		return "-"
	}
	rel := strings.TrimPrefix(ev.Key, prefix)
	if ev.Op == "list" || ev.Op == "listpage" {
		return "dir"
	}
	if _, ok := ks.Vals[rel]; ok {
		return "v1key"
	}
	switch {
	case strings.HasSuffix(rel, "/upgrading"):
		return "marker"
	case strings.Contains(rel, "/versions/"):
		return "version"
	case strings.Contains(rel, "/metadata/"):
		return "metadata"
	case strings.Contains(rel, "/policy/"), strings.Contains(rel, "/archive/"):
		return "policy"
	case strings.HasSuffix(rel, "/salt"):
		return "salt"
	}
	return "other"
}

// c14upServed polls (bounded) until the versioned mount serves a request.
func c14upServed(v *vCore, max time.Duration) bool {
	deadline := time.Now().Add(max)
	for {
		resp, err := v.Do(vReq{Tag: "poll", Op: logical.ReadOperation, Path: c14Mount + "/config", Token: v.Root})
		if vOK(resp, err) && resp != nil {
			return true
		}
		if time.Now().After(deadline) {
			return false
		}
		time.Sleep(5 * time.Millisecond)
	}
}

// c14upMountVersion reports the version option of the mount as the core sees it.
func c14upMountVersion(v *vCore) string {
	resp, err := v.Do(vReq{Tag: "poll", Op: logical.ReadOperation, Path: "sys/mounts/" + c14Mount + "/tune", Token: v.Root})
	if !vOK(resp, err) || resp == nil {
		return "?"
	}
	switch o := resp.Data["options"].(type) {
	case map[string]string:
		return o["version"]
	case map[string]any:
		return fmt.Sprint(o["version"])
	}
	return ""
}

// c14upUnconverted lists the original keys that still lie in the mount's
// storage in their non-versioned form.
func c14upUnconverted(e *c14Env, v *vCore, ks c14upKeys) []string {
	have := map[string]bool{}
	for _, k := range v.BarrierKeys(e.prefix) {
		have[strings.TrimPrefix(k, e.prefix)] = true
	}
	var out []string
	for _, p := range ks.Paths {
		if have[p] {
			out = append(out, p)
		}
	}
	return out
}

// ------------------------------------------------------------------ reference

type c14upVer struct {
	Data    map[string]string
	Deleted bool
	Src     string // "v1": the value held before the switch; "ack": an acknowledged request
}

type c14upKM struct {
	cur  int
	vers map[int]*c14upVer
	seen map[int]string // version -> document returned by an earlier successful read
}

type c14upCase struct {
	e       *c14Env
	v       *vCore
	r       *kit.Result
	id      string
	ks      c14upKeys
	km      map[string]*c14upKM
	phase   string // window | after-restart (= the upgrade is complete: the strict expectations apply)
	when    string // wording of the after-restart phase in witnesses
	trace   []string
	fault   string
	unconv  []string
	flagged map[string]bool
	// per case observations
	refusedUpgrading int
	acked            int
	ackedUnconv      int
}

func c14upNewCase(e *c14Env, r *kit.Result, id string, ks c14upKeys) *c14upCase {
	c := &c14upCase{e: e, v: e.v, r: r, id: id, ks: ks, km: map[string]*c14upKM{}, phase: "window", when: "after the restart and the completed upgrade", flagged: map[string]bool{}}
	for _, p := range ks.Paths {
		c.km[p] = &c14upKM{cur: 1, vers: map[int]*c14upVer{1: {Data: ks.Vals[p], Src: "v1"}}, seen: map[int]string{}}
	}
	return c
}

func (c *c14upCase) violate(class, key, what string) {
	k := class + "|" + key
	if c.flagged[k] {
		return
	}
	c.flagged[k] = true
	tr := c.trace
	if len(tr) > 80 {
		tr = tr[len(tr)-80:]
	}
	c.r.Violate(class, c.id, what, map[string]any{
		"store": c.e.label, "fault": c.fault, "keys": c.ks.Paths, "key": key,
		"not_yet_converted_when_clients_started": c.unconv, "phase": c.phase, "trace": append([]string(nil), tr...),
	})
}

// do runs one client request (tag "c") and reports the classified outcome and
// whether it was refused with the engine's "upgrading" message.
func (c *c14upCase) do(in c14In) (c14Out, *logical.Response, bool) {
	rq := c.e.request(in)
	rq.Token = c.v.Root
	rq.Tag = "c"
	resp, err := c.v.Do(rq)
	out := c14Classify(in, resp, err)
	raw := vErrStr(resp, err)
	if resp != nil && resp.IsError() && err != nil {
		raw += " / resp-error:" + resp.Error().Error()
	}
	upg := out.Class == "refused" && strings.Contains(raw, "pgrading from non-versioned")
	s := out.String()
	if out.Class != "ok" && out.Class != "nfmeta" && out.Class != "nf" {
		s += " <" + c14Trunc(raw, 90) + ">"
	}
	c.trace = append(c.trace, fmt.Sprintf("[%s] %s -> %s", c.phase, in.String(), s))
	c.r.Count("requests", 1)
	if upg {
		c.refusedUpgrading++
		if c.phase == "window" {
			c.r.Count("requests_refused_while_upgrade_unfinished", 1)
		} else {
			c.r.Count("requests_refused_upgrading_after_mount_served", 1)
		}
	}
	return out, resp, upg
}

func c14upMerge(base, patch map[string]string) map[string]string {
	m := map[string]string{}
	for k, v := range base {
		m[k] = v
	}
	for k, v := range patch {
		m[k] = v
	}
	return m
}

// write issues a write or patch; cas < 0 = not supplied.
func (c *c14upCase) write(kind, p string, cas int, data map[string]string) bool {
	km := c.km[p]
	out, _, _ := c.do(c14In{Kind: kind, Path: p, Cas: cas, Data: data, MaxV: -1, CasReq: -1, MCas: -1})
	if out.Class != "ok" {
		c.r.Count("writes_not_acknowledged:"+c.phase, 1)
		if c.phase == "after-restart" && cas == km.cur {
			c.r.Count("cas_write_at_reference_version_refused_after_restart", 1)
		}
		return false
	}
	c.acked++
	c.r.Count("writes_acknowledged:"+c.phase, 1)
	if c.phase == "window" {
		if len(c.unconv) > 0 {
			c.ackedUnconv++
			c.r.Count("acknowledged_writes_while_unconverted_keys_remained", 1)
		}
		for _, u := range c.unconv {
			if u == p {
				c.r.Count("acknowledged_writes_to_a_not_yet_converted_key", 1)
			}
		}
	}
	if cas >= 0 && cas != km.cur {
		c.violate(c14upClsCasWrong, p, fmt.Sprintf("%s of %q with cas=%d was acknowledged (as version %d) while the current version of the key is %d", kind, p, cas, out.Version, km.cur))
	} else if cas >= 0 {
		c.r.Count("cas_writes_acknowledged", 1)
	}
	if out.Version != km.cur+1 {
		c.violate(c14upClsNotConsec, p, fmt.Sprintf("%s of %q was acknowledged as version %d, the key's latest version is %d (version 1 is the value stored before the switch to versioned): expected %d", kind, p, out.Version, km.cur, km.cur+1))
	} else {
		c.r.Count("acknowledged_writes_with_next_version", 1)
	}
	nd := data
	if kind == "patch" {
		if cv := km.vers[km.cur]; cv != nil {
			nd = c14upMerge(cv.Data, data)
		}
	}
	km.vers[out.Version] = &c14upVer{Data: nd, Src: "ack"}
	delete(km.seen, out.Version)
	km.cur = out.Version
	return true
}

func (c *c14upCase) deleteLatest(p string) {
	km := c.km[p]
	out, _, _ := c.do(c14In{Kind: "delete-latest", Path: p, Cas: -1, MaxV: -1, CasReq: -1, MCas: -1})
	if out.Class != "ok" {
		return
	}
	c.acked++
	c.r.Count("deletes_acknowledged:"+c.phase, 1)
	if cv := km.vers[km.cur]; cv != nil {
		nv := *cv
		nv.Deleted = true
		nv.Src = "ack"
		km.vers[km.cur] = &nv
	}
}

// mismatch files a failed expectation about version ver of key p under the narrowest class.
func (c *c14upCase) mismatch(p string, ver int, got c14Out, changedFrom string, what string) {
	km := c.km[p]
	exp := km.vers[ver]
	switch {
	case exp != nil && exp.Src == "ack" && c.phase == "after-restart":
		c.violate(c14upClsAckLost, p, c.when+" "+what)
	case changedFrom != "":
		c.violate(c14upClsChanged, p, fmt.Sprintf("version %d of %q was read as {%s} earlier and is {%s} now: ", ver, p, changedFrom, got.Data)+what)
	case exp != nil && exp.Src == "v1" && c.phase == "after-restart":
		c.violate(c14upClsV1Lost, p, c.when+" "+what)
	default:
		c.violate(c14upClsWrongRead, p, what)
	}
}

// read reads version ver (0 = latest) of p and compares with the reference.
// It reports whether the response was a served answer (not a refusal / error).
func (c *c14upCase) read(p string, ver int) bool {
	km := c.km[p]
	out, _, _ := c.do(c14In{Kind: "read", Path: p, Version: ver, Cas: -1, MaxV: -1, CasReq: -1, MCas: -1})
	want := ver
	if want == 0 {
		want = km.cur
	}
	exp := km.vers[want]
	if exp == nil {
		return false
	}
	expS := "{" + c14Canon(exp.Data) + "}"
	if exp.Deleted {
		expS = "deleted"
	}
	req := fmt.Sprintf("read of %q", p)
	if ver > 0 {
		req += fmt.Sprintf(" version %d", ver)
	} else {
		req += fmt.Sprintf(" (latest, reference says %d)", want)
	}
	switch out.Class {
	case "refused", "error":
		if c.phase == "after-restart" {
			c.mismatch(p, want, out, "", fmt.Sprintf("%s failed (%s) although the mount serves requests; expected %s", req, out.Class, expS))
		} else {
			c.r.Count("reads_not_served:window", 1)
		}
		return false
	case "nf":
		c.mismatch(p, want, out, "", fmt.Sprintf("%s answered that there is no such secret; expected version %d = %s", req, want, expS))
		return true
	case "nfmeta":
		if out.Version != want {
			c.mismatch(p, want, out, "", fmt.Sprintf("%s answered for version %d (%s); expected version %d = %s", req, out.Version, out.String(), want, expS))
		} else if !exp.Deleted {
			c.mismatch(p, want, out, "", fmt.Sprintf("%s answered %s; expected %s", req, out.String(), expS))
		} else {
			c.r.Count("reads_matching_reference", 1)
		}
		return true
	case "ok":
		changed := ""
		if prev, ok := km.seen[out.Version]; ok && prev != out.Data {
			changed = prev
		}
		switch {
		case out.Version != want:
			// the latest version is not the one the reference expects
			c.mismatch(p, want, out, "", fmt.Sprintf("%s returned version %d {%s}; expected version %d = %s", req, out.Version, out.Data, want, expS))
		case exp.Deleted || out.Deleted || out.Destroyed:
			c.mismatch(p, want, out, "", fmt.Sprintf("%s returned %s; expected %s", req, out.String(), expS))
		case out.Data != c14Canon(exp.Data):
			c.mismatch(p, want, out, changed, fmt.Sprintf("%s returned {%s}; expected %s (%s)", req, out.Data, expS, map[string]string{"v1": "the value stored before the switch to versioned", "ack": "an acknowledged write"}[exp.Src]))
		default:
			c.r.Count("reads_matching_reference", 1)
			if c.phase == "after-restart" && want == 1 && exp.Src == "v1" {
				c.r.Count("v1_values_read_as_version_1_after_restart", 1)
			}
			if c.phase == "after-restart" && exp.Src == "ack" {
				c.r.Count("acknowledged_writes_read_back_after_restart", 1)
			}
		}
		if _, ok := km.seen[out.Version]; !ok {
			km.seen[out.Version] = out.Data
		}
		return true
	}
	return false
}

// meta reads the key's metadata and compares current version / version list / deletion marks.
func (c *c14upCase) meta(p string) {
	km := c.km[p]
	in := c14In{Kind: "meta-read", Path: p, Cas: -1, MaxV: -1, CasReq: -1, MCas: -1}
	out, resp, _ := c.do(in)
	switch out.Class {
	case "refused", "error":
		if c.phase == "after-restart" {
			c.mismatch(p, km.cur, out, "", fmt.Sprintf("metadata read of %q failed (%s) although the mount serves requests", p, out.Class))
		}
		return
	case "nf", "nfmeta":
		c.mismatch(p, km.cur, out, "", fmt.Sprintf("metadata read of %q answered that there is no such secret; reference: current version %d", p, km.cur))
		return
	}
	if resp == nil || resp.Data == nil {
		return
	}
	cur := c14Int(resp.Data["current_version"])
	got := map[int]bool{}
	if m, ok := resp.Data["versions"].(map[string]any); ok {
		for k, x := range m {
			xm, _ := x.(map[string]any)
			dt, _ := xm["deletion_time"].(string)
			n, _ := strconv.Atoi(k)
			got[n] = dt != ""
		}
	}
	bad := ""
	badVer := km.cur
	if cur != km.cur {
		bad = fmt.Sprintf("current_version %d, reference %d", cur, km.cur)
	}
	for n := 1; n <= km.cur && bad == ""; n++ {
		d, ok := got[n]
		ev := km.vers[n]
		if !ok {
			bad, badVer = fmt.Sprintf("version %d is not listed", n), n
		} else if ev != nil && d != ev.Deleted {
			bad, badVer = fmt.Sprintf("version %d deleted=%v, reference deleted=%v", n, d, ev.Deleted), n
		}
	}
	if bad == "" && len(got) != km.cur {
		bad = fmt.Sprintf("%d versions listed, reference has exactly 1..%d", len(got), km.cur)
	}
	if bad != "" {
		c.mismatch(p, badVer, out, "", fmt.Sprintf("metadata of %q: %s (%s)", p, bad, out.Meta))
		return
	}
	c.r.Count("metadata_reads_matching_reference", 1)
}

// residue counts original keys that still lie in storage in non-versioned form
// while the mount serves requests. That alone is not a failure of the property
// (if such a key was not converted, its read-back fails); it is recorded.
func (c *c14upCase) residue() {
	if un := c14upUnconverted(c.e, c.v, c.ks); len(un) > 0 {
		c.r.Count("served_with_nonversioned_entries_left_in_storage", 1)
		c.r.Note("%s: mount serves requests while %v still lie in storage in non-versioned form", c.id, un)
	}
}

// ------------------------------------------------------------------ client sequences

// window drives the seeded client sequence after the fault.
func (c *c14upCase) window(rng *kit.Rand) {
	served := 0
	for _, p := range c.ks.Paths {
		if c.read(p, 0) {
			served++
		}
	}
	// targets: a not-yet-converted key (if any), a converted one, and random ones
	var targets []string
	isUn := map[string]bool{}
	for _, u := range c.unconv {
		isUn[u] = true
	}
	if len(c.unconv) > 0 {
		targets = append(targets, kit.Pick(rng, c.unconv))
	}
	var conv []string
	for _, p := range c.ks.Paths {
		if !isUn[p] {
			conv = append(conv, p)
		}
	}
	if len(conv) > 0 {
		targets = append(targets, kit.Pick(rng, conv))
	}
	for len(targets) < 3 {
		targets = append(targets, kit.Pick(rng, c.ks.Paths))
	}
	if served == 0 && c.refusedUpgrading == len(c.ks.Paths) {
		// the engine refuses everything: two probes per target are enough to see that writes are refused too
		targets = targets[:2]
	}
	for ti, p := range targets {
		km := c.km[p]
		n := 1 + rng.Intn(3)
		if served == 0 {
			n = 1
		}
		for j := 0; j < n; j++ {
			doc := map[string]string{"id": rng.Canary(), "w": fmt.Sprintf("%s#%d.%d", c.id, ti, j)}
			switch k := rng.Intn(10); {
			case k < 3:
				c.write("write", p, -1, doc)
			case k < 5:
				c.write("write", p, km.cur, doc)
			case k < 6:
				// the client believes the key does not exist / is behind by one
				wrong := 0
				if rng.Chance(1, 3) {
					wrong = km.cur + 1
				}
				c.write("write", p, wrong, doc)
			case k < 8:
				if cv := km.vers[km.cur]; cv != nil && !cv.Deleted {
					c.write("patch", p, -1, map[string]string{"patched": rng.Canary()})
				} else {
					c.write("write", p, -1, doc)
				}
			default:
				if j == n-1 && n > 1 {
					c.deleteLatest(p)
				} else {
					c.write("write", p, -1, doc)
				}
			}
		}
		if c.read(p, 0) || served > 0 {
			c.read(p, 1)
			c.meta(p)
		}
	}
}

// readBack reads every key: latest, every numbered version of the reference, metadata.
func (c *c14upCase) readBack() {
	for _, p := range c.ks.Paths {
		km := c.km[p]
		c.read(p, 0)
		for n := 1; n <= km.cur; n++ {
			if km.vers[n] != nil {
				c.read(p, n)
			}
		}
		c.meta(p)
		c.r.Count("keys_verified_after_restart", 1)
	}
}

// afterRestart: read-back, then more writes (plain and cas at the reference's
// current version) on keys written in the window and on untouched ones, read again.
func (c *c14upCase) afterRestart(rng *kit.Rand) {
	c.phase = "after-restart"
	c.readBack()
	var ps []string
	for _, p := range c.ks.Paths {
		if c.km[p].cur > 1 {
			ps = append(ps, p)
		}
	}
	ps = append(ps, kit.Pick(rng, c.ks.Paths))
	if len(ps) > 3 {
		ps = ps[:3]
	}
	done := map[string]bool{}
	for i, p := range ps {
		if done[p] {
			continue
		}
		done[p] = true
		km := c.km[p]
		doc := map[string]string{"id": rng.Canary(), "w": fmt.Sprintf("%s#post%d", c.id, i)}
		cas := -1
		if i%2 == 0 {
			cas = km.cur
		}
		c.write("write", p, cas, doc)
		c.read(p, 0)
		c.read(p, 1)
		c.meta(p)
	}
}

// ------------------------------------------------------------------ the monitor

func c14upSettle(v *vCore) {
	// the conversion goroutine either stopped at the fault or goes on for a few
	// operations; wait for the store to go quiet (bounded). Only the workload
	// depends on this, never a verdict.
	v.WaitQuiet(70*time.Millisecond, 4*time.Second)
}

func TestVerif_C14_Upgrade(t *testing.T) {
	seed := kit.Seed(14)
	shard, nshards := kit.Shard()
	if oc := kit.OnlyCase(); oc != "" {
		nshards = 1
	}
	r := kit.NewResult(t, "c14-upgrade", seed, "a non-versioned kv mount holding a generated set of nested keys is switched to version 2 through sys/mounts/<m>/tune; per (key set, store kind): the storage operations of the background conversion are counted in a fault-free run (all operations performed on the conversion goroutine, incl. transaction begin/commit), the store is crash-restarted at every prefix of its durable writes, and for every operation index i a fresh instance runs with operation i failing once, followed by a seeded client sequence, a restart, a bounded wait for service, a read-back of all keys/versions/metadata and further writes; every acknowledged write must have the next consecutive version and be returned by all later reads, every pre-switch value must be version 1; non-trivial = the fault fired; distinct by (store kind, failed operation kind, key class, in/outside a transaction, whether un-converted keys remained)")
	defer r.Write(t)
	nSets := kit.N(1, 6)
	for ksi := 0; ksi < nSets; ksi++ {
		if ksi%nshards != shard {
			continue
		}
		krng := kit.NewRand(seed, 7_140_000+uint64(ksi))
		nk := 3 + krng.Intn(kit.N(2, 6)) // quick 3..4, thorough 3..8
		ks := c14upGenKeys(krng, nk)
		for _, tx := range []bool{false, true} {
			c14upKeySet(t, r, seed, ksi, tx, ks)
			if r.NViolations() > 40 {
				return
			}
		}
	}
	r.Require("fault_points_fired", 30)
	r.Require("requests_refused_while_upgrade_unfinished", 100)
	r.Require("restarts_after_fault", 30)
	r.Require("keys_verified_after_restart", 100)
	r.Require("v1_values_read_as_version_1_after_restart", 100)
	r.Require("acknowledged_writes_read_back_after_restart", 2)
	r.Require("crash_prefix_restarts", 10)
	r.Require("fault_free_upgrades_verified", 2)
}

func c14upKeySet(t *testing.T, r *kit.Result, seed int64, ksi int, tx bool, ks c14upKeys) {
	base := fmt.Sprintf("up:%d:%v", ksi, tx)
	only := kit.OnlyCase()
	if only != "" && !strings.HasPrefix(only, base+":") {
		return
	}

	// ---- fault-free run: count the conversion's storage operations, keep the journal
	e := c14upBoot(t, tx, ks)
	match := c14upIsUpgradeOp(e.prefix, false)
	onConv := c14upIsUpgradeOp(e.prefix, true)
	var convOps []kit.Event
	e.v.Probe.FailNth(func(ev kit.Event) bool { // never fires: records the conversion goroutine's operations
		if onConv(ev) {
			convOps = append(convOps, ev)
		}
		return false
	}, 1)
	e.v.Probe.StartJournal()
	e.v.Probe.StartLog(false)
	resp, err := c14upTune(e)
	if !vOK(resp, err) {
		t.Fatalf("verif: tune to version 2 failed: %s", vErrStr(resp, err))
	}
	if !c14upServed(e.v, 30*time.Second) {
		r.Violate(c14upClsNoService, base+":free", "the fault-free upgrade did not finish within 30 s (the mount still refuses requests)", map[string]any{"keys": ks.Paths, "store": e.label})
		e.v.Close()
		return
	}
	c14upSettle(e.v)
	var ops []kit.Event
	for _, ev := range e.v.Probe.StopLog() {
		if ev.Op == "rollback" {
			continue
		}
		if match(ev) {
			ops = append(ops, ev)
		}
	}
	e.v.Probe.ClearFaults()
	byGoroutine := len(convOps) > 0
	if byGoroutine {
		r.Count(fmt.Sprintf("untagged_ops_on_mount_storage_not_from_the_conversion_goroutine:tx=%v", tx), len(ops)-len(convOps))
		ops = convOps
	} else {
		r.Note("%s: the conversion goroutine was not recognised by its function name; falling back to untagged operations under the mount's storage prefix", base)
		r.Count("key_sets_enumerated_by_untagged_ops_fallback", 1)
	}
	journal := e.v.Probe.Journal()
	r.Count(fmt.Sprintf("upgrade_storage_ops:tx=%v", tx), len(ops))
	if kit.WantCase(base + ":free") {
		c := c14upNewCase(e, r, base+":free", ks)
		c.fault = "none"
		c.phase, c.when = "after-restart", "after the fault-free upgrade"
		c.residue()
		c.readBack()
		r.Eval(1)
		r.Count("fault_free_upgrades_verified", 1)
		if ksi == 0 {
			var od []string
			for _, ev := range ops {
				od = append(od, ev.Op+" "+c14upKeyClass(e.prefix, ks, ev))
			}
			r.Sample(map[string]any{"case": c.id, "store": e.label, "keys": ks.Paths, "conversion_ops": od, "durable_writes_since_tune": len(journal)})
		}
	}

	// ---- crash model: a second core on every prefix of the durable writes
	stride := 1
	if kit.Tier() == "quick" && len(journal) > 24 {
		stride = 2
	}
	for k := 0; k <= len(journal); k += stride {
		id := fmt.Sprintf("%s:crash:%d", base, k)
		if !kit.WantCase(id) {
			continue
		}
		c14upCrashCase(e, r, id, ks, k, len(journal))
		if r.NViolations() > 40 {
			break
		}
	}
	e.v.Probe.StopJournal()
	e.v.Close()

	// ---- single faults
	for i := 1; i <= len(ops); i++ {
		id := fmt.Sprintf("%s:fault:%d", base, i)
		if !kit.WantCase(id) {
			continue
		}
		c14upFaultCase(t, r, seed, id, ksi, tx, ks, i, byGoroutine, ops[i-1].Op+" "+c14upKeyClass(e.prefix, ks, ops[i-1]))
		if r.NViolations() > 40 {
			return
		}
	}
}

func c14upCrashCase(e *c14Env, r *kit.Result, id string, ks c14upKeys, k, total int) {
	phys, _ := kit.NewProbe(e.v.Probe.Materialise(k, e.tx))
	v2, err := e.v.RestartOn(phys)
	if err != nil {
		if v2 != nil {
			v2.Close()
		}
		r.Inconc("%s: could not boot on the store as of %d/%d durable writes: %v", id, k, total, err)
		return
	}
	defer v2.Close()
	r.Eval(1)
	r.Count("crash_prefix_restarts", 1)
	ver := c14upMountVersion(v2)
	if ver != "2" {
		// the switch itself was not durable yet: the mount is still non-versioned and must hold the values
		r.Count("crash_before_switch_was_durable", 1)
		for _, p := range ks.Paths {
			resp, err := v2.Do(vReq{Tag: "c", Op: logical.ReadOperation, Path: c14Mount + "/" + p, Token: v2.Root})
			if !vOK(resp, err) || resp == nil || c14DataCanon(resp.Data) != c14Canon(ks.Vals[p]) {
				r.Violate(c14upClsV1Lost, id, fmt.Sprintf("crash after %d/%d durable writes (mount still version %q): non-versioned read of %q does not return the stored value: %s", k, total, ver, p, vErrStr(resp, err)),
					map[string]any{"keys": ks.Paths, "store": e.label})
				return
			}
		}
		return
	}
	if !c14upServed(v2, 20*time.Second) {
		r.Inconc("%s: mount does not serve requests 20 s after the restart on %d/%d durable writes", id, k, total)
		return
	}
	ce := &c14Env{t: e.t, v: v2, prefix: e.prefix, tx: e.tx, label: e.label}
	c := c14upNewCase(ce, r, id, ks)
	c.fault = fmt.Sprintf("crash after %d of %d durable writes since the tune request started", k, total)
	c.phase, c.when = "after-restart", "after the crash, the restart and the completed upgrade"
	c.residue()
	c.readBack()
	r.Count("crash_after_switch_verified", 1)
}

func c14upFaultCase(t *testing.T, r *kit.Result, seed int64, id string, ksi int, tx bool, ks c14upKeys, i int, byGoroutine bool, ref string) {
	e := c14upBoot(t, tx, ks)
	v := e.v
	closeAll := func() { v.Close() }
	defer func() { closeAll() }()
	match := c14upIsUpgradeOp(e.prefix, byGoroutine)
	var n atomic.Int64
	var fired atomic.Bool
	var hit atomic.Pointer[kit.Event]
	v.Probe.FailNth(func(ev kit.Event) bool {
		if !match(ev) {
			return false
		}
		if n.Add(1) == int64(i) {
			evc := ev
			hit.Store(&evc)
			fired.Store(true)
			return true
		}
		return false
	}, 1)
	resp, err := c14upTune(e)
	if !vOK(resp, err) {
		r.Inconc("%s: tune to version 2 failed: %s", id, vErrStr(resp, err))
		return
	}
	r.Eval(1)
	// wait (bounded) until the fault fired; if the conversion completes without
	// reaching operation i the case goes on as a fault-free one and is counted as such
	start := time.Now()
	for k := 0; !fired.Load() && time.Since(start) < 20*time.Second; k++ {
		time.Sleep(2 * time.Millisecond)
		if k%250 == 249 && c14upServed(v, 0) {
			break
		}
	}
	c14upSettle(v)
	c := c14upNewCase(e, r, id, ks)
	rng := kit.NewRand(seed, 7_150_000+uint64(ksi)*10_000+uint64(i)*2+b2u14(tx))
	if fired.Load() {
		ev := *hit.Load()
		cls := c14upKeyClass(e.prefix, ks, ev)
		c.fault = fmt.Sprintf("conversion storage operation %d failed once: %s %s (txn=%v)", i, ev.Op, cls, ev.Txn != 0)
		r.Count("fault_points_fired", 1)
		r.Count("fault_on:"+ev.Op+" "+cls, 1)
		if ev.Op+" "+cls != ref {
			r.Count("fault_hit_other_operation_than_in_counting_run", 1)
			r.Note("%s: counting run had %s at this index, this run %s %s", id, ref, ev.Op, cls)
		}
	} else {
		c.fault = fmt.Sprintf("operation %d not reached (%d seen)", i, n.Load())
		r.Count("fault_point_not_reached", 1)
	}
	c.unconv = c14upUnconverted(e, v, ks)
	if len(c.unconv) > 0 {
		r.Count("fault_cases_with_unconverted_keys_left", 1)
	}
	c.window(rng)
	if c.refusedUpgrading == 0 {
		r.Count("fault_cases_where_mount_served_before_restart", 1)
	}
	if fired.Load() {
		ev := *hit.Load()
		r.Nontrivial(fmt.Sprintf("%v|%s|%s|%v|%v|%v", tx, ev.Op, c14upKeyClass(e.prefix, ks, ev), ev.Txn != 0, len(c.unconv) > 0, c.refusedUpgrading == 0))
	}
	v.Probe.ClearFaults()

	// ---- restart: the conversion runs again
	v2, err := v.Restart()
	if err != nil {
		if v2 != nil {
			v2.Close()
		}
		r.Inconc("%s: restart failed: %v", id, err)
		return
	}
	closeAll = func() { v2.Close() }
	r.Count("restarts_after_fault", 1)
	if !c14upServed(v2, 20*time.Second) {
		r.Inconc("%s: mount does not serve requests 20 s after the restart", id)
		return
	}
	c.v = v2
	c.e = &c14Env{t: t, v: v2, prefix: e.prefix, tx: tx, label: e.label}
	c.residue()
	c.afterRestart(rng)
	if len(r.Samples) < 5 && fired.Load() && (i%7 == 3) {
		tr := c.trace
		if len(tr) > 30 {
			tr = tr[:30]
		}
		r.Sample(map[string]any{"case": id, "store": e.label, "fault": c.fault, "not_yet_converted_after_fault": c.unconv, "refused_upgrading": c.refusedUpgrading, "acknowledged": c.acked, "trace_head": tr})
	}
}
