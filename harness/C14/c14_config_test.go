//go:build verif

package vault

// C14, writes of the MOUNT configuration (<mount>/config: cas_required,
// max_versions, delete_version_after) under single storage faults.
//
// TestVerif_C14_ConfigFaults: for every scenario (configuration before ->
// configuration write) and store kind, the write is run once to count the
// storage operations of the request; then for every i the configuration is put
// back, a fresh secret with three versions is prepared, and the write is run
// with storage operation i failing once. The effective configuration afterwards
// is judged
//   - by a read of the configuration,
//   - by behaviour: a seeded sequence of data writes without / with cas, patches,
//     reads of every version and metadata reads on the prepared secret and on a
//     new one, every response compared with the reference model under the
//     expected configuration (is a write without cas accepted, which versions
//     survive the next writes),
//   - and again by both after the backend was reloaded (sys/plugins/reload/backend:
//     a new backend instance that loads the configuration from storage).
// A configuration write that REPORTED FAILURE must leave the effective
// configuration exactly as before; an acknowledged one must be in effect.

import (
	"fmt"
	"strings"
	"testing"
	"time"

	kit "github.com/openbao/openbao/sdk/v2/helper/verifkit"
	"github.com/openbao/openbao/sdk/v2/logical"
)

const (
	c14cfClsFailedChanged = "C14-failed-config-write-changed-effective-configuration"
	c14cfClsFailedStored  = "C14-failed-config-write-changed-stored-configuration"
	c14cfClsAckNotInForce = "C14-acknowledged-config-write-not-effective"
)

type c14cfScen struct {
	name   string
	before c14Cfg
	op     c14In
}

func c14cfScens() []c14cfScen {
	dva := c14Config(-1, -1)
	dva.DVA = 3600
	return []c14cfScen{
		{"require-cas", c14Cfg{}, c14Config(-1, 1)},
		{"stop-requiring-cas", c14Cfg{CasReq: true}, c14Config(-1, 0)},
		{"max-versions-1", c14Cfg{}, c14Config(1, -1)},
		{"max-versions-3-to-2", c14Cfg{MaxV: 3}, c14Config(2, -1)},
		{"max-versions-2-to-default", c14Cfg{MaxV: 2}, c14Config(0, -1)},
		{"require-cas-and-max-versions-2", c14Cfg{}, c14Config(2, 1)},
		{"relax-both", c14Cfg{CasReq: true, MaxV: 2}, c14Config(0, 0)},
		{"delete-version-after-only", c14Cfg{}, dva},
	}
}

// c14cfReset puts the mount configuration to cfg with delete_version_after unset.
func c14cfReset(e *c14Env, cfg c14Cfg) {
	e.v.MustDo(vReq{Op: logical.UpdateOperation, Path: c14Mount + "/config", Token: e.v.Root,
		Data: map[string]any{"max_versions": cfg.MaxV, "cas_required": cfg.CasReq, "delete_version_after": 0}})
}

// c14cfReload replaces the backend instance of the mount (as a plugin reload /
// restart does); the new instance loads the configuration from storage.
func c14cfReload(e *c14Env) bool {
	resp, err := e.v.Do(vReq{Op: logical.UpdateOperation, Path: "sys/plugins/reload/backend", Token: e.v.Root, Data: map[string]any{"mounts": []string{c14Mount + "/"}}})
	if !vOK(resp, err) {
		return false
	}
	for i := 0; i < 2000; i++ {
		if out, _ := e.exec(c14In{Kind: "config-read"}); out.Class == "ok" {
			return true
		}
		time.Sleep(5 * time.Millisecond)
	}
	return false
}

type c14cfCase struct {
	e     *c14Env
	r     *kit.Result
	id    string
	sc    c14cfScen
	trace []string
	wit   map[string]any
}

// probe drives a seeded sequence on path p (reference state st) and on a fresh
// path under the expected configuration eff. It returns the first deviation.
func (c *c14cfCase) probe(rng *kit.Rand, eff c14Cfg, p string, st *c14State, when string) (string, *c14State) {
	step := func(in c14In, s *c14State) (string, *c14State) {
		out, raw := c.e.exec(in)
		exp, next := c14Apply(eff, s, in)
		c.trace = append(c.trace, fmt.Sprintf("[%s] %s -> %s", when, in.String(), out.String()))
		c.r.Count("config_fault_behaviour_probes", 1)
		if !c14OutEq(exp, out) {
			return fmt.Sprintf("%s: %s answered %q (%s); under the expected configuration %+v the reference says %q", when, in.String(), out.String(), c14Trunc(raw, 100), eff, exp.String()), s
		}
		return "", next
	}
	readAll := func(path string, s *c14State) string {
		ins := []c14In{{Kind: "meta-read", Path: path}}
		for v := 0; v <= s.Cur+1; v++ {
			ins = append(ins, c14In{Kind: "read", Path: path, Version: v})
		}
		for _, in := range ins {
			if bad, _ := step(in, s); bad != "" {
				return bad
			}
		}
		return ""
	}
	id := func(k int) string { return fmt.Sprintf("%s.%s.%d", c.id, when, k) }
	var bad string
	// is a write without cas accepted? then writes with the right / a stale cas, a patch
	ins := []c14In{c14W(p, -1, id(0)), c14W(p, st.Cur, id(1))}
	if bad, st = step(ins[0], st); bad != "" {
		return bad, st
	}
	ins[1].Cas = st.Cur
	if bad, st = step(ins[1], st); bad != "" {
		return bad, st
	}
	if bad = readAll(p, st); bad != "" {
		return bad, st
	}
	for k := 2; k < 5; k++ {
		var in c14In
		switch rng.Intn(4) {
		case 0:
			in = c14W(p, -1, id(k))
		case 1:
			in = c14W(p, st.Cur, id(k))
		case 2:
			in = c14Patch(p, st.Cur, id(k))
		default:
			in = c14W(p, st.Cur+1-2*rng.Intn(2), id(k)) // cas ahead / behind
			if in.Cas < 0 {
				in.Cas = 0
			}
		}
		if bad, st = step(in, st); bad != "" {
			return bad, st
		}
	}
	if bad = readAll(p, st); bad != "" {
		return bad, st
	}
	// a secret created after the configuration write
	q := c14FreshPaths(1)[0]
	qs := c14Empty()
	for k := 0; k < 3; k++ {
		cas := -1
		if k != 1 {
			cas = qs.Cur
		}
		if bad, qs = step(c14W(q, cas, id(10+k)), qs); bad != "" {
			return bad, st
		}
	}
	if bad = readAll(q, qs); bad != "" {
		return bad, st
	}
	return "", st
}

func TestVerif_C14_ConfigFaults(t *testing.T) {
	seed := kit.Seed(14)
	r := kit.NewResult(t, "c14-config-faults", seed, "for each mount-configuration scenario (require cas, stop requiring cas, max_versions 0->1, 3->2, 2->default, cas+max_versions together, relax both, delete_version_after only) x store kind: the configuration write is run once to count the storage operations n of the tagged request, then for i in 1..n on a freshly reset configuration and a fresh secret with three versions the write runs with storage operation i failing once; the effective configuration is then judged by a configuration read and by a seeded sequence of data writes without / with right / with wrong cas, patches, reads of every version and metadata reads on that secret and on a new one, each response compared with the reference model under the expected configuration (before, if the write reported failure; after, if it was acknowledged), and again after the backend instance was reloaded; non-trivial = the fault fired; distinct by (scenario, store, failed op kind and key class, reported outcome)")
	r.Exhaustive = true
	defer r.Write(t)
	for _, tx := range []bool{false, true} {
		e := c14Boot(t, tx, false)
		for si, sc := range c14cfScens() {
			// count the request's storage operations
			c14cfReset(e, sc.before)
			e.v.Probe.StartLog(false)
			out, raw := e.execTag(sc.op, "w")
			evs := e.v.Probe.StopLog()
			if out.Class != "ok" {
				r.Violate("C14-config-write-failed-without-fault", "", fmt.Sprintf("scenario %s: fault-free %s failed: %s", sc.name, sc.op.String(), raw), nil)
				continue
			}
			n := 0
			for _, ev := range evs {
				if ev.Tag == "w" {
					n++
				}
			}
			r.Count("ops_in_config_write:"+sc.name, n)
			for i := 1; i <= n; i++ {
				caseID := fmt.Sprintf("cfgfault:%v:%s:%d", tx, sc.name, i)
				if !kit.WantCase(caseID) {
					continue
				}
				rng := kit.NewRand(seed, 9_140_000+uint64(si)*1000+uint64(i)*2+b2u14(tx))
				c14cfOne(e, r, rng, sc, i, caseID)
				if r.NViolations() > 30 {
					c14cfReset(e, c14Cfg{})
					return
				}
			}
		}
		c14cfReset(e, c14Cfg{})
		e.v.Close()
	}
	r.Require("config_faults_fired", 60)
	r.Require("failed_config_write_judged_unchanged", 40)
	r.Require("failed_config_write_judged_unchanged_after_reload", 40)
	r.Require("config_fault_on_kv_write_op", 10)
	r.Require("config_fault_behaviour_probes", 2000)
	r.Require("backend_reloads", 60)
}

func c14cfOne(e *c14Env, r *kit.Result, rng *kit.Rand, sc c14cfScen, i int, caseID string) {
	c := &c14cfCase{e: e, r: r, id: caseID, sc: sc}
	c14cfReset(e, sc.before)
	p := c14FreshPaths(1)[0]
	st := c14Empty()
	for k := 0; k < 3; k++ {
		in := c14W(p, k, fmt.Sprintf("pre%d", k+1))
		out, raw := e.exec(in)
		exp, next := c14Apply(sc.before, st, in)
		if !c14OutEq(exp, out) {
			r.Violate("C14-seq-write-outcome", caseID, fmt.Sprintf("config fault scenario setup: %s answered %q (%s), model says %q", in.String(), out.String(), raw, exp.String()), nil)
			return
		}
		st = next
	}
	r.Eval(1)
	cfgBefore, _ := e.exec(c14In{Kind: "config-read"})
	var faulted kit.Event
	e.v.Probe.FailNth(func(ev kit.Event) bool {
		if ev.Tag != "w" {
			return false
		}
		faulted = ev
		return true
	}, i)
	out, raw := e.execTag(sc.op, "w")
	fired := e.v.Probe.ClearFaults()
	what := fmt.Sprintf("%s %s", faulted.Op, c14KeyClass(e, faulted.Key))
	if fired == 0 {
		r.Count("config_fault_not_reached", 1)
		what = "-"
	} else {
		r.Count("config_faults_fired", 1)
		r.Nontrivial(fmt.Sprintf("%s|%s|%s|%s", sc.name, e.label, what, out.Class))
		if (faulted.Op == "put" && len(faulted.Key) > len(e.prefix) && faulted.Key[:len(e.prefix)] == e.prefix) || faulted.Op == "commit" {
			r.Count("config_fault_on_kv_write_op", 1)
		}
	}
	eff := sc.before
	expDVA := "0s"
	failed := out.Class != "ok"
	if failed && fired == 0 {
		r.Violate("C14-config-write-failed-without-fault", caseID, "configuration write failed although no fault fired: "+raw, map[string]any{"store": e.label, "scenario": sc.name})
		return
	}
	if !failed {
		eff = c14CfgApply(sc.before, sc.op)
		if sc.op.DVA > 0 {
			expDVA = (time.Duration(sc.op.DVA) * time.Second).String()
		}
		if fired > 0 {
			r.Count("config_fault_swallowed_write_acknowledged", 1)
		}
	}
	c.wit = map[string]any{"store": e.label, "scenario": sc.name, "configuration_before": sc.before, "request": sc.op.String(), "failed_op_index": i, "failed_op": what,
		"response": out.Class + " " + c14Trunc(raw, 160), "config_read_before": cfgBefore.Meta}
	flag := func(afterReload bool, msg string) {
		class := c14cfClsAckNotInForce
		if failed {
			class = c14cfClsFailedChanged
			if afterReload {
				class = c14cfClsFailedStored
			}
		}
		tr := c.trace
		if len(tr) > 60 {
			tr = tr[len(tr)-60:]
		}
		c.wit["trace"] = tr
		outcome := "was acknowledged"
		if failed {
			outcome = "reported failure (storage operation " + fmt.Sprint(i) + ", " + what + ", failed)"
		}
		r.Violate(class, caseID, fmt.Sprintf("%s on configuration %+v %s; %s", sc.op.String(), sc.before, outcome, msg), c.wit)
	}
	judge := func(when string, afterReload bool) bool {
		cr, craw := e.exec(c14In{Kind: "config-read"})
		c.trace = append(c.trace, fmt.Sprintf("[%s] config-read -> %s", when, cr.String()))
		var bads []string
		if cr.Class != "ok" || cr.Meta != c14CfgString(eff, expDVA) {
			bads = append(bads, fmt.Sprintf("%s the configuration read shows %q %s, expected %q", when, cr.Meta, c14Trunc(craw, 80), c14CfgString(eff, expDVA)))
			r.Count("config_fault_deviation_seen_by_config_read", 1)
		}
		if failed || sc.op.DVA == 0 {
			// (an acknowledged delete_version_after makes new versions carry a deletion time: its
			// timing stays out, that case is judged by the configuration read only)
			bad, nst := c.probe(rng, eff, p, st, when)
			st = nst
			if bad != "" {
				bads = append(bads, "behaviour: "+bad)
				r.Count("config_fault_deviation_seen_by_behaviour", 1)
			}
		}
		if len(bads) > 0 {
			flag(afterReload, strings.Join(bads, "; and "))
			return false
		}
		return true
	}
	if !judge("before reload", false) {
		return
	}
	if failed {
		r.Count("failed_config_write_judged_unchanged", 1)
	} else {
		r.Count("acknowledged_config_write_judged_effective", 1)
	}
	if !c14cfReload(e) {
		r.Inconc("%s: the backend did not serve requests after the reload", caseID)
		return
	}
	r.Count("backend_reloads", 1)
	if !judge("after reload", true) {
		return
	}
	if failed {
		r.Count("failed_config_write_judged_unchanged_after_reload", 1)
	} else {
		r.Count("acknowledged_config_write_judged_effective_after_reload", 1)
	}
	if len(r.Samples) < 6 && i%3 == 1 {
		tr := c.trace
		if len(tr) > 16 {
			tr = tr[:16]
		}
		r.Sample(map[string]any{"case": caseID, "store": e.label, "scenario": sc.name, "failed_op": what, "response": out.Class, "expected_effective_configuration": eff, "trace_head": tr})
	}
}
