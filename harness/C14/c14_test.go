//go:build verif

package vault

// C14: the versioned KV engine is a linearizable versioned register with exact
// check-and-set.
//
// Monitors (all drive kv-v2 mounted through the core, requests via Core.HandleRequest):
//   TestVerif_C14_Sequential  single-client histories, every response compared with the reference model
//   TestVerif_C14_Faults      every single storage fault inside a write / patch: before == after through the API
//   TestVerif_C14_Gated       concurrent clients under the storage-operation gate (bounded-preemption enumeration + PCT)
//   TestVerif_C14_Free        free-running concurrent clients (also with the physical cache on, and with one fault)
// The operation alphabet includes both ways of changing key metadata: PUT
// (meta-put) and the JSON merge PATCH (meta-patch).
// Concurrent histories are checked by porcupine against the reference model (one
// partition per secret path; 2-minute timeout => inconclusive) plus direct counters.

import (
	"encoding/json"
	"fmt"
	"os"
	"sort"
	"strconv"
	"strings"
	"sync"
	"sync/atomic"
	"testing"
	"time"

	"github.com/anishathalye/porcupine"
	kit "github.com/openbao/openbao/sdk/v2/helper/verifkit"
	"github.com/openbao/openbao/sdk/v2/logical"
	"github.com/openbao/openbao/v2/internal/builtin/logical/kv"
	"github.com/openbao/openbao/v2/internal/helper/namespace"
)

const c14Mount = "kv2"

// ------------------------------------------------------------------ reference model

// c14Cfg is the mount-level configuration (constant during a concurrent history).
type c14Cfg struct {
	CasReq bool `json:"cas_required"`
	MaxV   int  `json:"max_versions"`
}

// c14In is one client operation. Kinds "config" (write of the mount
// configuration: MaxV / CasReq / DVA) and "config-read" have no Path.
type c14In struct {
	Kind     string            `json:"kind"` // write patch read delete-latest delete undelete destroy meta-put meta-patch meta-read meta-delete
	Path     string            `json:"path"`
	Cas      int               `json:"cas"`               // -1 = not supplied
	Data     map[string]string `json:"data,omitempty"`    // write: whole document; patch: keys to set
	Null     []string          `json:"null,omitempty"`    // patch: keys set to null (removed)
	Version  int               `json:"version,omitempty"` // read: 0 = current
	Versions []int             `json:"versions,omitempty"`
	MaxV     int               `json:"set_max_versions"` // meta-put / meta-patch: -1 = not supplied
	CasReq   int               `json:"set_cas_required"` // meta-put / meta-patch: -1 = not supplied, 0 false, 1 true
	Custom   string            `json:"set_custom,omitempty"`
	CustomRm bool              `json:"remove_custom,omitempty"`              // meta-patch: custom_metadata {"tag": null}
	DVA      int               `json:"set_delete_version_after_s,omitempty"` // config: seconds, 0 = not supplied (stored field only)
	MCas     int               `json:"metadata_cas"`                         // meta-put / meta-patch: -1 = not supplied
}

func (in c14In) String() string {
	s := in.Kind + "(" + in.Path
	switch in.Kind {
	case "config":
		if in.MaxV >= 0 {
			s += fmt.Sprintf("max_versions=%d ", in.MaxV)
		}
		if in.CasReq >= 0 {
			s += fmt.Sprintf("cas_required=%d ", in.CasReq)
		}
		if in.DVA > 0 {
			s += fmt.Sprintf("delete_version_after=%ds", in.DVA)
		}
	case "write", "patch":
		if in.Cas >= 0 {
			s += fmt.Sprintf(" cas=%d", in.Cas)
		}
		s += " " + c14Canon(in.Data)
		if len(in.Null) > 0 {
			s += fmt.Sprintf(" null=%v", in.Null)
		}
	case "read":
		if in.Version > 0 {
			s += fmt.Sprintf(" v=%d", in.Version)
		}
	case "delete", "undelete", "destroy":
		s += fmt.Sprintf(" %v", in.Versions)
	case "meta-put", "meta-patch":
		if in.MaxV >= 0 {
			s += fmt.Sprintf(" max_versions=%d", in.MaxV)
		}
		if in.CustomRm {
			s += " custom=null"
		}
		if in.CasReq >= 0 {
			s += fmt.Sprintf(" cas_required=%d", in.CasReq)
		}
		if in.Custom != "" {
			s += " custom=" + in.Custom
		}
		if in.MCas >= 0 {
			s += fmt.Sprintf(" metadata_cas=%d", in.MCas)
		}
	}
	return s + ")"
}

// c14Out is the classified response. Classes compare structure, never message texts.
type c14Out struct {
	Class     string `json:"class"` // ok | refused | nf | nfmeta | error | unknown
	Version   int    `json:"version,omitempty"`
	Data      string `json:"data,omitempty"`
	Deleted   bool   `json:"deleted,omitempty"`
	Destroyed bool   `json:"destroyed,omitempty"`
	Meta      string `json:"meta,omitempty"`
	// not compared: what the client learns
	kCur  int
	kMVer int
}

func (o c14Out) String() string {
	s := o.Class
	if o.Version != 0 {
		s += fmt.Sprintf(" v%d", o.Version)
	}
	if o.Data != "" {
		s += " {" + o.Data + "}"
	}
	if o.Deleted {
		s += " deleted"
	}
	if o.Destroyed {
		s += " destroyed"
	}
	if o.Meta != "" {
		s += " " + o.Meta
	}
	return s
}

func c14OutEq(a, b c14Out) bool {
	return a.Class == b.Class && a.Version == b.Version && a.Data == b.Data && a.Deleted == b.Deleted && a.Destroyed == b.Destroyed && a.Meta == b.Meta
}

type c14Ver struct {
	Data      map[string]string
	Deleted   bool
	Destroyed bool
}

// c14State is the reference state of one secret path (treated as immutable).
type c14State struct {
	Exists bool
	Cur    int
	Vers   map[int]c14Ver
	CasReq bool
	MaxV   int
	Custom string
	MVer   int
	key    string
}

func c14Canon(m map[string]string) string {
	ks := make([]string, 0, len(m))
	for k := range m {
		ks = append(ks, k)
	}
	sort.Strings(ks)
	var sb strings.Builder
	for _, k := range ks {
		sb.WriteString(k + "=" + m[k] + ";")
	}
	return sb.String()
}

func c14MetaString(cur, maxv int, casreq bool, custom string, mver int, vers map[int][2]bool) string {
	ks := make([]int, 0, len(vers))
	for k := range vers {
		ks = append(ks, k)
	}
	sort.Ints(ks)
	var sb strings.Builder
	fmt.Fprintf(&sb, "cur=%d max=%d casreq=%v custom=%q mver=%d vers=[", cur, maxv, casreq, custom, mver)
	for _, k := range ks {
		fmt.Fprintf(&sb, "%d", k)
		if vers[k][0] {
			sb.WriteString("D")
		}
		if vers[k][1] {
			sb.WriteString("X")
		}
		sb.WriteString(" ")
	}
	sb.WriteString("]")
	return sb.String()
}

func (s *c14State) seal() *c14State {
	if !s.Exists {
		s.key = "-"
		return s
	}
	var sb strings.Builder
	vs := map[int][2]bool{}
	for v, x := range s.Vers {
		vs[v] = [2]bool{x.Deleted, x.Destroyed}
	}
	sb.WriteString(c14MetaString(s.Cur, s.MaxV, s.CasReq, s.Custom, s.MVer, vs))
	ks := make([]int, 0, len(s.Vers))
	for k := range s.Vers {
		ks = append(ks, k)
	}
	sort.Ints(ks)
	for _, k := range ks {
		if !s.Vers[k].Destroyed {
			fmt.Fprintf(&sb, "|%d:%s", k, c14Canon(s.Vers[k].Data))
		}
	}
	s.key = sb.String()
	return s
}

func (s *c14State) clone() *c14State {
	n := &c14State{Exists: s.Exists, Cur: s.Cur, CasReq: s.CasReq, MaxV: s.MaxV, Custom: s.Custom, MVer: s.MVer, Vers: map[int]c14Ver{}}
	for k, v := range s.Vers {
		n.Vers[k] = v // Data maps are never mutated after creation
	}
	return n
}

// c14CfgString is what a read of the mount configuration shows.
func c14CfgString(cfg c14Cfg, dva string) string {
	return fmt.Sprintf("cas_required=%v max_versions=%d delete_version_after=%s", cfg.CasReq, cfg.MaxV, dva)
}

// c14CfgApply is the documented effect of an acknowledged configuration write:
// the supplied settings replace the stored ones, the others stay.
func c14CfgApply(cfg c14Cfg, in c14In) c14Cfg {
	if in.MaxV >= 0 {
		cfg.MaxV = in.MaxV
	}
	if in.CasReq >= 0 {
		cfg.CasReq = in.CasReq == 1
	}
	return cfg
}

func c14Empty() *c14State { return (&c14State{Vers: map[int]c14Ver{}}).seal() }

// c14Keep is the documented number of versions kept: the key's setting if set,
// else the mount's, else 10.
func c14Keep(cfg c14Cfg, st *c14State) int {
	if st.MaxV > 0 {
		return st.MaxV
	}
	if cfg.MaxV > 0 {
		return cfg.MaxV
	}
	return 10
}

// c14Apply is the sequential specification: the response and next state of
// operation in applied to state st (written from the API documentation and the
// property statement).
func c14Apply(cfg c14Cfg, st *c14State, in c14In) (c14Out, *c14State) {
	switch in.Kind {
	case "write", "patch":
		if in.Kind == "patch" && !st.Exists {
			return c14Out{Class: "nf"}, st
		}
		cur := st.Cur
		if in.Cas >= 0 {
			if in.Cas != cur {
				return c14Out{Class: "refused"}, st
			}
		} else if cfg.CasReq || st.CasReq {
			return c14Out{Class: "refused"}, st
		}
		data := map[string]string{}
		if in.Kind == "patch" {
			cv, ok := st.Vers[cur]
			if !ok {
				return c14Out{Class: "nf"}, st
			}
			if cv.Deleted || cv.Destroyed {
				return c14Out{Class: "nfmeta", Version: cur, Deleted: cv.Deleted, Destroyed: cv.Destroyed}, st
			}
			for k, v := range cv.Data {
				data[k] = v
			}
			for _, k := range in.Null {
				delete(data, k)
			}
		}
		for k, v := range in.Data {
			data[k] = v
		}
		n := st.clone()
		n.Exists = true
		n.Cur = cur + 1
		n.Vers[n.Cur] = c14Ver{Data: data}
		keep := c14Keep(cfg, n)
		for v := range n.Vers {
			if v <= n.Cur-keep {
				delete(n.Vers, v)
			}
		}
		return c14Out{Class: "ok", Version: n.Cur}, n.seal()
	case "read":
		if !st.Exists {
			return c14Out{Class: "nf"}, st
		}
		v := in.Version
		if v <= 0 {
			v = st.Cur
		}
		ver, ok := st.Vers[v]
		if !ok {
			return c14Out{Class: "nf"}, st
		}
		if ver.Deleted || ver.Destroyed {
			return c14Out{Class: "nfmeta", Version: v, Deleted: ver.Deleted, Destroyed: ver.Destroyed}, st
		}
		return c14Out{Class: "ok", Version: v, Data: c14Canon(ver.Data)}, st
	case "delete-latest":
		if !st.Exists {
			return c14Out{Class: "ok"}, st
		}
		ver, ok := st.Vers[st.Cur]
		if !ok || ver.Deleted || ver.Destroyed {
			return c14Out{Class: "ok"}, st
		}
		n := st.clone()
		ver.Deleted = true
		n.Vers[st.Cur] = ver
		return c14Out{Class: "ok"}, n.seal()
	case "delete", "undelete", "destroy":
		if !st.Exists {
			return c14Out{Class: "ok"}, st
		}
		n := st.clone()
		for _, v := range in.Versions {
			ver, ok := n.Vers[v]
			if !ok || ver.Destroyed {
				continue
			}
			switch in.Kind {
			case "delete":
				ver.Deleted = true
			case "undelete":
				ver.Deleted = false
			case "destroy":
				ver.Destroyed = true
				ver.Data = nil
			}
			n.Vers[v] = ver
		}
		return c14Out{Class: "ok"}, n.seal()
	case "meta-put":
		n := st.clone()
		if !st.Exists {
			if in.MCas > 0 {
				return c14Out{Class: "refused"}, st
			}
			n.Exists = true
			n.MVer = 1
		} else {
			if in.MCas >= 0 && in.MCas != st.MVer {
				return c14Out{Class: "refused"}, st
			}
			n.MVer = st.MVer + 1
		}
		if in.MaxV >= 0 {
			n.MaxV = in.MaxV
		}
		if in.CasReq >= 0 {
			n.CasReq = in.CasReq == 1
		}
		if in.Custom != "" {
			n.Custom = in.Custom
		}
		return c14Out{Class: "ok"}, n.seal()
	case "meta-patch":
		// JSON merge patch of the key's settings. The key metadata must exist; it
		// never touches versions, the current version or any version's data / marks.
		if !st.Exists {
			return c14Out{Class: "nf"}, st
		}
		if in.MCas >= 0 && in.MCas != st.MVer {
			return c14Out{Class: "refused"}, st
		}
		if in.MaxV < 0 && in.CasReq < 0 && in.Custom == "" && !in.CustomRm {
			return c14Out{Class: "ok"}, st // nothing to patch
		}
		n := st.clone()
		n.MVer = st.MVer + 1
		if in.MaxV >= 0 {
			n.MaxV = in.MaxV
		}
		if in.CasReq >= 0 {
			n.CasReq = in.CasReq == 1
		}
		if in.CustomRm {
			n.Custom = ""
		}
		if in.Custom != "" {
			n.Custom = in.Custom
		}
		return c14Out{Class: "ok"}, n.seal()
	case "meta-read":
		if !st.Exists {
			return c14Out{Class: "nf"}, st
		}
		vs := map[int][2]bool{}
		for v, x := range st.Vers {
			vs[v] = [2]bool{x.Deleted, x.Destroyed}
		}
		return c14Out{Class: "ok", Meta: c14MetaString(st.Cur, st.MaxV, st.CasReq, st.Custom, st.MVer, vs)}, st
	case "meta-delete":
		if !st.Exists {
			return c14Out{Class: "ok"}, st
		}
		return c14Out{Class: "ok"}, c14Empty()
	}
	panic("c14: unknown op " + in.Kind)
}

// c14Step: states reachable by performing in with observed output out.
//   - "unknown" (request hit an injected storage fault and reported an error): it
//     either took effect as specified or not at all;
//   - "error" (an internal error without an injected fault): no effect;
//   - otherwise the observed output must be the specified one.
func c14Step(cfg c14Cfg, st *c14State, in c14In, out c14Out) []*c14State {
	exp, next := c14Apply(cfg, st, in)
	switch out.Class {
	case "unknown":
		if next.key == st.key {
			return []*c14State{st}
		}
		return []*c14State{st, next}
	case "error":
		return []*c14State{st}
	}
	if c14OutEq(exp, out) {
		return []*c14State{next}
	}
	return nil
}

// c14PIn: Cfgs are the mount configurations the operation may be judged by: the
// one in effect when it was called and every one written (acknowledged) while it
// was running; the whole operation must follow ONE of them. Empty = the
// history's constant configuration.
type c14PIn struct {
	In   c14In
	Out  c14Out
	Cfgs []c14Cfg
}

func c14Model(cfg c14Cfg) porcupine.Model {
	nm := porcupine.NondeterministicModel{
		Init: func() []any { return []any{c14Empty()} },
		Step: func(state, input, output any) []any {
			pi := input.(c14PIn)
			var res []any
			cfgs := pi.Cfgs
			if len(cfgs) == 0 {
				cfgs = []c14Cfg{cfg}
			}
			seen := map[string]bool{}
			for _, c := range cfgs {
				for _, s := range c14Step(c, state.(*c14State), pi.In, pi.Out) {
					if !seen[s.key] {
						seen[s.key] = true
						res = append(res, s)
					}
				}
			}
			return res
		},
		Equal: func(a, b any) bool { return a.(*c14State).key == b.(*c14State).key },
		DescribeOperation: func(input, output any) string {
			pi := input.(c14PIn)
			return pi.In.String() + " -> " + pi.Out.String()
		},
		DescribeState: func(s any) string { return s.(*c14State).key },
	}
	return nm.ToModel()
}

// ------------------------------------------------------------------ environment

type c14Env struct {
	t      *testing.T
	v      *vCore
	prefix string // physical key prefix of the kv mount
	tx     bool
	label  string
}

var c14Clock atomic.Int64

func c14Boot(t *testing.T, tx, cache bool) *c14Env {
	v := vBoot(t, vOpts{Transactional: tx, Cache: cache, Logical: map[string]logical.Factory{"kv": kv.VersionedKVFactory}})
	// only the type name "kv" may carry a version option (logical_system.go handleMount)
	v.Mount(c14Mount, "kv", "", map[string]any{"version": "2"})
	pref, ok := v.Core.router.MatchingStoragePrefixByAPIPath(namespace.RootContext(t.Context()), c14Mount+"/")
	if !ok || pref == "" {
		t.Fatalf("verif: no storage prefix for the kv mount")
	}
	e := &c14Env{t: t, v: v, prefix: pref, tx: tx, label: fmt.Sprintf("tx=%v,cache=%v", tx, cache)}
	// wait for the kv upgrade to finish (bounded; a failure here is a broken harness)
	okUp := false
	for i := 0; i < 400; i++ {
		resp, err := v.Do(vReq{Op: logical.ReadOperation, Path: c14Mount + "/config", Token: v.Root})
		if vOK(resp, err) {
			okUp = true
			break
		}
		time.Sleep(10 * time.Millisecond)
	}
	if !okUp {
		t.Fatalf("verif: kv-v2 upgrade did not finish")
	}
	// warm the lazily created salt / key policy so that they are not part of any case
	e.exec(c14In{Kind: "write", Path: "warm", Cas: -1, Data: map[string]string{"id": "warm"}})
	e.exec(c14In{Kind: "read", Path: "warm"})
	e.exec(c14In{Kind: "meta-read", Path: "warm"})
	return e
}

func (e *c14Env) setCfg(cfg c14Cfg) {
	e.v.MustDo(vReq{Op: logical.UpdateOperation, Path: c14Mount + "/config", Token: e.v.Root, Data: map[string]any{"max_versions": cfg.MaxV, "cas_required": cfg.CasReq}})
}

func c14Int(x any) int {
	switch t := x.(type) {
	case nil:
		return 0
	case int:
		return t
	case float64:
		return int(t)
	case json.Number:
		n, _ := t.Int64()
		return int(n)
	}
	n, _ := strconv.Atoi(fmt.Sprint(x))
	return n
}

func c14DataCanon(x any) string {
	m, _ := x.(map[string]any)
	out := map[string]string{}
	for k, v := range m {
		out[k] = fmt.Sprint(v)
	}
	return c14Canon(out)
}

func (e *c14Env) request(in c14In) vReq {
	r := vReq{Token: e.v.Root}
	switch in.Kind {
	case "write", "patch":
		r.Op = logical.UpdateOperation
		if in.Kind == "patch" {
			r.Op = logical.PatchOperation
		}
		r.Path = c14Mount + "/data/" + in.Path
		d := map[string]any{}
		for k, v := range in.Data {
			d[k] = v
		}
		for _, k := range in.Null {
			d[k] = nil
		}
		r.Data = map[string]any{"data": d}
		if in.Cas >= 0 {
			r.Data["options"] = map[string]any{"cas": in.Cas}
		}
	case "read":
		r.Op = logical.ReadOperation
		r.Path = c14Mount + "/data/" + in.Path
		if in.Version > 0 {
			r.Data = map[string]any{"version": in.Version}
		}
	case "delete-latest":
		r.Op = logical.DeleteOperation
		r.Path = c14Mount + "/data/" + in.Path
	case "delete", "undelete", "destroy":
		r.Op = logical.UpdateOperation
		r.Path = c14Mount + "/" + in.Kind + "/" + in.Path
		r.Data = map[string]any{"versions": append([]int(nil), in.Versions...)}
	case "meta-put":
		r.Op = logical.UpdateOperation
		r.Path = c14Mount + "/metadata/" + in.Path
		r.Data = map[string]any{}
		if in.MaxV >= 0 {
			r.Data["max_versions"] = in.MaxV
		}
		if in.CasReq >= 0 {
			r.Data["cas_required"] = in.CasReq == 1
		}
		if in.Custom != "" {
			r.Data["custom_metadata"] = map[string]any{"tag": in.Custom}
		}
		if in.MCas >= 0 {
			r.Data["metadata_cas"] = in.MCas
		}
	case "config":
		r.Op = logical.UpdateOperation
		r.Path = c14Mount + "/config"
		r.Data = map[string]any{}
		if in.MaxV >= 0 {
			r.Data["max_versions"] = in.MaxV
		}
		if in.CasReq >= 0 {
			r.Data["cas_required"] = in.CasReq == 1
		}
		if in.DVA > 0 {
			r.Data["delete_version_after"] = in.DVA
		}
	case "config-read":
		r.Op = logical.ReadOperation
		r.Path = c14Mount + "/config"
	case "meta-patch":
		r.Op = logical.PatchOperation
		r.Path = c14Mount + "/metadata/" + in.Path
		r.Data = map[string]any{}
		if in.MaxV >= 0 {
			r.Data["max_versions"] = in.MaxV
		}
		if in.CasReq >= 0 {
			r.Data["cas_required"] = in.CasReq == 1
		}
		if in.Custom != "" {
			r.Data["custom_metadata"] = map[string]any{"tag": in.Custom}
		} else if in.CustomRm {
			r.Data["custom_metadata"] = map[string]any{"tag": nil}
		}
		if in.MCas >= 0 {
			r.Data["metadata_cas"] = in.MCas
		}
	case "meta-read":
		r.Op = logical.ReadOperation
		r.Path = c14Mount + "/metadata/" + in.Path
	case "meta-delete":
		r.Op = logical.DeleteOperation
		r.Path = c14Mount + "/metadata/" + in.Path
	default:
		panic("c14: kind " + in.Kind)
	}
	return r
}

// exec runs one operation and classifies the response.
func (e *c14Env) exec(in c14In) (c14Out, string) {
	return e.execTag(in, "")
}

func (e *c14Env) execTag(in c14In, tag string) (c14Out, string) {
	rq := e.request(in)
	rq.Tag = tag
	resp, err := e.v.Do(rq)
	return c14Classify(in, resp, err), c14Trunc(vErrStr(resp, err), 200)
}

func c14Trunc(s string, n int) string {
	if len(s) > n {
		return s[:n] + "..."
	}
	return s
}

func c14Classify(in c14In, resp *logical.Response, err error) c14Out {
	if resp != nil && resp.IsError() {
		return c14Out{Class: "refused"}
	}
	if err != nil {
		return c14Out{Class: "error"}
	}
	if resp != nil && resp.Data != nil {
		if sc, ok := resp.Data[logical.HTTPStatusCode]; ok {
			if c14Int(sc) != 404 {
				return c14Out{Class: "error"}
			}
			var body []byte
			switch b := resp.Data[logical.HTTPRawBody].(type) {
			case string:
				body = []byte(b)
			case []byte:
				body = b
			}
			if len(body) == 0 {
				return c14Out{Class: "nf"}
			}
			var m map[string]any
			if json.Unmarshal(body, &m) != nil {
				return c14Out{Class: "error"}
			}
			d, _ := m["data"].(map[string]any)
			if d == nil {
				return c14Out{Class: "nf"}
			}
			md := d
			if x, ok := d["metadata"].(map[string]any); ok {
				md = x
			}
			if dd, has := d["data"]; has && dd != nil && in.Kind == "read" {
				// a 404 must not carry the secret
				return c14Out{Class: "error"}
			}
			dt, _ := md["deletion_time"].(string)
			ds, _ := md["destroyed"].(bool)
			v := c14Int(md["version"])
			return c14Out{Class: "nfmeta", Version: v, Deleted: dt != "", Destroyed: ds, kCur: v}
		}
	}
	switch in.Kind {
	case "config-read":
		if resp == nil || resp.Data == nil {
			return c14Out{Class: "error"}
		}
		cr, _ := resp.Data["cas_required"].(bool)
		return c14Out{Class: "ok", Meta: c14CfgString(c14Cfg{CasReq: cr, MaxV: c14Int(resp.Data["max_versions"])}, fmt.Sprint(resp.Data["delete_version_after"]))}
	case "write", "patch":
		if resp == nil || resp.Data == nil || resp.Data["version"] == nil {
			return c14Out{Class: "error"}
		}
		v := c14Int(resp.Data["version"])
		return c14Out{Class: "ok", Version: v, kCur: v}
	case "read":
		if resp == nil {
			return c14Out{Class: "nf"}
		}
		md, _ := resp.Data["metadata"].(map[string]any)
		if md == nil {
			return c14Out{Class: "error"}
		}
		dt, _ := md["deletion_time"].(string)
		ds, _ := md["destroyed"].(bool)
		v := c14Int(md["version"])
		if dt != "" || ds {
			// a readable response for a version whose metadata says deleted/destroyed
			return c14Out{Class: "ok", Version: v, Data: c14DataCanon(resp.Data["data"]), Deleted: dt != "", Destroyed: ds}
		}
		return c14Out{Class: "ok", Version: v, Data: c14DataCanon(resp.Data["data"]), kCur: v}
	case "meta-read":
		if resp == nil {
			return c14Out{Class: "nf"}
		}
		vs := map[int][2]bool{}
		if m, ok := resp.Data["versions"].(map[string]any); ok {
			for k, x := range m {
				xm, _ := x.(map[string]any)
				dt, _ := xm["deletion_time"].(string)
				ds, _ := xm["destroyed"].(bool)
				n, _ := strconv.Atoi(k)
				vs[n] = [2]bool{dt != "", ds}
			}
		}
		custom := ""
		switch cm := resp.Data["custom_metadata"].(type) {
		case map[string]string:
			custom = cm["tag"]
		case map[string]any:
			custom, _ = cm["tag"].(string)
		}
		cr, _ := resp.Data["cas_required"].(bool)
		cur := c14Int(resp.Data["current_version"])
		mver := c14Int(resp.Data["current_metadata_version"])
		return c14Out{Class: "ok", Meta: c14MetaString(cur, c14Int(resp.Data["max_versions"]), cr, custom, mver, vs), kCur: cur, kMVer: mver}
	}
	return c14Out{Class: "ok"}
}

// ------------------------------------------------------------------ histories

type c14Op struct {
	Client int    `json:"client"`
	In     c14In  `json:"in"`
	Out    c14Out `json:"out"`
	Raw    string `json:"raw,omitempty"`
	Call   int64  `json:"call"`
	Ret    int64  `json:"ret"`
	Armed  bool   `json:"fault_armed,omitempty"`
}

func (o c14Op) String() string {
	return fmt.Sprintf("c%d [%d,%d] %s -> %s", o.Client, o.Call, o.Ret, o.In.String(), o.Out.String())
}

type c14Hist struct {
	e   *c14Env
	cfg c14Cfg
	mu  sync.Mutex
	ops []c14Op
}

func (h *c14Hist) do(client int, in c14In) c14Op {
	op := c14Op{Client: client, In: in}
	op.Call = c14Clock.Add(1)
	op.Out, op.Raw = h.e.exec(in)
	op.Ret = c14Clock.Add(1)
	if op.Out.Class == "ok" || op.Out.Class == "nf" || op.Out.Class == "nfmeta" {
		op.Raw = ""
	}
	return op
}

func (h *c14Hist) add(ops ...c14Op) {
	h.mu.Lock()
	h.ops = append(h.ops, ops...)
	h.mu.Unlock()
}

// readBack appends a sequential read of everything observable (metadata, current
// and every numbered version) so that the final state takes part in the check.
func (h *c14Hist) readBack(paths []string) {
	for _, p := range paths {
		top := 1
		for _, o := range h.ops {
			if o.In.Path == p {
				if o.Out.Version > top {
					top = o.Out.Version
				}
				if o.Out.kCur > top {
					top = o.Out.kCur
				}
			}
		}
		mr := h.do(0, c14In{Kind: "meta-read", Path: p})
		if mr.Out.kCur > top {
			top = mr.Out.kCur
		}
		h.add(mr)
		h.add(h.do(0, c14In{Kind: "read", Path: p}))
		if top > 16 {
			top = 16
		}
		for v := 1; v <= top+1; v++ {
			h.add(h.do(0, c14In{Kind: "read", Path: p, Version: v}))
		}
	}
}

func c14Mutates(kind string) bool { return kind != "read" && kind != "meta-read" }

type c14Stats struct {
	overlapPairs   int
	metaPatchPairs int // a metadata PATCH overlapping another mutator of the same path
	cfgWrites      int // acknowledged writes of the mount configuration in the history
	twoCfgOps      int // mutators that ran while the mount configuration was being written (two admissible configurations)
	casRaces       int
	casRaceOneWins int
	writesOK       int
	refused        int
	unknown        int
	internalErrs   int
}

// check runs the oracles over a finished history. Returns false when a violation was recorded.
func (h *c14Hist) check(r *kit.Result, caseID string, faultFree bool, extra map[string]any) (bool, c14Stats) {
	var st c14Stats
	ok := true
	byPath := map[string][]c14Op{}
	var paths []string
	var end int64
	// acknowledged writes of the mount configuration, in order (they are issued by
	// one client at a time); cfgTimeline[k] is in effect at the earliest from its
	// call and at the latest until the next one returned
	type cfgSpan struct {
		cfg      c14Cfg
		from, to int64
	}
	cfgTimeline := []cfgSpan{{cfg: h.cfg, from: -1, to: 1 << 62}}
	var cfgOps []c14Op
	for _, o := range h.ops {
		if o.In.Kind == "config" || o.In.Kind == "config-read" {
			cfgOps = append(cfgOps, o)
			continue
		}
		if _, seen := byPath[o.In.Path]; !seen {
			paths = append(paths, o.In.Path)
		}
		byPath[o.In.Path] = append(byPath[o.In.Path], o)
		if o.Ret > end {
			end = o.Ret
		}
	}
	sort.SliceStable(cfgOps, func(i, j int) bool { return cfgOps[i].Call < cfgOps[j].Call })
	for _, o := range cfgOps {
		last := &cfgTimeline[len(cfgTimeline)-1]
		switch {
		case o.In.Kind == "config" && o.Out.Class == "ok":
			last.to = o.Ret
			cfgTimeline = append(cfgTimeline, cfgSpan{cfg: c14CfgApply(last.cfg, o.In), from: o.Call, to: 1 << 62})
			st.cfgWrites++
		case o.In.Kind == "config":
			st.internalErrs++
			if faultFree {
				r.Violate("C14-config-write-failed-without-fault", caseID, "a write of the mount configuration failed in a fault-free history: "+o.String()+" ("+o.Raw+")", map[string]any{"store": h.e.label})
				ok = false
			}
		case o.In.Kind == "config-read" && o.Out.Class == "ok":
			// a configuration read must show a configuration admissible during the read
			good := false
			for _, sp := range cfgTimeline {
				if sp.from <= o.Ret && o.Call <= sp.to && o.Out.Meta == c14CfgString(sp.cfg, "0s") {
					good = true
				}
			}
			if !good {
				var lines []string
				for _, c := range cfgOps {
					lines = append(lines, c.String())
				}
				r.Violate("C14-config-read-shows-unwritten-configuration", caseID, "a read of the mount configuration shows a configuration that no acknowledged write produced at that time: "+o.String(), map[string]any{"store": h.e.label, "initial": h.cfg, "config_ops": lines})
				ok = false
			}
		}
	}
	admissible := func(o c14Op) []c14Cfg {
		if len(cfgTimeline) == 1 {
			return nil
		}
		ret := o.Ret
		if o.Out.Class == "unknown" {
			ret = 1 << 62
		}
		var cs []c14Cfg
		for _, sp := range cfgTimeline {
			if sp.from <= ret && o.Call <= sp.to {
				dup := false
				for _, c := range cs {
					dup = dup || c == sp.cfg
				}
				if !dup {
					cs = append(cs, sp.cfg)
				}
			}
		}
		return cs
	}
	sort.Strings(paths)
	witness := func(p string) map[string]any {
		var lines []string
		sorted := append([]c14Op(nil), byPath[p]...)
		sort.SliceStable(sorted, func(i, j int) bool { return sorted[i].Call < sorted[j].Call })
		for _, o := range sorted {
			lines = append(lines, o.String())
		}
		w := map[string]any{"store": h.e.label, "config": h.cfg, "path": p, "ops": lines}
		if len(cfgOps) > 0 {
			var cl []string
			for _, c := range cfgOps {
				cl = append(cl, c.String())
			}
			w["mount_config_ops"] = cl
		}
		for k, v := range extra {
			w[k] = v
		}
		return w
	}
	for _, p := range paths {
		ops := byPath[p]
		// ---- direct counters
		hasMetaDelete, unknownOnPath := false, 0
		var succ []c14Op
		for _, o := range ops {
			switch o.Out.Class {
			case "unknown":
				unknownOnPath++
				st.unknown++
			case "refused":
				st.refused++
			case "error":
				st.internalErrs++
				if faultFree && (o.In.Kind == "read" || o.In.Kind == "meta-read") {
					r.Violate("C14-read-internal-error", caseID, "a read failed with an internal error in a fault-free history: "+o.String()+" ("+o.Raw+")", witness(p))
					ok = false
				}
			}
			if o.In.Kind == "meta-delete" {
				hasMetaDelete = true
			}
			if (o.In.Kind == "write" || o.In.Kind == "patch") && o.Out.Class == "ok" {
				succ = append(succ, o)
				st.writesOK++
			}
		}
		if !hasMetaDelete {
			seen := map[int]c14Op{}
			casWins := map[int]int{}
			maxV := 0
			for _, o := range succ {
				if prev, dup := seen[o.Out.Version]; dup {
					r.Violate("C14-duplicate-version", caseID, fmt.Sprintf("two successful writes on %s received version %d: %s  ||  %s", p, o.Out.Version, prev.String(), o.String()), witness(p))
					ok = false
				}
				seen[o.Out.Version] = o
				if o.Out.Version > maxV {
					maxV = o.Out.Version
				}
				if o.In.Cas >= 0 {
					casWins[o.In.Cas]++
					if casWins[o.In.Cas] == 2 {
						r.Violate("C14-cas-double-success", caseID, fmt.Sprintf("two writes on %s presenting cas=%d both succeeded", p, o.In.Cas), witness(p))
						ok = false
					}
				}
			}
			// the last metadata read of the history (the final read-back) must not show a
			// current version below one that was handed out to a successful write before it
			var lastMeta *c14Op
			for i := range ops {
				if ops[i].In.Kind == "meta-read" && ops[i].Out.Class == "ok" && (lastMeta == nil || ops[i].Call > lastMeta.Call) {
					lastMeta = &ops[i]
				}
			}
			if lastMeta != nil {
				for _, o := range succ {
					if o.Ret < lastMeta.Call && o.Out.Version > lastMeta.Out.kCur {
						r.Violate("C14-acknowledged-version-lost", caseID, fmt.Sprintf("%s was acknowledged, and afterwards the metadata of %s reports current_version %d: %s", o.String(), p, lastMeta.Out.kCur, lastMeta.String()), witness(p))
						ok = false
						break
					}
				}
			}
			if ok && maxV-len(seen) > unknownOnPath {
				r.Violate("C14-version-gap", caseID, fmt.Sprintf("successful writes on %s received versions up to %d but only %d distinct numbers were handed out (and %d writes have an unknown outcome)", p, maxV, len(seen), unknownOnPath), witness(p))
				ok = false
			}
		}
		// overlap / CAS-race evidence
		for i := 0; i < len(ops); i++ {
			for j := i + 1; j < len(ops); j++ {
				a, b := ops[i], ops[j]
				if a.Client == b.Client || a.Call > b.Ret || b.Call > a.Ret {
					continue
				}
				st.overlapPairs++
				if am, bm := c14Mutates(a.In.Kind), c14Mutates(b.In.Kind); am && bm && (a.In.Kind == "meta-patch" || b.In.Kind == "meta-patch") {
					st.metaPatchPairs++
				}
				aw := a.In.Kind == "write" || a.In.Kind == "patch"
				bw := b.In.Kind == "write" || b.In.Kind == "patch"
				if aw && bw && a.In.Cas >= 0 && a.In.Cas == b.In.Cas {
					st.casRaces++
					if (a.Out.Class == "ok") != (b.Out.Class == "ok") {
						st.casRaceOneWins++
					}
				}
			}
		}
		// ---- porcupine
		pops := make([]porcupine.Operation, 0, len(ops))
		for _, o := range ops {
			ret := o.Ret
			if o.Out.Class == "unknown" {
				ret = end + 1
			}
			cs := admissible(o)
			if len(cs) > 1 && c14Mutates(o.In.Kind) {
				st.twoCfgOps++
			}
			pops = append(pops, porcupine.Operation{ClientId: o.Client, Input: c14PIn{In: o.In, Out: o.Out, Cfgs: cs}, Call: o.Call, Return: ret})
		}
		res := porcupine.CheckOperationsTimeout(c14Model(h.cfg), pops, 2*time.Minute)
		r.Count("porcupine_partitions_checked", 1)
		switch res {
		case porcupine.Illegal:
			r.Violate("C14-not-linearizable", caseID, fmt.Sprintf("history of %d operations on %s has no linearization against the versioned-register model", len(ops), p), witness(p))
			ok = false
		case porcupine.Unknown:
			r.Inconc("%s: porcupine timed out on %s (%d ops)", caseID, p, len(ops))
		}
	}
	return ok, st
}

// ------------------------------------------------------------------ generators

type c14Know struct {
	cur  map[string]int
	mver map[string]int
}

func c14NewKnow() *c14Know { return &c14Know{cur: map[string]int{}, mver: map[string]int{}} }

func (k *c14Know) learn(op c14Op) {
	p := op.In.Path
	switch op.In.Kind {
	case "write", "patch":
		if op.Out.Class == "ok" {
			k.cur[p] = op.Out.Version
		}
	case "read":
		if op.In.Version == 0 && (op.Out.Class == "ok" || op.Out.Class == "nfmeta") {
			k.cur[p] = op.Out.Version
		}
	case "meta-read":
		if op.Out.Class == "ok" {
			k.cur[p] = op.Out.kCur
			k.mver[p] = op.Out.kMVer
		}
	case "meta-delete":
		if op.Out.Class == "ok" {
			k.cur[p] = 0
			k.mver[p] = 0
		}
	}
}

type c14GenOpts struct {
	paths      []string
	cfg        c14Cfg
	metaDelete bool
	idPrefix   string
}

func c14Gen(rng *kit.Rand, g c14GenOpts, k *c14Know, n int) c14In {
	p := kit.Pick(rng, g.paths)
	in := c14In{Path: p, Cas: -1, MaxV: -1, CasReq: -1, MCas: -1}
	id := fmt.Sprintf("%s.%d", g.idPrefix, n)
	cas := func() int {
		none := 45
		if g.cfg.CasReq {
			none = 12
		}
		if rng.Intn(100) < none {
			return -1
		}
		base := k.cur[p]
		switch x := rng.Intn(10); {
		case x < 7:
			return base
		case x == 7:
			return base + 1
		case x == 8:
			if base > 0 {
				return base - 1
			}
			return base
		default:
			return 0
		}
	}
	versions := func() []int {
		top := k.cur[p] + 1
		if top < 2 {
			top = 2
		}
		vs := []int{1 + rng.Intn(top)}
		if rng.Chance(1, 3) {
			vs = append(vs, 1+rng.Intn(top))
		}
		return vs
	}
	w := rng.Intn(100)
	switch {
	case w < 25:
		in.Kind = "write"
		in.Cas = cas()
		in.Data = map[string]string{"id": id, "w": id}
	case w < 38:
		in.Kind = "patch"
		in.Cas = cas()
		in.Data = map[string]string{"id": id}
		if rng.Chance(1, 2) {
			in.Data["p"+strconv.Itoa(rng.Intn(2))] = id
		}
		if rng.Chance(1, 4) {
			nk := kit.Pick(rng, []string{"w", "p0", "p1"})
			if _, both := in.Data[nk]; !both {
				in.Null = []string{nk}
			}
		}
	case w < 58:
		in.Kind = "read"
		if rng.Intn(100) >= 55 {
			in.Version = 1 + rng.Intn(k.cur[p]+2)
		}
	case w < 63:
		in.Kind = "delete-latest"
	case w < 69:
		in.Kind = "delete"
		in.Versions = versions()
	case w < 75:
		in.Kind = "undelete"
		in.Versions = versions()
	case w < 80:
		in.Kind = "destroy"
		in.Versions = versions()
	case w < 93:
		in.Kind = "meta-put"
		if w >= 86 {
			in.Kind = "meta-patch"
		}
		switch rng.Intn(3) {
		case 0:
			// the key-level value is only ever 0 or >= the mount-level one (see assumptions)
			if g.cfg.MaxV > 0 {
				in.MaxV = kit.Pick(rng, []int{0, g.cfg.MaxV})
			} else {
				in.MaxV = kit.Pick(rng, []int{0, 2, 3})
			}
		case 1:
			in.CasReq = rng.Intn(2)
		default:
			in.Custom = id
			if in.Kind == "meta-patch" && rng.Chance(1, 4) {
				in.Custom, in.CustomRm = "", true
			}
		}
		if rng.Chance(1, 4) {
			in.MCas = k.mver[p]
			if rng.Chance(1, 3) {
				in.MCas = rng.Intn(3)
			}
		}
	case w < 99 || !g.metaDelete:
		in.Kind = "meta-read"
	default:
		in.Kind = "meta-delete"
	}
	return in
}

func c14RandCfg(rng *kit.Rand) c14Cfg {
	return c14Cfg{CasReq: rng.Chance(1, 5), MaxV: kit.Pick(rng, []int{0, 0, 2, 3})}
}

var c14PathSeq atomic.Int64

func c14FreshPaths(n int) []string {
	base := c14PathSeq.Add(1)
	out := make([]string, n)
	for i := range out {
		out[i] = fmt.Sprintf("h%d/p%d", base, i)
	}
	return out
}

// c14N picks a size by tier; the -race rebuild of the thorough tier uses the quick sizes.
func c14N(quick, thorough int) int {
	if os.Getenv("VERIF_RACE") != "" {
		return quick
	}
	return kit.N(quick, thorough)
}

func b2u14(b bool) uint64 {
	if b {
		return 1
	}
	return 0
}

// c14ShardOf returns this process's shard, or the shard named in the case being replayed.
func c14ShardOf() int {
	if oc := kit.OnlyCase(); oc != "" {
		for _, f := range strings.Split(oc, ":") {
			if strings.HasPrefix(f, "s") {
				if n, err := strconv.Atoi(f[1:]); err == nil {
					return n
				}
			}
		}
	}
	s, _ := kit.Shard()
	return s
}

// ------------------------------------------------------------------ sequential differential

func TestVerif_C14_Sequential(t *testing.T) {
	seed := kit.Seed(14)
	shard := c14ShardOf()
	r := kit.NewResult(t, "c14-sequential", seed, "single-client histories of 60 operations (write/patch with cas absent, equal, stale, ahead or 0; read current / numbered version; delete latest; delete, undelete, destroy of version lists; metadata put and metadata PATCH (JSON merge patch, incl. removal of a custom metadata key) of max_versions in {0,2,3}, cas_required, custom metadata with and without metadata_cas; metadata read; metadata delete; writes of the mount configuration (cas_required, max_versions) every 20 operations with probability 1/2, half of them with one storage operation of the request failing: a config write that reported failure leaves the reference configuration unchanged) on two paths, transactional and non-transactional store: every response is compared with the reference versioned-register model; a history is non-trivial when it contains a refused CAS write, a pruned version and a deleted or destroyed version read; distinct by its operation/response sequence")
	defer r.Write(t)
	for _, tx := range []bool{false, true} {
		e := c14Boot(t, tx, false)
		for c := 0; c < c14N(100, 250); c++ {
			caseID := fmt.Sprintf("seq:%v:s%d:%d", tx, shard, c)
			if !kit.WantCase(caseID) {
				continue
			}
			rng := kit.NewRand(seed, uint64(shard*100000+c)*2+b2u14(tx)+1_000_000)
			c14SeqCase(e, r, rng, caseID)
			if r.NViolations() > 30 {
				return
			}
		}
		if kit.WantCase(fmt.Sprintf("seq-note:%v", tx)) {
			c14MaxVersionsNote(e, r)
		}
		e.v.Close()
	}
	r.Require("seq_ops", 8000)
	r.Require("seq_cas_refused", 300)
	r.Require("seq_cas_accepted", 600)
	r.Require("seq_reads_of_pruned_version", 300)
	r.Require("seq_reads_of_deleted_or_destroyed", 150)
	r.Require("seq_reads_ok", 500)
	r.Require("seq_metadata_patches_applied_to_key_with_versions", 200)
	r.Require("seq_config_writes_failed_by_fault", 40)
	r.Require("seq_config_writes_acknowledged", 60)
}

func c14SeqCase(e *c14Env, r *kit.Result, rng *kit.Rand, caseID string) {
	cfg := c14RandCfg(rng)
	e.setCfg(cfg)
	paths := c14FreshPaths(2)
	g := c14GenOpts{paths: paths, cfg: cfg, metaDelete: true, idPrefix: caseID}
	know := c14NewKnow()
	states := map[string]*c14State{paths[0]: c14Empty(), paths[1]: c14Empty()}
	h := &c14Hist{e: e, cfg: cfg}
	var trace []string
	flags := map[string]bool{}
	var ghost *c14Cfg // configuration of the last config write that REPORTED FAILURE (nil after an acknowledged one)
	r.Eval(1)
	for i := 0; i < 60; i++ {
		if i > 0 && i%20 == 0 && rng.Chance(1, 2) {
			// mount config change between operations
			ncfg := c14RandCfg(rng)
			// keep key-level and mount-level max_versions unambiguous (assumption)
			for _, p := range paths {
				if states[p].MaxV > 0 && ncfg.MaxV > states[p].MaxV {
					ncfg.MaxV = 0
				}
			}
			// the configuration write goes through the API like any other operation;
			// half of them with one storage operation of the request failing
			cin := c14Config(ncfg.MaxV, int(b2u14(ncfg.CasReq)))
			armedN := 0
			if rng.Chance(1, 2) {
				armedN = 1 + rng.Intn(5)
				e.v.Probe.FailNth(func(ev kit.Event) bool { return ev.Tag == "cfgw" }, armedN)
			}
			cout, craw := e.execTag(cin, "cfgw")
			fired := e.v.Probe.ClearFaults()
			r.Count("seq_ops", 1)
			switch {
			case cout.Class == "ok":
				cfg, ghost = ncfg, nil
				r.Count("seq_config_writes_acknowledged", 1)
			case fired > 0:
				// reported failure: the effective configuration must be what it was
				g2 := ncfg
				ghost = &g2
				r.Count("seq_config_writes_failed_by_fault", 1)
			default:
				r.Violate("C14-config-write-failed-without-fault", caseID, fmt.Sprintf("step %d: %s failed although no fault fired: %s", i, cin.String(), craw), map[string]any{"store": e.label, "config": cfg, "trace": trace})
				return
			}
			g.cfg = cfg
			trace = append(trace, fmt.Sprintf("%s [storage op %d of the request fails: %v] -> %s; reference configuration now %+v", cin.String(), armedN, fired > 0, cout.Class, cfg))
			if cr, _ := e.exec(c14In{Kind: "config-read"}); cr.Class != "ok" || cr.Meta != c14CfgString(cfg, "0s") {
				class := "C14-seq-config-read"
				if ghost != nil {
					class = "C14-failed-config-write-changed-effective-configuration"
				}
				r.Violate(class, caseID, fmt.Sprintf("step %d: after %s -> %s the configuration read shows %q, the reference says %q", i, cin.String(), cout.Class, cr.Meta, c14CfgString(cfg, "0s")), map[string]any{"store": e.label, "trace": trace})
				return
			}
		}
		in := c14Gen(rng, g, know, i)
		if (in.Kind == "meta-put" || in.Kind == "meta-patch") && in.MaxV > 0 && cfg.MaxV > in.MaxV {
			in.MaxV = cfg.MaxV
		}
		op := h.do(0, in)
		know.learn(op)
		r.Count("seq_ops", 1)
		trace = append(trace, op.In.String()+" -> "+op.Out.String())
		st := states[in.Path]
		exp, next := c14Apply(cfg, st, in)
		if !c14OutEq(exp, op.Out) {
			class := "C14-seq-mutator-outcome"
			switch in.Kind {
			case "write", "patch":
				class = "C14-seq-write-outcome"
			case "read":
				class = "C14-seq-read-outcome"
			case "meta-read":
				class = "C14-seq-metadata"
			}
			if ghost != nil {
				if gexp, _ := c14Apply(*ghost, st, in); c14OutEq(gexp, op.Out) {
					// the answer is the one the configuration of the FAILED config write would give
					class = "C14-failed-config-write-changed-effective-configuration"
				}
			}
			if len(trace) > 70 {
				trace = trace[len(trace)-70:]
			}
			r.Violate(class, caseID, fmt.Sprintf("step %d: %s answered %q (%s), the reference model says %q (model state %s)", i, in.String(), op.Out.String(), op.Raw, exp.String(), st.key),
				map[string]any{"store": e.label, "config": cfg, "trace": trace})
			return
		}
		states[in.Path] = next
		switch {
		case (in.Kind == "write" || in.Kind == "patch") && in.Cas >= 0 && exp.Class == "refused":
			r.Count("seq_cas_refused", 1)
			flags["refused"] = true
		case (in.Kind == "write" || in.Kind == "patch") && in.Cas >= 0 && exp.Class == "ok":
			r.Count("seq_cas_accepted", 1)
		case in.Kind == "meta-patch" && exp.Class == "ok" && st.Cur > 0:
			r.Count("seq_metadata_patches_applied_to_key_with_versions", 1)
		case in.Kind == "meta-patch":
			r.Count("seq_metadata_patches_refused_or_no_key", 1)
		case in.Kind == "read" && exp.Class == "ok":
			r.Count("seq_reads_ok", 1)
		case in.Kind == "read" && exp.Class == "nfmeta":
			r.Count("seq_reads_of_deleted_or_destroyed", 1)
			flags["dead"] = true
		case in.Kind == "read" && exp.Class == "nf" && st.Exists && in.Version > 0 && in.Version < st.Cur:
			r.Count("seq_reads_of_pruned_version", 1)
			flags["pruned"] = true
		}
	}
	// every version ever written, read back at the end
	for _, p := range paths {
		st := states[p]
		for v := 0; v <= st.Cur+1; v++ {
			in := c14In{Kind: "read", Path: p, Version: v}
			op := h.do(0, in)
			exp, _ := c14Apply(cfg, st, in)
			r.Count("seq_ops", 1)
			if exp.Class == "nf" && st.Exists && v > 0 && v < st.Cur {
				r.Count("seq_reads_of_pruned_version", 1)
				flags["pruned"] = true
			}
			if !c14OutEq(exp, op.Out) {
				r.Violate("C14-seq-read-outcome", caseID, fmt.Sprintf("final read-back: %s answered %q, the reference model says %q", in.String(), op.Out.String(), exp.String()), map[string]any{"store": e.label, "config": cfg, "trace": trace})
				return
			}
		}
	}
	if flags["refused"] && flags["dead"] && flags["pruned"] {
		r.Nontrivial(strings.Join(trace, "\n"))
	}
	if len(trace) > 25 {
		trace = trace[:25]
	}
	r.Sample(map[string]any{"case": caseID, "store": e.label, "first_steps": trace})
}

// c14MaxVersionsNote records (not a verdict) what happens when a key-level max_versions
// below the mount-level one is set: the documentation says the key's setting overrides.
func c14MaxVersionsNote(e *c14Env, r *kit.Result) {
	e.setCfg(c14Cfg{MaxV: 3})
	p := c14FreshPaths(1)[0]
	e.exec(c14In{Kind: "meta-put", Path: p, Cas: -1, MaxV: 2, CasReq: -1, MCas: -1})
	for i := 0; i < 4; i++ {
		e.exec(c14In{Kind: "write", Path: p, Cas: -1, Data: map[string]string{"id": "n"}})
	}
	out, _ := e.exec(c14In{Kind: "read", Path: p, Version: 2})
	e.setCfg(c14Cfg{})
	if out.Class == "ok" {
		r.Note("observation outside C14 (%s): with mount max_versions=3 and key max_versions=2, after 4 writes version 2 is still readable: the larger of the two settings is used, whereas the API documentation says a key's setting overrides the mount's; harness inputs never set a key-level value below the mount-level one", e.label)
	} else {
		r.Note("observation (%s): key-level max_versions below the mount-level one takes effect (version 2 pruned after 4 writes)", e.label)
	}
}

// ------------------------------------------------------------------ single faults inside a write

type c14FaultScen struct {
	name string
	cfg  c14Cfg
	pre  func(p string) []c14In
	op   func(p string) c14In
}

func c14W(p string, cas int, id string) c14In {
	return c14In{Kind: "write", Path: p, Cas: cas, Data: map[string]string{"id": id, "w": id}, MaxV: -1, CasReq: -1, MCas: -1}
}

func c14Patch(p string, cas int, id string) c14In {
	return c14In{Kind: "patch", Path: p, Cas: cas, Data: map[string]string{"id": id, "p0": id}, MaxV: -1, CasReq: -1, MCas: -1}
}

func c14Op1(kind, p string, vs ...int) c14In {
	return c14In{Kind: kind, Path: p, Cas: -1, Versions: vs, MaxV: -1, CasReq: -1, MCas: -1}
}

func c14MetaPut(p string, maxv, casreq int, custom string) c14In {
	return c14In{Kind: "meta-put", Path: p, Cas: -1, MaxV: maxv, CasReq: casreq, Custom: custom, MCas: -1}
}

func c14MetaPatch(p string, maxv, casreq int, custom string, mcas int) c14In {
	return c14In{Kind: "meta-patch", Path: p, Cas: -1, MaxV: maxv, CasReq: casreq, Custom: custom, MCas: mcas}
}

func c14Config(maxv, casreq int) c14In {
	return c14In{Kind: "config", Cas: -1, MaxV: maxv, CasReq: casreq, MCas: -1}
}

func c14FaultScens() []c14FaultScen {
	three := func(p string) []c14In { return []c14In{c14W(p, -1, "a1"), c14W(p, -1, "a2"), c14W(p, -1, "a3")} }
	return []c14FaultScen{
		{"write-new-key", c14Cfg{}, func(p string) []c14In { return nil }, func(p string) c14In { return c14W(p, -1, "x") }},
		{"write-new-key-cas0", c14Cfg{CasReq: true}, func(p string) []c14In { return nil }, func(p string) c14In { return c14W(p, 0, "x") }},
		{"write-existing", c14Cfg{}, three, func(p string) c14In { return c14W(p, -1, "x") }},
		{"write-existing-cas", c14Cfg{}, three, func(p string) c14In { return c14W(p, 3, "x") }},
		{"write-pruning-key-max2", c14Cfg{}, func(p string) []c14In {
			return append([]c14In{c14MetaPut(p, 2, -1, "c")}, three(p)...)
		}, func(p string) c14In { return c14W(p, -1, "x") }},
		{"write-pruning-mount-max3", c14Cfg{MaxV: 3}, func(p string) []c14In {
			return append(three(p), c14W(p, -1, "a4"), c14Op1("delete", p, 3))
		}, func(p string) c14In { return c14W(p, 4, "x") }},
		{"write-over-deleted", c14Cfg{}, func(p string) []c14In {
			return append(three(p), c14Op1("delete-latest", p), c14Op1("destroy", p, 1))
		}, func(p string) c14In { return c14W(p, 3, "x") }},
		{"write-after-metadata-only", c14Cfg{}, func(p string) []c14In {
			return []c14In{c14MetaPut(p, 3, 1, "c")}
		}, func(p string) c14In { return c14W(p, 0, "x") }},
		{"patch", c14Cfg{}, three, func(p string) c14In { return c14Patch(p, -1, "x") }},
		{"patch-cas-pruning", c14Cfg{MaxV: 2}, three, func(p string) c14In { return c14Patch(p, 3, "x") }},
		{"meta-patch", c14Cfg{}, three, func(p string) c14In { return c14MetaPatch(p, 2, 1, "x", -1) }},
		{"meta-patch-mcas-over-deleted", c14Cfg{}, func(p string) []c14In {
			return append(append([]c14In{c14MetaPut(p, 3, -1, "c")}, three(p)...), c14Op1("delete-latest", p), c14Op1("destroy", p, 1))
		}, func(p string) c14In { return c14MetaPatch(p, 0, -1, "x", 1) }},
		{"meta-patch-remove-custom", c14Cfg{MaxV: 3}, func(p string) []c14In {
			return append(three(p), c14MetaPut(p, -1, 1, "c"))
		}, func(p string) c14In {
			in := c14MetaPatch(p, -1, 0, "", -1)
			in.CustomRm = true
			return in
		}},
	}
}

// c14Observe reads everything observable about a path through the API, verbatim
// (timestamps included), so that "unchanged" means byte-identical answers.
func (e *c14Env) observe(p string, top int) []string {
	norm := func(resp *logical.Response, err error) string {
		if err != nil {
			return "ERR " + err.Error()
		}
		if resp == nil {
			return "nil"
		}
		d := resp.Data
		if raw, ok := resp.Data[logical.HTTPRawBody]; ok {
			var m map[string]any
			var body []byte
			switch b := raw.(type) {
			case string:
				body = []byte(b)
			case []byte:
				body = b
			}
			_ = json.Unmarshal(body, &m)
			delete(m, "request_id")
			d = map[string]any{"status": resp.Data[logical.HTTPStatusCode], "body": m}
		}
		b, _ := json.Marshal(d)
		return string(b)
	}
	var out []string
	out = append(out, "meta: "+norm(e.v.Do(e.request(c14In{Kind: "meta-read", Path: p}))))
	for v := 0; v <= top; v++ {
		out = append(out, fmt.Sprintf("v%d: ", v)+norm(e.v.Do(e.request(c14In{Kind: "read", Path: p, Version: v}))))
	}
	return out
}

func TestVerif_C14_Faults(t *testing.T) {
	seed := kit.Seed(14)
	r := kit.NewResult(t, "c14-faults", seed, "for each write/patch/metadata-patch scenario (new key, cas=0 under cas_required, existing key with and without cas, pruning by key-level and mount-level max_versions, write over deleted/destroyed versions, key with metadata only, patch, patch with cas and pruning, metadata PATCH of max_versions+cas_required+custom metadata, metadata PATCH with metadata_cas on a key with deleted and destroyed versions, metadata PATCH removing custom metadata) x store kind: the request is run once on a twin path to count its storage operations n (all operations of the tagged request: token lookup, kv metadata/version reads and writes, transaction begin/commit), then for i in 1..n on a fresh identical path with storage operation i failing once: everything observable through the API (metadata and every numbered version, verbatim incl. timestamps) is compared before/after; a request that reported failure must leave it byte-identical, one that reported success must have produced exactly the model's next state; then the same write is retried fault-free and must get the next consecutive version; non-trivial = the fault fired; distinct by (scenario, store, failed op kind and key class)")
	r.Exhaustive = true
	defer r.Write(t)
	for _, tx := range []bool{false, true} {
		e := c14Boot(t, tx, false)
		for _, sc := range c14FaultScens() {
			e.setCfg(sc.cfg)
			// count on a twin
			tw := c14FreshPaths(1)[0]
			for _, in := range sc.pre(tw) {
				if out, raw := e.exec(in); out.Class != "ok" {
					t.Fatalf("verif: fault scenario %s setup %s failed: %s", sc.name, in.String(), raw)
				}
			}
			e.v.Probe.StartLog(false)
			out, raw := e.execTag(sc.op(tw), "w")
			evs := e.v.Probe.StopLog()
			if out.Class != "ok" {
				r.Violate("C14-fault-free-write-failed", "", fmt.Sprintf("scenario %s: fault-free %s failed: %s", sc.name, sc.op(tw).String(), raw), nil)
				continue
			}
			n := 0
			for _, ev := range evs {
				if ev.Tag == "w" {
					n++
				}
			}
			r.Count("ops_in_write:"+sc.name, n)
			for i := 1; i <= n; i++ {
				caseID := fmt.Sprintf("fault:%v:%s:%d", tx, sc.name, i)
				if !kit.WantCase(caseID) {
					continue
				}
				c14FaultCase(e, r, sc, i, caseID)
			}
		}
		e.v.Close()
	}
	r.Require("faults_fired", 100)
	r.Require("failed_write_left_state_unchanged", 60)
	r.Require("fault_on_kv_write_op", 20)
	r.Require("retry_got_next_version", 60)
}

func c14FaultCase(e *c14Env, r *kit.Result, sc c14FaultScen, i int, caseID string) {
	p := c14FreshPaths(1)[0]
	st := c14Empty()
	for _, in := range sc.pre(p) {
		out, raw := e.exec(in)
		exp, next := c14Apply(sc.cfg, st, in)
		if !c14OutEq(exp, out) {
			r.Violate("C14-seq-mutator-outcome", caseID, fmt.Sprintf("fault scenario setup: %s answered %q (%s), model says %q", in.String(), out.String(), raw, exp.String()), nil)
			return
		}
		st = next
	}
	r.Eval(1)
	top := st.Cur + 2
	before := e.observe(p, top)
	var faulted kit.Event
	e.v.Probe.FailNth(func(ev kit.Event) bool {
		if ev.Tag != "w" {
			return false
		}
		faulted = ev
		return true
	}, i)
	in := sc.op(p)
	out, raw := e.execTag(in, "w")
	fired := e.v.Probe.ClearFaults()
	after := e.observe(p, top)
	what := fmt.Sprintf("%s %s", faulted.Op, c14KeyClass(e, faulted.Key))
	wit := map[string]any{"store": e.label, "scenario": sc.name, "config": sc.cfg, "failed_op_index": i, "failed_op": what, "request": in.String(), "response": out.String() + " " + raw, "before": before, "after": after}
	if fired == 0 {
		r.Count("fault_not_reached", 1)
	} else {
		r.Count("faults_fired", 1)
		r.Nontrivial(fmt.Sprintf("%s|%s|%s", sc.name, e.label, what))
		if strings.HasPrefix(faulted.Key, e.prefix) && (faulted.Op == "put" || faulted.Op == "delete") || faulted.Op == "commit" {
			r.Count("fault_on_kv_write_op", 1)
		}
	}
	exp, next := c14Apply(sc.cfg, st, in)
	same := len(before) == len(after)
	for k := 0; same && k < len(before); k++ {
		same = before[k] == after[k]
	}
	switch out.Class {
	case "ok":
		if fired > 0 {
			r.Count("fault_swallowed_write_succeeded", 1)
			r.Count("fault_swallowed_at:"+what, 1)
		}
		if !c14OutEq(exp, out) {
			r.Violate("C14-seq-write-outcome", caseID, fmt.Sprintf("write with storage op %d (%s) failing answered %q, model says %q", i, what, out.String(), exp.String()), wit)
			return
		}
		st = next
	default:
		if fired == 0 {
			r.Violate("C14-fault-free-write-failed", caseID, "write failed although no fault fired: "+raw, wit)
			return
		}
		if !same {
			r.Violate("C14-failed-write-changed-state", caseID, fmt.Sprintf("%s failed (%s) with storage op %d (%s) failing, but what the API returns for the path differs before/after", in.String(), c14Trunc(raw, 120), i, what), wit)
			return
		}
		r.Count("failed_write_left_state_unchanged", 1)
	}
	// the model state must be what the API shows now (also covers the success branch)
	if !c14ModelMatches(e, r, sc.cfg, st, p, caseID, "after the faulted write", wit) {
		return
	}
	// retry fault-free: next consecutive version
	if out.Class != "ok" {
		out2, raw2 := e.exec(in)
		exp2, next2 := c14Apply(sc.cfg, st, in)
		if !c14OutEq(exp2, out2) {
			wit["retry"] = out2.String() + " " + raw2
			r.Violate("C14-retry-after-failed-write", caseID, fmt.Sprintf("fault-free retry of %s after a failed attempt answered %q, model says %q", in.String(), out2.String(), exp2.String()), wit)
			return
		}
		st = next2
		r.Count("retry_got_next_version", 1)
		c14ModelMatches(e, r, sc.cfg, st, p, caseID, "after the retry", wit)
	}
	r.Sample(map[string]any{"case": caseID, "store": e.label, "failed_op": what, "response": out.Class, "state_unchanged": same})
}

// c14ModelMatches compares metadata and every version of a path with a model state.
func c14ModelMatches(e *c14Env, r *kit.Result, cfg c14Cfg, st *c14State, p, caseID, when string, wit any) bool {
	ins := []c14In{{Kind: "meta-read", Path: p}}
	for v := 0; v <= st.Cur+1; v++ {
		ins = append(ins, c14In{Kind: "read", Path: p, Version: v})
	}
	for _, in := range ins {
		out, raw := e.exec(in)
		exp, _ := c14Apply(cfg, st, in)
		if !c14OutEq(exp, out) {
			r.Violate("C14-state-differs-from-model", caseID, fmt.Sprintf("%s: %s answered %q (%s), model says %q", when, in.String(), out.String(), raw, exp.String()), wit)
			return false
		}
	}
	return true
}

func c14KeyClass(e *c14Env, k string) string {
	if k == "" {
		return "(txn)"
	}
	if strings.HasPrefix(k, e.prefix) {
		rest := strings.TrimPrefix(k, e.prefix)
		parts := strings.Split(rest, "/")
		for i, s := range parts {
			if len(s) > 20 || strings.Count(s, "-") >= 4 {
				parts[i] = "*"
			}
		}
		if len(parts) > 2 {
			parts = parts[:2]
		}
		return "kv:" + strings.Join(parts, "/")
	}
	parts := strings.Split(k, "/")
	for i, s := range parts {
		if len(s) > 20 || strings.Count(s, "-") >= 4 {
			parts[i] = "*"
		}
	}
	if len(parts) > 4 {
		parts = parts[:4]
	}
	return strings.Join(parts, "/")
}

// ------------------------------------------------------------------ concurrent histories

type c14Plan struct {
	cfg      c14Cfg
	paths    []string
	pre      []c14In
	nclients int
	perCl    int
	fixed    [][]c14In // explicit client programs (explorer scenarios); nil = generated
	metaDel  bool
	faultCl  int // client whose faultW-th write/patch gets a storage fault at kv op faultN (0 = none)
	faultW   int
	faultN   int
	pureCas  bool // scenario is a pure CAS race: exactly one writer must win
}

// c14Grace: while replaying a single case in a fresh (cold) process a request may need
// longer than the default 5ms to reach its first gate point; a longer grace keeps the
// scripted schedule from diverging. It only affects which schedule is seen.
func c14Grace() time.Duration {
	if kit.OnlyCase() != "" {
		return 150 * time.Millisecond
	}
	return 0
}

func (e *c14Env) gateFilter() func(kit.Event) bool {
	return func(ev kit.Event) bool {
		return strings.HasPrefix(ev.Key, e.prefix) || ev.Txn != 0
	}
}

// c14RunConcurrent runs the plan (gated when pol != nil, else free-running) and checks it.
func c14RunConcurrent(e *c14Env, r *kit.Result, caseID string, seed int64, stream uint64, pl c14Plan, pol kit.Policy) (kit.Schedule, bool) {
	e.setCfg(pl.cfg)
	h := &c14Hist{e: e, cfg: pl.cfg}
	pk := c14NewKnow()
	for _, in := range pl.pre {
		op := h.do(0, in)
		pk.learn(op)
		h.add(op)
	}
	tags := make([]string, pl.nclients)
	armed := make([]atomic.Bool, pl.nclients+1)
	faultArmedOp := -1
	var faultMu sync.Mutex
	results := make([][]c14Op, pl.nclients)
	clientFn := func(ci int) func() {
		return func() {
			rng := kit.NewRand(seed, stream*64+uint64(ci)+1)
			know := c14NewKnow()
			for p, v := range pk.cur {
				know.cur[p] = v
			}
			for p, v := range pk.mver {
				know.mver[p] = v
			}
			g := c14GenOpts{paths: pl.paths, cfg: pl.cfg, metaDelete: pl.metaDel, idPrefix: fmt.Sprintf("%s.c%d", caseID, ci+1)}
			n := pl.perCl
			if pl.fixed != nil {
				n = len(pl.fixed[ci])
			}
			wn := 0
			for i := 0; i < n; i++ {
				var in c14In
				if pl.fixed != nil {
					in = pl.fixed[ci][i]
				} else {
					in = c14Gen(rng, g, know, i)
				}
				isArmed := false
				if in.Kind == "write" || in.Kind == "patch" {
					wn++
					if pl.faultCl == ci+1 && wn == pl.faultW {
						isArmed = true
						armed[ci].Store(true)
					}
				}
				op := h.do(ci+1, in)
				if isArmed {
					armed[ci].Store(false)
					op.Armed = true
					faultMu.Lock()
					faultArmedOp = len(results[ci])
					faultMu.Unlock()
				}
				know.learn(op)
				results[ci] = append(results[ci], op)
			}
		}
	}
	for ci := range tags {
		tags[ci] = fmt.Sprintf("k%d", ci+1)
	}
	if pl.faultCl > 0 {
		ft := tags[pl.faultCl-1]
		fc := pl.faultCl - 1
		e.v.Probe.FailNth(func(ev kit.Event) bool {
			return ev.Tag == ft && armed[fc].Load() && (strings.HasPrefix(ev.Key, e.prefix) || ev.Txn != 0)
		}, pl.faultN)
	}
	var sched kit.Schedule
	if pol != nil {
		reqs := make([]kit.Req, pl.nclients)
		for ci := range reqs {
			reqs[ci] = kit.Req{Tag: tags[ci], Fn: clientFn(ci)}
		}
		sched = e.v.Probe.RunGated(reqs, pol, kit.GateOpts{Filter: e.gateFilter(), Hard: 90 * time.Second, Grace: c14Grace()})
	} else {
		var wg sync.WaitGroup
		start := make(chan struct{})
		for ci := 0; ci < pl.nclients; ci++ {
			wg.Add(1)
			go func(ci int) {
				defer wg.Done()
				e.v.Probe.Tag(tags[ci])
				defer e.v.Probe.Untag()
				<-start
				clientFn(ci)()
			}(ci)
		}
		close(start)
		wg.Wait()
	}
	fired := 0
	if pl.faultCl > 0 {
		fired = e.v.Probe.ClearFaults()
	}
	if sched.TimedOut {
		r.Inconc("%s: gate watchdog expired", caseID)
		return sched, false
	}
	r.Eval(1)
	for ci := range results {
		for i, op := range results[ci] {
			if op.Armed && fired > 0 && i == faultArmedOp && ci == pl.faultCl-1 && op.Out.Class == "error" {
				// outcome unknown: stays open to the end of the history
				op.Out = c14Out{Class: "unknown"}
			}
			h.add(op)
		}
	}
	if fired > 0 {
		r.Count("concurrent_faults_fired", 1)
	}
	h.readBack(pl.paths)
	for _, o := range h.ops {
		if o.In.Kind == "config" {
			h.add(h.do(0, c14In{Kind: "config-read"}))
			break
		}
	}
	extra := map[string]any{}
	if pol != nil {
		extra["schedule"] = c14Trunc(sched.String(), 4000)
	}
	good, st := h.check(r, caseID, pl.faultCl == 0, extra)
	r.Count("ops", len(h.ops))
	r.Count("overlapping_op_pairs_same_path", st.overlapPairs)
	r.Count("metadata_patch_overlapping_another_mutator", st.metaPatchPairs)
	r.Count("mount_config_writes_in_concurrent_histories", st.cfgWrites)
	r.Count("mutators_overlapping_a_mount_config_write", st.twoCfgOps)
	r.Count("cas_races_overlapped", st.casRaces)
	r.Count("cas_races_exactly_one_winner", st.casRaceOneWins)
	r.Count("writes_ok", st.writesOK)
	r.Count("writes_refused", st.refused)
	r.Count("ops_with_unknown_outcome", st.unknown)
	r.Count("internal_errors", st.internalErrs)
	r.Count("gate_requests_judged_blocked_on_a_lock", sched.Blocked)
	if pl.pureCas {
		wins, total := 0, 0
		for ci := range results {
			for _, op := range results[ci] {
				if op.In.Kind == "write" || op.In.Kind == "patch" {
					total++
					if op.Out.Class == "ok" {
						wins++
					}
				}
			}
		}
		r.Count("pure_cas_races", 1)
		if wins != 1 {
			var lines []string
			for _, o := range h.ops {
				lines = append(lines, o.String())
			}
			r.Violate("C14-cas-race-not-exactly-one", caseID, fmt.Sprintf("%d concurrent writers presented the same cas; %d succeeded", total, wins), map[string]any{"store": e.label, "ops": lines, "schedule": c14Trunc(sched.String(), 4000)})
			good = false
		} else {
			r.Count("pure_cas_races_exactly_one", 1)
		}
	}
	if st.overlapPairs > 0 && st.writesOK > 0 {
		r.Count("histories_with_overlap", 1)
		var sb strings.Builder
		for _, o := range h.ops {
			sb.WriteString(o.In.Kind + ">" + o.Out.Class + strconv.Itoa(o.Out.Version) + ";")
		}
		if pol != nil {
			sb.WriteString(sched.Hash())
		}
		r.Nontrivial(sb.String())
	}
	if good {
		var lines []string
		for i, o := range h.ops {
			if i >= 14 {
				break
			}
			lines = append(lines, o.String())
		}
		r.Sample(map[string]any{"case": caseID, "store": e.label, "config": pl.cfg, "first_ops": lines})
	}
	return sched, r.NViolations() < 25
}

// c14GenPlan draws a random concurrent workload.
func c14GenPlan(rng *kit.Rand, withFault bool) c14Plan {
	pl := c14Plan{cfg: c14RandCfg(rng)}
	pl.paths = c14FreshPaths(2 + rng.Intn(2))
	pl.nclients = 3 + rng.Intn(4)
	total := 20 + rng.Intn(21)
	pl.perCl = (total + pl.nclients - 1) / pl.nclients
	pl.metaDel = rng.Chance(1, 5)
	for _, p := range pl.paths {
		if rng.Chance(1, 3) {
			if pl.cfg.MaxV > 0 {
				pl.pre = append(pl.pre, c14MetaPut(p, pl.cfg.MaxV, rng.Intn(2), ""))
			} else {
				pl.pre = append(pl.pre, c14MetaPut(p, kit.Pick(rng, []int{0, 2, 3}), -1, "pre"))
			}
		}
		k := rng.Intn(4)
		for i := 0; i < k; i++ {
			pl.pre = append(pl.pre, c14W(p, i, fmt.Sprintf("pre%d", i+1)))
		}
	}
	if withFault {
		pl.faultCl = 1 + rng.Intn(pl.nclients)
		pl.faultW = 1 + rng.Intn(2)
		pl.faultN = 1 + rng.Intn(5)
	}
	return pl
}

type c14Scen struct {
	name    string
	cfg     c14Cfg
	pre     func(p string) []c14In
	clients func(p string) [][]c14In
	pureCas bool
}

func c14Scens() []c14Scen {
	two := func(p string) []c14In { return []c14In{c14W(p, 0, "a1"), c14W(p, 1, "a2")} }
	three := func(p string) []c14In { return append(two(p), c14W(p, 2, "a3")) }
	rd := func(p string, v int) c14In {
		return c14In{Kind: "read", Path: p, Version: v, Cas: -1, MaxV: -1, CasReq: -1, MCas: -1}
	}
	return []c14Scen{
		{"cas-race-2", c14Cfg{}, two, func(p string) [][]c14In {
			return [][]c14In{{c14W(p, 2, "x")}, {c14W(p, 2, "y")}}
		}, true},
		{"cas-race-3-casreq", c14Cfg{CasReq: true}, two, func(p string) [][]c14In {
			return [][]c14In{{c14W(p, 2, "x")}, {c14W(p, 2, "y")}, {c14Patch(p, 2, "z")}}
		}, true},
		{"cas0-race-new-key", c14Cfg{}, func(p string) []c14In { return nil }, func(p string) [][]c14In {
			return [][]c14In{{c14W(p, 0, "x")}, {c14W(p, 0, "y")}}
		}, true},
		{"write-write-read", c14Cfg{}, two, func(p string) [][]c14In {
			return [][]c14In{{c14W(p, -1, "x")}, {c14W(p, -1, "y")}, {rd(p, 0), rd(p, 3)}}
		}, false},
		{"write-delete-read", c14Cfg{}, two, func(p string) [][]c14In {
			return [][]c14In{{c14W(p, -1, "x")}, {c14Op1("delete-latest", p)}, {rd(p, 0)}}
		}, false},
		{"patch-write-cas", c14Cfg{}, two, func(p string) [][]c14In {
			return [][]c14In{{c14Patch(p, 2, "x")}, {c14W(p, 2, "y"), rd(p, 0)}}
		}, false},
		{"patch-patch-read", c14Cfg{}, two, func(p string) [][]c14In {
			return [][]c14In{{c14Patch(p, 2, "x")}, {c14Patch(p, -1, "y")}, {rd(p, 0), rd(p, 3)}}
		}, false},
		{"prune-read", c14Cfg{MaxV: 2}, two, func(p string) [][]c14In {
			return [][]c14In{{c14W(p, -1, "x")}, {rd(p, 1), rd(p, 3)}, {c14W(p, -1, "y")}}
		}, false},
		{"destroy-patch-read", c14Cfg{}, two, func(p string) [][]c14In {
			return [][]c14In{{c14Op1("destroy", p, 2)}, {c14Patch(p, -1, "x")}, {rd(p, 2)}}
		}, false},
		{"metaput-write-metaread", c14Cfg{}, two, func(p string) [][]c14In {
			return [][]c14In{{c14MetaPut(p, 2, 1, "m")}, {c14W(p, -1, "x")}, {c14Op1("meta-read", p), c14W(p, 3, "y")}}
		}, false},
		{"undelete-delete-write", c14Cfg{}, func(p string) []c14In { return append(two(p), c14Op1("delete", p, 2)) }, func(p string) [][]c14In {
			return [][]c14In{{c14Op1("undelete", p, 2)}, {c14Op1("delete", p, 1, 2)}, {c14W(p, 2, "x"), rd(p, 2)}}
		}, false},
		{"metadelete-write-read", c14Cfg{}, two, func(p string) [][]c14In {
			return [][]c14In{{c14Op1("meta-delete", p)}, {c14W(p, 2, "x")}, {rd(p, 0), rd(p, 1)}}
		}, false},
		// metadata PATCH (read-modify-write of the key metadata) against every mutator
		{"metapatch-write-metaread", c14Cfg{}, two, func(p string) [][]c14In {
			return [][]c14In{{c14MetaPatch(p, 3, -1, "m", -1)}, {c14W(p, -1, "x")}, {c14Op1("meta-read", p), c14W(p, 3, "y")}}
		}, false},
		{"metapatch-writecas-read", c14Cfg{}, two, func(p string) [][]c14In {
			return [][]c14In{{c14MetaPatch(p, -1, -1, "m", 0)}, {c14W(p, 2, "x"), rd(p, 0)}}
		}, false},
		{"metapatch-delete-destroy", c14Cfg{}, two, func(p string) [][]c14In {
			return [][]c14In{{c14MetaPatch(p, -1, 1, "", -1)}, {c14Op1("delete-latest", p)}, {c14Op1("destroy", p, 1), rd(p, 1)}}
		}, false},
		{"metapatch-metaput-metaread", c14Cfg{}, two, func(p string) [][]c14In {
			return [][]c14In{{c14MetaPatch(p, 3, -1, "a", -1)}, {c14MetaPut(p, -1, 1, "")}, {c14Op1("meta-read", p)}}
		}, false},
		{"metapatch-patch-read", c14Cfg{}, two, func(p string) [][]c14In {
			return [][]c14In{{c14MetaPatch(p, 0, -1, "m", -1)}, {c14Patch(p, -1, "x")}, {rd(p, 0), rd(p, 3)}}
		}, false},
		{"metapatch-undelete-write", c14Cfg{}, func(p string) []c14In { return append(two(p), c14Op1("delete", p, 2)) }, func(p string) [][]c14In {
			return [][]c14In{{c14MetaPatch(p, -1, -1, "m", -1)}, {c14Op1("undelete", p, 2)}, {c14W(p, -1, "x")}}
		}, false},
		// a write of the MOUNT configuration against data writes: each write follows the
		// configuration before or after it as a whole (cas requirement and pruning)
		{"config-casreq-write-read", c14Cfg{}, three, func(p string) [][]c14In {
			return [][]c14In{{c14Config(-1, 1)}, {c14W(p, -1, "x"), rd(p, 0)}, {c14W(p, 3, "y")}}
		}, false},
		{"config-max1-writecas-read", c14Cfg{}, three, func(p string) [][]c14In {
			return [][]c14In{{c14Config(1, -1), c14In{Kind: "config-read"}}, {c14W(p, 3, "x")}, {rd(p, 1), rd(p, 2)}}
		}, false},
		{"config-max2-patch-write", c14Cfg{}, three, func(p string) [][]c14In {
			return [][]c14In{{c14Config(2, -1)}, {c14Patch(p, -1, "x")}, {c14W(p, -1, "y")}}
		}, false},
		{"config-both-write-writecas", c14Cfg{}, three, func(p string) [][]c14In {
			return [][]c14In{{c14Config(1, 1)}, {c14W(p, -1, "x")}, {c14W(p, 3, "y"), rd(p, 3)}}
		}, false},
		{"config-relax-write-patch", c14Cfg{CasReq: true, MaxV: 2}, three, func(p string) [][]c14In {
			return [][]c14In{{c14Config(0, 0), c14W(p, -1, "z")}, {c14W(p, -1, "x")}, {c14Patch(p, 3, "y")}}
		}, false},
	}
}

func TestVerif_C14_Gated(t *testing.T) {
	seed := kit.Seed(14)
	shard := c14ShardOf()
	_, nshards := kit.Shard()
	r := kit.NewResult(t, "c14-gated", seed, "concurrent clients under the storage-operation gate (gate points: every storage operation under the kv mount's physical prefix and every transaction begin/operation/commit of the tagged clients), transactional and non-transactional store: (a) twenty-three fixed 2-3 client scenarios on one path (CAS races incl. cas=0 on a new key and under cas_required, write/write/read, write/delete, patch/write, patch/patch, pruning/read, destroy/patch, metadata put/write, undelete/delete/write, metadata delete/write, a metadata PATCH against write, cas write, delete+destroy, metadata put, patch, undelete+write, and a write of the MOUNT configuration (cas_required / max_versions, tightening and relaxing) against write, cas write and patch, where every operation that ran while the configuration was being written is judged as a whole by the configuration before or after it) enumerated depth-first with <=2 preemptions (run cap) and run under uniformly random schedules, (b) generated workloads of 3-6 clients, 20-40 operations over 2-3 paths under seeded PCT schedules (depth 3 and 12) and uniformly random schedules, a quarter of them with one storage fault inside a write; each history (+ sequential preamble and final read-back of metadata and every version) is checked by porcupine per path against the versioned-register model, plus direct counters (no duplicate version, no gap, one winner per cas value, final current_version not below an acknowledged version); non-trivial = operations of different clients on the same path overlapped in time and a write succeeded; distinct by (operation/response sequence, storage-op order hash)")
	defer r.Write(t)
	for _, tx := range []bool{false, true} {
		e := c14Boot(t, tx, false)
		// (a) bounded-preemption enumeration
		scens := c14Scens()
		if oc := kit.OnlyCase(); strings.HasPrefix(oc, "ex:") {
			// ex:<tx>:<scenario>:<choices joined by .>
			f := strings.SplitN(oc, ":", 4)
			if len(f) == 4 && f[1] == fmt.Sprint(tx) {
				si, _ := strconv.Atoi(f[2])
				var script []string
				if f[3] != "" {
					script = strings.Split(f[3], ".")
				}
				c14RunScen(e, r, seed, scens[si], si, kit.Script{Choices: script})
			}
		} else if kit.OnlyCase() == "" {
			for si, sc := range scens {
				if si%nshards != shard {
					continue
				}
				ex := &kit.Explorer{MaxPreempt: 2, MaxRuns: c14N(20, 150)}
				stop := false
				ex.Explore(func(pol kit.Policy) (kit.Schedule, bool) {
					s, cont := c14RunScen(e, r, seed, sc, si, pol)
					if !cont {
						stop = true
					}
					return s, cont
				})
				r.Count("explorer_runs", ex.Runs)
				r.Count("explorer_distinct_orders", len(ex.Hashes))
				if stop {
					return
				}
			}
		}
		// (a') the same scenarios under uniformly random schedules (the depth-first
		// enumeration spends its run cap on late preemption points)
		for si, sc := range scens {
			for k := 0; k < c14N(12, 40); k++ {
				caseID := fmt.Sprintf("rnd:%v:%d:s%d:%d", tx, si, shard, k)
				if !kit.WantCase(caseID) {
					continue
				}
				prng := kit.NewRand(seed, uint64(shard*100000+si*1000+k)*2+b2u14(tx)+5_000_000)
				if _, cont := c14RunScenID(e, r, seed, sc, si, kit.RandomPolicy{Rng: prng}, caseID); !cont {
					return
				}
				r.Count("random_schedule_runs", 1)
			}
		}
		// (b) PCT
		for c := 0; c < c14N(50, 200); c++ {
			caseID := fmt.Sprintf("pct:%v:s%d:%d", tx, shard, c)
			if !kit.WantCase(caseID) {
				continue
			}
			stream := uint64(shard*100000+c)*2 + b2u14(tx) + 2_000_000
			rng := kit.NewRand(seed, stream)
			pl := c14GenPlan(rng, c%4 == 3)
			tags := make([]string, pl.nclients)
			for i := range tags {
				tags[i] = fmt.Sprintf("k%d", i+1)
			}
			var pol kit.Policy
			switch c % 3 {
			case 0:
				pol = kit.NewPCT(rng, tags, 3, pl.nclients*pl.perCl*7)
			case 1:
				pol = kit.NewPCT(rng, tags, 12, pl.nclients*pl.perCl*7)
			default:
				pol = kit.RandomPolicy{Rng: rng}
			}
			if _, cont := c14RunConcurrent(e, r, caseID, seed, stream, pl, pol); !cont {
				return
			}
		}
		e.v.Close()
	}
	r.Require("histories_with_overlap", 250)
	r.Require("overlapping_op_pairs_same_path", 2000)
	r.Require("cas_races_overlapped", 120)
	r.Require("pure_cas_races_exactly_one", 50)
	r.Require("writes_ok", 1000)
	r.Require("writes_refused", 300)
	r.Require("porcupine_partitions_checked", 300)
	r.Require("concurrent_faults_fired", 5)
	r.Require("gate_requests_judged_blocked_on_a_lock", 50)
	r.Require("metadata_patch_overlapping_another_mutator", 150)
	r.Require("mutators_overlapping_a_mount_config_write", 150)
}

func c14RunScen(e *c14Env, r *kit.Result, seed int64, sc c14Scen, si int, pol kit.Policy) (kit.Schedule, bool) {
	script := ""
	if s, ok := pol.(kit.Script); ok {
		script = strings.Join(s.Choices, ".")
	}
	return c14RunScenID(e, r, seed, sc, si, pol, fmt.Sprintf("ex:%v:%d:%s", e.tx, si, script))
}

func c14RunScenID(e *c14Env, r *kit.Result, seed int64, sc c14Scen, si int, pol kit.Policy, caseID string) (kit.Schedule, bool) {
	p := c14FreshPaths(1)[0]
	cl := sc.clients(p)
	pl := c14Plan{cfg: sc.cfg, paths: []string{p}, pre: sc.pre(p), nclients: len(cl), fixed: cl, pureCas: sc.pureCas, metaDel: true}
	return c14RunConcurrent(e, r, caseID, seed, uint64(si)+3_000_000, pl, pol)
}

func TestVerif_C14_Free(t *testing.T) {
	seed := kit.Seed(14)
	shard := c14ShardOf()
	r := kit.NewResult(t, "c14-free", seed, "free-running concurrent clients (3-6 goroutines, 20-40 operations over 2-3 paths, generated as in the gated monitor) on the non-transactional store, the transactional store and the non-transactional store with the physical cache on; a third of the histories carry one storage fault inside a write (its outcome is 'unknown' and stays open to the end of the history); plus pure CAS races of 4-6 writers presenting the same version; checked by porcupine per path and by the direct counters; non-trivial = operations of different clients on the same path overlapped in time and a write succeeded")
	defer r.Write(t)
	type flav struct{ tx, cache bool }
	for fi, fl := range []flav{{false, false}, {true, false}, {false, true}} {
		e := c14Boot(t, fl.tx, fl.cache)
		for c := 0; c < c14N(90, 400); c++ {
			caseID := fmt.Sprintf("free:%d:s%d:%d", fi, shard, c)
			if !kit.WantCase(caseID) {
				continue
			}
			stream := uint64(shard*100000+c)*4 + uint64(fi) + 4_000_000
			rng := kit.NewRand(seed, stream)
			var pl c14Plan
			if c%6 == 5 {
				// pure CAS race
				p := c14FreshPaths(1)[0]
				k := rng.Intn(3)
				pl = c14Plan{cfg: c14Cfg{CasReq: rng.Chance(1, 2)}, paths: []string{p}, nclients: 4 + rng.Intn(3), pureCas: true}
				for i := 0; i < k; i++ {
					pl.pre = append(pl.pre, c14W(p, i, fmt.Sprintf("pre%d", i+1)))
				}
				for ci := 0; ci < pl.nclients; ci++ {
					pl.fixed = append(pl.fixed, []c14In{c14W(p, k, fmt.Sprintf("%s.c%d", caseID, ci+1))})
				}
			} else {
				pl = c14GenPlan(rng, c%3 == 2)
			}
			if _, cont := c14RunConcurrent(e, r, caseID, seed, stream, pl, nil); !cont {
				return
			}
		}
		e.v.Close()
	}
	r.Require("histories_with_overlap", 100)
	r.Require("overlapping_op_pairs_same_path", 2000)
	r.Require("cas_races_overlapped", 100)
	r.Require("pure_cas_races_exactly_one", 30)
	r.Require("writes_ok", 800)
	r.Require("porcupine_partitions_checked", 250)
	r.Require("concurrent_faults_fired", 5)
	r.Require("metadata_patch_overlapping_another_mutator", 300)
}
